#!/usr/bin/env python3
"""Regenerates MANIFEST.json from manifest_src.py (claims) — keeps it schema-valid."""
import json, sys
sys.path.insert(0, "/verif")
from manifest_src import CLAIMS, NOT_APPLICABLE, HOOK_COMMITS
props = [json.loads(l) for l in open("/verif/properties.jsonl")]
ids = [p["id"] for p in props]
checks = []
for pid in ids:
    if pid not in CLAIMS:
        continue
    c = CLAIMS[pid]
    checks.append({
        "property_id": pid,
        "quick_cmd": "./check %s --tier quick" % pid,
        "thorough_cmd": "./check %s --tier thorough" % pid,
        "evidence_file": "/verif/evidence/%s.json" % pid,
        "replay_cmd_template": "./check %s --replay {path}" % pid,
        "engine": "lean-model+harness",
        "level_claimed": {"category": "proof", "text": c["text"], "design_ref": c.get("design_ref", "DESIGN.md section 6, " + pid)},
        "level_note": c["note"],
        "technique": c.get("technique", "Lean 4 theorems on a hand-written executable model + differential correspondence check against the real code + spec-level oracle on the implementation's output"),
    })
na = [{"property_id": pid, "reason": NOT_APPLICABLE.get(pid, "not yet built in this round (planned: see DESIGN.md section 6)")} for pid in ids if pid not in CLAIMS]
m = {
 "version": 1,
 "setup_cmd": "cd /verif && ./setup.sh",
 "hooks": {
  "guard": "cargo feature `verif` (cfg(feature = \"verif\"), test builds only)",
  "enable": "/verif/build_impl.sh  (cd /repo && VET_VERIF_HARNESS=/verif/harness/mod.rs VET_VERIF_DIR=/verif/harness CARGO_TARGET_DIR=/verif/.build/target cargo test --offline --features verif --no-run --bin cargo-vet)",
  "baseline_off_cmd": "cd /repo && cargo test --workspace --no-fail-fast --offline",
  "source_commits": HOOK_COMMITS,
  "add_only": True,
 },
 "engines": [
  {"name": "lean-model", "path": "/verif/lean", "serves_properties": sorted(CLAIMS), "kind_free_text": "Lean 4 executable model, specifications and theorems (lake); compiled line-protocol driver `vetdriver`"},
  {"name": "harness", "path": "/verif/harness", "serves_properties": sorted(CLAIMS), "kind_free_text": "Rust correspondence + oracle harness, include!d into cargo-vet's unit-test binary under the cargo feature `verif`"},
 ],
 "checks": checks,
 "notes": "See DESIGN.md. `./check Cxx --tier quick|thorough` decides one property: (1) proof obligations: lake build of the property theorems + #print axioms audit (+ leanchecker in thorough); (2) rebuild of /repo's working tree with the harness; (3) correspondence of model and implementation + specification-level oracle on the implementation's output. known_findings.json lists recorded genuine defects.",
 "not_applicable": na,
}
json.dump(m, open("/verif/MANIFEST.json", "w"), indent=1)
try:
    import jsonschema
    jsonschema.validate(m, json.load(open("/root/.vp/MANIFEST.schema.json")))
    print("MANIFEST.json valid;", len(checks), "claimed,", len(na), "not claimed")
except ImportError:
    print("written (jsonschema not importable here)")
