/-
C03 (part 2) — `DepGraph::new` yields a valid children-first order of exactly the packages
of the maximal build graph, and classifies roots and third-party packages as documented.
Property theorems only; helpers in Vet/Lemmas/Topo*.lean.
-/
import Vet.Lemmas.Topo
namespace Vet

/-- The DFS never runs out of fuel. -/
theorem C03_depgraph_total (md : Meta) (pol : Policy) (hwf : md.WF) :
    DepGraph.new md pol ≠ .error .outOfFuel := sorry

/-- On metadata whose normal/build edges are acyclic, the two-pass DFS lists every package it
reaches once, dependencies before dependents, including every dev-dependency of a workspace
member. -/
theorem C03_topo_valid (md : Meta) (pol : Policy) (g : DepGraph)
    (hwf : md.WF) (hacyc : md.AcyclicNB) (h : DepGraph.new md pol = .ok g) : ValidTopo g := sorry

/-- One node per package, carrying its name/version, and third-party exactly when its source
is crates.io or its policy says `audit-as-crates-io = true`. -/
theorem C03_third_party (md : Meta) (pol : Policy) (g : DepGraph)
    (h : DepGraph.new md pol = .ok g) (i : Nat) (hi : i < g.nodes.length) :
    g.nodes.length = md.pkgs.length ∧
    ∃ p ∈ md.pkgs, (g.node i).name = p.name ∧ (g.node i).ver = p.ver ∧
      (g.node i).thirdParty = (p.cratesIo || ((pol.get p.name p.ver).bind (·.auditAs)) == some true) := sorry

/-- A package is a root exactly when it is a workspace member that no package of the normal
build graph (what is reachable from the workspace over normal/build edges — the packages that
are not dev-only) depends on through a normal or build edge. -/
theorem C03_root_iff (md : Meta) (pol : Policy) (g : DepGraph)
    (hwf : md.WF) (h : DepGraph.new md pol = .ok g) (i : Nat) (hi : i < g.nodes.length) :
    (g.node i).isRoot = true ↔
      ((g.node i).isMember = true ∧
       ∀ q, q < g.nodes.length → (g.node q).isDevOnly = false → i ∉ (g.node q).normalBuildDeps) := sorry

end Vet
