/- Helper lemmas for `resolve` / `resolve_audits`. -/
import Vet.Props.Search
import Vet.Props.Build
import Vet.Model.Resolve
namespace Vet
end Vet
