/-
C07 — imports are confined by local configuration: criteria map, exclude, importable.
Property theorems only; helper lemmas live in Vet/Lemmas/Imports*.lean.
-/
import Vet.Lemmas.Imports
namespace Vet

/-- Per-entry tolerance: the sanitised list is the concatenation of per-entry results, so an
unparseable (or unknown-criteria-only) entry changes nothing about how the others are read. -/
theorem C07_skip_local_append (n : Nat) (l₁ l₂ : List (Bool × Audit)) :
    sanitizeAudits n (l₁ ++ l₂) = sanitizeAudits n l₁ ++ sanitizeAudits n l₂ := sorry

theorem C07_skip_local_unparseable (n : Nat) (l₁ l₂ : List (Bool × Audit)) (x : Audit) :
    sanitizeAudits n (l₁ ++ (false, x) :: l₂) = sanitizeAudits n (l₁ ++ l₂) := sorry

theorem C07_skip_local_unknown_criteria (n : Nat) (l₁ l₂ : List (Bool × Audit)) (x : Audit) (b : Bool)
    (hx : ∀ c ∈ x.criteria, n ≤ c) :
    sanitizeAudits n (l₁ ++ (b, x) :: l₂) = sanitizeAudits n (l₁ ++ l₂) := sorry

theorem C07_skip_local_wildcards (n : Nat) (l₁ l₂ : List (Bool × Wildcard)) (x : Wildcard) :
    sanitizeWildcards n (l₁ ++ (false, x) :: l₂) = sanitizeWildcards n (l₁ ++ l₂) := sorry

/-- Every imported audit comes from a parseable, importable raw entry of the same crate and
kind that is not excluded; and the local criteria it is given denote exactly the justified set:
it contributes to local criterion `c` iff some foreign criterion in the peer-closure of its
(known) criteria is mapped to a set containing `c`.  In particular unmapped peer criteria
contribute nothing and a built-in overridden with `[]` contributes nothing. -/
theorem C07_map (lm : Mapper) (lt : Table) (hlm : Mapper.new lt = .ok lm)
    (exclude : List Nat) (p : PeerFile) (f : AFile)
    (hnd : (p.audits.map (·.1)).Nodup)
    (h : importSource lm exclude p = .ok f) (name : Nat) (a' : Audit) (ha : a' ∈ getL name f.audits) :
    ∃ fm raw, Mapper.new (sanitizeTable p.table) = .ok fm ∧
      (true, raw) ∈ getL name p.audits ∧ raw.importable = true ∧ name ∉ exclude ∧
      a'.kind = raw.kind ∧ a'.fresh = true ∧
      ∃ s, lm.fromList a'.criteria = .ok s ∧
        ∀ c, s.testBit c = true ↔
          Justified lm fm p.cmap (raw.criteria.filter (fun i => decide (i < fm.n))) c := sorry

/-- the same for wildcard audits -/
theorem C07_map_wildcard (lm : Mapper) (lt : Table) (hlm : Mapper.new lt = .ok lm)
    (exclude : List Nat) (p : PeerFile) (f : AFile)
    (hnd : (p.wildcards.map (·.1)).Nodup)
    (h : importSource lm exclude p = .ok f) (name : Nat) (w' : Wildcard) (hw : w' ∈ getL name f.wildcards) :
    ∃ fm raw, Mapper.new (sanitizeTable p.table) = .ok fm ∧
      (true, raw) ∈ getL name p.wildcards ∧ name ∉ exclude ∧
      w'.user = raw.user ∧ w'.start = raw.start ∧ w'.stop = raw.stop ∧
      ∃ s, lm.fromList w'.criteria = .ok s ∧
        ∀ c, s.testBit c = true ↔
          Justified lm fm p.cmap (raw.criteria.filter (fun i => decide (i < fm.n))) c := sorry

/-- crates listed in `exclude` contribute no audit, violation or wildcard audit -/
theorem C07_exclude (lm : Mapper) (exclude : List Nat) (p : PeerFile) (f : AFile)
    (h : importSource lm exclude p = .ok f) (name : Nat) (hn : name ∈ exclude) :
    getL name f.audits = [] ∧ getL name f.wildcards = [] ∧
    (∀ e ∈ f.audits, e.1 ≠ name) ∧ (∀ e ∈ f.wildcards, e.1 ≠ name) := sorry

/-- a multi-URL import behaves like the union of its sources: per crate, the entries of the
result are exactly the entries of the individually imported sources, in source order -/
theorem C07_multi_url (lm : Mapper) (cfg : ImportCfg) (p₁ p₂ : PeerFile) (f f₁ f₂ : AFile)
    (hs : cfg.sources = [p₁, p₂])
    (h : importOne lm cfg = .ok (.ok f))
    (h₁ : importSource lm cfg.exclude p₁ = .ok f₁) (h₂ : importSource lm cfg.exclude p₂ = .ok f₂)
    (hk₁ : (f₁.audits.map (·.1)).Pairwise (· < ·)) (hk₂ : (f₂.audits.map (·.1)).Pairwise (· < ·))
    (name : Nat) :
    getL name f.audits = getL name f₁.audits ++ getL name f₂.audits := sorry

/-- freshness marking only clears flags: the live view keeps every entry, in order, with the
same content -/
theorem C07_freshness_only_flags (live lock : AFile) :
    (updateFreshness live lock).audits.map (fun e => (e.1, e.2.map (fun a => { a with fresh := false })))
      = live.audits.map (fun e => (e.1, e.2.map (fun a => { a with fresh := false }))) := sorry

end Vet
