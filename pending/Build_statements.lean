/-
Facts about `AuditGraph::build` on which C01, C02, C04 and C06 rest.
Property theorems only; helper lemmas live in Vet/Lemmas/Build*.lean.
-/
import Vet.Lemmas.Build
namespace Vet

/-- Soundness of the desugaring: every edge of the built graph that carries criterion `c`
is justified by a record of the stated kind — nothing else can create an edge. -/
theorem build_sound (s : Store) (m : Mapper) (name : Nat) (g : Graph)
    (h : build s m name = .ok (.graph g)) (t : Triple) (ht : t ∈ g.edges) (c : Nat)
    (hc : t.crit.testBit c = true) : CertEdge s m name c t.src t.origin t.dst := sorry

/-- Completeness of the desugaring: every certifying record appears as an edge carrying
the criterion. -/
theorem build_complete (s : Store) (m : Mapper) (name : Nat) (g : Graph)
    (h : build s m name = .ok (.graph g)) (c : Nat) (a b : Option Nat) (o : Origin)
    (he : CertEdge s m name c a o b) :
    ∃ t ∈ g.edges, t.src = a ∧ t.origin = o ∧ t.dst = b ∧ t.crit.testBit c = true := sorry

/-- the backward adjacency is the forward one reversed -/
theorem build_mirror (g : Graph) (a b : Option Nat) (crit : CSet) (o : Origin) (f : Nat) :
    (⟨b, crit, o, f⟩ : Edge) ∈ g.forward a ↔ (⟨a, crit, o, f⟩ : Edge) ∈ g.backward b := sorry

/-- C04, second sentence, exemptions: an exemption for a version matched by a violation,
claiming (the closure of) one listed violation criterion, makes `build` report a conflict —
whether or not the exemption would be used. -/
theorem C04_exemption_conflict (s : Store) (m : Mapper) (name : Nat)
    (vsrc : Option Nat) (vidx : Nat) (viol : Audit) (matched : List Nat) (vc : Nat)
    (x : Exemption) (cs vs : CSet)
    (hv : (vsrc, vidx, viol) ∈ allAudits s name) (hk : viol.kind = .violation matched)
    (hvc : vc ∈ viol.criteria) (hx : x ∈ getL name s.exemptions)
    (hm : matched.contains x.version = true)
    (hcs : m.fromList x.criteria = .ok cs) (hvs : m.fromList [vc] = .ok vs)
    (hsub : CSet.containsSet cs vs = true)
    (r : BuildResult) (hb : build s m name = .ok r) : ∃ cfs, r = .conflicts cfs ∧ cfs ≠ [] := sorry

/-- C04, second sentence, audits (own or imported, full or delta): same for an audit
touching a matched version. -/
theorem C04_audit_conflict (s : Store) (m : Mapper) (name : Nat)
    (vsrc : Option Nat) (vidx : Nat) (viol : Audit) (matched : List Nat) (vc : Nat)
    (asrc : Option Nat) (aidx : Nat) (a : Audit) (cs vs : CSet)
    (hv : (vsrc, vidx, viol) ∈ allAudits s name) (hk : viol.kind = .violation matched)
    (hvc : vc ∈ viol.criteria) (ha : (asrc, aidx, a) ∈ allAudits s name)
    (hm : touches matched a.kind = true)
    (hcs : m.fromList a.criteria = .ok cs) (hvs : m.fromList [vc] = .ok vs)
    (hsub : CSet.containsSet cs vs = true)
    (r : BuildResult) (hb : build s m name = .ok r) : ∃ cfs, r = .conflicts cfs ∧ cfs ≠ [] := sorry

/-- C04, first sentence, restricted to audit and exemption edges (the part that holds on the
current tree): in a graph that was built without conflict, no full/delta audit or exemption
edge touching a version matched by a violation claims the closure of a listed violation
criterion. -/
theorem C04_no_claiming_edge_partial (s : Store) (m : Mapper) (name : Nat) (g : Graph)
    (h : build s m name = .ok (.graph g))
    (vsrc : Option Nat) (vidx : Nat) (viol : Audit) (matched : List Nat) (vc : Nat) (vs : CSet)
    (hv : (vsrc, vidx, viol) ∈ allAudits s name) (hk : viol.kind = .violation matched)
    (hvc : vc ∈ viol.criteria) (hvs : m.fromList [vc] = .ok vs)
    (t : Triple) (ht : t ∈ g.edges) (ho : t.origin.isAuditOrExemption = true)
    (v : Nat) (hvm : matched.contains v = true) (hend : t.dst = some v ∨ t.src = some v) :
    CSet.containsSet t.crit vs = false := sorry

/-- C06: a wildcard-audit edge exists exactly when the publisher record `pi` of this crate
matches entry `(imp, idx)` in user id and date window; it leads from "nothing" to exactly the
published version and carries exactly the entry's criteria. -/
theorem C06_wildcard_edge_iff (s : Store) (m : Mapper) (name : Nat) (g : Graph)
    (h : build s m name = .ok (.graph g)) (imp : Option Nat) (idx pi : Nat)
    (a d : Option Nat) (cs : CSet) :
    (∃ t ∈ g.edges, t.origin = .wildcard imp idx pi ∧ t.src = a ∧ t.dst = d ∧ t.crit = cs) ↔
    (∃ w p, (imp, idx, w) ∈ allWildcards s name ∧ (p, pi) ∈ (getL name s.publishers).zipIdx ∧
      w.user = p.user ∧ w.start ≤ p.day ∧ p.day < w.stop ∧
      a = none ∧ d = some p.version ∧ m.fromList w.criteria = .ok cs) := sorry

/-- C06: a trusted-publisher edge exists exactly when some entry of the *local* trusted table
matches publisher record `pi` of this crate. -/
theorem C06_trusted_edge_iff (s : Store) (m : Mapper) (name : Nat) (g : Graph)
    (h : build s m name = .ok (.graph g)) (pi : Nat) (a d : Option Nat) (cs : CSet) :
    (∃ t ∈ g.edges, t.origin = .trusted pi ∧ t.src = a ∧ t.dst = d ∧ t.crit = cs) ↔
    (∃ e p, e ∈ getL name s.trusted ∧ (p, pi) ∈ (getL name s.publishers).zipIdx ∧
      e.user = p.user ∧ e.start ≤ p.day ∧ p.day < e.stop ∧
      a = none ∧ d = some p.version ∧ m.fromList e.criteria = .ok cs) := sorry

/-- C06: records of other crates are never consulted: `build` for `name` only depends on the
per-name slices of the store. -/
theorem C06_other_crates_irrelevant (s s' : Store) (m : Mapper) (name : Nat)
    (h1 : allAudits s name = allAudits s' name) (h2 : allWildcards s name = allWildcards s' name)
    (h3 : getL name s.trusted = getL name s'.trusted)
    (h4 : getL name s.publishers = getL name s'.publishers)
    (h5 : getL name s.unpublished = getL name s'.unpublished)
    (h6 : getL name s.exemptions = getL name s'.exemptions) :
    build s m name = build s' m name := sorry

end Vet
