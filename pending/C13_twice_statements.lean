/-
C13: a second successful unlocked check with unchanged remote state changes nothing.
STATEMENT to be proved.
-/
import Vet.Props.C10
import Vet.Props.C11
import Vet.Props.C13
import Vet.Props.Search
import Vet.Props.C05
namespace Vet

/-- the freshness the next unlocked run computes for a live table when the remote serves the same
records: a record is fresh iff the previous update did not keep it (rows are matched by
position: `u`'s tables are produced row by row from the store's) -/
def relockTable {α : Type} (t : List (Nat × List α)) (kept : List (Nat × List Nat))
    (setFresh : α → Bool → α) : List (Nat × List α) :=
  (t.zip kept).map (fun ((n, l), (_, k)) => (n, l.zipIdx.map (fun (a, i) => setFresh a (!k.contains i))))

/-- the live view the next unlocked `cargo vet` resolves against, when peers and crates.io serve
exactly what they served before: same live records, freshness recomputed against the
imports.lock just written, exemptions as just rewritten; audits.toml is what it was (a check-mode
update keeps every local audit: `C13_clean_check_keeps_local_audits`) -/
def relock (s : Store) (u : Updates) : Store :=
  { s with
    imports := (s.imports.zip u.imports).map (fun (f, k) =>
      { audits := relockTable f.audits k.1 (fun a b => { a with fresh := b }),
        wildcards := relockTable f.wildcards k.2 (fun a b => { a with fresh := b }) }),
    publishers := relockTable s.publishers u.publishers (fun a b => { a with fresh := b }),
    unpublished := relockTable s.unpublished u.unpublished (fun a b => { a with fresh := b }),
    exemptions := u.exemptions }

/-- C13 (check twice).  After a successful unlocked check, a second unlocked check against the
same remote data computes the same update: it keeps exactly the records the first one kept
(so imports.lock is rewritten with the same contents) and rewrites the exemptions identically. -/
theorem C13_check_twice_partial (w : World) (u : Updates)
    (hnd : (w.store.exemptions.map (·.1)).Nodup)
    (hu : getStoreUpdates w (fun _ => checkMode) = .ok u)
    (r : Report) (hr : resolve w = .ok r) (a b f : List Nat) (hs : r.conclusion = .success a b f)
    (u₂ : Updates)
    (hu₂ : getStoreUpdates { w with store := relock w.store u } (fun _ => checkMode) = .ok u₂) :
    u₂.imports = u.imports ∧ u₂.publishers = u.publishers ∧ u₂.unpublished = u.unpublished ∧
    u₂.audits = u.audits ∧ u₂.exemptions = u.exemptions := by
  sorry

/-- and the second check succeeds as well -/
theorem C13_second_check_succeeds_partial (w : World) (u : Updates)
    (hnd : (w.store.exemptions.map (·.1)).Nodup)
    (hu : getStoreUpdates w (fun _ => checkMode) = .ok u)
    (r : Report) (hr : resolve w = .ok r) (a b f : List Nat) (hs : r.conclusion = .success a b f) :
    ∃ r' a' b' f', resolve { w with store := relock w.store u } = .ok r' ∧
      r'.conclusion = .success a' b' f' := by
  sorry

end Vet
