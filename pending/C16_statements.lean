/-
C16 — aggregation is faithful: the merged file means the union of its sources.
Property theorems only; helper lemmas live in Vet/Lemmas/Aggregate.lean.
-/
import Vet.Lemmas.Aggregate
namespace Vet.Agg

/-- all entries recorded for package `k` in a table -/
def entriesOf (k : Nat) (t : List (Nat × List Entry)) : List Entry :=
  (t.filter (fun e => e.1 == k)).flatMap (·.2)

/-- all criteria definitions of the sources, in source order, tagged with their source url -/
def allDefs (srcs : List Source) : List (Nat × Crit) :=
  srcs.flatMap (fun s => s.criteria.map (fun c => (s.url, c)))

def sameDef (a b : Crit) : Bool := a.desc == b.desc && a.descUrl == b.descUrl && a.implies == b.implies

/-- The audits of the aggregate are exactly the importable audits of its sources, each tagged
with the source it came from — nothing else. -/
theorem C16_audits (srcs : List Source) (r : Result) (h : aggregate srcs = some r) (k : Nat) (e : Entry) :
    e ∈ entriesOf k r.audits ↔
      ∃ s ∈ srcs, ∃ e₀ ∈ entriesOf k s.audits, e₀.importable = true ∧ e = tag s.url e₀ := sorry

/-- wildcard audits: all of them, tagged -/
theorem C16_wildcards (srcs : List Source) (r : Result) (h : aggregate srcs = some r) (k : Nat) (e : Entry) :
    e ∈ entriesOf k r.wildcards ↔ ∃ s ∈ srcs, ∃ e₀ ∈ entriesOf k s.wildcards, e = tag s.url e₀ := sorry

/-- trusted entries: all of them, tagged -/
theorem C16_trusted (srcs : List Source) (r : Result) (h : aggregate srcs = some r) (k : Nat) (e : Entry) :
    e ∈ entriesOf k r.trusted ↔ ∃ s ∈ srcs, ∃ e₀ ∈ entriesOf k s.trusted, e = tag s.url e₀ := sorry

/-- per package the aggregate lists the sources' entries in source order -/
theorem C16_audits_order (s₁ s₂ : Source) (r : Result) (h : aggregate [s₁, s₂] = some r) (k : Nat)
    (hk₁ : (s₁.audits.map (·.1)).Pairwise (· < ·)) (hk₂ : (s₂.audits.map (·.1)).Pairwise (· < ·)) :
    entriesOf k r.audits =
      ((entriesOf k s₁.audits).filter (·.importable)).map (tag s₁.url) ++
      ((entriesOf k s₂.audits).filter (·.importable)).map (tag s₂.url) := sorry

/-- criteria: every criterion of the aggregate is the first definition of that name among the
sources, tagged with that source; every defined name appears exactly once -/
theorem C16_criteria (srcs : List Source) (r : Result) (h : aggregate srcs = some r) :
    (∀ c ∈ r.criteria, ∃ u c₀, (u, c₀) ∈ allDefs srcs ∧ c = { c₀ with from_ := c₀.from_ ++ [u] }) ∧
    (∀ d ∈ allDefs srcs, ∃ c ∈ r.criteria, c.name = d.2.name) ∧
    (r.criteria.map (·.name)).Nodup := sorry

/-- It fails, without output, exactly when two sources define the same criterion differently
(description, description-url or implies). -/
theorem C16_error_iff (srcs : List Source) :
    aggregate srcs = none ↔
      ∃ d₁ ∈ allDefs srcs, ∃ d₂ ∈ allDefs srcs, d₁.2.name = d₂.2.name ∧ sameDef d₁.2 d₂.2 = false := sorry

/-- non-vacuity: two sources sharing a crate and a criterion -/
example : (aggregate [⟨1, [⟨5, 0, 0, [], []⟩], [(3, [⟨10, true, []⟩, ⟨11, false, []⟩])], [], []⟩,
                      ⟨2, [⟨5, 0, 0, [], []⟩], [(3, [⟨12, true, [9]⟩])], [], []⟩]).map (·.audits)
    = some [(3, [⟨10, true, [1]⟩, ⟨12, true, [9, 2]⟩])] := by decide +kernel

end Vet.Agg
