/-
C10, second sentence: `init` and `regenerate exemptions` leave a store that vets successfully
whenever no violation conflict exists.  STATEMENT to be proved.
-/
import Vet.Props.C10
import Vet.Props.C11
import Vet.Props.Search
namespace Vet

/-- C10 (regenerate).  Every crate is searched in `RegenerateExemptions` mode (whatever the
pruning flags): if the store has no violation conflict before, then the store the next run loads
never fails for missing audits — it vets successfully unless the regenerated exemptions
themselves collide with a violation entry (then the conclusion is a violation failure). -/
theorem C10_regenerate_never_missing_partial (w : World) (modeOf : Nat → UpdateMode) (u : Updates)
    (hnd : (w.store.exemptions.map (·.1)).Nodup)
    (hmode : ∀ n, (modeOf n).search = .regenerateExemptions)
    (hu : getStoreUpdates w modeOf = .ok u)
    (r : Report) (hr : resolve w = .ok r) (hnoconf : ∀ vs, r.conclusion ≠ .failViolation vs)
    (r' : Report) (hr' : resolve (w.applyLocked u) = .ok r') :
    ∀ fs, r'.conclusion ≠ .failVet fs := by
  sorry

/-- the record-level content: after regenerating, every third-party package has a certifying
chain for every required criterion in the new store -/
theorem C10_regenerate_chains_partial (w : World) (modeOf : Nat → UpdateMode) (u : Updates)
    (hnd : (w.store.exemptions.map (·.1)).Nodup)
    (hmode : ∀ n, (modeOf n).search = .regenerateExemptions)
    (hu : getStoreUpdates w modeOf = .ok u)
    (r : Report) (hr : resolve w = .ok r) (hnoconf : ∀ vs, r.conclusion ≠ .failViolation vs)
    (i : Nat) (p : PkgNode) (hp : r.graph.nodes[i]? = some p) (htp : p.thirdParty = true)
    (c : Nat) (hc : r.required i c) :
    CertChain (applyLocked w.store u) r.mapper p.name c p.ver := by
  sorry

end Vet
