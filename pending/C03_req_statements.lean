/-
C03 (part 1) — `resolve_requirements` computes the solution of the rule system, given a
valid children-first order.  Property theorems only; helpers in Vet/Lemmas/Requirements.lean.
-/
import Vet.Lemmas.Requirements
namespace Vet

/-- The requirement vector computed by the two loops solves the rule system. -/
theorem C03_requirements_solve (g : DepGraph) (pol : Policy) (m : Mapper) (req : List CSet)
    (hv : ValidTopo g) (h : resolveRequirements g pol m = .ok req) :
    IsDemand g pol m (fun i => req.getD i 0) := sorry

/-- Packages outside the maximal build graph get no demand at all. -/
theorem C03_unlisted_empty (g : DepGraph) (pol : Policy) (m : Mapper) (req : List CSet)
    (hv : ValidTopo g) (h : resolveRequirements g pol m = .ok req)
    (i : Nat) (hi : i ∉ g.topo) : req.getD i 0 = 0 := sorry

/-- The rule system has exactly one solution on the listed packages (so "the" demand of C03
is well defined and is what the code computes). -/
theorem C03_demand_unique (g : DepGraph) (pol : Policy) (m : Mapper) (D₁ D₂ : Nat → CSet)
    (hv : ValidTopo g) (h₁ : IsDemand g pol m D₁) (h₂ : IsDemand g pol m D₂) :
    ∀ p ∈ g.topo, D₁ p = D₂ p := sorry

/-- Leastness: any assignment that satisfies every rule as a ⊇-constraint is above the
computed requirements. -/
theorem C03_least (g : DepGraph) (pol : Policy) (m : Mapper) (req : List CSet) (D : Nat → CSet)
    (hv : ValidTopo g) (h : resolveRequirements g pol m = .ok req)
    (hD : ∀ p ∈ g.topo, CSet.sub (ruleRhs g pol m D p) (D p)) :
    ∀ p ∈ g.topo, CSet.sub (req.getD p 0) (D p) := sorry

/-- The result has one entry per package. -/
theorem C03_requirements_length (g : DepGraph) (pol : Policy) (m : Mapper) (req : List CSet)
    (h : resolveRequirements g pol m = .ok req) : req.length = g.nodes.length := sorry

end Vet
