/-
C05 — criteria mean their implication closure, nothing more, however they are written.
Property theorems only; helper lemmas live in Vet/Lemmas/Closure.lean.
-/
import Vet.Lemmas.Closure
namespace Vet

/-- The set computed for criterion `i` by `CriteriaMapper::new` is exactly what `i`
transitively implies (itself included) — for every table the constructor accepts. -/
theorem C05_closure_spec (t : Table) (m : Mapper) (h : Mapper.new t = .ok m)
    (i j : Nat) (hi : i < m.n) :
    (m.implied.getD i 0).testBit j = true ↔ t.Implies i j := sorry

/-- A criteria list denotes the union of the closures of its elements: `j` is in the set
iff some listed element implies it. -/
theorem C05_fromList_spec (t : Table) (m : Mapper) (h : Mapper.new t = .ok m)
    (l : List Nat) (s : CSet) (hs : m.fromList l = .ok s) (j : Nat) :
    s.testBit j = true ↔ ∃ i ∈ l, t.Implies i j := sorry

/-- Reordering and duplicating list elements never changes the denoted set. -/
theorem C05_fromList_perm_dup (m : Mapper) (l₁ l₂ : List Nat) (s₁ s₂ : CSet)
    (h₁ : m.fromList l₁ = .ok s₁) (h₂ : m.fromList l₂ = .ok s₂)
    (hsame : ∀ i, i ∈ l₁ ↔ i ∈ l₂) : s₁ = s₂ := sorry

/-- Replacing a list by its implication closure denotes the same set. -/
theorem C05_fromList_closure (t : Table) (m : Mapper) (h : Mapper.new t = .ok m)
    (l : List Nat) (s : CSet) (hs : m.fromList l = .ok s) :
    m.fromList (CSet.indices m.n s) = .ok s := sorry

/-- Replacing a list by its minimal generating set (what cargo-vet prints and writes)
denotes the same set. -/
theorem C05_minimal_denotes (t : Table) (m : Mapper) (h : Mapper.new t = .ok m)
    (l : List Nat) (s : CSet) (hs : m.fromList l = .ok s) :
    m.fromList (m.minimal s) = .ok s := sorry

/-- The printed list has no implied duplicates. -/
theorem C05_minimal_irredundant (t : Table) (m : Mapper) (h : Mapper.new t = .ok m)
    (s : CSet) (a b : Nat) (ha : a ∈ m.minimal s) (hb : b ∈ m.minimal s) (hab : t.Implies b a) :
    a = b := sorry

/-- every set built from names is closed under implication -/
theorem C05_fromList_closed (t : Table) (m : Mapper) (h : Mapper.new t = .ok m)
    (l : List Nat) (s : CSet) (hs : m.fromList l = .ok s) : t.Closed s := sorry

/-- the constructor accepts exactly the well-formed tables: no built-in redefined, at most 64
criteria, every `implies` defined, no implication cycle -/
theorem C05_new_ok_iff (t : Table) :
    (∃ m, Mapper.new t = .ok m) ↔
      (∀ c ∈ t, c.clash = 0) ∧ t.n ≤ 64 ∧ (∀ c ∈ t, ∀ i ∈ c.implies, i < t.n) ∧
      (∀ i k, i < t.n → t.direct i k → ¬ t.Implies k i) := sorry

end Vet
