/-
C04 across runs: a violation a peer serves for a crate in the graph is never dropped from
imports.lock by an update, whatever the mode — so a later `--locked` run still sees it.
-/
import Vet.Props.C11
namespace Vet

/-- every imported violation entry of a crate whose name occurs in the dependency graph is kept
by `get_store_updates`, in every per-package mode (fresh or stale, pruning or not) -/
theorem C04_update_keeps_violations (w : World) (modeOf : Nat → UpdateMode) (u : Updates)
    (hu : getStoreUpdates w modeOf = .ok u)
    (dg : DepGraph) (hdg : DepGraph.new w.md w.store.policy = .ok dg)
    (n : Nat) (hn : n ∈ dg.nodes.map (·.name))
    (ii : Nat) (f : AFile) (hf : w.store.imports[ii]? = some f)
    (ri : Nat) (l : List Audit) (hl : f.audits[ri]? = some (n, l))
    (i : Nat) (a : Audit) (ha : l[i]? = some a) (hv : isViolation a = true) :
    ∃ k, u.imports[ii]? = some k ∧ ∃ kept, k.1[ri]? = some (n, kept) ∧ i ∈ kept := by
  sorry

end Vet
