/-
C19 — fetched crate sources stay inside the cache and are used only if fully unpacked.
Both halves are false on the current tree for archives with link entries or an archive-supplied
completion marker (known findings): kernel-evaluated witnesses below, reproduced on the real
unpacker by the harness.  What holds is proved for archives without such entries.
Property theorems only; helper lemmas live in Vet/Lemmas/Unpack.lean.
-/
import Vet.Lemmas.Unpack
namespace Vet.Unpack

def isLink (e : Entry) : Bool := match e.kind with | .symlink _ => true | _ => false

/-- the entry would land on the completion marker of crate `p` -/
def namesMarker (prefix_ : Nat) (e : Entry) : Bool :=
  e.path.filterMap (fun c => match c with | .normal n => some n | _ => none) == [prefix_, 0]

/-- the file system holds no symbolic link at or below the source directory -/
def NoLinksUnder (fs : FS) (srcDir : Path) : Prop :=
  ∀ p n, (p, n) ∈ fs → srcDir.isPrefixOf p = true → ∀ t, n ≠ .symlink t

/-- Confinement, for archives without link entries (and a cache without links): unpacking crate
`p`, interrupted or not, never creates or modifies anything outside `srcDir ++ [p]`. -/
theorem C19_confined_partial (fs : FS) (srcDir : Path) (prefix_ : Nat) (archive : List Entry)
    (crashAfter : Option Nat) (hnl : ∀ e ∈ archive, isLink e = false) (hfs : NoLinksUnder fs srcDir)
    (hsrc : lookup fs srcDir = some .dir) (hcanon : canon fs 64 [] srcDir = some srcDir)
    (q : Path) (hq : (srcDir ++ [prefix_]).isPrefixOf q = false) :
    lookup (unpackPackage fs srcDir prefix_ archive crashAfter) q = lookup fs q := sorry

/-- Completion marker, for archives that carry neither links nor their own marker: after an
interruption at any point the directory is not considered fetched. -/
theorem C19_marker_partial (fs : FS) (srcDir : Path) (prefix_ : Nat) (archive : List Entry) (k : Nat)
    (hnl : ∀ e ∈ archive, isLink e = false) (hnm : ∀ e ∈ archive, namesMarker prefix_ e = false)
    (hfs : NoLinksUnder fs srcDir) (hsrc : lookup fs srcDir = some .dir) (hcanon : canon fs 64 [] srcDir = some srcDir) :
    fetchIsOk (unpackPackage fs srcDir prefix_ archive (some k)) srcDir prefix_ = false := sorry

/-- ... and the next fetch unpacks again from scratch: its result is what an uninterrupted
unpack of the same archive into the same cache produces -/
theorem C19_retry_partial (fs : FS) (srcDir : Path) (prefix_ : Nat) (archive : List Entry) (k : Nat)
    (hnl : ∀ e ∈ archive, isLink e = false) (hnm : ∀ e ∈ archive, namesMarker prefix_ e = false)
    (hfs : NoLinksUnder fs srcDir) (hsrc : lookup fs srcDir = some .dir) (hcanon : canon fs 64 [] srcDir = some srcDir)
    (q : Path) :
    lookup (fetch (unpackPackage fs srcDir prefix_ archive (some k)) srcDir prefix_ archive) q =
    lookup (unpackPackage fs srcDir prefix_ archive none) q := sorry

/-- a complete unpack of such an archive is considered fetched (unless an entry was refused) -/
theorem C19_complete_is_ok (fs : FS) (srcDir : Path) (prefix_ : Nat) (archive : List Entry)
    (hnl : ∀ e ∈ archive, isLink e = false) (hfs : NoLinksUnder fs srcDir) (hsrc : lookup fs srcDir = some .dir) (hcanon : canon fs 64 [] srcDir = some srcDir)
    (hall : (unpackEntries (set (removeTree fs (srcDir ++ [prefix_])) (srcDir ++ [prefix_]) .dir) srcDir prefix_ archive archive.length).2 = true) :
    fetchIsOk (unpackPackage fs srcDir prefix_ archive none) srcDir prefix_ = true := sorry

/-! Known findings: witnesses (cache root `[9]`, source dir `[9, 5]`, crate 1, sibling crate 2). -/

def cache0 : FS := [([9], .dir), ([9, 5], .dir), ([9, 5, 2], .dir), ([9, 5, 2, 7], .file 70), ([8], .dir), ([8, 3], .file 30)]

/-- F7: the archive carries `<crate>/.cargo-ok` with body "ok"; the unpack is cut off after that
entry; the next fetch believes the partial tree -/
theorem C19_counterexample_marker :
    let archive : List Entry := [⟨[.normal 1, .normal 0], .file 1⟩, ⟨[.normal 1, .normal 4], .file 40⟩]
    fetchIsOk (unpackPackage cache0 [9, 5] 1 archive (some 1)) [9, 5] 1 = true ∧
    lookup (fetch (unpackPackage cache0 [9, 5] 1 archive (some 1)) [9, 5] 1 archive) [9, 5, 1, 4] = none := by
  decide +kernel

/-- F8: a symlink entry to the sibling crate's directory followed by a file through it: a file of
another crate is overwritten -/
theorem C19_counterexample_symlink :
    let archive : List Entry := [⟨[.normal 1, .normal 6], .symlink [9, 5, 2]⟩, ⟨[.normal 1, .normal 6, .normal 7], .file 99⟩]
    lookup (unpackPackage cache0 [9, 5] 1 archive none) [9, 5, 2, 7] = some (.file 99) := by
  decide +kernel

/-- a `.cargo-ok` symlink to a file outside the cache: the completion marker is written through
it, overwriting that file with "ok" -/
theorem C19_counterexample_marker_symlink :
    let archive : List Entry := [⟨[.normal 1, .normal 0], .symlink [8, 3]⟩]
    lookup (unpackPackage cache0 [9, 5] 1 archive none) [8, 3] = some (.file 1) := by
  decide +kernel

end Vet.Unpack
