/-
C09 / C10 — store updates never break a passing store.
Property theorems only; helper lemmas live in Vet/Lemmas/Preserve*.lean.
-/
import Vet.Lemmas.Preserve
namespace Vet

/-- C10 (core). If the store vets successfully, then after any non-regenerating update —
every combination of per-package search mode and pruning flags — the store that the next
`--locked` run loads still vets successfully. -/
theorem C10_update_preserves_success (w : World) (modeOf : Nat → UpdateMode) (u : Updates)
    (hmode : ∀ n, (modeOf n).search ≠ .regenerateExemptions)
    (hu : getStoreUpdates w modeOf = .ok u)
    (r : Report) (hr : resolve w = .ok r) (a b f : List Nat) (hs : r.conclusion = .success a b f) :
    ∃ r' a' b' f', resolve (w.applyLocked u) = .ok r' ∧ r'.conclusion = .success a' b' f' := sorry

/-- C09. The automatic update after a successful unlocked check (check mode for every
package) leaves files with which the locked check succeeds. -/
theorem C09_check_then_locked (w : World) (u : Updates)
    (hu : getStoreUpdates w (fun _ => ⟨.preferExemptions, false, false, false⟩) = .ok u)
    (r : Report) (hr : resolve w = .ok r) (a b f : List Nat) (hs : r.conclusion = .success a b f) :
    ∃ r' a' b' f', resolve (w.applyLocked u) = .ok r' ∧ r'.conclusion = .success a' b' f' := sorry

/-- The update never introduces a violation conflict: a crate whose audit graph builds without
conflict before the update builds without conflict after it. -/
theorem C10_no_new_conflict (w : World) (modeOf : Nat → UpdateMode) (u : Updates) (m : Mapper)
    (hm : Mapper.new w.table = .ok m)
    (hmode : ∀ n, (modeOf n).search ≠ .regenerateExemptions)
    (hu : getStoreUpdates w modeOf = .ok u) (name : Nat) (g : Graph)
    (hb : build w.store m name = .ok (.graph g)) :
    ∃ g', build (applyLocked w.store u) m name = .ok (.graph g') := sorry

/-- Every record on a path chosen for a minimal required criterion is kept by the update:
the required-entries map of a crate contains every entry the chosen paths stand for. -/
theorem C10_required_contains_path (g : Graph) (m : Mapper) (mode : Mode)
    (pkgs : List (Nat × CSet)) (r : Required)
    (h : requiredForPkgs g m mode pkgs [] = .ok (some r))
    (ver : Nat) (req : CSet) (hp : (ver, req) ∈ pkgs) (c : Nat) (hc : c ∈ m.minimal req) :
    ∃ path, search g c ver mode = .ok path ∧
      ∀ o ∈ path, ∀ e ∈ originEntries o, ∃ s, r.get? e = some s ∧ s.testBit c = true := sorry

end Vet
