/-
C17 — suggestions heal: certifying what is suggested makes vet pass.  The final de-duplication
of suggestions loses criteria when two in-graph versions of a crate get the same proposed diff
with different missing criteria (known finding C17/dedup-drops-criteria): witness below.
Property theorems only; helper lemmas live in Vet/Lemmas/Suggest.lean.
-/
import Vet.Lemmas.Suggest
namespace Vet

open Vet.Sug

/-- every candidate delta connects, for every failed criterion at once, a version reachable
from the root to a version from which the target is reachable -/
theorem C17_candidate_connects (hasSources : Option Nat → Bool) (fails : List Failure)
    (fr ft : List (Option Nat)) (h : reachable hasSources fails = some (fr, ft))
    (c : Option Nat × Nat) (hc : c ∈ candidates fr ft) :
    ∀ F ∈ fails, c.1 ∈ F.fromRoot ∧ some c.2 ∈ F.fromTarget := sorry

/-- with the git-revision rewrite: either the candidate connects directly, or it targets the
nearest published version and the extra delta from that version to the git revision is
suggested with it -/
theorem C17_candidate_connects_git (hasSources : Option Nat → Bool) (fails : List Failure)
    (fr ft : List (Option Nat)) (h : reachable hasSources fails = some (fr, ft))
    (target : Nat) (published : Option (Option Nat)) (ft' : List (Option Nat))
    (extra : Option (Option Nat × Nat)) (hg : gitRewrite target published fr ft = (ft', extra))
    (c : Option Nat × Nat) (hc : c ∈ candidates fr ft') :
    (∀ F ∈ fails, c.1 ∈ F.fromRoot) ∧
    ((∀ F ∈ fails, some c.2 ∈ F.fromTarget) ∨
     (published = some (some c.2) ∧ (extra = some (some c.2, target) ∨ some c.2 ∈ ft))) := sorry

/-- the recommendation is one of the candidates -/
theorem C17_recommendation_is_candidate (hasSources : Option Nat → Bool) (cost : Option Nat × Nat → Nat)
    (target : Nat) (published : Option (Option Nat)) (fails : List Failure) (hne : fails ≠ [])
    (c : Option Nat × Nat) (extra : Option (Option Nat × Nat))
    (h : suggestDelta hasSources cost target published fails = some (c, extra)) :
    ∃ fr ft, reachable hasSources fails = some (fr, ft) ∧
      c ∈ candidates fr (gitRewrite target published fr ft).1 ∧ extra = (gitRewrite target published fr ft).2 := sorry

/-- Healing, at the level of the audit graph: if the search for criterion `c` failed with
reachable sets `fromRoot` / `fromTarget`, then after adding any edge `f → t` carrying `c` with
`f ∈ fromRoot` and `t ∈ fromTarget` the search succeeds. -/
theorem C17_heals (g : Graph) (c v : Nat) (r t : List (Option Nat))
    (hf : search g c v .preferExemptions = .fail r t)
    (f : Option Nat) (to : Nat) (hfr : f ∈ r) (hto : some to ∈ t)
    (crit : CSet) (hc : crit.testBit c = true) (o : Origin) (fresh : Nat) :
    ∃ p, search ⟨g.edges ++ [⟨f, some to, crit, o, fresh⟩]⟩ c v .preferExemptions = .ok p := sorry

/-- adding edges never breaks a criterion that already had a path -/
theorem C17_monotone (g : Graph) (c v : Nat) (p : List Origin)
    (h : search g c v .preferExemptions = .ok p) (extra : List Triple) :
    ∃ p', search ⟨g.edges ++ extra⟩ c v .preferExemptions = .ok p' := sorry

/-- `certify` pre-selects exactly the failed criteria for which the delta connects a version
reachable from the root to one from which the needed version is reachable -/
theorem C17_certify_criteria (fails : List (Nat × Failure)) (from_ : Option Nat) (to c : Nat) :
    c ∈ suggestedCriteria fails from_ to ↔
      ∃ F, (c, F) ∈ fails ∧ some to ∈ F.fromTarget ∧ from_ ∈ F.fromRoot := sorry

/-- de-duplication only drops items; every dropped item has a surviving twin with the same crate
and diff -/
theorem C17_dedup_keeps_twin (l : List Item) (x : Item) (hx : x ∈ l) :
    ∃ y ∈ dedup l, sameSuggestion y x = true := sorry

/-- Known finding C17/dedup-drops-criteria (F9): two versions of one crate get the same proposed
diff with different missing criteria; only the first criteria set survives -/
theorem C17_counterexample_dedup :
    dedup [⟨0, 5, none, 1, 1, 1⟩, ⟨1, 5, none, 1, 2, 1⟩] = [⟨0, 5, none, 1, 1, 1⟩] := by decide +kernel

end Vet
