/-
C11 — automatic updates never widen what the project trusts.
Property theorems only; helper lemmas live in Vet/Lemmas/Update*.lean.
-/
import Vet.Lemmas.Update
namespace Vet

/-- indices strictly increasing and in range: a sub-selection of an existing list -/
def IncreasingBelow (l : List Nat) (n : Nat) : Prop := l.Pairwise (· < ·) ∧ ∀ i ∈ l, i < n

/-- Local audits: the table keeps its names; each list is a sub-selection of the old one
(no audit added or altered); importable audits are always kept; with the pruning flag off the
list is untouched. -/
theorem C11_local_audits (w : World) (modeOf : Nat → UpdateMode) (u : Updates)
    (h : getStoreUpdates w modeOf = .ok u) :
    u.audits.map (·.1) = w.store.locals.audits.map (·.1) ∧
    ∀ n kept, (n, kept) ∈ u.audits → ∃ l, (n, l) ∈ w.store.locals.audits ∧
      IncreasingBelow kept l.length ∧
      ((modeOf n).pruneNonImportable = false → kept = List.range l.length) ∧
      (∀ i a, l[i]? = some a → a.importable = true → i ∈ kept) := sorry

/-- imports.lock: one entry per configured import, each table a sub-selection of the live (or,
when locked, the locked) view of that import — nothing is recorded that is not currently served
or already locked. -/
theorem C11_imports (w : World) (modeOf : Nat → UpdateMode) (u : Updates)
    (h : getStoreUpdates w modeOf = .ok u) :
    u.imports.length = w.store.imports.length ∧
    ∀ (ii : Nat) (a wl : List (Nat × List Nat)) (f : AFile), u.imports[ii]? = some (a, wl) → w.store.imports[ii]? = some f →
      (a.map (·.1) = f.audits.map (·.1) ∧
       ∀ n kept, (n, kept) ∈ a → ∃ l, (n, l) ∈ f.audits ∧ IncreasingBelow kept l.length) ∧
      (wl.map (·.1) = f.wildcards.map (·.1) ∧
       ∀ n kept, (n, kept) ∈ wl → ∃ l, (n, l) ∈ f.wildcards ∧ IncreasingBelow kept l.length) := sorry

/-- publisher and unpublished tables likewise -/
theorem C11_publishers (w : World) (modeOf : Nat → UpdateMode) (u : Updates)
    (h : getStoreUpdates w modeOf = .ok u) :
    (u.publishers.map (·.1) = w.store.publishers.map (·.1) ∧
     ∀ n kept, (n, kept) ∈ u.publishers → ∃ l, (n, l) ∈ w.store.publishers ∧ IncreasingBelow kept l.length) ∧
    (u.unpublished.map (·.1) = w.store.unpublished.map (·.1) ∧
     ∀ n kept, (n, kept) ∈ u.unpublished → ∃ l, (n, l) ∈ w.store.unpublished ∧ IncreasingBelow kept l.length) := sorry

/-- stale (already locked) records are never dropped unless pruning was asked for or a fresh
record of that crate is being imported -/
theorem C11_stale_kept (w : World) (modeOf : Nat → UpdateMode) (u : Updates)
    (h : getStoreUpdates w modeOf = .ok u) (n : Nat)
    (hp : (modeOf n).pruneImports = false)
    (hnofresh : ∀ l, (n, l) ∈ w.store.publishers → ∀ p ∈ l, p.fresh = false)
    (hnofresh2 : ∀ f ∈ w.store.imports, (∀ l, (n, l) ∈ f.audits → ∀ a ∈ l, a.fresh = false) ∧
                                        (∀ l, (n, l) ∈ f.wildcards → ∀ a ∈ l, a.fresh = false)) :
    ∀ kept l, (n, kept) ∈ u.publishers → (n, l) ∈ w.store.publishers → kept = List.range l.length := sorry

/-- Exemptions, when not regenerating: every exemption in the result has the version and
`suggest` flag of an old exemption of that crate and denotes a subset of its criteria — none is
added or broadened. -/
theorem C11_exemptions_narrow (w : World) (modeOf : Nat → UpdateMode) (u : Updates) (m : Mapper)
    (hm : Mapper.new w.table = .ok m)
    (hmode : ∀ n, (modeOf n).search ≠ .regenerateExemptions)
    (h : getStoreUpdates w modeOf = .ok u) :
    ∀ n xs' x', (n, xs') ∈ u.exemptions → x' ∈ xs' →
      ∃ x ∈ getL n w.store.exemptions, x'.version = x.version ∧ x'.suggest = x.suggest ∧
        ∃ s s', m.fromList x.criteria = .ok s ∧ m.fromList x'.criteria = .ok s' ∧
          ∀ c, s'.testBit c = true → s.testBit c = true := sorry

/-- With exemption pruning off (and not regenerating) every old exemption survives with the
same meaning. -/
theorem C11_exemptions_untouched (w : World) (modeOf : Nat → UpdateMode) (u : Updates) (m : Mapper)
    (hm : Mapper.new w.table = .ok m)
    (hmode : ∀ n, (modeOf n).search ≠ .regenerateExemptions)
    (h : getStoreUpdates w modeOf = .ok u) (n : Nat) (hp : (modeOf n).pruneExemptions = false) :
    ∀ x ∈ getL n w.store.exemptions, ∃ x' ∈ getL n u.exemptions,
      x'.version = x.version ∧ x'.suggest = x.suggest ∧
      ∃ s, m.fromList x.criteria = .ok s ∧ m.fromList x'.criteria = .ok s := sorry

/-- New exemptions come only from `FreshExemption` steps, which only the regenerate mode takes:
outside that mode a chosen path never contains one. -/
theorem C11_no_fresh_exemption (g : Graph) (c v : Nat) (mode : Mode) (path : List Origin)
    (hmode : mode ≠ .regenerateExemptions) (h : search g c v mode = .ok path) :
    ∀ o ∈ path, ∀ v', o ≠ .freshExemption v' := sorry

end Vet
