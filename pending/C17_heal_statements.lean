/-
C17, end to end at the level of `resolve` and the records: certifying everything that is
proposed makes vet pass (unless a violation conflict exists).

STATEMENTS to be proved (no `sorry` may remain; do not weaken; if a statement is false as written,
keep it, prove its negation on a concrete witness with `decide +kernel`, and prove a `_partial`
variant whose extra hypothesis is explicit).
-/
import Vet.Props.C17
import Vet.Props.Resolve
import Vet.Props.C05
import Vet.Spec.Demand
namespace Vet

open Vet.Sug

/-- `s'` is `s` plus extra local audits appended (per crate name) after the existing ones — what
`cargo vet certify` does to audits.toml; everything else is unchanged -/
structure Store.ExtendsAudits (s s' : Store) : Prop where
  imports : s'.imports = s.imports
  wildcards : s'.locals.wildcards = s.locals.wildcards
  trusted : s'.trusted = s.trusted
  publishers : s'.publishers = s.publishers
  unpublished : s'.unpublished = s.unpublished
  exemptions : s'.exemptions = s.exemptions
  policy : s'.policy = s.policy
  audits : ∀ name, ∃ extra, getL name s'.locals.audits = getL name s.locals.audits ++ extra

/-- the audit kind spells the step `f → t` -/
def Audit.connects (a : Audit) (f : Option Nat) (t : Nat) : Prop :=
  (a.kind = .full t ∧ f = none) ∨ (∃ f', a.kind = .delta f' t ∧ f = some f')

/-- every certifying chain of `s` is a certifying chain of an extension -/
theorem certChain_extends {s s' : Store} (hext : s.ExtendsAudits s') (m : Mapper) (name c v : Nat)
    (h : CertChain s m name c v) : CertChain s' m name c v := by
  sorry

/-- C17 (healing, end to end).  Vet fails for missing audits; audits are then added to audits.toml
such that every failed (package, criterion) pair is served by an added audit that certifies the
criterion and leads from a version the failed search reached from the root to a version from
which it reached the target.  Then vet on the new store succeeds, unless some crate now has a
violation conflict. -/
theorem C17_all_heal (w : World) (r : Report) (h : resolve w = .ok r)
    (fs : List (Nat × CSet)) (hf : r.conclusion = .failVet fs)
    (s' : Store) (hext : w.store.ExtendsAudits s')
    (r' : Report) (h' : resolve { w with store := s' } = .ok r')
    (hnoconf : ∀ (i : Nat) (p : PkgNode), r'.graph.nodes[i]? = some p → p.thirdParty = true →
      ∃ g, build s' r'.mapper p.name = .ok (.graph g))
    (hserved : ∀ (i : Nat) (bits : CSet), (i, bits) ∈ fs →
      ∀ (p : PkgNode), r.graph.nodes[i]? = some p →
      ∀ (results : List SearchOutcome), r.results[i]? = some (.searched results) →
      ∀ (c : Nat) (fr ft : List (Option Nat)), bits.testBit c = true →
        results[c]? = some (.fail fr ft) →
        ∃ (a : Audit) (j : Nat) (f : Option Nat) (t : Nat) (cs : CSet),
          (none, j, a) ∈ allAudits s' p.name ∧ a.connects f t ∧ f ∈ fr ∧ some t ∈ ft ∧
          r.mapper.fromList a.criteria = .ok cs ∧ cs.testBit c = true) :
    ∃ a b f, r'.conclusion = .success a b f := by
  sorry

/-- the list of search failures of a failing package, as `suggest_delta` receives it: one
`Failure` per failed criterion -/
def failuresOf (results : List SearchOutcome) (bits : CSet) (n : Nat) : List Failure :=
  (CSet.indices n bits).filterMap (fun c =>
    match results.getD c (.panic .other) with
    | .fail fr ft => some ⟨fr, ft⟩
    | _ => none)

/-- C17 (suggestions serve).  If (1) every failing package has, among the items proposed before
de-duplication, one for its crate whose diff is a candidate of `suggest_delta` for that package's
failures (no git-revision rewrite) and whose criteria are exactly the package's missing criteria,
and (2) every item that survives de-duplication is certified: audits.toml of `s'` holds an audit
for that crate spelling the item's diff whose criteria list denotes a superset of the item's
criteria — then the hypothesis `hserved` of `C17_all_heal` holds. -/
theorem C17_suggestions_serve (w : World) (r : Report) (h : resolve w = .ok r)
    (fs : List (Nat × CSet)) (hf : r.conclusion = .failVet fs)
    (hasSources : Option Nat → Bool) (items : List Item) (s' : Store)
    (hitems : ∀ (i : Nat) (bits : CSet), (i, bits) ∈ fs →
      ∀ (p : PkgNode), r.graph.nodes[i]? = some p →
      ∀ (results : List SearchOutcome), r.results[i]? = some (.searched results) →
      ∃ x ∈ items, x.name = p.name ∧ x.criteria = bits ∧
        ∃ frr ftt, reachable hasSources (failuresOf results bits r.mapper.n) = some (frr, ftt) ∧
          (x.from_, x.to) ∈ candidates frr ftt)
    (hcert : ∀ y ∈ dedup items, ∃ (a : Audit) (j : Nat) (cs : CSet),
      (none, j, a) ∈ allAudits s' y.name ∧ a.connects y.from_ y.to ∧
      r.mapper.fromList a.criteria = .ok cs ∧ CSet.sub y.criteria cs) :
    ∀ (i : Nat) (bits : CSet), (i, bits) ∈ fs →
      ∀ (p : PkgNode), r.graph.nodes[i]? = some p →
      ∀ (results : List SearchOutcome), r.results[i]? = some (.searched results) →
      ∀ (c : Nat) (fr ft : List (Option Nat)), bits.testBit c = true →
        results[c]? = some (.fail fr ft) →
        ∃ (a : Audit) (j : Nat) (f : Option Nat) (t : Nat) (cs : CSet),
          (none, j, a) ∈ allAudits s' p.name ∧ a.connects f t ∧ f ∈ fr ∧ some t ∈ ft ∧
          r.mapper.fromList a.criteria = .ok cs ∧ cs.testBit c = true := by
  sorry

/-- the criteria `certify` writes for a suggestion — the minimal names of the missing set — denote
a superset of the missing set (so `hcert`'s `CSet.sub` is what certifying a suggestion for its
proposed criteria gives) -/
theorem C17_proposed_criteria_cover (t : Table) (m : Mapper) (hm : Mapper.new t = .ok m) (bits : CSet)
    (hb : ∀ c, bits.testBit c = true → c < m.n) (cs : CSet)
    (h : m.fromList (m.minimal bits) = .ok cs) : CSet.sub bits cs := by
  sorry

end Vet
