/-
C01, C02 and C12 at the level of `resolve`: what a conclusion means in terms of the records.
Property theorems only; helper lemmas live in Vet/Lemmas/Resolve*.lean.
-/
import Vet.Lemmas.Resolve
namespace Vet

/-- the criteria required of package `i` in report `r` -/
def Report.required (r : Report) (i c : Nat) : Prop :=
  c < r.mapper.n ∧ (r.requirements.getD i 0).testBit c = true

/-- C01. A passing vet means every required (crate version, criterion) pair has a certifying
chain of records from "nothing" to exactly that version. -/
theorem C01_sound (w : World) (r : Report) (h : resolve w = .ok r)
    (a b f : List Nat) (hs : r.conclusion = .success a b f)
    (i : Nat) (p : PkgNode) (hp : r.graph.nodes[i]? = some p) (htp : p.thirdParty = true)
    (c : Nat) (hc : r.required i c) :
    CertChain w.store r.mapper p.name c p.ver := sorry

/-- C01, "nothing else can make a crate pass": the path the resolver reports for a required
pair is itself a certifying chain (read from the target back to the root). -/
theorem C01_reported_path_is_chain (w : World) (r : Report) (h : resolve w = .ok r)
    (i : Nat) (p : PkgNode) (hp : r.graph.nodes[i]? = some p)
    (results : List SearchOutcome) (hr : r.results[i]? = some (.searched results))
    (c : Nat) (path : List Origin) (hpath : results[c]? = some (.ok path)) :
    CertPath w.store r.mapper p.name c none path.reverse (some p.ver) := sorry

/-- C02. No false failures: if no third-party crate has a violation conflict and every
required pair has a certifying chain, the conclusion is success. -/
theorem C02_no_false_failure (w : World) (r : Report) (h : resolve w = .ok r)
    (hnoconf : ∀ (i : Nat) (p : PkgNode), r.graph.nodes[i]? = some p → p.thirdParty = true →
      ∃ g, build w.store r.mapper p.name = .ok (.graph g))
    (hall : ∀ (i : Nat) (p : PkgNode), r.graph.nodes[i]? = some p → p.thirdParty = true →
      ∀ c, r.required i c → CertChain w.store r.mapper p.name c p.ver) :
    ∃ a b f, r.conclusion = .success a b f := sorry

/-- C02. The failure report is exactly the set of uncertified pairs: package `i` is listed
with criteria set `bits` iff it is a third-party package, `bits` is non-empty, and `bits` is
exactly the set of required criteria lacking a chain. -/
theorem C02_failures_exact (w : World) (r : Report) (h : resolve w = .ok r)
    (fs : List (Nat × CSet)) (hf : r.conclusion = .failVet fs) (i : Nat) (bits : CSet) :
    (i, bits) ∈ fs ↔
      ∃ p : PkgNode, r.graph.nodes[i]? = some p ∧ p.thirdParty = true ∧ bits ≠ 0 ∧
        ∀ c, bits.testBit c = true ↔ (r.required i c ∧ ¬ CertChain w.store r.mapper p.name c p.ver) := sorry

/-- C02. The failure list names each package at most once, in package order. -/
theorem C02_failures_sorted (w : World) (r : Report) (h : resolve w = .ok r)
    (fs : List (Nat × CSet)) (hf : r.conclusion = .failVet fs) :
    (fs.map (·.1)).Pairwise (· < ·) := sorry

/-- C02/C04. Violation conflicts short-circuit: the conclusion is a violation failure
exactly when some third-party crate's audit graph could not be built. -/
theorem C02_violation_priority (w : World) (r : Report) (h : resolve w = .ok r) :
    (∃ vs, r.conclusion = .failViolation vs) ↔
    (∃ (i : Nat) (p : PkgNode) (cs : List Conflict), r.graph.nodes[i]? = some p ∧ p.thirdParty = true ∧
      build w.store r.mapper p.name = .ok (.conflicts cs)) := sorry

/-- C12, "only if": a crate reported fully audited has, for every required criterion, a
certifying chain that uses no exemption. -/
theorem C12_fully_only_if (w : World) (r : Report) (h : resolve w = .ok r)
    (a b f : List Nat) (hs : r.conclusion = .success a b f)
    (i : Nat) (hi : i ∈ f) (p : PkgNode) (hp : r.graph.nodes[i]? = some p)
    (c : Nat) (hc : r.required i c) :
    ∃ path, CertPath w.store r.mapper p.name c none path (some p.ver) ∧
      ∀ o ∈ path, o.isExemption = false := sorry

/-- C12, "if": when every required criterion can be certified by a walk whose edges are
all stale audits or grants (caveat level at most `NonImportableAudit` = 1: nothing fresh, no
exemption, no unpublished link), the crate is reported fully audited. -/
theorem C12_fully_if (w : World) (r : Report) (h : resolve w = .ok r)
    (a b f : List Nat) (hs : r.conclusion = .success a b f)
    (i : Nat) (p : PkgNode) (hp : r.graph.nodes[i]? = some p) (htp : p.thirdParty = true)
    (g : Graph) (hg : build w.store r.mapper p.name = .ok (.graph g))
    (hw : ∀ c, r.required i c →
      ∃ path l, Walk g.backward .preferExemptions c (some p.ver) path l none ∧ l ≤ 1) :
    i ∈ f := sorry

/-- The three success classes partition the third-party packages. -/
theorem C12_classes_partition (w : World) (r : Report) (h : resolve w = .ok r)
    (a b f : List Nat) (hs : r.conclusion = .success a b f) (i : Nat) (p : PkgNode)
    (hp : r.graph.nodes[i]? = some p) :
    (p.thirdParty = true ↔ (i ∈ a ∨ i ∈ b ∨ i ∈ f)) ∧
    ¬ (i ∈ a ∧ i ∈ b) ∧ ¬ (i ∈ a ∧ i ∈ f) ∧ ¬ (i ∈ b ∧ i ∈ f) := sorry

end Vet
