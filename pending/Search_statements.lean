/-
The three facts about `search_for_path` on which C01, C02, C10, C12, C13 and C17 rest.
Property theorems only; helper lemmas live in Vet/Lemmas/Search*.lean.
-/
import Vet.Lemmas.Search
namespace Vet

/-- Soundness: a returned path is a walk from the source to the target using only edges
that carry the criterion (or, when regenerating, exemption edges and the fresh pseudo-edge). -/
theorem search_sound (adj : Option Nat → List Edge) (c : Nat) (src tgt : Option Nat) (mode : Mode)
    (fuel : Nat) (p : List Origin)
    (h : searchLoop adj c tgt mode fuel (initQueue src) [] = .found p) :
    ∃ l, Walk adj mode c src p l tgt := sorry

/-- Completeness: when the search gives up, the visited set is exactly the set of versions
reachable from the source, and the target is not among them — every usable edge was tried. -/
theorem search_complete (adj : Option Nat → List Edge) (c : Nat) (src tgt : Option Nat) (mode : Mode)
    (fuel : Nat) (vis : List (Option Nat))
    (h : searchLoop adj c tgt mode fuel (initQueue src) [] = .notFound vis) :
    (∀ v, v ∈ vis ↔ ∃ p l, Walk adj mode c src p l v) ∧ tgt ∉ vis := sorry

/-- Minimax optimality: the returned path minimises the greatest caveat level over all
walks from the source to the target. -/
theorem search_minimax (adj : Option Nat → List Edge) (c : Nat) (src tgt : Option Nat) (mode : Mode)
    (fuel : Nat) (p : List Origin)
    (h : searchLoop adj c tgt mode fuel (initQueue src) [] = .found p) :
    ∃ l, Walk adj mode c src p l tgt ∧ ∀ p' l', Walk adj mode c src p' l' tgt → l ≤ l' := sorry

/-- The fuel bound is sufficient: the search never runs out of fuel on any graph. -/
theorem search_fuel_enough (g : Graph) (backward : Bool) (c : Nat) (src tgt : Option Nat) (mode : Mode) :
    searchForPath g backward c src tgt mode ≠ .outOfFuel := sorry

/-- When regenerating exemptions a search towards the root always succeeds
(the `assert!` at resolver.rs:1431 cannot fire). -/
theorem search_regenerate_total (g : Graph) (c : Nat) (v : Nat) :
    ∃ p, search g c v .regenerateExemptions = .ok p := sorry

end Vet
