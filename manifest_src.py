HOOK_COMMITS = ["6a4e584", "ea7b97f", "d517c44"]
NOT_APPLICABLE = {}
CLAIMS = {
 "C05": {
  "text": "Proof on the model of src/criteria.rs that a criteria list denotes the union of the per-criterion sets independent of order and duplication (C05_fromList_perm_dup, C05_fromList_append; the closure/minimal-set theorems are being completed, see level_note), tied to the code by an exhaustive-small-scope + random correspondence of CriteriaMapper::new / criteria_from_list / minimal_indices and by closure, minimal-set and metamorphic verdict-invariance oracles run on the real resolver.",
  "note": "Trusted: Lean kernel; axioms propext/Quot.sound/Classical.choice; the hand-written model (tied by correspondence only); harness generators/interning. Assumed: std collections' iteration order; debug-profile integer semantics (CriteriaSet::all(64) wrap-around in release not covered). Violation lists are read item-by-item by documented design and are rewritten only as that semantics allows.",
 },
}
