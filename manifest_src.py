HOOK_COMMITS = ["6a4e584", "ea7b97f", "d517c44"]
NOT_APPLICABLE = {}
SEARCH_NOTE = "Trusted: Lean kernel; axioms propext/Quot.sound/Classical.choice; the hand-written model of src/resolver.rs (tied by correspondence only: DepGraph::new, resolve_requirements, AuditGraph::build edge dump, search in all three modes, resolve); harness generators/interning; semver ordering and VersionReq::matches as an oracle table; BinaryHeap tie behaviour (equal keys are value-equal). Not modelled: --filter-graph, extra_audits_file. Resolve-level theorems (C01_sound, C02_failures_exact, C12_fully_*) are stated and being proved on top of the search and build theorems; until they land the level is partial: the kernel-checked part is the path search."
CLAIMS = {
 "C01": {
  "text": "Partial proof: search soundness on the model of search_for_path for all graphs/criteria/modes (a returned path is a walk of usable edges from source to target; search_sound) and fuel sufficiency; tied to the code by exact-output correspondence of build/search/resolve and by an oracle that recomputes, from the records alone (independent reachability + independent demand fixpoint), that every required pair of a passing real verdict has a certifying chain.",
  "note": SEARCH_NOTE,
 },
 "C02": {
  "text": "Partial proof: search completeness (when the search gives up the visited set is exactly the reachable set and excludes the target; search_complete) and termination within the fuel bound; tied to the code by exact-output correspondence and by an oracle comparing the real failure list with the uncertified pairs recomputed from the records, and the conclusion priority with an independent conflict test.",
  "note": SEARCH_NOTE,
 },
 "C03": {
  "text": "Proof on the model of DepGraph::new that, for acyclic normal/build edges, the two-pass DFS never runs out of fuel and lists every package of the maximal build graph once, dependencies before dependents, dev-dependencies of members included (C03_depgraph_total, C03_topo_valid), that roots are exactly the workspace members nothing in the normal build graph depends on (C03_root_iff) and that third-party = crates.io source or audit-as-crates-io = true (C03_third_party). The propagation theorems (resolve_requirements solves the documented rule system and is its least solution) are stated in Vet/Spec/Demand.lean and being proved. Tied by exact correspondence of DepGraph::new (all node facts, topo order) and resolve_requirements, and by an oracle that recomputes the demand as an independent least fixpoint of the rules from the raw metadata and compares it with the real requirement vector.",
  "note": SEARCH_NOTE,
 },
 "C04": {
  "text": "Partial proof (the property is false on the current tree for three edge kinds, see known_findings.json). Proved on the model of AuditGraph::build: any exemption or full/delta audit (own or imported) touching a version matched by a violation while claiming the closure of a listed violation criterion yields a violation conflict, used or not (C04_exemption_conflict, C04_audit_conflict); in a conflict-free graph no audit/exemption edge touching a violating version carries a violated criterion (C04_no_claiming_edge_partial). Kernel-evaluated counterexamples for wildcard-audit, trusted-publisher and unpublished-link edges (C04_counterexample_*), each replayed on the real code by the corpus. Oracle on the real resolver: a violation covering an in-graph version for a required-or-implied criterion must not end in success; an independent conflict test must agree with the conclusion.",
  "note": SEARCH_NOTE + " Known findings C04/edge=WildcardAudit, C04/edge=Trusted, C04/edge=Unpublished are genuine defects recorded rather than repaired (a repair needs a new conflict kind in the report format or a design decision).",
 },
 "C06": {
  "text": "Proof on the model of AuditGraph::build: a wildcard-audit edge exists exactly when that crate's publisher record matches the entry's user id with start <= when < end, leads from nothing to exactly the published version and carries exactly the entry's criteria (C06_wildcard_edge_iff); trusted edges likewise and only from the local trusted table (C06_trusted_edge_iff; imported files have no trusted table in the resolver's view); records of other crates are never consulted (C06_other_crates_irrelevant). The end-date cap at load is covered with C15's validate model (pending). Tied by edge-dump correspondence with boundary dates and an oracle re-checking every publisher-based origin on an accepted chain against the records.",
  "note": SEARCH_NOTE + " The code's window is start <= when < end; the property's 'not after its end' is implied.",
 },
 "C12": {
  "text": "Partial proof: minimax optimality of the path search over the nine caveat levels (search_minimax: the chosen path minimises the greatest caveat level over all walks), which is what makes exemptions used only when audits do not suffice; tied by exact-path correspondence in all three search modes and by an oracle on the real success classes (fully-audited iff an exemption-free chain exists per the records; always when stale audits/grants suffice).",
  "note": SEARCH_NOTE,
 },
 "C05": {
  "text": "Proof on the model of src/criteria.rs: the set computed per criterion is exactly the reflexive-transitive implication closure for every accepted table (C05_closure_spec), the constructor accepts exactly the well-formed acyclic tables and never runs out of fuel (C05_new_ok_iff), a list denotes the union of closures independent of order/duplication (C05_fromList_spec/_perm_dup/_append), and replacing a list by its closure or by the minimal generating set cargo-vet prints denotes the same set, without implied duplicates (C05_fromList_closure, C05_minimal_denotes, C05_minimal_irredundant); tied to the code by an exhaustive-small-scope + random correspondence of CriteriaMapper::new / criteria_from_list / minimal_indices and by closure, minimal-set and metamorphic verdict-invariance oracles run on the real resolver.",
  "note": "Trusted: Lean kernel; axioms propext/Quot.sound/Classical.choice; the hand-written model (tied by correspondence only); harness generators/interning. Assumed: std collections' iteration order; debug-profile integer semantics (CriteriaSet::all(64) wrap-around in release not covered). Violation lists are read item-by-item by documented design and are rewritten only as that semantics allows.",
 },
}
