# Per-property configuration of ./check: Lean modules holding the property theorems, the
# correspondence obligations the property's theorems rest on, extra trusted-base items.
CORE_TRUST = ["semver ordering and VersionReq::matches (oracle table supplied with each case)",
              "cargo_metadata JSON parsing", "--filter-graph not modelled"]

PROPS = {
    "C05": {
        "lean_modules": ["Vet.Props.C05"],
        "corr": ["corr.mapper", "corr.wire"],
        "trusted": ["HashMap/BTreeMap iteration of std (names interned order-preservingly)"],
        "assumptions": ["criteria names are compared only for equality; index order = BTreeMap order",
                        "release-profile wrap-around of CriteriaSet::all(64) not covered (debug profile is run)"],
        "explanation": "Theorems about the model of src/criteria.rs; correspondence of CriteriaMapper::new, criteria_from_list, minimal_indices with the model (exhaustive small tables + random + malformed); closure/minimal-set oracles and metamorphic verdict-invariance on the real resolve.",
    },
}
for p in ("C01", "C02", "C03", "C04", "C06", "C12"):
    PROPS[p] = {"lean_modules": [], "corr": ["corr."], "trusted": CORE_TRUST, "assumptions": [], "explanation": ""}
