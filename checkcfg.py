# Per-property configuration of ./check: Lean modules holding the property theorems, the
# correspondence obligations the property's theorems rest on, extra trusted-base items.
CORE_TRUST = ["semver ordering and VersionReq::matches (oracle table supplied with each case)",
              "cargo_metadata JSON parsing", "--filter-graph not modelled"]

PROPS = {
    "C05": {
        "lean_modules": ["Vet.Props.C05"],
        "corr": ["corr.mapper", "corr.wire"],
        "trusted": ["HashMap/BTreeMap iteration of std (names interned order-preservingly)"],
        "assumptions": ["criteria names are compared only for equality; index order = BTreeMap order",
                        "release-profile wrap-around of CriteriaSet::all(64) not covered (debug profile is run)"],
        "explanation": "Theorems about the model of src/criteria.rs; correspondence of CriteriaMapper::new, criteria_from_list, minimal_indices with the model (exhaustive small tables + random + malformed); closure/minimal-set oracles and metamorphic verdict-invariance on the real resolve.",
    },
}
CORE_ASSUME = ["identifiers are compared only for equality/order (interned order-preservingly)",
               "BinaryHeap pops a maximal element (ties are value-equal on reachable queues, DESIGN 3.1)",
               "extra_audits_file argument of AuditGraph::build (registry suggestions) not modelled"]
for p, mods, corr in (
    ("C01", ["Vet.Props.Resolve"], ["corr.wire", "corr.depgraph", "corr.mapper", "corr.requirements", "corr.auditgraph", "corr.search", "corr.resolve"]),
    ("C02", ["Vet.Props.Resolve", "Vet.Props.C02Report", "Vet.Props.C06Publishers"], ["corr.wire", "corr.depgraph", "corr.mapper", "corr.requirements", "corr.auditgraph", "corr.search", "corr.resolve", "corr.resolve.report", "corr.publishers"]),
    ("C03", ["Vet.Props.C03"], ["corr.wire", "corr.depgraph", "corr.mapper", "corr.requirements"]),
    ("C04", ["Vet.Props.C04", "Vet.Props.Build", "Vet.Props.C04Keep", "Vet.Props.C11Violation"], ["corr.wire", "corr.mapper", "corr.auditgraph", "corr.resolve", "corr.update", "corr.cmd.wiring", "corr.cmd.ask"]),
    ("C06", ["Vet.Props.Build", "Vet.Props.C15", "Vet.Props.C06Publishers"], ["corr.wire", "corr.mapper", "corr.auditgraph", "corr.publishers"]),
    ("C12", ["Vet.Props.Resolve", "Vet.Props.C12Prune", "Vet.Props.Commands", "Vet.Props.WFCorollaries"], ["corr.wire", "corr.mapper", "corr.auditgraph", "corr.search", "corr.resolve", "corr.update", "corr.cmd.wiring"]),
):
    PROPS[p] = {"lean_modules": mods, "corr": corr, "trusted": CORE_TRUST, "assumptions": CORE_ASSUME,
                "explanation": "Theorems about the model of src/resolver.rs; correspondence of DepGraph::new, resolve_requirements, AuditGraph::build (edge dump), search (three modes) and resolve with the model on generated worlds; specification-level oracles (demand fixpoint, record-level reachability, conflict test) evaluated on the real resolver's output."}

UPD_TRUST = CORE_TRUST + ["final sort() of the rewritten tables is not modelled (outputs compared as sets of kept records)",
                          "command wiring (acquire, commit) exercised on the real code only"]
for p, mods in (("C11", ["Vet.Props.C11", "Vet.Props.Commands", "Vet.Props.Renew", "Vet.Props.C11Violation"]), ("C09", ["Vet.Props.C10", "Vet.Props.Commands", "Vet.Props.WFCorollaries"]), ("C10", ["Vet.Props.C10", "Vet.Props.C10Regen", "Vet.Props.Commands", "Vet.Props.CommandsAsk", "Vet.Props.WFCorollaries"]), ("C13", ["Vet.Props.C13", "Vet.Props.C13Twice"])):
    PROPS[p] = {"lean_modules": mods, "corr": ["corr.wire", "corr.update", "corr.depgraph", "corr.mapper", "corr.requirements", "corr.auditgraph", "corr.search", "corr.resolve"] + (["corr.cmd.wiring", "corr.cmd.ask", "corr.cmd.renew"] if p in ("C10", "C11") else []), "trusted": UPD_TRUST, "assumptions": CORE_ASSUME,
                "shards": {"quick": 8, "thorough": 16},
                "explanation": "Theorems about the model of get_store_updates; correspondence of get_store_updates under six update modes per world; oracles on the real output (function layer) and on the three store files around real commands run on disk against a mock network (command layer)."}

PROPS["C07"] = {"lean_modules": ["Vet.Props.C07", "Vet.Props.C15"], "corr": ["corr.import", "corr.validate", "corr.wire"], "trusted": ["TOML parsing of peer files (whether a raw entry parses is an input flag of the model)", "toml/serde layer"], "assumptions": ["peer criteria names interned per source; table keys unique (sorted maps)"],
                "explanation": "Theorems about the model of the import pipeline; correspondence of Store::mock_online on raw peer TOML served by a mock network (1-2 URLs, unparseable / unknown-criteria / non-importable entries, criteria-map incl. built-in overrides, exclude, lock for staleness marking) with importOne+updateFreshness; leak oracle recomputed from the raw peer data; locked mode: real mock_acquire(--locked) of generated stores whose imports.lock is stale w.r.t. `exclude` or the set of imports vs validate of the model (theorem C07_locked_excluded_refused in Vet.Props.C15)."}

PROPS["C15"] = {"lean_modules": ["Vet.Props.C15"], "corr": ["corr.validate", "corr.import", "corr.wire"], "trusted": ["TOML parser (text-level damage is decided by the real loader only)", "today + 12 months computed by chrono and supplied to the model"], "assumptions": CORE_ASSUME,
                "explanation": "Theorems about the model of Store::validate (incl. the depth-first table check), the resolver's panic sites and the import step; correspondence of the outcome class (refused / verdict / panic class) of the real mock_acquire + resolve with validate + resolve of the model on stores with one defect injected at one of 17 sites; malformed peer files through the import pipeline; text-level damage of the three files under catch_unwind."}
PROPS["C16"] = {"lean_modules": ["Vet.Props.C16"], "corr": ["corr.aggregate"], "trusted": ["entries abstracted to content ids by the harness (Debug rendering)", "final tidy() sort not modelled (lists compared as multisets per package)"], "assumptions": [],
                "explanation": "Theorems about the model of do_aggregate_audits; correspondence with the real routine on 2-3 generated sources; oracles: error-iff, content, loadability, and the verdict with the aggregate imported vs a multi-URL import vs separate imports."}
PROPS["C18"] = {"lean_modules": ["Vet.Props.C18"], "corr": [], "trusted": ["flock(2) exclusion and POSIX read/write semantics of the OS (assumed, not modelled)", "strace's report of the syscall sequence", "NFS / lock-unsupported file systems and Windows are out of scope"], "assumptions": ["each invocation follows the process program of lean/Vet/Model/Lock.lean (checked by trace conformance on the real Store API)"],
                "shards": {"quick": 4, "thorough": 8},
                "explanation": "Theorems about the N-process lock protocol model for all interleavings; tie: syscall-trace conformance of the real Store::acquire_offline/commit with the model's process program, and sampled real schedules (2..6 threads, random think times) checked for lost updates and load errors."}

PROPS["C08"] = {"lean_modules": ["Vet.Props.C08", "Vet.Props.C08Policies", "Vet.Props.C08Meta"], "corr": ["corr.registry", "corr.crate-policies", "corr.audit-as", "corr.same-metadata"], "trusted": ["crates.io index / API JSON shapes (mocked)", "semver ordering of published versions"], "assumptions": ["the mock network stands in for crates.io"],
                "shards": {"quick": 4, "thorough": 8},
                "explanation": "Theorems about the model of the unpublished-version choice, the audit-as-crates-io consistency check and the classification; tie: real cmd_check on disk against a mock registry over registry states, outcome class vs the model, oracles on the recorded choice and on the --locked run after publication."}
PROPS["C17"] = {"lean_modules": ["Vet.Props.C17", "Vet.Props.C17Heal"], "corr": ["corr.suggest", "corr.wire"], "trusted": CORE_TRUST + ["diffstat (mocked |to^2 - from^2| offline)", "which versions have sources (offline rule)"], "assumptions": CORE_ASSUME,
                "explanation": "Theorems about the model of suggest_delta / compute_suggested_criteria / the de-duplication and the healing lemma on the audit graph; tie: the real compute_suggest on failing worlds, recommendation must be a least-cost member of the model's candidates; oracle: certify all proposals for their criteria and re-run the real resolver."}

PROPS["C14"] = {"lean_modules": ["Vet.Props.C14"], "corr": ["corr.serde"], "trusted": ["toml / toml_edit text layer and the layout pass (exercised on the real code only)", "serde derive mechanics", "semver / date printing and parsing"], "assumptions": ["stores that can arise by parsing (no empty versioned policy map, no `:` in unversioned policy names)"],
                "explanation": "Theorems about the model of the hand-written (de)serialisers on TOML value trees; tie: the real serde code vs the model on audit entries and policy tables, and full text round trips of generated stores through the real serialiser and the real loader with the formatting check on (compare, write again, bytes equal)."}
PROPS["C19"] = {"lean_modules": ["Vet.Props.C19"], "corr": ["corr.unpack"], "trusted": ["tar 0.4.38 Entry::unpack_in (modelled from its source, tied by tree correspondence)", "flate2", "the OS file system; power-loss durability not modelled", "crash points are entry boundaries (a corrupt header after k entries)"], "assumptions": [],
                "shards": {"quick": 4, "thorough": 8},
                "explanation": "Theorems about the model of unpack_package / fetch; tie: real Cache::fetch_package on a temp cache with crafted archives cut short after k entries and retried, whole-tree comparison with the model and direct confinement / completeness oracles."}
