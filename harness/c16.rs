// C16: aggregation is faithful.  Real `do_aggregate_audits` vs the model's `aggregate`;
// oracles: content recomputed from the sources, loadability of the output, and the verdict with
// the aggregate imported vs a multi-URL import vs every source imported separately.
use super::*;
use crate::format::*;
use crate::resolver::{self, Conclusion};
use wire::Toks;

const CRATES: [&str; 3] = ["crate-one", "crate-two", "crate-three"];
const CRITS: [&str; 3] = ["x-aaa", "x-bbb", "x-ccc"];

fn src_url(i: usize) -> String {
    format!("https://source{i}.example/audits.toml")
}

/// the criteria definitions the sources of one case share: (implies-next?, extra implies run?)
fn gen_shared(rng: &mut Rng) -> Vec<(bool, bool)> {
    (0..CRITS.len()).map(|i| (i + 1 < CRITS.len() && rng.chance(1, 2), rng.chance(1, 4))).collect()
}

fn gen_source(rng: &mut Rng, shared: &[(bool, bool)], tagbase: usize, disagree: bool, with_grants: bool) -> AuditsFile {
    let mut f = AuditsFile { criteria: SortedMap::new(), wildcard_audits: SortedMap::new(), audits: SortedMap::new(), trusted: SortedMap::new() };
    // a well-formed source defines every criterion its definitions imply
    let mut include = vec![false; CRITS.len()];
    for i in 0..CRITS.len() {
        if rng.chance(2, 3) {
            include[i] = true;
        }
    }
    for i in 0..CRITS.len() {
        if include[i] && shared[i].0 {
            include[i + 1] = true;
        }
    }
    for (i, c) in CRITS.iter().enumerate() {
        if include[i] {
            let mut implies = Vec::new();
            if shared[i].0 {
                implies.push(gen::sp(CRITS[i + 1].to_owned()));
            }
            if shared[i].1 != (disagree && rng.chance(1, 4)) {
                implies.push(gen::sp(SAFE_TO_RUN.to_owned()));
            }
            // differently *written* lists over the same names: reordered, with a repeated
            // entry in place of another one, with an extra repeat, or shortened
            if disagree && !implies.is_empty() && rng.chance(1, 3) {
                match rng.below(5) {
                    0 => implies.reverse(),
                    1 => {
                        let k = rng.below(implies.len());
                        let x = implies[k].clone();
                        for e in implies.iter_mut() {
                            *e = x.clone();
                        }
                    }
                    2 => {
                        let k = rng.below(implies.len());
                        let x = implies[k].clone();
                        implies.push(x);
                    }
                    3 => {
                        let k = rng.below(implies.len());
                        let x = implies[k].clone();
                        implies.insert(0, x);
                        implies.pop();
                    }
                    _ => {
                        implies.pop();
                    }
                }
            }
            f.criteria.insert(
                c.to_string(),
                CriteriaEntry {
                    description: Some(if disagree && rng.chance(1, 4) { "other words".to_owned() } else { format!("about {c}") }),
                    description_url: None,
                    implies,
                    aggregated_from: if rng.chance(1, 4) { vec![gen::sp(if rng.chance(1, 2) { "https://older.example/a.toml".to_owned() } else { src_url((tagbase / 100 + 1 + rng.below(2)) % 3) })] } else { vec![] },
                },
            );
        }
    }
    let defined: Vec<String> = f.criteria.keys().cloned().chain([SAFE_TO_RUN.to_owned(), SAFE_TO_DEPLOY.to_owned()]).collect();
    let versions = ["1.0.0", "2.0.0", "3.0.0"];
    let mut tag = tagbase;
    for c in CRATES.iter() {
        if rng.chance(2, 3) {
            let l: Vec<AuditEntry> = (0..rng.range(1, 3))
                .map(|_| {
                    tag += 1;
                    let kind = match rng.below(5) {
                        0 | 1 => AuditKind::Full { version: VetVersion::parse(versions[rng.below(3)]).unwrap() },
                        2 | 3 => AuditKind::Delta { from: VetVersion::parse(versions[rng.below(3)]).unwrap(), to: VetVersion::parse(versions[rng.below(3)]).unwrap() },
                        _ => AuditKind::Violation { violation: VersionReq::parse("=2.0.0").unwrap() },
                    };
                    AuditEntry {
                        who: vec![],
                        criteria: gen::gen_crit_list(rng, &defined, false),
                        kind,
                        importable: !rng.chance(1, 4),
                        notes: Some(format!("t{tag}")),
                        aggregated_from: if rng.chance(1, 4) { vec![gen::sp(if rng.chance(1, 2) { "https://older.example/a.toml".to_owned() } else { src_url((tagbase / 100 + 1 + rng.below(2)) % 3) })] } else { vec![] },
                        is_fresh_import: false,
                    }
                })
                .collect();
            f.audits.insert(c.to_string(), l);
        }
        if with_grants && rng.chance(1, 3) {
            tag += 1;
            f.wildcard_audits.insert(c.to_string(), vec![WildcardEntry { who: vec![], criteria: gen::gen_crit_list(rng, &defined, false), user_id: rng.range(1, 3) as u64, start: gen::sp(gen::date(0)), end: gen::sp(gen::date(30)), renew: None, notes: Some(format!("t{tag}")), aggregated_from: vec![], is_fresh_import: false }]);
        }
        if with_grants && rng.chance(1, 4) {
            tag += 1;
            f.trusted.insert(c.to_string(), vec![TrustEntry { criteria: gen::gen_crit_list(rng, &defined, false), user_id: rng.range(1, 3) as u64, start: gen::sp(gen::date(0)), end: gen::sp(gen::date(30)), notes: Some(format!("t{tag}")), aggregated_from: vec![] }]);
        }
    }
    f
}

struct Ids {
    strs: Vec<String>,
}
impl Ids {
    fn id(&mut self, s: String) -> usize {
        if let Some(i) = self.strs.iter().position(|x| *x == s) {
            i
        } else {
            self.strs.push(s);
            self.strs.len() - 1
        }
    }
}

fn from_ids(ids: &mut Ids, l: &[crate::serialization::spanned::Spanned<String>]) -> Vec<usize> {
    l.iter().map(|s| ids.id(format!("url:{s}"))).collect()
}

/// canonical view of an aggregated (or model) result: criteria by name, entries per package as
/// sorted (content, provenance) pairs
fn canon_real(ids: &mut Ids, f: &AuditsFile) -> String {
    let mut out = String::new();
    for (name, c) in &f.criteria {
        let imp: Vec<usize> = c.implies.iter().map(|s| ids.id(format!("crit:{s}"))).collect();
        out.push_str(&format!("C{}:{}:{}:{:?}:{:?};", ids.id(format!("crit:{name}")), ids.id(format!("desc:{:?}", c.description)), ids.id(format!("durl:{:?}", c.description_url)), imp, from_ids(ids, &c.aggregated_from)));
    }
    let pk = |n: &str| CRATES.iter().position(|x| *x == n).unwrap();
    for (name, l) in &f.audits {
        let mut v: Vec<(usize, usize, Vec<usize>)> = l.iter().map(|a| { let mut b = a.clone(); b.aggregated_from.clear(); (ids.id(format!("{b:?}")), a.importable as usize, from_ids(ids, &a.aggregated_from)) }).collect();
        v.sort();
        if !v.is_empty() { out.push_str(&format!("A{}:{v:?};", pk(name))); }
    }
    for (name, l) in &f.wildcard_audits {
        let mut v: Vec<(usize, usize, Vec<usize>)> = l.iter().map(|a| { let mut b = a.clone(); b.aggregated_from.clear(); (ids.id(format!("{b:?}")), 1, from_ids(ids, &a.aggregated_from)) }).collect();
        v.sort();
        if !v.is_empty() { out.push_str(&format!("W{}:{v:?};", pk(name))); }
    }
    for (name, l) in &f.trusted {
        let mut v: Vec<(usize, usize, Vec<usize>)> = l.iter().map(|a| { let mut b = a.clone(); b.aggregated_from.clear(); (ids.id(format!("{b:?}")), 1, from_ids(ids, &a.aggregated_from)) }).collect();
        v.sort();
        if !v.is_empty() { out.push_str(&format!("T{}:{v:?};", pk(name))); }
    }
    out
}

fn canon_model(ans: &str) -> String {
    let mut rd = update::Reader::new(ans);
    let mut out = String::new();
    let nc = rd.n();
    let mut crits: Vec<(usize, String)> = Vec::new();
    for _ in 0..nc.min(1000) {
        let name = rd.n();
        let desc = rd.n();
        let durl = rd.n();
        let imp = rd.list();
        let from = rd.list();
        crits.push((name, format!("C{name}:{desc}:{durl}:{imp:?}:{from:?};")));
    }
    // the real table is a map sorted by criterion *name*; ids are not order-preserving, so the
    // caller sorts both renderings — here we keep model order and let `normalise` sort
    for (_, s) in crits {
        out.push_str(&s);
    }
    for tagc in ["A", "W", "T"] {
        let k = rd.n();
        for _ in 0..k.min(1000) {
            let pkg = rd.n();
            let cnt = rd.n();
            let mut v: Vec<(usize, usize, Vec<usize>)> = Vec::new();
            for _ in 0..cnt.min(10000) {
                let c = rd.n();
                let imp = rd.n();
                let from = rd.list();
                v.push((c, imp, from));
            }
            v.sort();
            if !v.is_empty() { out.push_str(&format!("{tagc}{pkg}:{v:?};")); }
        }
    }
    out
}

fn normalise(s: &str) -> String {
    let mut parts: Vec<&str> = s.split(';').filter(|p| !p.is_empty()).collect();
    parts.sort();
    parts.join(";")
}

fn encode(ids: &mut Ids, sources: &[(String, AuditsFile)]) -> String {
    let mut t = Toks::new();
    t.n(sources.len());
    let pk = |n: &str| CRATES.iter().position(|x| *x == n).unwrap();
    for (url, f) in sources {
        t.n(ids.id(format!("url:{url}")));
        t.n(f.criteria.len());
        for (name, c) in &f.criteria {
            t.n(ids.id(format!("crit:{name}"))).n(ids.id(format!("desc:{:?}", c.description))).n(ids.id(format!("durl:{:?}", c.description_url)));
            t.list(&c.implies.iter().map(|s| ids.id(format!("crit:{s}"))).collect::<Vec<_>>());
            t.list(&from_ids(ids, &c.aggregated_from));
        }
        t.n(f.audits.len());
        for (name, l) in &f.audits {
            t.n(pk(name)).n(l.len());
            for a in l {
                let mut b = a.clone();
                b.aggregated_from.clear();
                t.n(ids.id(format!("{b:?}"))).b(a.importable);
                t.list(&from_ids(ids, &a.aggregated_from));
            }
        }
        t.n(f.wildcard_audits.len());
        for (name, l) in &f.wildcard_audits {
            t.n(pk(name)).n(l.len());
            for a in l {
                let mut b = a.clone();
                b.aggregated_from.clear();
                t.n(ids.id(format!("{b:?}"))).b(true);
                t.list(&from_ids(ids, &a.aggregated_from));
            }
        }
        t.n(f.trusted.len());
        for (name, l) in &f.trusted {
            t.n(pk(name)).n(l.len());
            for a in l {
                let mut b = a.clone();
                b.aggregated_from.clear();
                t.n(ids.id(format!("{b:?}"))).b(true);
                t.list(&from_ids(ids, &a.aggregated_from));
            }
        }
    }
    format!("aggregate {}", t.text())
}

fn graph() -> gen::GGraph {
    let mut pkgs = vec![gen::GPkg { name: "rootpkg".into(), version: VetVersion::parse("1.0.0").unwrap(), source: 0, member: true, deps: vec![(1, 1), (2, 1), (3, 1)] }];
    for (i, c) in CRATES.iter().enumerate() {
        pkgs.push(gen::GPkg { name: c.to_string(), version: VetVersion::parse(["1.0.0", "2.0.0", "3.0.0"][i]).unwrap(), source: 1, member: false, deps: vec![] });
    }
    gen::GGraph { pkgs, resolve_order: vec![0, 1, 2, 3], member_order: vec![0] }
}

/// verdict of a project importing `imports` (name -> urls) with the given network
fn verdict(md: &Metadata, network: &Network, imports: &[(String, Vec<String>)], cmap: &CriteriaMap, local: &SortedMap<CriteriaName, CriteriaEntry>) -> String {
    let cfg = mock_cfg(md);
    let mut config = ConfigFile { cargo_vet: Default::default(), default_criteria: get_default_criteria(), imports: SortedMap::new(), policy: Default::default(), exemptions: SortedMap::new() };
    let mut lock = ImportsFile { unpublished: SortedMap::new(), publisher: SortedMap::new(), audits: SortedMap::new() };
    for (name, urls) in imports {
        config.imports.insert(name.clone(), RemoteImport { url: urls.clone(), exclude: vec![], criteria_map: cmap.clone() });
        lock.audits.insert(name.clone(), AuditsFile::default());
    }
    let audits = AuditsFile { criteria: local.clone(), wildcard_audits: SortedMap::new(), audits: SortedMap::new(), trusted: SortedMap::new() };
    match guarded(|| Store::mock_online(&cfg, config, audits, lock, network, true)) {
        Ok(Ok(store)) => match guarded(|| resolver::resolve(md, None, &store)) {
            Ok(rep) => match rep.conclusion {
                Conclusion::Success(_) => "success".to_owned(),
                Conclusion::FailForViolationConflict(f) => format!("violation {:?}", f.violations.iter().map(|(i, _)| *i).collect::<Vec<_>>()),
                Conclusion::FailForVet(f) => format!("failvet {:?}", f.failures.iter().map(|(i, a)| (*i, a.criteria_failures.indices().collect::<Vec<_>>())).collect::<Vec<_>>()),
            },
            Err(p) => panic_class(&p).to_owned(),
        },
        Ok(Err(_)) => "refused".to_owned(),
        Err(p) => panic_class(&p).to_owned(),
    }
}

/// The front end of `cargo vet aggregate`: raw source texts (incl. entries naming criteria the
/// source does not define, alone or next to defined ones) sanitised by the real
/// `foreign_audit_source_to_local_warn`, merged by the real `do_aggregate_audits`.  The output must
/// be a loadable audits file: every criterion it names is a built-in or defined in it, and a store
/// with it as audits.toml is accepted by the loader.
fn dirty_front_end(r: &mut Report, rng: &mut Rng, sources: &[(String, AuditsFile)], descr: &str) {
    let mut texts: Vec<(String, String)> = Vec::new();
    for (u, f) in sources {
        let mut f2 = f.clone();
        let undef = gen::sp("c-not-defined-here".to_owned());
        for l in f2.audits.values_mut() {
            for a in l.iter_mut() {
                if rng.chance(1, 4) { a.criteria.push(undef.clone()); }
            }
        }
        for l in f2.wildcard_audits.values_mut() {
            for a in l.iter_mut() {
                if rng.chance(1, 3) { a.criteria.push(undef.clone()); }
            }
        }
        for l in f2.trusted.values_mut() {
            for a in l.iter_mut() {
                if rng.chance(1, 2) { a.criteria.push(undef.clone()); }
            }
        }
        // entries with only the undefined criterion
        let c0 = CRATES[0].to_string();
        f2.trusted.entry(c0.clone()).or_default().push(TrustEntry { criteria: vec![undef.clone()], user_id: 9, start: gen::sp(gen::date(0)), end: gen::sp(gen::date(30)), notes: None, aggregated_from: vec![] });
        if rng.chance(1, 2) {
            f2.trusted.entry(c0).or_default().push(TrustEntry { criteria: vec![gen::sp(SAFE_TO_RUN.to_owned()), undef.clone()], user_id: 8, start: gen::sp(gen::date(0)), end: gen::sp(gen::date(30)), notes: None, aggregated_from: vec![] });
        }
        let Ok(doc) = crate::serialization::to_formatted_toml(&f2, None) else { return };
        texts.push((u.clone(), doc.to_string()));
    }
    r.oracle_checked += 1;
    let parsed = guarded(|| {
        let mut out = Vec::new();
        for (u, t) in &texts {
            match crate::storage::foreign_audit_source_to_local_warn(u, crate::errors::SourceFile::new(u, t.clone())) {
                Ok(f) => out.push((u.clone(), f)),
                Err(e) => return Err(format!("{e:?}").chars().take(300).collect::<String>()),
            }
        }
        Ok(out)
    });
    let clean = match parsed {
        Ok(Ok(v)) => v,
        Ok(Err(_)) => return,
        Err(p) => {
            if r.prop == "C16" { r.fail("oracle", "C16/front-end-panics", p, descr); }
            return;
        }
    };
    let Ok(Ok(agg)) = guarded(|| crate::do_aggregate_audits(clean)) else { return };
    let defined: BTreeSet<String> = [SAFE_TO_RUN.to_owned(), SAFE_TO_DEPLOY.to_owned()].into_iter().chain(agg.criteria.keys().cloned()).collect();
    let mut named: Vec<String> = Vec::new();
    named.extend(agg.audits.values().flatten().flat_map(|a| a.criteria.iter().map(|c| c.to_string())));
    named.extend(agg.wildcard_audits.values().flatten().flat_map(|a| a.criteria.iter().map(|c| c.to_string())));
    named.extend(agg.trusted.values().flatten().flat_map(|a| a.criteria.iter().map(|c| c.to_string())));
    named.extend(agg.criteria.values().flat_map(|c| c.implies.iter().map(|c| c.to_string())));
    if let Some(bad) = named.iter().find(|c| !defined.contains(*c)) {
        if r.prop == "C16" {
            r.fail("oracle", "C16/aggregate-names-undefined-criterion", format!("the aggregate names `{bad}`, which it does not define"), &format!("{descr}\n=== raw sources\n{}", texts.iter().map(|(u, t)| format!("--- {u}\n{t}")).collect::<Vec<_>>().join("\n")));
        }
        return;
    }
    // accepted by the loader as an audits.toml
    let text = crate::serialization::to_formatted_toml(&agg, None).unwrap().to_string();
    let config = crate::serialization::to_formatted_toml(&ConfigFile { cargo_vet: Default::default(), default_criteria: get_default_criteria(), imports: SortedMap::new(), policy: Default::default(), exemptions: SortedMap::new() }, None).unwrap().to_string();
    match guarded(|| Store::mock_acquire(&config, &text, "", mock_today(), false)) {
        Ok(Ok(_)) => {}
        Ok(Err(e)) => {
            let msg = format!("{e:?}");
            // (wildcard end dates of generated sources may lie beyond the one-year cap: not the point here)
            if r.prop == "C16" && !msg.contains("BadWildcardEndDate") {
                r.fail("oracle", "C16/aggregate-not-accepted-by-loader", msg.chars().take(400).collect(), &format!("{descr}\n=== output\n{text}"));
            }
        }
        Err(p) => {
            if r.prop == "C16" { r.fail("oracle", "C16/loader-panics-on-aggregate", p, &format!("{descr}\n=== output\n{text}")); }
        }
    }
}

pub fn run(r: &mut Report) {
    let mut d = Driver::spawn();
    let (shard, nshards) = shard();
    r.rule = "cases = 2-3 source audit files (overlapping crates and criteria, same or conflicting criteria definitions, non-importable entries, existing aggregated-from chains, wildcard audits and trusted entries); non-trivial = at least two sources share a crate or a criterion; distinct by hash of the encoded case".into();
    let n = if r.thorough() { 24000 } else { 7200 } / nshards;
    let mut rng = Rng::new(r.seed.wrapping_add(shard.wrapping_mul(32452843)) ^ 0xC16);
    let md = graph().metadata();
    for i in 0..n {
        let mut crng = rng.fork();
        let rng = &mut crng;
        let disagree = i % 5 == 0;
        let verdict_case = i % 2 == 0;
        let k = rng.range(2, 3);
        let shared = gen_shared(rng);
        let sources: Vec<(String, AuditsFile)> = (0..k).map(|j| (src_url(j), gen_source(rng, &shared, j * 100, disagree, !verdict_case))).collect();
        r.evaluations += 1;
        let mut ids = Ids { strs: vec![] };
        let line = encode(&mut ids, &sources);
        let real = guarded(|| crate::do_aggregate_audits(sources.clone()));
        let model = d.ask(&line);
        let (real_line, agg) = match real {
            Ok(Ok(f)) => (format!("ok {}", normalise(&canon_real(&mut ids, &f))), Some(f)),
            Ok(Err(_)) => ("none".to_owned(), None),
            Err(p) => (panic_class(&p).to_owned(), None),
        };
        let model_line = match model.strip_prefix("ok ") {
            Some(rest) => format!("ok {}", normalise(&canon_model(rest))),
            None => model.clone(),
        };
        let descr = format!("{line}\n{}", sources.iter().map(|(u, f)| format!("=== {u}\n{}", crate::serialization::to_formatted_toml(f, None).map(|d| d.to_string()).unwrap_or_default())).collect::<Vec<_>>().join("\n"));
        r.corr("corr.aggregate", &real_line, &model_line, &descr);
        r.count(&format!("outcome:{}", real_line.split(' ').next().unwrap()));
        let shares = (0..sources.len()).any(|a| (a + 1..sources.len()).any(|b| sources[a].1.audits.keys().any(|k| sources[b].1.audits.contains_key(k)) || sources[a].1.criteria.keys().any(|k| sources[b].1.criteria.contains_key(k))));
        if shares {
            r.nontrivial(&line);
        }
        if r.samples.len() < 3 {
            r.sample(format!("{} sources -> {}", sources.len(), &real_line[..real_line.len().min(160)]));
        }
        // ---- oracles
        r.oracle_checked += 1;
        // error iff two sources define one criterion differently
        let mut differ = false;
        for a in 0..sources.len() {
            for b in a + 1..sources.len() {
                for (name, ca) in &sources[a].1.criteria {
                    if let Some(cb) = sources[b].1.criteria.get(name) {
                        if ca.description != cb.description || ca.description_url != cb.description_url || ca.implies != cb.implies {
                            differ = true;
                        }
                    }
                }
            }
        }
        if differ != agg.is_none() && r.prop == "C16" {
            r.fail("oracle", "C16/error-iff", format!("sources define a criterion differently: {differ}; aggregation failed: {}", agg.is_none()), &descr);
        }
        dirty_front_end(r, rng, &sources, &descr);
        let Some(agg) = agg else { continue };
        // content: exactly the importable audits / all wildcard / trusted entries, tagged
        for c in CRATES.iter() {
            let mut want: Vec<String> = Vec::new();
            for (u, f) in &sources {
                for a in f.audits.get(*c).map(|v| &v[..]).unwrap_or(&[]) {
                    if a.importable {
                        let mut b = a.clone();
                        b.aggregated_from.push(gen::sp(u.clone()));
                        want.push(format!("{b:?}"));
                    }
                }
            }
            let mut got: Vec<String> = agg.audits.get(*c).map(|v| v.iter().map(|a| format!("{a:?}")).collect()).unwrap_or_default();
            want.sort();
            got.sort();
            if want != got && r.prop == "C16" {
                r.fail("oracle", "C16/content-audits", format!("{c}: aggregate has {} audits, the sources' importable audits are {}", got.len(), want.len()), &descr);
            }
            let wn: usize = sources.iter().map(|(_, f)| f.wildcard_audits.get(*c).map(|v| v.len()).unwrap_or(0)).sum();
            let tn: usize = sources.iter().map(|(_, f)| f.trusted.get(*c).map(|v| v.len()).unwrap_or(0)).sum();
            if (agg.wildcard_audits.get(*c).map(|v| v.len()).unwrap_or(0) != wn || agg.trusted.get(*c).map(|v| v.len()).unwrap_or(0) != tn) && r.prop == "C16" {
                r.fail("oracle", "C16/content-grants", format!("{c}: wildcard/trusted entries lost or invented"), &descr);
            }
        }
        // loadable: the output parses back as the same audits file
        let text = crate::serialization::to_formatted_toml(&agg, None).unwrap().to_string();
        match toml::de::from_str::<AuditsFile>(&text) {
            Ok(back) => {
                if back != agg && r.prop == "C16" {
                    r.fail("oracle", "C16/not-loadable-same", "the aggregate does not read back as the same audits file".into(), &format!("{descr}\n=== output\n{text}"));
                }
            }
            Err(e) => {
                if r.prop == "C16" {
                    r.fail("oracle", "C16/not-loadable", format!("the aggregate does not parse: {e}"), &format!("{descr}\n=== output\n{text}"));
                }
            }
        }
        // verdict: aggregate vs multi-URL vs separate imports under one criteria map
        if verdict_case {
            let mut network = Network::new_mock();
            for (u, f) in &sources {
                network.mock_serve_toml(u, f);
            }
            let agg_url = "https://aggregate.example/audits.toml".to_owned();
            network.mock_serve(&agg_url, &text);
            let local = gen::gen_criteria(rng, 2, true);
            let locals = gen::all_crit_names(&local);
            let mut cmap = CriteriaMap::new();
            for c in CRITS.iter() {
                if rng.chance(2, 3) {
                    cmap.insert(gen::sp(c.to_string()), gen::gen_crit_list(rng, &locals, true));
                }
            }
            let urls: Vec<String> = sources.iter().map(|(u, _)| u.clone()).collect();
            let va = verdict(&md, &network, &[("peer".to_owned(), urls.clone())], &cmap, &local);
            let vb = verdict(&md, &network, &[("peer".to_owned(), vec![agg_url.clone()])], &cmap, &local);
            let vc = verdict(&md, &network, &urls.iter().enumerate().map(|(j, u)| (format!("peer{j}"), vec![u.clone()])).collect::<Vec<_>>(), &cmap, &local);
            r.oracle_checked += 1;
            r.count(&format!("verdict:{}", vb.split(' ').next().unwrap()));
            if (va != vb || vb != vc) && r.prop == "C16" {
                r.fail("oracle", "C16/verdict-differs", format!("multi-URL import: {va}; aggregate imported: {vb}; sources imported separately: {vc}"), &format!("{descr}\ncriteria-map {cmap:?}\nlocal criteria {local:?}"));
            }
        }
    }
    r.count_n("driver-requests", d.requests);
}
