// Encoding of real cargo-vet values into the numeric line protocol of the Lean driver
// (lean/Vet/Model/Wire.lean).  All identifiers are interned order-preservingly.
use super::*;
use crate::criteria::{CriteriaMapper, CriteriaSet};
use crate::format::*;
use crate::resolver::DeltaEdgeOrigin;
use cargo_metadata::DependencyKind;

pub struct Interner {
    pub names: Vec<String>,
    pub vers: Vec<VetVersion>,
    pub crits: Vec<String>,
    pub pkgids: Vec<String>,
}

impl Interner {
    pub fn name(&self, s: &str) -> usize {
        self.names
            .binary_search_by(|x| x.as_str().cmp(s))
            .unwrap_or_else(|_| panic!("name {s} not interned"))
    }
    pub fn ver(&self, v: &VetVersion) -> usize {
        self.vers
            .binary_search(v)
            .unwrap_or_else(|_| panic!("version {v} not interned"))
    }
    pub fn optver(&self, v: Option<&VetVersion>) -> usize {
        match v {
            None => 0,
            Some(v) => self.ver(v) + 1,
        }
    }
    /// index of a criteria name; undefined names get an index >= n
    pub fn crit(&self, s: &str) -> usize {
        match self.crits.iter().position(|c| c == s) {
            Some(i) => i,
            None => self.crits.len() + 7,
        }
    }
    pub fn crit_list<S: AsRef<str>>(&self, l: &[S]) -> Vec<usize> {
        l.iter().map(|c| self.crit(c.as_ref())).collect()
    }
    pub fn pkgid(&self, s: &str) -> usize {
        self.pkgids.binary_search_by(|x| x.as_str().cmp(s)).unwrap()
    }
    pub fn cset(&self, s: &CriteriaSet) -> u64 {
        s.indices().fold(0u64, |a, i| a | (1u64 << i))
    }
    pub fn origin(&self, o: &DeltaEdgeOrigin) -> [usize; 4] {
        match o {
            DeltaEdgeOrigin::StoredLocalAudit {
                audit_index,
                importable,
            } => [0, *audit_index, *importable as usize, 0],
            DeltaEdgeOrigin::ImportedAudit {
                import_index,
                audit_index,
            } => [1, *import_index, *audit_index, 0],
            DeltaEdgeOrigin::WildcardAudit {
                import_index,
                audit_index,
                publisher_index,
            } => [
                2,
                import_index.map(|i| i + 1).unwrap_or(0),
                *audit_index,
                *publisher_index,
            ],
            DeltaEdgeOrigin::Trusted { publisher_index } => [3, *publisher_index, 0, 0],
            DeltaEdgeOrigin::Exemption { exemption_index } => [4, *exemption_index, 0, 0],
            DeltaEdgeOrigin::Unpublished { unpublished_index } => [5, *unpublished_index, 0, 0],
            DeltaEdgeOrigin::FreshExemption { version } => [6, self.ver(version), 0, 0],
        }
    }
}

pub struct Toks(pub Vec<u64>);
impl Toks {
    pub fn new() -> Self {
        Toks(Vec::new())
    }
    pub fn n(&mut self, x: usize) -> &mut Self {
        self.0.push(x as u64);
        self
    }
    pub fn b(&mut self, x: bool) -> &mut Self {
        self.0.push(x as u64);
        self
    }
    pub fn list(&mut self, xs: &[usize]) -> &mut Self {
        self.n(xs.len());
        for &x in xs {
            self.n(x);
        }
        self
    }
    pub fn ext(&mut self, o: &Toks) -> &mut Self {
        self.0.extend_from_slice(&o.0);
        self
    }
    pub fn text(&self) -> String {
        let mut s = String::with_capacity(self.0.len() * 3);
        for (i, x) in self.0.iter().enumerate() {
            if i > 0 {
                s.push(' ');
            }
            s.push_str(&x.to_string());
        }
        s
    }
}

pub fn day(d: &chrono::NaiveDate) -> usize {
    use chrono::Datelike;
    d.num_days_from_ce() as usize
}

pub fn audit_versions(a: &AuditEntry, out: &mut BTreeSet<VetVersion>) {
    match &a.kind {
        AuditKind::Full { version } => {
            out.insert(version.clone());
        }
        AuditKind::Delta { from, to } => {
            out.insert(from.clone());
            out.insert(to.clone());
        }
        AuditKind::Violation { .. } => {}
    }
}

/// Collect every name / version / criterion that occurs in the case.
pub fn interner(md: &Metadata, store: &Store) -> Interner {
    let mut names = BTreeSet::new();
    let mut vers = BTreeSet::new();
    let mut pkgids = BTreeSet::new();
    for p in &md.packages {
        names.insert(p.name.clone());
        vers.insert(p.vet_version());
        pkgids.insert(p.id.repr.clone());
    }
    let mut files: Vec<&AuditsFile> = store.imported_audits().values().collect();
    files.push(&store.audits);
    if store.live_imports.is_some() {
        files.extend(store.imports.audits.values());
    }
    for f in files {
        for (n, l) in &f.audits {
            names.insert(n.clone());
            for a in l {
                audit_versions(a, &mut vers);
            }
        }
        for n in f.wildcard_audits.keys().chain(f.trusted.keys()) {
            names.insert(n.clone());
        }
    }
    let mut imports: Vec<&ImportsFile> = vec![&store.imports];
    if let Some(l) = &store.live_imports {
        imports.push(l);
    }
    for i in imports {
        for (n, l) in &i.publisher {
            names.insert(n.clone());
            for p in l {
                vers.insert(p.version.clone());
            }
        }
        for (n, l) in &i.unpublished {
            names.insert(n.clone());
            for u in l {
                vers.insert(u.version.clone());
                vers.insert(u.audited_as.clone());
            }
        }
    }
    for (n, l) in &store.config.exemptions {
        names.insert(n.clone());
        for e in l {
            vers.insert(e.version.clone());
        }
    }
    for (n, p) in &store.config.policy.package {
        names.insert(n.clone());
        let entries: Vec<&PolicyEntry> = match p {
            PackagePolicyEntry::Unversioned(e) => vec![e],
            PackagePolicyEntry::Versioned { version } => {
                for v in version.keys() {
                    vers.insert(v.clone());
                }
                version.values().collect()
            }
        };
        for e in entries {
            for k in e.dependency_criteria.keys() {
                names.insert((**k).clone());
            }
        }
    }
    let mut crits = vec![SAFE_TO_RUN.to_owned(), SAFE_TO_DEPLOY.to_owned()];
    crits.extend(store.audits.criteria.keys().cloned());
    Interner {
        names: names.into_iter().collect(),
        vers: vers.into_iter().collect(),
        crits,
        pkgids: pkgids.into_iter().collect(),
    }
}

pub fn enc_table(criteria: &SortedMap<CriteriaName, CriteriaEntry>) -> Toks {
    let mut names = vec![SAFE_TO_RUN.to_owned(), SAFE_TO_DEPLOY.to_owned()];
    names.extend(criteria.keys().cloned());
    let n = names.len();
    let mut t = Toks::new();
    t.n(criteria.len());
    for (name, e) in criteria {
        let clash = if name == SAFE_TO_RUN {
            1
        } else if name == SAFE_TO_DEPLOY {
            2
        } else {
            0
        };
        t.n(clash);
        let imp: Vec<usize> = e
            .implies
            .iter()
            .map(|i| names.iter().position(|x| x == &**i).unwrap_or(n + 7))
            .collect();
        t.list(&imp);
    }
    t
}

pub fn enc_audit(it: &Interner, a: &AuditEntry, t: &mut Toks) {
    match &a.kind {
        AuditKind::Full { version } => {
            t.n(0).n(it.ver(version));
        }
        AuditKind::Delta { from, to } => {
            t.n(1).n(it.ver(from)).n(it.ver(to));
        }
        AuditKind::Violation { violation } => {
            let m: Vec<usize> = it
                .vers
                .iter()
                .enumerate()
                .filter(|(_, v)| violation.0.matches(&v.semver))
                .map(|(i, _)| i)
                .collect();
            t.n(2).list(&m);
        }
    }
    t.list(&it.crit_list(&a.criteria));
    t.b(a.importable).b(a.is_fresh_import);
}

fn enc_afile(it: &Interner, f: &AuditsFile, t: &mut Toks) {
    t.n(f.audits.len());
    for (name, l) in &f.audits {
        t.n(it.name(name)).n(l.len());
        for a in l {
            enc_audit(it, a, t);
        }
    }
    t.n(f.wildcard_audits.len());
    for (name, l) in &f.wildcard_audits {
        t.n(it.name(name)).n(l.len());
        for w in l {
            t.n(w.user_id as usize).n(day(&w.start)).n(day(&w.end));
            t.list(&it.crit_list(&w.criteria));
            t.b(w.is_fresh_import);
        }
    }
}

fn enc_policy_entry(it: &Interner, e: &PolicyEntry, t: &mut Toks) {
    t.n(match e.audit_as_crates_io {
        None => 0,
        Some(false) => 1,
        Some(true) => 2,
    });
    for l in [&e.criteria, &e.dev_criteria] {
        match l {
            None => {
                t.n(0);
            }
            Some(l) => {
                t.n(1).list(&it.crit_list(l));
            }
        }
    }
    t.n(e.dependency_criteria.len());
    for (k, l) in &e.dependency_criteria {
        t.n(it.name(k)).list(&it.crit_list(l));
    }
}

pub fn enc_meta(it: &Interner, md: &Metadata, t: &mut Toks) {
    let resolve = &md.resolve.as_ref().unwrap().nodes;
    let raw_of = |id: &cargo_metadata::PackageId| resolve.iter().position(|n| &n.id == id).unwrap();
    t.n(resolve.len());
    for node in resolve {
        let p = md.packages.iter().find(|p| p.id == node.id).unwrap();
        t.n(it.name(&p.name))
            .n(it.ver(&p.vet_version()))
            .n(it.pkgid(&p.id.repr))
            .b(p.is_crates_io());
        t.n(node.deps.len());
        for d in &node.deps {
            let mut mask = 0;
            for k in &d.dep_kinds {
                mask |= match k.kind {
                    DependencyKind::Normal => 1,
                    DependencyKind::Build => 2,
                    DependencyKind::Development => 4,
                    _ => 0,
                };
            }
            t.n(raw_of(&d.pkg)).n(mask);
        }
    }
    t.n(md.workspace_members.len());
    for m in &md.workspace_members {
        t.n(raw_of(m));
    }
}

pub fn enc_store(it: &Interner, store: &Store, t: &mut Toks) {
    let imps = store.imported_audits();
    t.n(imps.len());
    for f in imps.values() {
        enc_afile(it, f, t);
    }
    enc_afile(it, &store.audits, t);
    t.n(store.audits.trusted.len());
    for (name, l) in &store.audits.trusted {
        t.n(it.name(name)).n(l.len());
        for e in l {
            t.n(e.user_id as usize).n(day(&e.start)).n(day(&e.end));
            t.list(&it.crit_list(&e.criteria));
        }
    }
    let pubs = store.publishers();
    t.n(pubs.len());
    for (name, l) in pubs {
        t.n(it.name(name)).n(l.len());
        for p in l {
            t.n(it.ver(&p.version))
                .n(p.user_id as usize)
                .n(day(&p.when))
                .b(p.is_fresh_import);
        }
    }
    let un = store.unpublished();
    t.n(un.len());
    for (name, l) in un {
        t.n(it.name(name)).n(l.len());
        for u in l {
            t.n(it.ver(&u.version))
                .n(it.ver(&u.audited_as))
                .b(u.is_fresh_import);
        }
    }
    t.n(store.config.exemptions.len());
    for (name, l) in &store.config.exemptions {
        t.n(it.name(name)).n(l.len());
        for e in l {
            t.n(it.ver(&e.version));
            t.list(&it.crit_list(&e.criteria));
            t.b(e.suggest);
        }
    }
    let pol = &store.config.policy.package;
    t.n(pol.len());
    for (name, p) in pol {
        t.n(it.name(name));
        match p {
            PackagePolicyEntry::Unversioned(e) => {
                t.n(0);
                enc_policy_entry(it, e, t);
            }
            PackagePolicyEntry::Versioned { version } => {
                t.n(1).n(version.len());
                for (v, e) in version {
                    t.n(it.ver(v));
                    enc_policy_entry(it, e, t);
                }
            }
        }
    }
}

pub fn enc_world(md: &Metadata, store: &Store) -> (Interner, String) {
    let it = interner(md, store);
    let mut t = enc_table(&store.audits.criteria);
    enc_meta(&it, md, &mut t);
    enc_store(&it, store, &mut t);
    let text = format!("world {}", t.text());
    (it, text)
}

/// canonical content tokens of an audit entry inside a conflict (as `auditToks` in Wire.lean)
pub fn conflict_audit_toks(it: &Interner, a: &AuditEntry, t: &mut Toks) {
    let mut full = Toks::new();
    enc_audit(it, a, &mut full);
    // drop the trailing `fresh` flag
    full.0.pop();
    t.ext(&full);
}
