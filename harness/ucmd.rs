// User commands with their clean-up: certify / trust / import / add-exemption /
// record-violation / renew / regenerate unpublished / init, next to check / prune / regenerate
// imports, run as the real `cmd_*` functions on a store directory on disk.
//
// Tie (`corr.cmd.wiring.<cmd>`): the files a command leaves are compared with a replica of the
// command assembled from (a) the entry the user asked for, built here from the arguments, and
// (b) the real `update_store` driven by the mode table of the Lean model (Vet/Model/Commands.lean,
// request `cmdmode`) — so the model's wiring table is what is checked against main.rs.
//
// Oracles (independent of the replica): C10 — a store that vets still vets after the clean-up;
// C11 — apart from the entry asked for, nothing is added or broadened and crates other than the
// target are untouched; C12 — after a clean-up that prunes the target's exemptions, each
// remaining exemption criterion of the target is needed.
use super::*;
use crate::format::*;
use crate::resolver::{self, Conclusion, SearchMode, UpdateMode};
use cmd::{CmdWorld, Outcome, Project};
use crate::storage::Cache;

#[derive(Clone, Debug)]
pub enum UCmd {
    Check,
    Prune { no_exemptions: bool, no_audits: bool, no_imports: bool },
    RegenImports,
    RegenUnpublished,
    RegenAuditAs,
    CertifyFull { pkg: String, v: VetVersion, crit: Vec<String> },
    CertifyDelta { pkg: String, from: VetVersion, to: VetVersion, crit: Vec<String>, collapse: bool },
    CertifyWildcard { pkg: String, login: String, crit: Vec<String>, end: Option<chrono::NaiveDate> },
    Trust { pkg: String, login: String, crit: Vec<String> },
    Import { name: String, url: String },
    AddExemption { pkg: String, v: VetVersion, crit: Vec<String>, no_suggest: bool },
    RecordViolation { pkg: String, req: String, crit: Vec<String> },
    Renew { krate: Option<String> },
}

impl UCmd {
    pub fn args(&self) -> Vec<String> {
        let s = |x: &str| x.to_owned();
        let mut a: Vec<String> = Vec::new();
        let crits = |a: &mut Vec<String>, c: &Vec<String>| {
            for x in c {
                a.push(s("--criteria"));
                a.push(x.clone());
            }
        };
        match self {
            UCmd::Check => {}
            UCmd::Prune { no_exemptions, no_audits, no_imports } => {
                a.push(s("prune"));
                if *no_exemptions { a.push(s("--no-exemptions")); }
                if *no_audits { a.push(s("--no-audits")); }
                if *no_imports { a.push(s("--no-imports")); }
            }
            UCmd::RegenImports => a.extend([s("regenerate"), s("imports")]),
            UCmd::RegenUnpublished => a.extend([s("regenerate"), s("unpublished")]),
            UCmd::RegenAuditAs => a.extend([s("regenerate"), s("audit-as-crates-io")]),
            UCmd::CertifyFull { pkg, v, crit } => {
                a.extend([s("certify"), pkg.clone(), v.to_string()]);
                crits(&mut a, crit);
                a.extend([s("--who"), s("tester"), s("--accept-all")]);
            }
            UCmd::CertifyDelta { pkg, from, to, crit, collapse } => {
                a.extend([s("certify"), pkg.clone(), from.to_string(), to.to_string()]);
                crits(&mut a, crit);
                a.extend([s("--who"), s("tester"), s("--accept-all")]);
                if !collapse { a.push(s("--no-collapse")); }
            }
            UCmd::CertifyWildcard { pkg, login, crit, end } => {
                a.extend([s("certify"), pkg.clone(), s("--wildcard"), login.clone()]);
                crits(&mut a, crit);
                if let Some(e) = end {
                    a.extend([s("--end-date"), e.to_string()]);
                }
                a.extend([s("--who"), s("tester"), s("--accept-all")]);
            }
            UCmd::Trust { pkg, login, crit } => {
                a.extend([s("trust"), pkg.clone(), login.clone()]);
                crits(&mut a, crit);
            }
            UCmd::Import { name, url } => a.extend([s("import"), name.clone(), url.clone()]),
            UCmd::AddExemption { pkg, v, crit, no_suggest } => {
                a.extend([s("add-exemption"), pkg.clone(), v.to_string()]);
                crits(&mut a, crit);
                if *no_suggest { a.push(s("--no-suggest")); }
            }
            UCmd::RecordViolation { pkg, req, crit } => {
                a.extend([s("record-violation"), pkg.clone(), req.clone()]);
                crits(&mut a, crit);
                a.extend([s("--who"), s("tester")]);
            }
            UCmd::Renew { krate } => {
                a.push(s("renew"));
                match krate { Some(k) => a.push(k.clone()), None => a.push(s("--expiring")) }
            }
        }
        a
    }
    pub fn label(&self) -> &'static str {
        match self {
            UCmd::Check => "check",
            UCmd::Prune { .. } => "prune",
            UCmd::RegenImports => "regenerate-imports",
            UCmd::RegenUnpublished => "regenerate-unpublished",
            UCmd::RegenAuditAs => "regenerate-audit-as",
            UCmd::CertifyFull { .. } => "certify-full",
            UCmd::CertifyDelta { .. } => "certify-delta",
            UCmd::CertifyWildcard { .. } => "certify-wildcard",
            UCmd::Trust { .. } => "trust",
            UCmd::Import { .. } => "import",
            UCmd::AddExemption { .. } => "add-exemption",
            UCmd::RecordViolation { .. } => "record-violation",
            UCmd::Renew { .. } => "renew",
        }
    }
    /// the crate the command is about (whose entries the clean-up may prune)
    pub fn target(&self) -> Option<&str> {
        match self {
            UCmd::CertifyFull { pkg, .. } | UCmd::CertifyDelta { pkg, .. } | UCmd::CertifyWildcard { pkg, .. } | UCmd::Trust { pkg, .. }
            | UCmd::AddExemption { pkg, .. } | UCmd::RecordViolation { pkg, .. } => Some(pkg),
            _ => None,
        }
    }
    /// (code, a, b, c, has-target) of the model's `Cmd`; None = the command runs no update
    fn model_cmd(&self) -> Option<(u32, bool, bool, bool)> {
        match self {
            UCmd::Check => Some((0, false, false, false)),
            UCmd::Prune { no_exemptions, no_audits, no_imports } => Some((1, *no_exemptions, *no_audits, *no_imports)),
            UCmd::RegenImports => Some((2, false, false, false)),
            UCmd::RegenUnpublished => Some((4, false, false, false)),
            UCmd::Import { .. } => Some((6, false, false, false)),
            UCmd::CertifyFull { .. } | UCmd::CertifyDelta { .. } | UCmd::CertifyWildcard { .. } => Some((7, false, false, false)),
            UCmd::Trust { .. } => Some((8, false, false, false)),
            UCmd::AddExemption { .. } | UCmd::RecordViolation { .. } | UCmd::Renew { .. } | UCmd::RegenAuditAs => None,
        }
    }
}

/// the `UpdateMode` the Lean model's wiring table gives the command for a crate name
pub fn model_mode(d: &mut Driver, uc: &UCmd, name: &str) -> Option<UpdateMode> {
    let (code, a, b, c) = uc.model_cmd()?;
    let is_target = uc.target() == Some(name);
    let line = format!("cmdmode {code} {} {} {} 1 {}", a as u8, b as u8, c as u8, if is_target { 1 } else { 0 });
    let ans = d.ask(&line);
    let t: Vec<u32> = ans.strip_prefix("ok ")?.split(' ').filter_map(|x| x.parse().ok()).collect();
    if t.len() != 4 {
        return None;
    }
    Some(UpdateMode {
        search_mode: match t[0] { 0 => SearchMode::PreferExemptions, 1 => SearchMode::PreferFreshImports, _ => SearchMode::RegenerateExemptions },
        prune_exemptions: t[1] != 0,
        prune_non_importable_audits: t[2] != 0,
        prune_imports: t[3] != 0,
    })
}

/// minimal generating names of the closure of `crit`, in table order (what the real
/// `criteria_picker` is documented to return: the list without implied members)
fn minimal_names(spec: &core::Spec, crit: &[String]) -> Option<Vec<String>> {
    let s = spec.cl(crit)?;
    let mut out = Vec::new();
    for i in 0..spec.crits.len() {
        if s & (1 << i) == 0 {
            continue;
        }
        let implied_by_other = (0..spec.crits.len()).any(|j| j != i && s & (1 << j) != 0 && spec.closure[j] & (1 << i) != 0);
        if !implied_by_other {
            out.push(spec.crits[i].clone());
        }
    }
    Some(out)
}

fn spanned(l: &[String]) -> Vec<crate::serialization::spanned::Spanned<String>> {
    l.iter().map(|s| gen::sp(s.clone())).collect()
}

fn verdict_of(md: &Metadata, store: &Store) -> String {
    match guarded(|| match resolver::resolve(md, None, store).conclusion {
        Conclusion::Success(_) => "success".to_owned(),
        Conclusion::FailForViolationConflict(_) => "violation".to_owned(),
        Conclusion::FailForVet(_) => "failvet".to_owned(),
    }) {
        Ok(s) => s,
        Err(e) => format!("panic {e}"),
    }
}

/// Replica of the command on the store directory as it is now; does not write.
/// Err(_) = the replica refuses (the real command must then fail too).
fn replica(p: &Project, uc: &UCmd, d: &mut Driver) -> Result<Vec<String>, String> {
    let argv = uc.args();
    let args: Vec<&str> = argv.iter().map(|s| s.as_str()).collect();
    let cfg = p.cfg(&args);
    let res = guarded(|| -> Result<SortedMap<String, String>, String> {
        let network = Network::acquire(&cfg);
        let e2s = |e: &dyn std::fmt::Debug| format!("{e:?}").chars().take(300).collect::<String>();
        let mut store = match uc {
            UCmd::AddExemption { .. } | UCmd::RecordViolation { .. } | UCmd::Import { .. } => Store::acquire_offline(&cfg).map_err(|e| e2s(&e))?,
            UCmd::RegenImports => Store::acquire(&cfg, network.as_ref(), true).map_err(|e| e2s(&e))?,
            _ => Store::acquire(&cfg, network.as_ref(), false).map_err(|e| e2s(&e))?,
        };
        let spec = core::Spec::new(&store.audits.criteria).ok_or("bad criteria table")?;
        let foreign = |store: &Store, pkg: &str| crate::foreign_packages(&cfg.metadata, &store.config).any(|q| q.name == pkg);
        let who = vec![gen::sp("tester".to_owned())];
        match uc {
            UCmd::Check => {
                // the preflight of an unlocked check (main.rs:2190-2202)
                let mut cache = Cache::acquire(&cfg).map_err(|e| e2s(&e))?;
                crate::check_crate_policies(&cfg, &store).map_err(|e| e2s(&e))?;
                tokio::runtime::Handle::current().block_on(crate::check_audit_as_crates_io(&cfg, &store, network.as_ref(), &mut cache)).map_err(|e| e2s(&e))?;
                let ok = matches!(resolver::resolve(&cfg.metadata, None, &store).conclusion, Conclusion::Success(_));
                if !ok {
                    return Err("check fails".into());
                }
            }
            UCmd::Prune { .. } | UCmd::RegenImports => {}
            UCmd::RegenUnpublished => {
                if let Some(live) = &mut store.live_imports {
                    for l in live.unpublished.values_mut() {
                        l.retain(|u| u.is_fresh_import);
                        for u in l.iter_mut() {
                            u.is_fresh_import = false;
                        }
                    }
                }
            }
            UCmd::CertifyFull { pkg, v, crit } => {
                if !foreign(&store, pkg) { return Err("not a package".into()); }
                let criteria = spanned(&minimal_names(&spec, crit).ok_or("unknown criterion")?);
                store.audits.audits.entry(pkg.clone()).or_default().push(AuditEntry { who, criteria, importable: v.git_rev.is_none(), kind: AuditKind::Full { version: v.clone() }, notes: None, aggregated_from: vec![], is_fresh_import: false });
            }
            UCmd::CertifyDelta { from, collapse: true, .. } if from.git_rev.is_some() => return Err("no replica".into()),
            UCmd::CertifyDelta { pkg, from, to, crit, .. } => {
                if !foreign(&store, pkg) { return Err("not a package".into()); }
                let criteria = spanned(&minimal_names(&spec, crit).ok_or("unknown criterion")?);
                store.audits.audits.entry(pkg.clone()).or_default().push(AuditEntry { who, criteria, importable: from.git_rev.is_none() && to.git_rev.is_none(), kind: AuditKind::Delta { from: from.clone(), to: to.clone() }, notes: None, aggregated_from: vec![], is_fresh_import: false });
            }
            UCmd::CertifyWildcard { pkg, login, crit, end } => {
                if !foreign(&store, pkg) { return Err("not a package".into()); }
                let pubs = store.ensure_publisher_versions(&cfg, network.as_ref(), pkg).map_err(|e| e2s(&e))?.to_vec();
                let earliest = pubs.iter().filter(|q| &q.user_login == login).min_by_key(|q| q.when).ok_or("not a publisher")?.clone();
                let max_end = cfg.today() + chrono::Months::new(12);
                let e = end.unwrap_or(max_end);
                if e > max_end { return Err("bad end date".into()); }
                let criteria = spanned(&minimal_names(&spec, crit).ok_or("unknown criterion")?);
                store.audits.wildcard_audits.entry(pkg.clone()).or_default().push(WildcardEntry { who, criteria, user_id: earliest.user_id, start: earliest.when.into(), end: e.into(), renew: end.map(|_| false), notes: None, aggregated_from: vec![], is_fresh_import: false });
            }
            UCmd::Trust { pkg, login, crit } => {
                let pubs = store.ensure_publisher_versions(&cfg, network.as_ref(), pkg).map_err(|e| e2s(&e))?.to_vec();
                let earliest = pubs.iter().filter(|q| &q.user_login == login).min_by_key(|q| q.when).ok_or("not a publisher")?.clone();
                let start = earliest.when;
                let end = cfg.today() + chrono::Months::new(12);
                let criteria = spanned(&minimal_names(&spec, crit).ok_or("unknown criterion")?);
                let l = store.audits.trusted.entry(pkg.clone()).or_default();
                // an existing entry for the same user and criteria whose window lies inside the new one is widened
                if let Some(t) = l.iter_mut().find(|t| t.criteria == criteria && t.user_id == earliest.user_id && start <= *t.start && *t.end <= end) {
                    t.start = start.into();
                    t.end = end.into();
                } else {
                    l.push(TrustEntry { criteria, user_id: earliest.user_id, start: start.into(), end: end.into(), notes: None, aggregated_from: vec![] });
                }
            }
            UCmd::Import { name, url } => {
                let Some(network) = network.as_ref() else { return Err("frozen".into()) };
                store.config.imports.entry(name.clone()).or_default().url = vec![url.clone()];
                let cache = Cache::acquire(&cfg).map_err(|e| e2s(&e))?;
                tokio::runtime::Handle::current().block_on(store.go_online(&cfg, network, &cache, false)).map_err(|e| e2s(&e))?;
            }
            UCmd::AddExemption { pkg, v, crit, no_suggest } => {
                if !foreign(&store, pkg) { return Err("not a package".into()); }
                store.config.exemptions.entry(pkg.clone()).or_default().push(ExemptedDependency { version: v.clone(), criteria: spanned(crit), suggest: !no_suggest, notes: None });
            }
            UCmd::RecordViolation { pkg, req, crit } => {
                if !foreign(&store, pkg) { return Err("not a package".into()); }
                store.audits.audits.entry(pkg.clone()).or_default().push(AuditEntry { who, criteria: spanned(crit), importable: true, kind: AuditKind::Violation { violation: VersionReq::parse(req).map_err(|e| e2s(&e))? }, notes: None, aggregated_from: vec![], is_fresh_import: false });
            }
            UCmd::Renew { .. } | UCmd::RegenAuditAs => return Err("no replica".into()),
        }
        if uc.model_cmd().is_some() {
            let mut names: BTreeSet<String> = cfg.metadata.packages.iter().map(|q| q.name.clone()).collect();
            names.extend(store.config.exemptions.keys().cloned());
            names.extend(store.audits.audits.keys().cloned());
            if let Some(t) = uc.target() { names.insert(t.to_owned()); }
            let mut modes: BTreeMap<String, UpdateMode> = BTreeMap::new();
            let other = model_mode(d, uc, "\u{0}other").ok_or("driver: cmdmode")?;
            for n in &names {
                modes.insert(n.clone(), model_mode(d, uc, n).ok_or("driver: cmdmode")?);
            }
            resolver::update_store(&cfg, &mut store, |name| modes.get(name).copied().unwrap_or(other));
        }
        Ok(store.mock_commit())
    });
    match res {
        Ok(Ok(files)) => Ok(["audits.toml", "config.toml", "imports.lock"].iter().map(|f| files.get(*f).cloned().unwrap_or_default()).collect()),
        Ok(Err(e)) => Err(e),
        Err(m) => Err(m),
    }
}

fn load(files: &[String]) -> Option<Store> {
    match guarded(|| Store::mock_acquire(&files[1], &files[0], &files[2], mock_today(), false)) {
        Ok(Ok(s)) => Some(s),
        _ => None,
    }
}

/// C11 around a user command: apart from the entry asked for, nothing is added or broadened,
/// and crates other than the target are untouched.
fn c11_user(r: &mut Report, uc: &UCmd, before: &[String], after: &[String], live_after: Option<&Store>, case: &str) {
    let (Some(b), Some(a)) = (load(before), load(after)) else { return };
    let Some(spec) = core::Spec::new(&b.audits.criteria) else { return };
    r.oracle_checked += 1;
    let lab = uc.label();
    let target = uc.target();
    let prunes_all = matches!(uc, UCmd::Import { .. } | UCmd::Prune { .. } | UCmd::RegenImports);
    if a.audits.criteria != b.audits.criteria {
        r.fail("oracle", "C11/ucmd/criteria-changed", format!("`{lab}` changed the criteria table"), case);
    }
    // policy: untouched; `regenerate audit-as-crates-io` may set or clear that one flag (and add
    // entries that carry nothing else), never anything a user wrote next to it
    let rest_of = |pol: &Policy| -> Vec<String> {
        let mut v = Vec::new();
        for (name, version, e) in pol.iter() {
            if e.criteria.is_some() || e.dev_criteria.is_some() || !e.dependency_criteria.is_empty() || e.notes.is_some() {
                v.push(format!("{name}:{version:?} criteria={:?} dev={:?} deps={:?} notes={:?}", e.criteria, e.dev_criteria, e.dependency_criteria, e.notes));
            }
        }
        v.sort();
        v
    };
    let policy_same = if matches!(uc, UCmd::RegenAuditAs) { rest_of(&a.config.policy) == rest_of(&b.config.policy) } else { format!("{:?}", a.config.policy) == format!("{:?}", b.config.policy) };
    if !policy_same || a.config.default_criteria != b.config.default_criteria {
        r.fail("oracle", "C11/ucmd/policy-changed", format!("`{lab}` changed policy: {:?} -> {:?}", rest_of(&b.config.policy), rest_of(&a.config.policy)), case);
    }
    // import configuration
    for (n, i) in &a.config.imports {
        let same = b.config.imports.get(n).map(|o| format!("{o:?}") == format!("{i:?}")).unwrap_or(false);
        let asked = matches!(uc, UCmd::Import { name, url } if name == n && i.url == vec![url.clone()]
            && b.config.imports.get(n).map(|o| o.exclude == i.exclude && format!("{:?}", o.criteria_map) == format!("{:?}", i.criteria_map)).unwrap_or(i.exclude.is_empty() && i.criteria_map.is_empty()));
        if !same && !asked {
            r.fail("oracle", "C11/ucmd/imports-config-changed", format!("`{lab}`: import `{n}` configuration changed"), case);
        }
    }
    if b.config.imports.keys().any(|n| !a.config.imports.contains_key(n)) {
        r.fail("oracle", "C11/ucmd/imports-config-changed", format!("`{lab}` removed an import"), case);
    }
    // wildcard audits
    let mut names: BTreeSet<&String> = a.audits.wildcard_audits.keys().collect();
    names.extend(b.audits.wildcard_audits.keys());
    for n in names {
        let old = b.audits.wildcard_audits.get(n).cloned().unwrap_or_default();
        let new = a.audits.wildcard_audits.get(n).cloned().unwrap_or_default();
        if old == new {
            continue;
        }
        let mut rest = new.clone();
        let mut missing = Vec::new();
        for o in &old {
            let renewed = |x: &WildcardEntry| matches!(uc, UCmd::Renew { krate } if krate.as_ref().map(|k| k == n).unwrap_or(true)) && o.renew != Some(false)
                && WildcardEntry { end: o.end.clone(), ..x.clone() } == *o && *x.end >= *o.end;
            if let Some(i) = rest.iter().position(|x| x == o).or_else(|| rest.iter().position(|x| renewed(x))) {
                rest.remove(i);
            } else {
                missing.push(o.clone());
            }
        }
        if !missing.is_empty() {
            r.fail("oracle", "C11/ucmd/wildcard-audit-altered", format!("`{lab}`: wildcard audits of {n} removed or altered: {missing:?}"), case);
        }
        let asked_ok = match uc {
            UCmd::CertifyWildcard { pkg, crit, .. } if pkg == n => rest.len() == 1 && spec.cl(&rest[0].criteria) == spec.cl(crit),
            _ => rest.is_empty(),
        };
        if !asked_ok {
            r.fail("oracle", "C11/ucmd/wildcard-audit-added", format!("`{lab}`: wildcard audits of {n} gained {rest:?}"), case);
        }
    }
    // trusted entries
    let mut names: BTreeSet<&String> = a.audits.trusted.keys().collect();
    names.extend(b.audits.trusted.keys());
    for n in names {
        let old = b.audits.trusted.get(n).cloned().unwrap_or_default();
        let new = a.audits.trusted.get(n).cloned().unwrap_or_default();
        if old == new {
            continue;
        }
        let ok = match uc {
            UCmd::Trust { pkg, crit, .. } if pkg == n => {
                // one entry added, or one entry's window widened; everything else as it was
                let mut rest = new.clone();
                let mut unmatched: Vec<TrustEntry> = Vec::new();
                for o in &old {
                    if let Some(i) = rest.iter().position(|x| x == o) { rest.remove(i); } else { unmatched.push(o.clone()); }
                }
                rest.len() == 1 && spec.cl(&rest[0].criteria) == spec.cl(crit)
                    && (unmatched.is_empty() || (unmatched.len() == 1 && unmatched[0].user_id == rest[0].user_id && spec.cl(&unmatched[0].criteria) == spec.cl(&rest[0].criteria)
                        && *rest[0].start <= *unmatched[0].start && *unmatched[0].end <= *rest[0].end))
            }
            _ => false,
        };
        if !ok {
            r.fail("oracle", "C11/ucmd/trusted-changed", format!("`{lab}`: trusted entries of {n}: {old:?} -> {new:?}"), case);
        }
    }
    // local audits
    let mut names: BTreeSet<&String> = a.audits.audits.keys().collect();
    names.extend(b.audits.audits.keys());
    for n in names {
        let old = b.audits.audits.get(n).cloned().unwrap_or_default();
        let new = a.audits.audits.get(n).cloned().unwrap_or_default();
        let is_target = target == Some(n.as_str());
        let mut rest = new.clone();
        for o in &old {
            if let Some(i) = rest.iter().position(|x| x == o) {
                rest.remove(i);
            } else if matches!(o.kind, AuditKind::Violation { .. }) {
                r.fail("oracle", "C11/violation-pruned", format!("`{lab}`: {n}: the violation entry {:?} (importable = {}) disappeared", o.kind, o.importable), case);
            } else if o.importable || !(is_target && matches!(uc, UCmd::CertifyFull { .. } | UCmd::CertifyDelta { .. } | UCmd::CertifyWildcard { .. } | UCmd::Trust { .. }) || prunes_all && !matches!(uc, UCmd::Prune { no_audits: true, .. })) {
                r.fail("oracle", "C11/ucmd/local-audit-removed", format!("`{lab}`: {n}: {o:?} disappeared (importable audits are never pruned; non-importable ones only for the target crate)"), case);
            }
        }
        let asked_ok = match uc {
            // (a non-importable audit the clean-up finds no use for is pruned again at once)
            UCmd::CertifyFull { pkg, v, crit } if pkg == n => (rest.is_empty() && v.git_rev.is_some()) || rest.len() == 1 && matches!(&rest[0].kind, AuditKind::Full { version } if version == v) && spec.cl(&rest[0].criteria) == spec.cl(crit),
            UCmd::CertifyDelta { pkg, from, to, crit, collapse } if pkg == n => (rest.is_empty() && (from.git_rev.is_some() || to.git_rev.is_some()))
                || rest.len() == 1 && spec.cl(&rest[0].criteria) == spec.cl(crit) && match &rest[0].kind {
                    AuditKind::Delta { from: f, to: t } => t == to && (f == from || *collapse && from.git_rev.is_some()),
                    AuditKind::Full { version } => version == to && *collapse && from.git_rev.is_some(),
                    _ => false,
                },
            UCmd::RecordViolation { pkg, crit, .. } if pkg == n => rest.len() == 1 && matches!(&rest[0].kind, AuditKind::Violation { .. }) && rest[0].criteria.iter().map(|c| c.to_string()).collect::<Vec<_>>() == *crit,
            _ => rest.is_empty(),
        };
        if !asked_ok {
            r.fail("oracle", "C11/ucmd/local-audit-added-or-altered", format!("`{lab}`: {n}: unexpected new audits {rest:?}"), case);
        }
    }
    // exemptions
    let mut names: BTreeSet<&String> = a.config.exemptions.keys().collect();
    names.extend(b.config.exemptions.keys());
    for n in names {
        let old = b.config.exemptions.get(n).cloned().unwrap_or_default();
        let new = a.config.exemptions.get(n).cloned().unwrap_or_default();
        let is_target = target == Some(n.as_str());
        let may_prune = prunes_all && !matches!(uc, UCmd::Prune { no_exemptions: true, .. }) || is_target && matches!(uc, UCmd::CertifyFull { .. } | UCmd::CertifyDelta { .. } | UCmd::CertifyWildcard { .. } | UCmd::Trust { .. });
        let mut grant_old: BTreeMap<VetVersion, u64> = BTreeMap::new();
        for o in &old {
            *grant_old.entry(o.version.clone()).or_insert(0) |= spec.cl(&o.criteria).unwrap_or(0);
        }
        if let UCmd::AddExemption { pkg, v, crit, .. } = uc {
            if pkg == n {
                *grant_old.entry(v.clone()).or_insert(0) |= spec.cl(crit).unwrap_or(0);
            }
        }
        for e in &new {
            let ne = spec.cl(&e.criteria).unwrap_or(0);
            let g = grant_old.get(&e.version).copied().unwrap_or(0);
            if ne & !g != 0 {
                r.fail("oracle", "C11/ucmd/exemption-added-or-broadened", format!("`{lab}`: {n}: {e:?} grants more than before ({g})"), case);
            }
        }
        if !may_prune {
            let mut grant_new: BTreeMap<VetVersion, u64> = BTreeMap::new();
            for e in &new {
                *grant_new.entry(e.version.clone()).or_insert(0) |= spec.cl(&e.criteria).unwrap_or(0);
            }
            let grant_new: BTreeMap<VetVersion, u64> = grant_new.into_iter().filter(|(_, g)| *g != 0).collect();
            if grant_new != grant_old.into_iter().filter(|(_, g)| *g != 0).collect() {
                r.fail("oracle", "C11/ucmd/exemption-touched-without-ask", format!("`{lab}`: exemptions of {n} changed meaning although the command is not about {n}: {old:?} -> {new:?}"), case);
            }
        }
    }
    // imports.lock: every record was locked before or is served now
    if let Some(live) = live_after {
        for (iname, f) in &a.imports.audits {
            for (name, l) in &f.audits {
                for x in l {
                    let locked = b.imports.audits.get(iname).and_then(|f| f.audits.get(name)).map(|l| l.contains(x)).unwrap_or(false);
                    let served = live.imported_audits().get(iname).and_then(|f| f.audits.get(name)).map(|l| l.iter().any(|y| AuditEntry { is_fresh_import: false, ..y.clone() } == *x)).unwrap_or(false);
                    if !locked && !served {
                        r.fail("oracle", "C11/ucmd/lock-records-unserved-audit", format!("`{lab}`: {iname}/{name}: {x:?}"), case);
                    }
                }
            }
        }
    }
}

/// C11, semantically: after the command the store certifies nothing that the store before the
/// command plus the entry asked for does not certify (same remote data).  Robust against how the
/// asked entry is recorded (e.g. collapsed with a prior audit).
fn c11_no_wider(r: &mut Report, p: &Project, uc: &UCmd, before: &[String], live_after: &Store, case: &str) {
    let Some(mut ba) = load(before) else { return };
    let Some(spec) = core::Spec::new(&ba.audits.criteria) else { return };
    let who = vec![gen::sp("tester".to_owned())];
    let today = mock_today();
    match uc {
        UCmd::CertifyFull { pkg, v, crit } => ba.audits.audits.entry(pkg.clone()).or_default().push(AuditEntry { who, criteria: spanned(crit), importable: true, kind: AuditKind::Full { version: v.clone() }, notes: None, aggregated_from: vec![], is_fresh_import: false }),
        UCmd::CertifyDelta { pkg, from, to, crit, .. } => ba.audits.audits.entry(pkg.clone()).or_default().push(AuditEntry { who, criteria: spanned(crit), importable: true, kind: AuditKind::Delta { from: from.clone(), to: to.clone() }, notes: None, aggregated_from: vec![], is_fresh_import: false }),
        // the widest entry the request can mean: the user, the criteria, any date up to the cap
        UCmd::CertifyWildcard { pkg, login, crit, end } => {
            let Some(uid) = login.strip_prefix("user").and_then(|x| x.parse::<u64>().ok()) else { return };
            ba.audits.wildcard_audits.entry(pkg.clone()).or_default().push(WildcardEntry { who, criteria: spanned(crit), user_id: uid, start: gen::date(-4000).into(), end: end.unwrap_or(today + chrono::Months::new(12)).into(), renew: None, notes: None, aggregated_from: vec![], is_fresh_import: false });
        }
        UCmd::Trust { pkg, login, crit } => {
            let Some(uid) = login.strip_prefix("user").and_then(|x| x.parse::<u64>().ok()) else { return };
            ba.audits.trusted.entry(pkg.clone()).or_default().push(TrustEntry { criteria: spanned(crit), user_id: uid, start: gen::date(-4000).into(), end: (today + chrono::Months::new(12)).into(), notes: None, aggregated_from: vec![] });
        }
        UCmd::Import { name, url } => ba.config.imports.entry(name.clone()).or_default().url = vec![url.clone()],
        UCmd::AddExemption { pkg, v, crit, no_suggest } => ba.config.exemptions.entry(pkg.clone()).or_default().push(ExemptedDependency { version: v.clone(), criteria: spanned(crit), suggest: !no_suggest, notes: None }),
        UCmd::Renew { .. } => {
            // renewing moves eligible wildcard audits to the cap
            for l in ba.audits.wildcard_audits.values_mut() {
                for w in l.iter_mut().filter(|w| w.renew != Some(false)) {
                    w.end = (today + chrono::Months::new(12)).into();
                }
            }
        }
        UCmd::RecordViolation { .. } | UCmd::Check | UCmd::Prune { .. } | UCmd::RegenImports | UCmd::RegenUnpublished => {}
        // (changes which packages are vetted at all, not what records certify)
        UCmd::RegenAuditAs => return,
    }
    // the live view of before + ask, against the same remote
    let root = std::env::var("VERIF_WORK").map(PathBuf::from).unwrap_or_else(|_| std::env::temp_dir());
    let Ok(dir) = tempfile::Builder::new().prefix("vetba").tempdir_in(root) else { return };
    let p2 = Project { dir, md: p.md.clone() };
    // (the unlocked acquisition below needs imports.lock to name every import)
    for n in ba.config.imports.keys() {
        ba.imports.audits.entry(n.clone()).or_default();
    }
    p2.write(&ba.mock_commit());
    let Ok(live_ba) = p2.acquire(false).map(|s| s.clone_for_suggest(false)) else { return };
    r.oracle_checked += 1;
    let mut names: BTreeSet<String> = p.md.packages.iter().map(|q| q.name.clone()).collect();
    names.extend(live_after.audits.audits.keys().cloned());
    for name in &names {
        let (Some(ea), Some(eb)) = (core::spec_edges(live_after, &spec, name), core::spec_edges(&live_ba, &spec, name)) else { continue };
        for c in 0..spec.crits.len() {
            // with every record, and with audits and grants only (an exemption the clean-up then
            // drops must not hide that the audits now reach further than what was asked for)
            for (what, keep) in [("", &(|_: &core::SpecEdge| true) as &dyn Fn(&core::SpecEdge) -> bool), (" by audits and grants alone", &|e: &core::SpecEdge| e.kind != "exemption")] {
                let ra = core::spec_reach(&ea, c, keep);
                let rb = core::spec_reach(&eb, c, keep);
                if let Some(v) = ra.iter().find(|v| !rb.contains(*v)) {
                    r.fail("oracle", &format!("{}/ucmd/{}-widens-what-is-certified", r.prop.clone(), uc.label()), format!("after `{}` {name}:{} is certified for `{}`{what}, which the store before the command plus the entry asked for does not", uc.args().join(" "), v.as_ref().map(|x| x.to_string()).unwrap_or_default(), spec.crits[c]), case);
                    return;
                }
            }
        }
    }
}

/// Tie of the model's `Store.ask` (what add-exemption / record-violation push before committing):
/// the table after the real command against the model's table after `ask`, per crate as multisets
/// (the final sort of a written table is not modelled).
fn check_ask(r: &mut Report, d: &mut Driver, p: &Project, uc: &UCmd, before: &[String], after: &[String], case: &str) {
    let (Some(b), Some(a)) = (load(before), load(after)) else { return };
    // ranks over everything that occurs after the command (the new entry may name a new version)
    let it = wire::interner(&p.md, &a);
    let mut t = wire::enc_table(&b.audits.criteria);
    wire::enc_meta(&it, &p.md, &mut t);
    wire::enc_store(&it, &b, &mut t);
    if d.ask(&format!("world {}", t.text())) != "ok" {
        r.fail("corr", "corr.wire.world", "driver refused the world".into(), case);
        return;
    }
    let canon = |groups: Vec<(usize, Vec<Vec<u64>>)>| -> String {
        groups.into_iter().map(|(n, mut l)| { l.sort(); format!("{n}:{l:?}") }).collect::<Vec<_>>().join(" ")
    };
    let (req, imp): (String, Vec<(usize, Vec<Vec<u64>>)>) = match uc {
        UCmd::AddExemption { pkg, v, crit, no_suggest } => {
            let mut q = wire::Toks::new();
            q.n(1).n(it.name(pkg)).n(it.ver(v)).list(&it.crit_list(crit)).b(!no_suggest);
            let imp = a.config.exemptions.iter().map(|(n, l)| (it.name(n), l.iter().map(|e| { let mut x = wire::Toks::new(); x.n(it.ver(&e.version)).list(&it.crit_list(&e.criteria)).b(e.suggest); x.0 }).collect())).collect();
            (format!("ask {}", q.text()), imp)
        }
        UCmd::RecordViolation { pkg, req, crit } => {
            let Ok(vr) = VersionReq::parse(req) else { return };
            let entry = AuditEntry { who: vec![], criteria: spanned(crit), importable: true, kind: AuditKind::Violation { violation: vr }, notes: None, aggregated_from: vec![], is_fresh_import: false };
            let mut q = wire::Toks::new();
            q.n(0).n(it.name(pkg));
            wire::enc_audit(&it, &entry, &mut q);
            let imp = a.audits.audits.iter().map(|(n, l)| (it.name(n), l.iter().map(|e| { let mut x = wire::Toks::new(); wire::enc_audit(&it, e, &mut x); x.0 }).collect())).collect();
            (format!("ask {}", q.text()), imp)
        }
        _ => return,
    };
    let ans = d.ask(&req);
    let Some(body) = ans.strip_prefix("ok ") else {
        r.corr("corr.cmd.ask", "ok <table>", &ans, case);
        return;
    };
    // parse the model's table: k (name len entries...)
    let toks: Vec<u64> = body.split(' ').filter_map(|x| x.parse().ok()).collect();
    let mut pos = 0usize;
    let mut next = |pos: &mut usize| -> u64 { let v = toks.get(*pos).copied().unwrap_or(u64::MAX); *pos += 1; v };
    let k = next(&mut pos);
    let mut model: Vec<(usize, Vec<Vec<u64>>)> = Vec::new();
    for _ in 0..k.min(10000) {
        let n = next(&mut pos) as usize;
        let len = next(&mut pos);
        let mut l = Vec::new();
        for _ in 0..len.min(10000) {
            let start = pos;
            match uc {
                UCmd::AddExemption { .. } => {
                    let _v = next(&mut pos);
                    let c = next(&mut pos);
                    pos += c as usize;
                    let _s = next(&mut pos);
                }
                _ => {
                    match next(&mut pos) {
                        0 => { pos += 1; }
                        1 => { pos += 2; }
                        _ => { let m = next(&mut pos); pos += m as usize; }
                    }
                    let c = next(&mut pos);
                    pos += c as usize + 2;
                }
            }
            l.push(toks[start.min(toks.len())..pos.min(toks.len())].to_vec());
        }
        model.push((n, l));
    }
    r.corr("corr.cmd.ask", &canon(imp), &canon(model), case);
}

/// Tie of the model of `renew` (Vet/Model/Renew.lean): the end dates of the local wildcard audits
/// after the real command against the model's, from the entries before and the publication days
/// crates.io serves.
fn check_renew(r: &mut Report, d: &mut Driver, p: &Project, krate: &Option<String>, before: &[String], after: &[String], live_before: Option<&Store>, case: &str) {
    let (Some(b), Some(a)) = (load(before), load(after)) else { return };
    let today = mock_today();
    let cap = today + chrono::Months::new(12);
    let names: Vec<&String> = b.audits.wildcard_audits.keys().collect();
    let mut t = wire::Toks::new();
    t.n(if krate.is_some() { 1 } else { 0 }).n(wire::day(&today)).n(wire::day(&cap));
    match krate {
        Some(k) => { t.n(names.iter().position(|n| *n == k).unwrap_or(9999)); }
        None => { t.n(1); }
    }
    t.n(names.len());
    for (i, n) in names.iter().enumerate() {
        t.n(i);
        let lp = live_before.and_then(|s| s.live_imports.as_ref()).and_then(|l| l.publisher.get(*n)).and_then(|l| l.iter().map(|q| q.when).max());
        match lp {
            Some(day) => { t.n(wire::day(&day) + 1); }
            None => { t.n(0); }
        }
        let l = &b.audits.wildcard_audits[*n];
        t.n(l.len());
        for e in l {
            t.n(wire::day(&e.end)).n(match e.renew { None => 0, Some(false) => 1, Some(true) => 2 });
        }
    }
    let ans = d.ask(&format!("renew {}", t.text()));
    // the implementation's end dates, entries matched by position in the (sorted) table; a renewal
    // changes `end`, which is part of the sort key, so compare as multisets per crate
    let mut imp = wire::Toks::new();
    imp.n(names.len());
    let mut model_sorted = String::new();
    for (i, n) in names.iter().enumerate() {
        let mut ends: Vec<usize> = a.audits.wildcard_audits.get(*n).map(|l| l.iter().map(|e| wire::day(&e.end)).collect()).unwrap_or_default();
        ends.sort();
        imp.n(i).list(&ends);
    }
    if let Some(body) = ans.strip_prefix("ok ") {
        let toks: Vec<usize> = body.split(' ').filter_map(|x| x.parse().ok()).collect();
        let mut pos = 1;
        let mut out = wire::Toks::new();
        out.n(toks.first().copied().unwrap_or(0));
        while pos + 1 < toks.len() {
            let n = toks[pos];
            let k = toks[pos + 1];
            let mut ends: Vec<usize> = toks[(pos + 2).min(toks.len())..(pos + 2 + k).min(toks.len())].to_vec();
            ends.sort();
            out.n(n).list(&ends);
            pos += 2 + k;
        }
        model_sorted = format!("ok {}", out.text());
    }
    r.corr("corr.cmd.renew", &format!("ok {}", imp.text()), if model_sorted.is_empty() { &ans } else { &model_sorted }, case);
}

/// C04 ("a violation entry, own or imported"): a violation recorded with `record-violation` must
/// reach a project that imports this project's audits file.
fn c04_violation_exported(r: &mut Report, p: &Project, w: &CmdWorld, pkg: &str, req: &str, after: &[String], case: &str) {
    let Some(a) = load(after) else { return };
    let url = "https://selfpeer.example/audits.toml".to_owned();
    let mut remote = cmd::Remote::default();
    remote.registry = w.remote.registry.clone();
    remote.peers.insert(url.clone(), a.audits.clone());
    remote.install();
    let mut config = ConfigFile { cargo_vet: Default::default(), default_criteria: get_default_criteria(), imports: SortedMap::new(), policy: Default::default(), exemptions: SortedMap::new() };
    // the importer maps every criterion of the exporting project to itself
    let mut cmap = CriteriaMap::new();
    for c in a.audits.criteria.keys() {
        cmap.insert(gen::sp(c.clone()), vec![gen::sp(c.clone())]);
    }
    config.imports.insert("selfpeer".into(), RemoteImport { url: vec![url], exclude: vec![], criteria_map: cmap });
    let local = AuditsFile { criteria: a.audits.criteria.clone(), wildcard_audits: SortedMap::new(), audits: SortedMap::new(), trusted: SortedMap::new() };
    let store = Store::mock(config, local, ImportsFile { unpublished: SortedMap::new(), publisher: SortedMap::new(), audits: [("selfpeer".to_owned(), AuditsFile::default())].into_iter().collect() });
    let root = std::env::var("VERIF_WORK").map(PathBuf::from).unwrap_or_else(|_| std::env::temp_dir());
    let Ok(dir) = tempfile::Builder::new().prefix("vetimporter").tempdir_in(root) else { return };
    let p2 = Project { dir, md: p.md.clone() };
    p2.write(&store.mock_commit());
    let got = p2.acquire(false).map(|s| s.clone_for_suggest(false));
    w.remote.install();
    let Ok(live) = got else { return };
    r.oracle_checked += 1;
    let Ok(want) = VersionReq::parse(req) else { return };
    let seen = live.imported_audits().get("selfpeer").and_then(|f| f.audits.get(pkg)).map(|l| l.iter().any(|x| matches!(&x.kind, AuditKind::Violation { violation } if *violation == want))).unwrap_or(false);
    if !seen {
        r.fail("oracle", "C04/ucmd/recorded-violation-not-exported", format!("the violation `{pkg} {req}` written by record-violation does not reach a project importing this audits file"), case);
    }
}

/// C12 after a clean-up that prunes the exemptions of `names`: on the store as the next unlocked
/// run sees it, every remaining exemption criterion of those crates is needed.
fn c12_kept(r: &mut Report, md: &Metadata, live: &Store, names: &[String], lab: &str, case: &str) {
    let Some(spec) = core::Spec::new(&live.audits.criteria) else { return };
    let sg = core::SpecGraph::new(md);
    let Some(demand) = sg.demand(&live.config.policy, &spec) else { return };
    for name in names {
        let Some(l) = live.config.exemptions.get(name) else { continue };
        let Some(edges) = core::spec_edges(live, &spec, name) else { continue };
        let no_ex = |e: &core::SpecEdge| e.kind != "exemption" && e.kind != "unpublished";
        for x in l {
            for c in &x.criteria {
                r.oracle_checked += 1;
                let Some(clc) = spec.cl(&[c.to_string()]) else { continue };
                let mut needed = false;
                for p in 0..sg.ids.len() {
                    if sg.name[p] != *name || !sg.third_party(&live.config.policy, p) {
                        continue;
                    }
                    for cr in 0..spec.crits.len() {
                        if demand[p] & (1 << cr) != 0 && clc & (1 << cr) != 0 && !core::spec_reach(&edges, cr, &no_ex).contains(&Some(sg.ver[p].clone())) {
                            needed = true;
                        }
                    }
                }
                if !needed {
                    r.fail("oracle", &format!("C12/{lab}-keeps-unneeded-exemption"), format!("after `{lab}` the exemption {name}:{} still lists `{}` although every in-graph version of {name} is certified without exemptions for every required criterion it implies", x.version, **c), case);
                }
            }
        }
    }
}

/// candidate versions for crate `name`: in-graph versions and everything records mention
fn versions_of(w: &CmdWorld, name: &str) -> (Vec<VetVersion>, Vec<VetVersion>) {
    let graph: Vec<VetVersion> = w.graph.pkgs.iter().filter(|p| p.name == name).map(|p| p.version.clone()).collect();
    let mut other: Vec<VetVersion> = Vec::new();
    let mut files: Vec<&AuditsFile> = w.remote.peers.values().collect();
    files.push(&w.audits);
    for f in files {
        for a in f.audits.get(name).map(|v| &v[..]).unwrap_or(&[]) {
            match &a.kind {
                AuditKind::Full { version } => other.push(version.clone()),
                AuditKind::Delta { from, to } => { other.push(from.clone()); other.push(to.clone()); }
                _ => {}
            }
        }
    }
    for rv in w.remote.registry.get(name).map(|v| &v[..]).unwrap_or(&[]) {
        other.push(VetVersion { semver: rv.version.clone(), git_rev: None });
    }
    other.sort();
    other.dedup();
    (graph, other)
}

fn gen_ucmd(rng: &mut Rng, w: &CmdWorld, crits: &[String]) -> UCmd {
    let third: Vec<String> = {
        let mut t: Vec<String> = w.graph.pkgs.iter().filter(|p| p.source != 0).map(|p| p.name.clone()).collect();
        t.sort();
        t.dedup();
        t
    };
    let crit_list = |rng: &mut Rng| -> Vec<String> {
        let mut l = vec![rng.pick(crits).clone()];
        if rng.chance(1, 4) {
            l.push(rng.pick(crits).clone());
        }
        l
    };
    if third.is_empty() {
        return UCmd::Check;
    }
    let pkg = rng.pick(&third).clone();
    let (gv, ov) = versions_of(w, &pkg);
    let logins: Vec<String> = w.remote.registry.get(&pkg).map(|l| l.iter().filter_map(|v| v.user.map(|u| format!("user{u}"))).collect()).unwrap_or_default();
    match rng.below(20) {
        0 => UCmd::Check,
        1 => UCmd::Prune { no_exemptions: rng.chance(1, 3), no_audits: rng.chance(1, 3), no_imports: rng.chance(1, 3) },
        2 => UCmd::RegenImports,
        3 => if rng.chance(1, 2) { UCmd::RegenUnpublished } else { UCmd::RegenAuditAs },
        4 | 5 | 6 => UCmd::CertifyFull { pkg, v: if rng.chance(2, 3) || ov.is_empty() { rng.pick(&gv).clone() } else { rng.pick(&ov).clone() }, crit: crit_list(rng) },
        7 | 8 | 9 | 10 => {
            let to = if rng.chance(4, 5) || ov.is_empty() { rng.pick(&gv).clone() } else { rng.pick(&ov).clone() };
            let from = if ov.is_empty() { rng.pick(&gv).clone() } else { rng.pick(&ov).clone() };
            UCmd::CertifyDelta { pkg, collapse: from.git_rev.is_some() && rng.chance(1, 2), from, to, crit: crit_list(rng) }
        }
        11 | 12 if !logins.is_empty() => UCmd::CertifyWildcard { pkg, login: rng.pick(&logins).clone(), crit: crit_list(rng), end: if rng.chance(1, 3) { Some(gen::date(rng.below(12) as i64 * 20)) } else { None } },
        13 | 14 if !logins.is_empty() => UCmd::Trust { pkg, login: rng.pick(&logins).clone(), crit: crit_list(rng) },
        15 | 16 if !w.remote.peers.is_empty() => {
            let urls: Vec<String> = w.remote.peers.keys().cloned().collect();
            let url = rng.pick(&urls).clone();
            let existing: Vec<String> = w.config.imports.keys().cloned().collect();
            let name = if rng.chance(1, 2) && !existing.is_empty() { rng.pick(&existing).clone() } else { "newpeer".to_owned() };
            UCmd::Import { name, url }
        }
        17 => UCmd::AddExemption { pkg, v: rng.pick(&gv).clone(), crit: crit_list(rng), no_suggest: rng.chance(1, 4) },
        18 => UCmd::RecordViolation { pkg, req: ["=2.0.0", ">=4.0.0", "<2.0.0", "*"][rng.below(4)].to_owned(), crit: crit_list(rng) },
        _ => UCmd::Renew { krate: if rng.chance(1, 2) { Some(pkg) } else { None } },
    }
}

pub fn exec_user_history(r: &mut Report, d: &mut Driver, rng: &mut Rng, idx: u64, mut w: CmdWorld, p: Project, fixed: Option<Vec<UCmd>>) {
    r.evaluations += 1;
    let prop = r.prop.clone();
    w.remote.install();
    let crits = gen::all_crit_names(&w.audits.criteria);
    let mut trace: Vec<String> = vec![format!("user-history#{idx}: {} packages, {} peers", w.graph.pkgs.len(), w.remote.peers.len())];
    if fixed.is_none() {
        // most histories start from a store that vets: regenerate exemptions, sometimes with the
        // peers serving nothing yet (so that what they serve later is "not yet imported")
        if rng.chance(4, 5) {
            let hide = rng.chance(1, 2);
            if hide {
                let mut quiet = cmd::Remote::default();
                quiet.registry = w.remote.registry.clone();
                quiet.matching_metadata = w.remote.matching_metadata.clone();
                for u in w.remote.peers.keys() {
                    quiet.peers.insert(u.clone(), AuditsFile { criteria: w.remote.peers[u].criteria.clone(), wildcard_audits: SortedMap::new(), audits: SortedMap::new(), trusted: SortedMap::new() });
                }
                quiet.install();
            }
            let (o, _) = p.run(&["regenerate", "exemptions"]);
            trace.push(format!("regenerate exemptions{} -> {o:?}", if hide { " (peers silent)" } else { "" }));
            w.remote.install();
        }
    }
    if fixed.is_none() && rng.chance(1, 4) {
        // a stale `audit-as-crates-io` flag on a crates.io crate, next to a dependency-criteria
        // entry the user wrote: `regenerate audit-as-crates-io` has to clear the one and keep the other
        let third: Vec<(String, VetVersion, Vec<usize>)> = w.graph.pkgs.iter().filter(|q| q.source == 1 && w.graph.pkgs.iter().filter(|x| x.name == q.name).count() == 1).map(|q| (q.name.clone(), q.version.clone(), q.deps.iter().map(|d| d.0).collect())).collect();
        if !third.is_empty() {
            if let Some(mut st) = load(&p.files()) {
                let (n, v, deps) = rng.pick(&third).clone();
                let dep = deps.first().map(|d| w.graph.pkgs[*d].name.clone()).unwrap_or_else(|| "alfa".to_owned());
                let mut dc = CriteriaMap::new();
                dc.insert(gen::sp(dep), vec![gen::sp(rng.pick(&crits).clone())]);
                let mut versions = SortedMap::new();
                versions.insert(v, PolicyEntry { audit_as_crates_io: Some(rng.chance(1, 2)), criteria: None, dev_criteria: None, dependency_criteria: dc, notes: None });
                st.config.policy.package.insert(n.clone(), PackagePolicyEntry::Versioned { version: versions });
                p.write(&st.mock_commit());
                trace.push(format!("config.toml: stale audit-as-crates-io flag with dependency-criteria on {n}"));
            }
        }
    }
    let steps = fixed.as_ref().map(|f| f.len()).unwrap_or_else(|| rng.range(2, 4));
    let mut nontrivial = false;
    for si in 0..steps {
        if fixed.is_none() && rng.chance(1, 5) {
            let what = cmd::mutate_remote(rng, &mut w);
            w.remote.install();
            trace.push(format!("remote: {what}"));
            continue;
        }
        let uc = match &fixed { Some(f) => f[si].clone(), None => gen_ucmd(rng, &w, &crits) };
        let argv = uc.args();
        let args: Vec<&str> = argv.iter().map(|s| s.as_str()).collect();
        let lab = uc.label();
        let cmd_s = if args.is_empty() { "check".to_owned() } else { args.join(" ") };
        let before = p.files();
        let md = p.md.clone();
        let live_before = p.acquire(false).ok().map(|s| s.clone_for_suggest(false));
        let verdict_before = live_before.as_ref().map(|s| verdict_of(&md, s));
        let expected = replica(&p, &uc, d);
        let (o, _text) = p.run(&args);
        let after = p.files();
        let case = format!("{}\nstep: {cmd_s}\n--- audits.toml before\n{}\n--- config.toml before\n{}\n--- imports.lock before\n{}", trace.join("\n"), before[0], before[1], before[2]);
        trace.push(format!("{cmd_s} -> {}", match &o { Outcome::Ok => "ok".to_owned(), Outcome::Exit(c) => format!("exit{c}"), Outcome::Err(_) => "refused".to_owned(), Outcome::Panic(_) => "panic".to_owned() }));
        r.count(&format!("ucmd:{lab}:{}", match &o { Outcome::Ok => "ok", Outcome::Exit(_) => "exit", Outcome::Err(_) => "refused", Outcome::Panic(_) => "panic" }));
        if let Outcome::Panic(m) = &o {
            r.oracle_checked += 1;
            r.fail("oracle", &format!("{prop}/ucmd-panics"), format!("`{cmd_s}` panicked: {m}"), &case);
            continue;
        }
        // ---- wiring correspondence
        let collapsing = matches!(&uc, UCmd::CertifyDelta { from, collapse: true, .. } if from.git_rev.is_some());
        if !matches!(uc, UCmd::Renew { .. } | UCmd::RegenAuditAs) && !collapsing {
            let canon = |f: &[String]| format!("--- audits.toml\n{}\n--- config.toml\n{}\n--- imports.lock\n{}", f[0], f[1], f[2]);
            match (&o, &expected) {
                (Outcome::Ok, Ok(exp)) => {
                    r.corr(&format!("corr.cmd.wiring.{lab}"), &canon(&after), &canon(exp), &case);
                }
                (Outcome::Ok, Err(e)) => {
                    r.corr(&format!("corr.cmd.wiring.{lab}"), "ok", &format!("refused: {e}"), &case);
                }
                (_, Ok(_)) => {
                    r.corr(&format!("corr.cmd.wiring.{lab}"), &format!("{o:?}"), "ok", &case);
                }
                (_, Err(_)) => {
                    r.corr_checked += 1;
                }
            }
        }
        if o != Outcome::Ok {
            // a command that did not succeed leaves the files as they were
            r.oracle_checked += 1;
            if before != after {
                r.fail("oracle", &format!("{prop}/ucmd/failing-command-changed-files"), format!("`{cmd_s}` ended with {o:?} but changed the store files"), &case);
            }
            continue;
        }
        if after[2].contains("[[audits") || after[2].contains("[[publisher") || before[1] != after[1] {
            nontrivial = true;
        }
        if matches!(uc, UCmd::AddExemption { .. } | UCmd::RecordViolation { .. }) {
            check_ask(r, d, &p, &uc, &before, &after, &case);
        }
        if let UCmd::Renew { krate } = &uc {
            check_renew(r, d, &p, krate, &before, &after, live_before.as_ref(), &case);
        }
        let live_after = p.acquire(false).ok().map(|s| s.clone_for_suggest(false));
        let verdict_after = live_after.as_ref().map(|s| verdict_of(&md, s));
        match prop.as_str() {
            "C10" => {
                // (re-pointing an existing import at another URL changes the remote data the store is
                // vetted against: that is what the user asked for, not the clean-up)
                let repointed = matches!(&uc, UCmd::Import { name, url } if load(&before).map(|b| b.config.imports.get(name).map(|i| i.url != vec![url.clone()]).unwrap_or(false)).unwrap_or(true));
                let cleanup = !repointed && matches!(uc, UCmd::CertifyFull { .. } | UCmd::CertifyDelta { .. } | UCmd::CertifyWildcard { .. } | UCmd::Trust { .. } | UCmd::Import { .. } | UCmd::Prune { .. } | UCmd::RegenImports | UCmd::Check);
                if cleanup && verdict_before.as_deref() == Some("success") {
                    r.oracle_checked += 1;
                    let va = verdict_after.clone().unwrap_or_else(|| "store does not load".into());
                    // (an audit the user certifies may itself contradict a violation: that is the
                    // entry asked for, not the clean-up)
                    let excused = va == "violation" && matches!(uc, UCmd::CertifyFull { .. } | UCmd::CertifyDelta { .. } | UCmd::Import { .. });
                    if va != "success" && !excused {
                        r.fail("oracle", &format!("C10/ucmd/{lab}-breaks-passing-store"), format!("store vetted, after `{cmd_s}` the verdict is `{va}`"), &case);
                    }
                }
            }
            "C11" => {
                c11_user(r, &uc, &before, &after, live_after.as_ref(), &case);
                if let Some(live) = &live_after {
                    c11_no_wider(r, &p, &uc, &before, live, &case);
                }
            }
            "C04" => {
                // "own or imported": what a peer serves about a crate reaches the store an unlocked
                // run resolves on, unless *that* import excludes the crate
                if let Some(live) = &live_after {
                    if let Some(li) = &live.live_imports {
                        for (iname, imp) in &live.config.imports {
                            let builtin_remapped = imp.criteria_map.keys().any(|k| **k == SAFE_TO_RUN || **k == SAFE_TO_DEPLOY);
                            let Some(served) = imp.url.first().and_then(|u| w.remote.peers.get(u)) else { continue };
                            if builtin_remapped || imp.url.len() != 1 {
                                continue;
                            }
                            r.oracle_checked += 1;
                            for (crate_name, l) in &served.audits {
                                if imp.exclude.contains(crate_name) {
                                    continue;
                                }
                                for e in l.iter().filter(|e| e.importable && e.criteria.iter().any(|c| **c == SAFE_TO_RUN || **c == SAFE_TO_DEPLOY)) {
                                    let got = li.audits.get(iname).and_then(|f| f.audits.get(crate_name)).map(|l2| l2.iter().any(|x| x.kind == e.kind)).unwrap_or(false);
                                    if !got {
                                        r.fail("oracle", "C04/ucmd/peer-record-not-imported", format!("after `{lab}`: {iname} serves {crate_name} {:?} {:?} and does not exclude {crate_name} (its exclude list: {:?}), yet an unlocked run does not see the entry", e.kind, e.criteria.iter().map(|c| c.to_string()).collect::<Vec<_>>(), imp.exclude), &case);
                                    }
                                }
                            }
                        }
                    }
                }
                if let UCmd::RecordViolation { pkg, req, .. } = &uc {
                    c04_violation_exported(r, &p, &w, pkg, req, &after, &case);
                }
                // and no command drops a violation
                if let (Some(b), Some(a)) = (load(&before), load(&after)) {
                    r.oracle_checked += 1;
                    for (n, l) in &b.audits.audits {
                        for o in l.iter().filter(|o| matches!(o.kind, AuditKind::Violation { .. })) {
                            if !a.audits.audits.get(n).map(|l2| l2.contains(o)).unwrap_or(false) {
                                r.fail("oracle", "C04/ucmd/violation-dropped", format!("`{lab}`: the violation entry {n} {:?} (importable = {}) disappeared", o.kind, o.importable), &case);
                            }
                        }
                    }
                }
            }
            // C05: a record counts for its criteria "and for no other criterion" also through the
            // commands that write records
            "C05" => {
                if let Some(live) = &live_after {
                    c11_no_wider(r, &p, &uc, &before, live, &case);
                }
            }
            "C12" => {
                if verdict_after.as_deref() == Some("success") {
                    if let Some(live) = &live_after {
                        let names: Vec<String> = match &uc {
                            UCmd::CertifyFull { pkg, .. } | UCmd::CertifyDelta { pkg, .. } | UCmd::CertifyWildcard { pkg, .. } | UCmd::Trust { pkg, .. } => vec![pkg.clone()],
                            UCmd::Import { .. } | UCmd::RegenImports | UCmd::Prune { no_exemptions: false, .. } => live.config.exemptions.keys().cloned().collect(),
                            _ => vec![],
                        };
                        c12_kept(r, &md, live, &names, lab, &case);
                    }
                }
            }
            _ => {}
        }
    }
    if nontrivial {
        r.nontrivial(&trace.join("|"));
    }
    if std::env::var("VERIF_TRACE").is_ok() {
        eprintln!("TRACE {}\n--- audits.toml\n{}\n--- config.toml\n{}", trace.join(" ; "), p.files()[0], p.files()[1]);
    }
    if r.samples.len() < 5 && idx % 7 == 0 {
        r.sample(trace.join(" ; "));
    }
}

/// the scenario of seeded change s17: exemption for bravo 3.0.0; a peer serves a full audit of
/// 1.0.0 that nothing needed so far; the user certifies the delta 1.0.0 -> 3.0.0
pub fn corpus_certify_importable() -> (CmdWorld, Project) {
    let v = |s: &str| VetVersion::parse(s).unwrap();
    let graph = gen::GGraph {
        pkgs: vec![
            gen::GPkg { name: "alfa".into(), version: v("1.0.0"), source: 0, member: true, deps: vec![(1, 1), (2, 1)] },
            gen::GPkg { name: "bravo".into(), version: v("3.0.0"), source: 1, member: false, deps: vec![] },
            gen::GPkg { name: "charlie".into(), version: v("1.0.0"), source: 1, member: false, deps: vec![] },
        ],
        resolve_order: vec![0, 1, 2],
        member_order: vec![0],
    };
    let audits = AuditsFile { criteria: SortedMap::new(), wildcard_audits: SortedMap::new(), audits: SortedMap::new(), trusted: SortedMap::new() };
    let mut config = ConfigFile { cargo_vet: Default::default(), default_criteria: get_default_criteria(), imports: SortedMap::new(), policy: Default::default(), exemptions: SortedMap::new() };
    let ex = |ver: &str| vec![ExemptedDependency { version: v(ver), criteria: vec![gen::sp(SAFE_TO_DEPLOY.to_owned())], suggest: true, notes: None }];
    config.exemptions.insert("bravo".into(), ex("3.0.0"));
    config.exemptions.insert("charlie".into(), ex("1.0.0"));
    let url = "https://peer0.example/audits.toml".to_owned();
    config.imports.insert("peer0".into(), RemoteImport { url: vec![url.clone()], exclude: vec![], criteria_map: CriteriaMap::new() });
    let mut peer = AuditsFile { criteria: SortedMap::new(), wildcard_audits: SortedMap::new(), audits: SortedMap::new(), trusted: SortedMap::new() };
    let full = |ver: &str| AuditEntry { who: vec![], criteria: vec![gen::sp(SAFE_TO_DEPLOY.to_owned())], kind: AuditKind::Full { version: v(ver) }, importable: true, notes: None, aggregated_from: vec![], is_fresh_import: false };
    peer.audits.insert("bravo".into(), vec![full("1.0.0")]);
    peer.audits.insert("charlie".into(), vec![full("1.0.0")]);
    let mut remote = cmd::Remote::default();
    remote.peers.insert(url, peer);
    for n in ["bravo", "charlie"] {
        remote.registry.insert(n.into(), vec![cmd::RegVersion { version: semver::Version::new(1, 0, 0), user: Some(1), day: 0 }, cmd::RegVersion { version: semver::Version::new(3, 0, 0), user: Some(1), day: 8 }]);
    }
    let w = CmdWorld { graph, config, audits, remote };
    let p = cmd::setup_project(&w);
    (w, p)
}

/// `trust` next to an existing, stronger trusted entry for the same publisher whose window lies
/// inside the default one (the scenario of seeded change s44)
pub fn corpus_trust_next_to_stronger() -> (CmdWorld, Project) {
    let (mut w, _) = corpus_certify_importable();
    w.audits.trusted.insert("bravo".into(), vec![TrustEntry { criteria: vec![gen::sp(SAFE_TO_DEPLOY.to_owned())], user_id: 1, start: gen::sp(gen::date(2)), end: gen::sp(gen::date(5)), notes: None, aggregated_from: vec![] }]);
    let p = cmd::setup_project(&w);
    (w, p)
}

/// `certify` of a delta from a git revision with collapsing on, next to a prior non-importable
/// audit ending at that revision for fewer criteria (the scenario of seeded change s48)
pub fn corpus_collapse_fewer_criteria() -> (CmdWorld, Project) {
    let v = |s: &str| VetVersion::parse(s).unwrap();
    let (mut w, _) = corpus_certify_importable();
    let crit = |d: &str| CriteriaEntry { description: Some(d.into()), description_url: None, implies: vec![], aggregated_from: vec![] };
    w.audits.criteria.insert("reviewed".into(), crit("reviewed"));
    w.audits.criteria.insert("fuzzed".into(), crit("fuzzed"));
    w.config.policy.insert("alfa".into(), PackagePolicyEntry::Unversioned(PolicyEntry { audit_as_crates_io: None, criteria: Some(vec![gen::sp("reviewed".to_owned()), gen::sp("fuzzed".to_owned())]), dev_criteria: None, dependency_criteria: CriteriaMap::new(), notes: None }));
    let both = vec![gen::sp("fuzzed".to_owned()), gen::sp("reviewed".to_owned())];
    let git = v("2.0.0@git:aaaaaaaaaaaaaaaaaaaaaaaaaaaaaaaaaaaaaaaa");
    w.audits.audits.insert("bravo".into(), vec![
        AuditEntry { who: vec![], criteria: both.clone(), kind: AuditKind::Full { version: v("1.0.0") }, importable: true, notes: None, aggregated_from: vec![], is_fresh_import: false },
        AuditEntry { who: vec![], criteria: vec![gen::sp("reviewed".to_owned())], kind: AuditKind::Delta { from: v("1.0.0"), to: git.clone() }, importable: false, notes: None, aggregated_from: vec![], is_fresh_import: false },
    ]);
    w.config.exemptions.insert("bravo".into(), vec![ExemptedDependency { version: v("3.0.0"), criteria: both.clone(), suggest: true, notes: None }]);
    w.config.exemptions.insert("charlie".into(), vec![ExemptedDependency { version: v("1.0.0"), criteria: both, suggest: true, notes: None }]);
    w.remote.peers.clear();
    w.config.imports.clear();
    let p = cmd::setup_project(&w);
    (w, p)
}

/// `cargo vet init` on a project without a store, and `regenerate audit-as-crates-io` on an
/// existing one: C10 — init leaves a store that vets (there is nothing a violation could
/// contradict); after regenerating the audit-as-crates-io policy an unlocked check is no longer
/// refused over it.  First-party crates may have crates.io namesakes with matching metadata.
pub fn init_history(r: &mut Report, rng: &mut Rng, idx: u64) {
    r.evaluations += 1;
    let mut w = cmd::gen_cmd_world(rng, true);
    // half of the first-party crates with a crates.io namesake look like it (same description)
    for q in w.graph.pkgs.iter().filter(|q| q.source != 1) {
        if w.remote.registry.contains_key(&q.name) && rng.chance(1, 2) {
            w.remote.matching_metadata.insert(q.name.clone());
        }
    }
    // (init starts from nothing: no policy the generator may have put on these crates)
    w.remote.install();
    let md = w.graph.metadata();
    let root = std::env::var("VERIF_WORK").map(PathBuf::from).unwrap_or_else(|_| std::env::temp_dir());
    fs::create_dir_all(&root).unwrap();
    let dir = tempfile::Builder::new().prefix("vetinit").tempdir_in(root).unwrap();
    let p = Project { dir, md };
    let case = format!("init-history#{idx}: packages {:?}; registry {:?}; matching {:?}", w.graph.pkgs.iter().map(|q| format!("{}:{} src{} member={}", q.name, q.version, q.source, q.member)).collect::<Vec<_>>(), w.remote.registry.keys().collect::<Vec<_>>(), w.remote.matching_metadata);
    let (o, text) = p.run(&["init"]);
    r.count(&format!("ucmd:init:{}", match &o { Outcome::Ok => "ok", Outcome::Exit(_) => "exit", Outcome::Err(_) => "refused", Outcome::Panic(_) => "panic" }));
    r.oracle_checked += 1;
    match &o {
        Outcome::Panic(m) => {
            r.fail("oracle", "C10/ucmd/init-panics", m.clone(), &case);
            return;
        }
        Outcome::Ok => {}
        other => {
            // init may refuse a project (e.g. a policy problem it cannot repair); it must not then leave a store
            let _ = (other, text);
            return;
        }
    }
    let files = p.files();
    let full = format!("{case}\n--- audits.toml\n{}\n--- config.toml\n{}\n--- imports.lock\n{}", files[0], files[1], files[2]);
    for args in [&[][..], &["--locked"][..]] {
        let (o2, text2) = p.run(args);
        r.oracle_checked += 1;
        if o2 != Outcome::Ok && r.prop == "C10" {
            r.fail("oracle", "C10/ucmd/init-leaves-failing-store", format!("after `init`, `check {}` gives {o2:?}: {}", args.join(" "), text2.chars().take(300).collect::<String>()), &full);
        }
    }
    r.nontrivial(&case);
    // regenerate audit-as-crates-io after the policy was damaged: drop every audit-as-crates-io choice
    let Some(mut st) = load(&files) else { return };
    let mut changed = false;
    for (_, e) in st.config.policy.package.iter_mut() {
        match e {
            PackagePolicyEntry::Unversioned(pe) => { if pe.audit_as_crates_io.take().is_some() { changed = true; } }
            PackagePolicyEntry::Versioned { version } => { for pe in version.values_mut() { if pe.audit_as_crates_io.take().is_some() { changed = true; } } }
        }
    }
    if !changed {
        return;
    }
    p.write(&st.mock_commit());
    let (o3, _) = p.run(&["regenerate", "audit-as-crates-io"]);
    r.count(&format!("ucmd:regenerate-audit-as:{}", match &o3 { Outcome::Ok => "ok", Outcome::Exit(_) => "exit", Outcome::Err(_) => "refused", Outcome::Panic(_) => "panic" }));
    if let Outcome::Panic(m) = &o3 {
        r.fail("oracle", "C10/ucmd/regenerate-audit-as-panics", m.clone(), &full);
        return;
    }
    if o3 == Outcome::Ok {
        let (o4, text4) = p.run(&[]);
        r.oracle_checked += 1;
        if matches!(o4, Outcome::Err(_)) && r.prop == "C08" {
            r.fail("oracle", "C08/ucmd/regenerate-audit-as-does-not-settle", format!("after `regenerate audit-as-crates-io` a check is still refused: {o4:?} {}", text4.chars().take(200).collect::<String>()), &full);
        }
    }
}

pub fn run(r: &mut Report) {
    let mut d = Driver::spawn();
    let (shard, nshards) = shard();
    let n = if r.thorough() { 6400 } else { 960 } / nshards;
    let mut rng = Rng::new(r.seed.wrapping_add(shard.wrapping_mul(32452843)) ^ 0x5EED_C0DE);
    let only: Option<u64> = std::env::var("VERIF_ONLY_UCMD").ok().and_then(|s| s.parse().ok());
    if shard == 0 && only.is_none() {
        let v = |s: &str| VetVersion::parse(s).unwrap();
        let d2s = vec![SAFE_TO_DEPLOY.to_owned()];
        for fixed in [
            vec![UCmd::CertifyDelta { pkg: "bravo".into(), from: v("1.0.0"), to: v("3.0.0"), crit: d2s.clone(), collapse: false }],
            vec![UCmd::Trust { pkg: "bravo".into(), login: "user1".into(), crit: d2s.clone() }],
            vec![UCmd::CertifyWildcard { pkg: "bravo".into(), login: "user1".into(), crit: d2s.clone(), end: None }],
            vec![UCmd::Import { name: "peer0".into(), url: "https://peer0.example/audits.toml".into() }],
            vec![UCmd::Prune { no_exemptions: true, no_audits: false, no_imports: false }],
            vec![UCmd::AddExemption { pkg: "bravo".into(), v: v("3.0.0"), crit: vec![SAFE_TO_RUN.to_owned()], no_suggest: false }, UCmd::Check],
        ] {
            let (w, p) = corpus_certify_importable();
            let mut crng = Rng::new(1);
            exec_user_history(r, &mut d, &mut crng, 0, w, p, Some(fixed));
        }
    }
    if shard == 0 && only.is_none() && std::env::var("VERIF_PROBE_VIOLATION").is_ok() {
        let (mut w, _) = corpus_certify_importable();
        w.audits.audits.insert("bravo".into(), vec![AuditEntry { who: vec![], criteria: vec![gen::sp(SAFE_TO_RUN.to_owned())], kind: AuditKind::Violation { violation: VersionReq::parse("=9.0.0").unwrap() }, importable: false, notes: None, aggregated_from: vec![], is_fresh_import: false }]);
        let p = cmd::setup_project(&w);
        eprintln!("PROBE before:\n{}", p.files()[0]);
        let (o, _) = p.run(&["prune"]);
        eprintln!("PROBE prune -> {o:?}; after:\n{}", p.files()[0]);
    }
    if shard == 0 && only.is_none() {
        let v = |s: &str| VetVersion::parse(s).unwrap();
        let (w, p) = corpus_trust_next_to_stronger();
        exec_user_history(r, &mut d, &mut Rng::new(1), 0, w, p, Some(vec![UCmd::Trust { pkg: "bravo".into(), login: "user1".into(), crit: vec![SAFE_TO_RUN.to_owned()] }]));
        let (w, p) = corpus_collapse_fewer_criteria();
        exec_user_history(r, &mut d, &mut Rng::new(1), 0, w, p, Some(vec![UCmd::CertifyDelta { pkg: "bravo".into(), from: v("2.0.0@git:aaaaaaaaaaaaaaaaaaaaaaaaaaaaaaaaaaaaaaaa"), to: v("3.0.0"), crit: vec!["reviewed".to_owned(), "fuzzed".to_owned()], collapse: true }]));
        let (w, p) = corpus_collapse_fewer_criteria();
        exec_user_history(r, &mut d, &mut Rng::new(1), 0, w, p, Some(vec![UCmd::CertifyDelta { pkg: "bravo".into(), from: v("2.0.0@git:aaaaaaaaaaaaaaaaaaaaaaaaaaaaaaaaaaaaaaaa"), to: v("3.0.0"), crit: vec!["reviewed".to_owned()], collapse: true }]));
    }
    for i in 0..n {
        let mut crng = rng.fork();
        if let Some(o) = only {
            if o != i + 1 {
                continue;
            }
        }
        let w = if i % 6 == 5 { cmd::gen_unpublished_world(&mut crng) } else { cmd::gen_cmd_world(&mut crng, false) };
        let p = cmd::setup_project(&w);
        exec_user_history(r, &mut d, &mut crng, i + 1, w, p, None);
    }
    if r.prop == "C10" || r.prop == "C08" {
        for i in 0..n / 4 {
            let mut crng = rng.fork();
            init_history(r, &mut crng, i + 1);
        }
    }
    r.count_n("driver-requests", d.requests);
    *crate::network::VERIF_MOCK_NETWORK.lock().unwrap() = None;
}
