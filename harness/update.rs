// get_store_updates: correspondence with the model's `getStoreUpdates` for arbitrary
// per-package update modes, and the C11 "never widens" oracle on the real output.
use super::*;
use crate::format::*;
use crate::resolver::{self, SearchMode, UpdateMode};
use wire::{Interner, Toks};

pub struct Reader<'a> {
    toks: Vec<&'a str>,
    pos: usize,
}
impl<'a> Reader<'a> {
    pub fn new(s: &'a str) -> Self {
        Reader { toks: s.split(' ').collect(), pos: 0 }
    }
    pub fn word(&mut self) -> &'a str {
        let w = self.toks.get(self.pos).copied().unwrap_or("");
        self.pos += 1;
        w
    }
    pub fn n(&mut self) -> usize {
        self.word().parse().unwrap_or(usize::MAX)
    }
    pub fn list(&mut self) -> Vec<usize> {
        let k = self.n();
        (0..k.min(100000)).map(|_| self.n()).collect()
    }
}

pub fn mode_toks(m: &UpdateMode, t: &mut Toks) {
    t.n(match m.search_mode {
        SearchMode::PreferExemptions => 0,
        SearchMode::PreferFreshImports => 1,
        SearchMode::RegenerateExemptions => 2,
    });
    t.b(m.prune_exemptions).b(m.prune_non_importable_audits).b(m.prune_imports);
}

fn clear_audit(a: &AuditEntry) -> AuditEntry {
    AuditEntry { is_fresh_import: false, ..a.clone() }
}

/// class representative: smallest index with an equal value (freshness ignored)
fn reps<T: PartialEq>(l: &[T]) -> Vec<usize> {
    (0..l.len()).map(|i| (0..=i).find(|&j| l[j] == l[i]).unwrap()).collect()
}

type Canon = BTreeMap<String, Vec<usize>>;

fn canon_model(name_of: &dyn Fn(usize) -> String, table: Vec<(usize, Vec<usize>)>, reps_of: &dyn Fn(&str) -> Vec<usize>, dedup: bool) -> Canon {
    let mut out = Canon::new();
    for (n, idx) in table {
        let name = name_of(n);
        let rp = reps_of(&name);
        let mut v: Vec<usize> = idx.iter().map(|&i| rp.get(i).copied().unwrap_or(usize::MAX)).collect();
        v.sort();
        if dedup {
            v.dedup();
        }
        if !v.is_empty() {
            out.insert(name, v);
        }
    }
    out
}

fn read_table(rd: &mut Reader) -> Vec<(usize, Vec<usize>)> {
    let k = rd.n();
    (0..k.min(100000)).map(|_| (rd.n(), rd.list())).collect()
}

pub struct UpdateView {
    pub audits: Canon,
    pub imports: Vec<(Canon, Canon)>,
    pub publishers: Canon,
    pub unpublished: Canon,
    pub exemptions: BTreeMap<String, Vec<(usize, Vec<usize>, bool)>>,
}

impl UpdateView {
    pub fn render(&self) -> String {
        format!("audits={:?} imports={:?} publishers={:?} unpublished={:?} exemptions={:?}", self.audits, self.imports, self.publishers, self.unpublished, self.exemptions)
    }
}

/// positions in `orig` of the entries of `out` (by equality, freshness cleared), as class reps
fn locate<T: PartialEq + Clone>(orig: &[T], out: &[T]) -> Vec<usize> {
    let rp = reps(orig);
    let mut v: Vec<usize> = out
        .iter()
        .map(|o| orig.iter().position(|x| x == o).map(|i| rp[i]).unwrap_or(usize::MAX))
        .collect();
    v.sort();
    v
}

pub fn check_update(r: &mut Report, d: &mut Driver, it: &Interner, md: &Metadata, store: &Store, default: UpdateMode, overrides: &[(String, UpdateMode)], case: &str) -> Option<resolver::StoreUpdates> {
    let cfg = mock_cfg(md);
    let ov = overrides.to_vec();
    let mode = move |name: &str| ov.iter().find(|(n, _)| n == name).map(|(_, m)| *m).unwrap_or(default);
    let imp = guarded(|| resolver::get_store_updates(&cfg, store, mode.clone()));
    let mut t = Toks::new();
    mode_toks(&default, &mut t);
    let known: Vec<&(String, UpdateMode)> = overrides.iter().filter(|(n, _)| it.names.iter().any(|x| x == n)).collect();
    t.n(known.len());
    for (n, m) in known {
        t.n(it.name(n));
        mode_toks(m, &mut t);
    }
    let req = format!("update {}", t.text());
    let ans = d.ask(&req);
    let full_case = format!("{case}\n{req}");
    let imp = match imp {
        Err(e) => {
            r.corr("corr.update", panic_class(&e), &ans, &full_case);
            return None;
        }
        Ok(u) => u,
    };
    if !ans.starts_with("ok ") {
        r.corr("corr.update", "ok <updates>", &ans, &full_case);
        return Some(imp);
    }
    // ---- canonical view of the implementation's output
    let cleared_import_audits: Vec<(String, BTreeMap<String, Vec<AuditEntry>>)> = store
        .imported_audits()
        .iter()
        .map(|(n, f)| (n.clone(), f.audits.iter().map(|(k, l)| (k.clone(), l.iter().map(clear_audit).collect())).collect()))
        .collect();
    let cleared_import_wild: Vec<BTreeMap<String, Vec<WildcardEntry>>> = store
        .imported_audits()
        .values()
        .map(|f| f.wildcard_audits.iter().map(|(k, l)| (k.clone(), l.iter().map(|w| WildcardEntry { is_fresh_import: false, ..w.clone() }).collect())).collect())
        .collect();
    let cleared_pubs: BTreeMap<String, Vec<CratesPublisher>> = store.publishers().iter().map(|(k, l)| (k.clone(), l.iter().map(|p| CratesPublisher { is_fresh_import: false, ..p.clone() }).collect())).collect();
    let cleared_unpub: BTreeMap<String, Vec<UnpublishedEntry>> = store.unpublished().iter().map(|(k, l)| (k.clone(), l.iter().map(|p| UnpublishedEntry { is_fresh_import: false, ..p.clone() }).collect())).collect();

    let mut iv = UpdateView { audits: Canon::new(), imports: vec![], publishers: Canon::new(), unpublished: Canon::new(), exemptions: BTreeMap::new() };
    for (name, l) in &imp.audits {
        let orig = store.audits.audits.get(name).cloned().unwrap_or_default();
        let v = locate(&orig, l);
        if !v.is_empty() {
            iv.audits.insert(name.clone(), v);
        }
    }
    for (ii, (iname, orig)) in cleared_import_audits.iter().enumerate() {
        let newf = imp.imports.audits.get(iname);
        let mut a = Canon::new();
        let mut w = Canon::new();
        if let Some(newf) = newf {
            for (name, l) in &newf.audits {
                a.insert(name.clone(), locate(orig.get(name).map(|v| &v[..]).unwrap_or(&[]), l));
            }
            for (name, l) in &newf.wildcard_audits {
                w.insert(name.clone(), locate(cleared_import_wild[ii].get(name).map(|v| &v[..]).unwrap_or(&[]), l));
            }
        }
        iv.imports.push((a, w));
    }
    for (name, l) in &imp.imports.publisher {
        iv.publishers.insert(name.clone(), locate(cleared_pubs.get(name).map(|v| &v[..]).unwrap_or(&[]), l));
    }
    for (name, l) in &imp.imports.unpublished {
        let mut v = locate(cleared_unpub.get(name).map(|v| &v[..]).unwrap_or(&[]), l);
        v.dedup();
        iv.unpublished.insert(name.clone(), v);
    }
    for (name, l) in &imp.exemptions {
        let mut v: Vec<(usize, Vec<usize>, bool)> = l.iter().map(|e| (it.ver(&e.version), it.crit_list(&e.criteria), e.suggest)).collect();
        v.sort();
        iv.exemptions.insert(name.clone(), v);
    }

    // ---- canonical view of the model's answer
    let mut rd = Reader::new(&ans[3..]);
    let name_of = |n: usize| it.names.get(n).cloned().unwrap_or_else(|| format!("?{n}"));
    let mut mv = UpdateView { audits: Canon::new(), imports: vec![], publishers: Canon::new(), unpublished: Canon::new(), exemptions: BTreeMap::new() };
    let t_audits = read_table(&mut rd);
    mv.audits = canon_model(&name_of, t_audits, &|n| reps(store.audits.audits.get(n).map(|v| &v[..]).unwrap_or(&[])), false);
    let n_imp = rd.n();
    for ii in 0..n_imp.min(1000) {
        let ta = read_table(&mut rd);
        let tw = read_table(&mut rd);
        let a = canon_model(&name_of, ta, &|n| cleared_import_audits.get(ii).and_then(|(_, m)| m.get(n)).map(|l| reps(l)).unwrap_or_default(), false);
        let w = canon_model(&name_of, tw, &|n| cleared_import_wild.get(ii).and_then(|m| m.get(n)).map(|l| reps(l)).unwrap_or_default(), false);
        mv.imports.push((a, w));
    }
    let tp = read_table(&mut rd);
    mv.publishers = canon_model(&name_of, tp, &|n| cleared_pubs.get(n).map(|l| reps(l)).unwrap_or_default(), false);
    let tu = read_table(&mut rd);
    mv.unpublished = canon_model(&name_of, tu, &|n| cleared_unpub.get(n).map(|l| reps(l)).unwrap_or_default(), true);
    let ne = rd.n();
    for _ in 0..ne.min(100000) {
        let n = rd.n();
        let k = rd.n();
        let mut v = Vec::new();
        for _ in 0..k.min(100000) {
            let ver = rd.n();
            let crit = rd.list();
            let sug = rd.n() == 1;
            v.push((ver, crit, sug));
        }
        v.sort();
        mv.exemptions.insert(name_of(n), v);
    }
    r.corr("corr.update", &iv.render(), &mv.render(), &full_case);
    Some(imp)
}
