// Function-layer runner for the store-update properties (C09, C10, C11, C12-prune, C13):
// correspondence of get_store_updates with the model for random per-package modes, and
// oracles on the real output: the updated store still vets (locked view), nothing was widened.
use super::*;
use crate::format::*;
use crate::resolver::{self, Conclusion, SearchMode, UpdateMode};

fn verdict(md: &Metadata, store: &Store) -> String {
    match guarded(|| match resolver::resolve(md, None, store).conclusion {
        Conclusion::Success(_) => "success".to_owned(),
        Conclusion::FailForViolationConflict(_) => "violation".to_owned(),
        Conclusion::FailForVet(f) => format!("failvet {:?}", f.failures.iter().map(|(i, _)| *i).collect::<Vec<_>>()),
    }) {
        Ok(s) => s,
        Err(e) => format!("panic {e}"),
    }
}

fn random_mode(rng: &mut Rng) -> UpdateMode {
    UpdateMode {
        search_mode: *rng.pick(&[SearchMode::PreferExemptions, SearchMode::PreferFreshImports, SearchMode::PreferFreshImports]),
        prune_exemptions: rng.chance(1, 2),
        prune_non_importable_audits: rng.chance(1, 2),
        prune_imports: rng.chance(1, 2),
    }
}

pub const CHECK_MODE: UpdateMode = UpdateMode { search_mode: SearchMode::PreferExemptions, prune_exemptions: false, prune_non_importable_audits: false, prune_imports: false };
pub const PRUNE_MODE: UpdateMode = UpdateMode { search_mode: SearchMode::PreferFreshImports, prune_exemptions: true, prune_non_importable_audits: true, prune_imports: true };
pub const REGEN_MODE: UpdateMode = UpdateMode { search_mode: SearchMode::RegenerateExemptions, prune_exemptions: true, prune_non_importable_audits: true, prune_imports: true };

/// the store as the next `--locked` run would see it after committing `u`
fn locked_after(store: &Store, u: resolver::StoreUpdates) -> Store {
    let mut s = Store::mock(store.config.clone(), store.audits.clone(), store.imports.clone());
    u.apply(&mut s);
    s.live_imports = None;
    s
}

fn spec_of(store: &Store) -> Option<core::Spec> {
    core::Spec::new(&store.audits.criteria)
}

/// C11: nothing widened by a non-regenerating update
fn c11_oracle(r: &mut Report, store: &Store, u: &resolver::StoreUpdates, mode_of: &dyn Fn(&str) -> UpdateMode, case: &str) {
    let Some(spec) = spec_of(store) else { return };
    r.oracle_checked += 1;
    // local audits: a sublist; untouched where the flag says so
    for (name, new) in &u.audits {
        let old = store.audits.audits.get(name).cloned().unwrap_or_default();
        let mut it = old.iter();
        for a in new {
            if !it.any(|o| o == a) {
                r.fail("oracle", "C11/local-audit-added-or-altered", format!("{name}: {a:?} is not (in order) one of the audits that were there"), case);
            }
        }
        // a violation is never "unused": dropping it allows what it forbids
        for o in old.iter().filter(|o| matches!(o.kind, AuditKind::Violation { .. })) {
            if !new.contains(o) {
                r.fail("oracle", "C11/violation-pruned", format!("{name}: the update drops the local violation entry {:?} (importable = {})", o.kind, o.importable), case);
            }
        }
        if !mode_of(name).prune_non_importable_audits && &old != new {
            r.fail("oracle", "C11/local-audits-touched-without-flag", format!("{name}: local audits changed although pruning of audits is off"), case);
        }
    }
    for name in store.audits.audits.keys() {
        if !u.audits.contains_key(name) {
            r.fail("oracle", "C11/local-audit-table-dropped", format!("{name}: audit table disappeared"), case);
        }
    }
    // exemptions: each new one narrows an old one of the same version; none where nothing was
    for (name, new) in &u.exemptions {
        let regen = mode_of(name).search_mode == SearchMode::RegenerateExemptions;
        let old = store.config.exemptions.get(name).cloned().unwrap_or_default();
        for e in new {
            let Some(ne) = spec.cl(&e.criteria) else { continue };
            // the union of what old entries for that version granted
            let granted = old.iter().filter(|o| o.version == e.version).filter_map(|o| spec.cl(&o.criteria)).fold(0u64, |a, b| a | b);
            if ne & !granted != 0 && !regen {
                r.fail("oracle", "C11/exemption-added-or-broadened", format!("{name}: exemption {e:?} grants more than the old exemptions for that version ({granted})"), case);
            }
        }
        if !mode_of(name).prune_exemptions && !regen {
            for o in &old {
                let oc = spec.cl(&o.criteria);
                // (an exemption that lists nothing means nothing; the update drops it)
                if oc == Some(0) {
                    continue;
                }
                if !new.iter().any(|e| e.version == o.version && spec.cl(&e.criteria) == oc && e.suggest == o.suggest) {
                    r.fail("oracle", "C11/exemption-touched-without-flag", format!("{name}: exemption {o:?} changed meaning although pruning of exemptions is off"), case);
                }
            }
        }
    }
    for (name, old) in &store.config.exemptions {
        if !mode_of(name).prune_exemptions && old.iter().any(|o| spec.cl(&o.criteria) != Some(0)) && !u.exemptions.contains_key(name) {
            r.fail("oracle", "C11/exemption-touched-without-flag", format!("{name}: exemptions dropped although pruning of exemptions is off"), case);
        }
    }
    // imports.lock: only records that are currently served (live) or already locked
    for (iname, f) in &u.imports.audits {
        let live = store.imported_audits().get(iname);
        for (name, l) in &f.audits {
            for a in l {
                let ok = live.and_then(|lf| lf.audits.get(name)).map(|ll| ll.iter().any(|x| AuditEntry { is_fresh_import: false, ..x.clone() } == *a)).unwrap_or(false);
                if !ok {
                    r.fail("oracle", "C11/lock-records-unserved-audit", format!("{iname}/{name}: {a:?} is neither served nor locked"), case);
                }
            }
        }
        for (name, l) in &f.wildcard_audits {
            for a in l {
                let ok = live.and_then(|lf| lf.wildcard_audits.get(name)).map(|ll| ll.iter().any(|x| WildcardEntry { is_fresh_import: false, ..x.clone() } == *a)).unwrap_or(false);
                if !ok {
                    r.fail("oracle", "C11/lock-records-unserved-wildcard", format!("{iname}/{name}: {a:?} is neither served nor locked"), case);
                }
            }
        }
        if !f.trusted.is_empty() {
            r.fail("oracle", "C11/lock-records-trusted", format!("{iname}: trusted entries recorded in imports.lock"), case);
        }
    }
    for iname in u.imports.audits.keys() {
        if !store.imported_audits().contains_key(iname) {
            r.fail("oracle", "C11/lock-records-unknown-import", format!("{iname}: not a configured/served import"), case);
        }
    }
    for (name, l) in &u.imports.publisher {
        for p in l {
            let ok = store.publishers().get(name).map(|ll| ll.iter().any(|x| CratesPublisher { is_fresh_import: false, ..x.clone() } == *p)).unwrap_or(false);
            if !ok {
                r.fail("oracle", "C11/lock-records-unserved-publisher", format!("{name}: {p:?}"), case);
            }
        }
    }
    for (name, l) in &u.imports.unpublished {
        for p in l {
            let ok = store.unpublished().get(name).map(|ll| ll.iter().any(|x| UnpublishedEntry { is_fresh_import: false, ..x.clone() } == *p)).unwrap_or(false);
            if !ok {
                r.fail("oracle", "C11/lock-records-unserved-unpublished", format!("{name}: {p:?}"), case);
            }
        }
    }
}

fn c12_prune_oracle(r: &mut Report, md: &Metadata, store: &Store, u: &resolver::StoreUpdates, case: &str) {
    let Some(spec) = spec_of(store) else { return };
    let sg = core::SpecGraph::new(md);
    let Some(demand) = sg.demand(&store.config.policy, &spec) else { return };
    for (name, l) in &u.exemptions {
        let Some(edges) = core::spec_edges(store, &spec, name) else { continue };
        let no_ex = |e: &core::SpecEdge| e.kind != "exemption" && e.kind != "unpublished";
        for x in l {
            for c in &x.criteria {
                r.oracle_checked += 1;
                let Some(clc) = spec.cl(&[c.to_string()]) else { continue };
                // some in-graph third-party version of the crate, some criterion required of it that
                // this listed criterion would certify, not certifiable without exemptions
                let mut needed = false;
                for p in 0..sg.ids.len() {
                    if sg.name[p] != *name || !sg.third_party(&store.config.policy, p) {
                        continue;
                    }
                    for cr in 0..spec.crits.len() {
                        if demand[p] & (1 << cr) != 0 && clc & (1 << cr) != 0 && !core::spec_reach(&edges, cr, &no_ex).contains(&Some(sg.ver[p].clone())) {
                            needed = true;
                        }
                    }
                }
                if !needed {
                    r.fail("oracle", "C12/prune-keeps-unneeded-exemption", format!("after prune the exemption {name}:{} still lists `{}` although every in-graph version of {name} is certified without exemptions for every required criterion it implies", x.version, **c), case);
                }
            }
        }
    }
}

pub fn check_world(r: &mut Report, d: &mut Driver, rng: &mut Rng, w: &gen::GWorld, tag: &str) {
    r.evaluations += 1;
    let store = w.store();
    let md = &w.md;
    let (it, world_line) = wire::enc_world(md, &store);
    let ans = d.ask(&world_line);
    if ans != "ok" {
        r.fail("corr", "corr.wire.world", format!("driver answered `{ans}`"), &world_line);
        return;
    }
    let case = world_line.as_str();
    let prop = r.prop.clone();
    let before = verdict(md, &store);
    r.count(&format!("before:{}", before.split(' ').next().unwrap()));
    r.count(if store.live_imports.is_some() { "view:live" } else { "view:locked" });
    let names: Vec<String> = it.names.clone();

    // a handful of modes per world: check, prune, regenerate, random flags, per-package override
    let mut modes: Vec<(String, UpdateMode, Vec<(String, UpdateMode)>)> = vec![
        ("check".into(), CHECK_MODE, vec![]),
        ("prune".into(), PRUNE_MODE, vec![]),
        ("regenerate".into(), REGEN_MODE, vec![]),
        ("random".into(), random_mode(rng), vec![]),
    ];
    if !names.is_empty() {
        // certify/trust clean-up: one package pruned, the rest in check mode
        let n = rng.pick(&names).clone();
        modes.push(("certify-cleanup".into(), CHECK_MODE, vec![(n, UpdateMode { search_mode: SearchMode::PreferFreshImports, prune_exemptions: true, prune_non_importable_audits: true, prune_imports: false })]));
        let n2 = rng.pick(&names).clone();
        modes.push(("mixed".into(), random_mode(rng), vec![(n2, random_mode(rng))]));
    }
    let mut nontrivial = false;
    for (mname, default, overrides) in modes {
        let Some(u) = update::check_update(r, d, &it, md, &store, default, &overrides, case) else { continue };
        let ov = overrides.clone();
        let mode_of = move |name: &str| ov.iter().find(|(n, _)| n == name).map(|(_, m)| *m).unwrap_or(default);
        let regen = default.search_mode == SearchMode::RegenerateExemptions;
        if !u.imports.audits.values().all(|f| f.audits.is_empty() && f.wildcard_audits.is_empty()) || !u.imports.publisher.is_empty() || !u.exemptions.is_empty() {
            nontrivial = true;
        }
        let mcase = format!("{case}\nmode={mname}");
        if prop == "C11" {
            c11_oracle(r, &store, &u, &mode_of, &mcase);
        }
        // C04 across runs: a violation a peer serves for a crate in the graph is never dropped
        // from what is written to imports.lock, in any mode (theorem C04_update_keeps_violations)
        if prop == "C04" {
            let in_graph: BTreeSet<String> = md.packages.iter().map(|p| p.name.clone()).collect();
            for (imp, f) in store.imported_audits() {
                for (name, l) in &f.audits {
                    if !in_graph.contains(name) {
                        continue;
                    }
                    for a in l.iter().filter(|a| matches!(a.kind, AuditKind::Violation { .. })) {
                        r.oracle_checked += 1;
                        let kept = u.imports.audits.get(imp).and_then(|af| af.audits.get(name)).map(|ll| ll.iter().any(|x| AuditEntry { is_fresh_import: false, ..x.clone() } == AuditEntry { is_fresh_import: false, ..a.clone() })).unwrap_or(false);
                        if !kept {
                            r.fail("oracle", "C04/violation-dropped-from-lock", format!("mode {mname}: the violation {:?} served by `{imp}` for in-graph crate {name} is not in the imports.lock the update writes", a.kind), &mcase);
                        }
                    }
                }
            }
        }
        // C12 (prune half): after `prune`, an exemption — and each criterion it lists — remains only
        // if some in-graph version of that crate cannot otherwise be certified for a required
        // criterion from audits and grants.  Recomputed from the records: demand fixpoint +
        // reachability over non-exemption, non-unpublished edges of the store as loaded.
        if prop == "C12" && mname == "prune" && before == "success" {
            c12_prune_oracle(r, md, &store, &u, &mcase);
        }
        // C09/C10: a passing store still passes (as the next --locked run sees it)
        let after_store = locked_after(&store, u);
        let after = verdict(md, &after_store);
        r.oracle_checked += 1;
        r.count(&format!("mode:{mname}:{}->{}", before.split(' ').next().unwrap(), after.split(' ').next().unwrap()));
        if before == "success" && after != "success" {
            let sig = if mname == "check" { "C09/locked-fails-after-successful-check".to_owned() } else { format!("C10/{mname}-breaks-passing-store") };
            if (prop == "C09" && mname == "check") || (prop == "C10" && mname != "check") || prop == "C13" {
                r.fail("oracle", &sig, format!("store vetted successfully, after the `{mname}` update the locked view gives `{after}`"), &mcase);
            }
        }
        if regen && std::env::var("VERIF_ONLY").is_ok() {
            eprintln!("DEBUG live publishers: {:?}", store.live_imports.as_ref().map(|l| &l.publisher));
            eprintln!("DEBUG live unpublished: {:?}", store.live_imports.as_ref().map(|l| &l.unpublished));
            eprintln!("DEBUG live audits: {:?}", store.live_imports.as_ref().map(|l| &l.audits));
            let rep = resolver::resolve(md, None, &after_store);
            for (i, rr) in rep.results.iter().enumerate() {
                if let Some(rr) = rr {
                    eprintln!("DEBUG after pkg {i} {}:{} results {:?}", rep.graph.nodes[i].name, rep.graph.nodes[i].version, rr.search_results.iter().map(|r| r.is_ok()).collect::<Vec<_>>());
                }
            }
            let cm = crate::criteria::CriteriaMapper::new(&store.audits.criteria);
            let reqs = resolver::verif_hooks::requirements(&rep.graph, &store.config.policy, &cm);
            eprintln!("DEBUG reqs {:?}", reqs);
        }
        // (the property excuses stores with a violation conflict)
        if regen && prop == "C10" && after.starts_with("failvet") && before != "violation" {
            let dump = |s: &Store| s.mock_commit().into_iter().map(|(k, v)| format!("--- {k}\n{v}")).collect::<Vec<_>>().join("\n");
            let pk: Vec<String> = w.graph.pkgs.iter().map(|p| format!("{}:{} src{} member={} deps={:?}", p.name, p.version, p.source, p.member, p.deps)).collect();
            r.fail("oracle", "C10/regenerate-leaves-failures", format!("after regenerating exemptions the store gives `{after}`\npackages: {pk:?}\nBEFORE (live view present: {})\n{}\nAFTER\n{}", store.live_imports.is_some(), dump(&store), dump(&after_store)), &mcase);
        }
        if after.starts_with("panic") {
            r.fail("oracle", &format!("{prop}/panic-after-update"), after.clone(), &mcase);
        }
    }
    if nontrivial {
        r.nontrivial(case);
    }
    if r.samples.len() < 3 {
        r.sample(format!("[{tag}] verdict before: {before}; {}", &case[..case.len().min(240)]));
    }
}

pub fn run(r: &mut Report, _replay: Option<&str>) {
    let mut d = Driver::spawn();
    let (shard, nshards) = shard();
    r.rule = "worlds as in the resolver core, each updated under six update modes (check, prune, regenerate, random flags, certify clean-up of one package, mixed per-package); non-trivial = the update keeps at least one imported/publisher/exemption record; distinct by hash of the encoded world".into();
    let n = if r.thorough() { 36000 } else { 9600 } / nshards;
    let mut rng = Rng::new(r.seed.wrapping_add(shard.wrapping_mul(104729)));
    let only: Option<u64> = std::env::var("VERIF_ONLY").ok().and_then(|s| s.parse().ok());
    for i in 0..n {
        let mut crng = rng.fork();
        if let Some(o) = only {
            if o != i + 1 {
                continue;
            }
            r.evaluations = i;
        }
        let cfg = gen::WorldCfg { max_pkgs: if i % 4 == 0 { 8 } else { 5 }, max_customs: if i % 3 == 0 { 3 } else { 2 }, violations: if i % 6 == 0 { 2 } else { 0 }, unknown_criteria: false };
        let w = gen::gen_world(&mut crng, &cfg);
        if i % 2 == 0 {
            // the update model sits on the model of the graph build, the search and resolve:
            // their ties are checked on these worlds too
            core::check_world(r, &mut d, &w, &format!("random#{i}"));
            r.evaluations -= 1;
        }
        let nf = r.failures.len();
        let rng0 = Rng(crng.0);
        check_world(r, &mut d, &mut crng, &w, &format!("random#{i}"));
        // (the same random modes are drawn for every candidate)
        r.minimise_last(nf, &w, &mut |sr, cand| check_world(sr, &mut d, &mut Rng(rng0.0), cand, "minimising"));
    }
    r.count_n("driver-requests", d.requests);
}
