// Import pipeline (C07, C16, part of C15): real `Store::mock_online` on raw peer files served by
// a mock network vs the model's `importOne` + `updateFreshness`; leak oracle recomputed from
// the raw peer data and the local configuration.
use super::*;
use crate::criteria::CriteriaMapper;
use crate::format::*;
use wire::Toks;

const PEER_CRITS: [&str; 4] = ["p-aaa", "p-bbb", "p-ccc", "p-ddd"];
const CRATES: [&str; 4] = ["crate-one", "crate-two", "crate-three", "crate-four"];

#[derive(Clone, Debug)]
pub struct RawCrit {
    pub name: String,
    pub desc: usize,
    pub implies: Vec<String>,
    pub parses: bool,
}

#[derive(Clone, Debug)]
pub enum RawKind {
    Full(String),
    Delta(String, String),
    Violation(String),
}

#[derive(Clone, Debug)]
pub struct RawAudit {
    pub kind: RawKind,
    pub criteria: Vec<String>,
    pub importable: bool,
    pub parses: bool,
    pub tag: usize,
}

#[derive(Clone, Debug)]
pub struct RawWild {
    pub user: u64,
    pub start: i64,
    pub end: i64,
    pub criteria: Vec<String>,
    pub parses: bool,
}

#[derive(Clone, Debug, Default)]
pub struct RawPeer {
    pub crits: Vec<RawCrit>,
    pub audits: BTreeMap<String, Vec<RawAudit>>,
    pub wild: BTreeMap<String, Vec<RawWild>>,
    pub trusted: BTreeMap<String, Vec<RawWild>>,
}

fn q(s: &str) -> String {
    format!("\"{s}\"")
}
fn qlist(l: &[String]) -> String {
    format!("[{}]", l.iter().map(|s| q(s)).collect::<Vec<_>>().join(", "))
}

impl RawPeer {
    pub fn toml(&self) -> String {
        let mut s = String::new();
        for c in &self.crits {
            s.push_str(&format!("[criteria.{}]\ndescription = \"desc{}\"\n", c.name, c.desc));
            if !c.implies.is_empty() {
                s.push_str(&format!("implies = {}\n", qlist(&c.implies)));
            }
            if !c.parses {
                s.push_str("field-from-the-future = 1\n");
            }
            s.push('\n');
        }
        for (name, l) in &self.wild {
            for w in l {
                // WildcardEntry tolerates unknown fields; an entry from the future is one whose
                // known field has a type this version cannot read
                let uid = if w.parses { w.user.to_string() } else { format!("{{ id = {} }}", w.user) };
                s.push_str(&format!("[[wildcard-audits.{name}]]\nwho = \"w\"\ncriteria = {}\nuser-id = {}\nstart = \"{}\"\nend = \"{}\"\n", qlist(&w.criteria), uid, gen::date(w.start), gen::date(w.end)));
                s.push('\n');
            }
        }
        for (name, l) in &self.audits {
            for a in l {
                s.push_str(&format!("[[audits.{name}]]\nwho = \"w\"\ncriteria = {}\n", qlist(&a.criteria)));
                match &a.kind {
                    RawKind::Full(v) => s.push_str(&format!("version = {}\n", q(v))),
                    RawKind::Delta(f, t) => s.push_str(&format!("delta = \"{f} -> {t}\"\n")),
                    RawKind::Violation(v) => s.push_str(&format!("violation = {}\n", q(v))),
                }
                if !a.importable {
                    s.push_str("importable = false\n");
                }
                s.push_str(&format!("notes = \"t{}\"\n", a.tag));
                if !a.parses {
                    s.push_str("field-from-the-future = 1\n");
                }
                s.push('\n');
            }
        }
        for (name, l) in &self.trusted {
            for w in l {
                s.push_str(&format!("[[trusted.{name}]]\ncriteria = {}\nuser-id = {}\nstart = \"{}\"\nend = \"{}\"\n\n", qlist(&w.criteria), w.user, gen::date(w.start), gen::date(w.end)));
            }
        }
        if self.audits.is_empty() {
            s.push_str("[audits]\n");
        }
        s
    }
    /// names of the parseable criteria in sorted (mapper) order, built-ins first
    pub fn crit_names(&self) -> Vec<String> {
        let mut v = vec![SAFE_TO_RUN.to_owned(), SAFE_TO_DEPLOY.to_owned()];
        let mut c: Vec<String> = self.crits.iter().filter(|c| c.parses).map(|c| c.name.clone()).collect();
        c.sort();
        v.extend(c);
        v
    }
}

pub struct ImportCase {
    pub local_criteria: SortedMap<CriteriaName, CriteriaEntry>,
    pub peers: Vec<RawPeer>,
    pub exclude: Vec<String>,
    pub cmap: Vec<(String, Vec<String>)>,
    pub lock: AuditsFile,
}

fn gen_names(rng: &mut Rng, pool: &[String], unknown: bool) -> Vec<String> {
    let k = *rng.pick(&[1, 1, 2, 2, 3]);
    (0..k)
        .map(|_| if unknown && rng.chance(1, 8) { "p-unknown".to_owned() } else { rng.pick(pool).clone() })
        .collect()
}

pub fn gen_peer(rng: &mut Rng, tagbase: usize, malformed: bool) -> RawPeer {
    let k = rng.below(4);
    let mut pool = vec![SAFE_TO_RUN.to_owned(), SAFE_TO_DEPLOY.to_owned()];
    pool.extend(PEER_CRITS[..k].iter().map(|s| s.to_string()));
    let mut crits = Vec::new();
    for i in 0..k {
        let mut implies = Vec::new();
        for j in 0..k {
            // acyclic unless malformed
            if i != j && (j > i || (malformed && rng.chance(1, 6))) && rng.chance(1, 3) {
                implies.push(PEER_CRITS[j].to_owned());
            }
        }
        if rng.chance(1, 4) {
            implies.push(SAFE_TO_RUN.to_owned());
        }
        if rng.chance(1, 6) {
            implies.push("p-unknown".to_owned());
        }
        crits.push(RawCrit { name: PEER_CRITS[i].to_owned(), desc: if rng.chance(1, 8) { 1 } else { 0 }, implies, parses: !rng.chance(1, 8) });
    }
    if malformed && rng.chance(1, 4) {
        crits.push(RawCrit { name: SAFE_TO_RUN.to_owned(), desc: 0, implies: vec![], parses: true });
    }
    let versions = ["1.0.0", "2.0.0", "3.0.0"];
    let mut p = RawPeer { crits, ..Default::default() };
    let mut tag = tagbase;
    for c in CRATES.iter() {
        if rng.chance(2, 3) {
            let l: Vec<RawAudit> = (0..rng.range(1, 3))
                .map(|_| {
                    tag += 1;
                    RawAudit {
                        kind: match rng.below(5) {
                            0 | 1 => RawKind::Full(rng.pick(&versions).to_string()),
                            2 | 3 => RawKind::Delta(rng.pick(&versions).to_string(), rng.pick(&versions).to_string()),
                            _ => RawKind::Violation(["*", "=2.0.0", ">=2.0.0"][rng.below(3)].to_owned()),
                        },
                        criteria: gen_names(rng, &pool, true),
                        importable: !rng.chance(1, 5),
                        parses: !rng.chance(1, 7),
                        tag,
                    }
                })
                .collect();
            p.audits.insert(c.to_string(), l);
        }
        if rng.chance(1, 3) {
            let l: Vec<RawWild> = (0..rng.range(1, 2))
                .map(|_| RawWild { user: rng.range(1, 3) as u64, start: 0, end: rng.below(6) as i64 * 10 + 1, criteria: gen_names(rng, &pool, true), parses: !rng.chance(1, 7) })
                .collect();
            p.wild.insert(c.to_string(), l);
        }
        if rng.chance(1, 5) {
            p.trusted.insert(c.to_string(), vec![RawWild { user: 1, start: 0, end: 50, criteria: gen_names(rng, &pool, false), parses: true }]);
        }
    }
    p
}

pub fn gen_case(rng: &mut Rng, malformed: bool) -> ImportCase {
    let local_criteria = gen::gen_criteria(rng, 3, true);
    let locals = gen::all_crit_names(&local_criteria);
    let n_peers = if rng.chance(1, 3) { 2 } else { 1 };
    let peers: Vec<RawPeer> = (0..n_peers).map(|i| gen_peer(rng, i * 100, malformed)).collect();
    let mut cmap = Vec::new();
    for pc in PEER_CRITS.iter() {
        if rng.chance(1, 2) {
            cmap.push((pc.to_string(), gen::gen_crit_list(rng, &locals, true).iter().map(|s| s.to_string()).collect()));
        }
    }
    if rng.chance(1, 5) {
        cmap.push((SAFE_TO_DEPLOY.to_owned(), if rng.chance(1, 2) { vec![] } else { vec![SAFE_TO_RUN.to_owned()] }));
    }
    if rng.chance(1, 8) {
        cmap.push((SAFE_TO_RUN.to_owned(), vec![]));
    }
    if malformed && rng.chance(1, 6) {
        cmap.push(("p-aaa".to_owned(), vec!["c-undefined".to_owned()]));
        cmap.dedup_by(|a, b| a.0 == b.0);
    }
    cmap.sort();
    cmap.dedup_by(|a, b| a.0 == b.0);
    let exclude = if rng.chance(1, 3) { vec![rng.pick(&CRATES).to_string()] } else { vec![] };
    ImportCase { local_criteria, peers, exclude, cmap, lock: AuditsFile::default() }
}

fn root_only_metadata() -> Metadata {
    let g = gen::GGraph {
        pkgs: vec![gen::GPkg { name: "rootpkg".into(), version: VetVersion::parse("1.0.0").unwrap(), source: 0, member: true, deps: vec![] }],
        resolve_order: vec![0],
        member_order: vec![0],
    };
    g.metadata()
}

fn urls(n: usize) -> Vec<String> {
    (0..n).map(|i| format!("https://peer{i}.example/audits.toml")).collect()
}

/// run the real pipeline; returns the live view of the import, or the outcome class
pub fn run_real(case: &ImportCase) -> Result<AuditsFile, String> {
    let md = root_only_metadata();
    let cfg = mock_cfg(&md);
    let mut network = Network::new_mock();
    let us = urls(case.peers.len());
    for (u, p) in us.iter().zip(&case.peers) {
        network.mock_serve(u, p.toml());
    }
    let mut config = ConfigFile { cargo_vet: Default::default(), default_criteria: get_default_criteria(), imports: SortedMap::new(), policy: Default::default(), exemptions: SortedMap::new() };
    let mut cm = CriteriaMap::new();
    for (k, v) in &case.cmap {
        cm.insert(gen::sp(k.clone()), v.iter().map(|s| gen::sp(s.clone())).collect());
    }
    config.imports.insert("peer".into(), RemoteImport { url: us, exclude: case.exclude.clone(), criteria_map: cm });
    let audits = AuditsFile { criteria: case.local_criteria.clone(), wildcard_audits: SortedMap::new(), audits: SortedMap::new(), trusted: SortedMap::new() };
    let imports = ImportsFile { unpublished: SortedMap::new(), publisher: SortedMap::new(), audits: [("peer".to_owned(), case.lock.clone())].into_iter().collect() };
    // order of the real command: `Store::acquire` validates the offline store before going online
    match guarded(|| Store::mock(config.clone(), audits.clone(), imports.clone()).validate(mock_today(), false)) {
        Ok(Ok(())) => {}
        Ok(Err(e)) => return Err(format!("refused:{}", format!("{e:?}").chars().take(200).collect::<String>())),
        Err(p) => return Err(format!("{}@validate", panic_class(&p))),
    }
    match guarded(|| Store::mock_online(&cfg, config, audits, imports, &network, true)) {
        Ok(Ok(store)) => Ok(store.live_imports.unwrap().audits.remove("peer").unwrap()),
        Ok(Err(e)) => Err(format!("refused:{}", format!("{e:?}").chars().take(200).collect::<String>())),
        Err(p) => Err(panic_class(&p).to_owned()),
    }
}

struct Ctx {
    locals: Vec<String>,
    vers: Vec<VetVersion>,
    names: Vec<String>,
}

impl Ctx {
    fn local(&self, s: &str) -> usize {
        self.locals.iter().position(|x| x == s).unwrap_or(self.locals.len() + 7)
    }
    fn ver(&self, s: &str) -> usize {
        let v = VetVersion::parse(s).unwrap();
        self.vers.iter().position(|x| *x == v).unwrap()
    }
    fn name(&self, s: &str) -> usize {
        self.names.iter().position(|x| x == s).unwrap()
    }
}

fn enc_kind(cx: &Ctx, k: &AuditKind, t: &mut Toks) {
    match k {
        AuditKind::Full { version } => {
            t.n(0).n(cx.vers.iter().position(|x| x == version).unwrap());
        }
        AuditKind::Delta { from, to } => {
            t.n(1).n(cx.vers.iter().position(|x| x == from).unwrap()).n(cx.vers.iter().position(|x| x == to).unwrap());
        }
        AuditKind::Violation { violation } => {
            let m: Vec<usize> = cx.vers.iter().enumerate().filter(|(_, v)| violation.0.matches(&v.semver)).map(|(i, _)| i).collect();
            t.n(2).list(&m);
        }
    }
}

fn raw_kind(k: &RawKind) -> AuditKind {
    match k {
        RawKind::Full(v) => AuditKind::Full { version: VetVersion::parse(v).unwrap() },
        RawKind::Delta(f, t) => AuditKind::Delta { from: VetVersion::parse(f).unwrap(), to: VetVersion::parse(t).unwrap() },
        RawKind::Violation(v) => AuditKind::Violation { violation: VersionReq::parse(v).unwrap() },
    }
}

/// canonical rendering of an audits file (local criteria indices), entries sorted
fn canon_file(cx: &Ctx, f: &AuditsFile) -> String {
    let mut out = String::new();
    for (name, l) in &f.audits {
        let mut v: Vec<String> = l
            .iter()
            .map(|a| {
                let mut t = Toks::new();
                enc_kind(cx, &a.kind, &mut t);
                t.list(&a.criteria.iter().map(|c| cx.local(c)).collect::<Vec<_>>());
                t.b(a.importable).b(a.is_fresh_import);
                t.text()
            })
            .collect();
        v.sort();
        if !v.is_empty() {
            out.push_str(&format!("A{}:{:?};", cx.name(name), v));
        }
    }
    for (name, l) in &f.wildcard_audits {
        let mut v: Vec<String> = l
            .iter()
            .map(|a| {
                let mut t = Toks::new();
                t.n(a.user_id as usize).n(wire::day(&a.start)).n(wire::day(&a.end));
                t.list(&a.criteria.iter().map(|c| cx.local(c)).collect::<Vec<_>>());
                t.b(a.is_fresh_import);
                t.text()
            })
            .collect();
        v.sort();
        if !v.is_empty() {
            out.push_str(&format!("W{}:{:?};", cx.name(name), v));
        }
    }
    out
}

fn canon_model(ans: &str) -> String {
    let mut rd = update::Reader::new(ans);
    let mut out = String::new();
    for tagc in ["A", "W"] {
        let k = rd.n();
        for _ in 0..k.min(10000) {
            let name = rd.n();
            let cnt = rd.n();
            let mut v: Vec<String> = Vec::new();
            for _ in 0..cnt.min(10000) {
                let len = rd.n();
                let toks: Vec<String> = (0..len.min(10000)).map(|_| rd.n().to_string()).collect();
                v.push(toks.join(" "));
            }
            v.sort();
            if !v.is_empty() {
                out.push_str(&format!("{tagc}{name}:{v:?};"));
            }
        }
    }
    out
}

fn enc_afile_local(cx: &Ctx, f: &AuditsFile, t: &mut Toks) {
    t.n(f.audits.len());
    for (name, l) in &f.audits {
        t.n(cx.name(name)).n(l.len());
        for a in l {
            enc_kind(cx, &a.kind, t);
            t.list(&a.criteria.iter().map(|c| cx.local(c)).collect::<Vec<_>>());
            t.b(a.importable).b(a.is_fresh_import);
        }
    }
    t.n(f.wildcard_audits.len());
    for (name, l) in &f.wildcard_audits {
        t.n(cx.name(name)).n(l.len());
        for w in l {
            t.n(w.user_id as usize).n(wire::day(&w.start)).n(wire::day(&w.end));
            t.list(&w.criteria.iter().map(|c| cx.local(c)).collect::<Vec<_>>());
            t.b(w.is_fresh_import);
        }
    }
}

pub fn encode(case: &ImportCase) -> (Ctx, String) {
    let locals = gen::all_crit_names(&case.local_criteria);
    let mut vers: Vec<VetVersion> = ["1.0.0", "2.0.0", "3.0.0"].iter().map(|s| VetVersion::parse(s).unwrap()).collect();
    vers.sort();
    let mut names: Vec<String> = CRATES.iter().map(|s| s.to_string()).collect();
    names.sort();
    let cx = Ctx { locals, vers, names };
    let mut t = wire::enc_table(&case.local_criteria);
    // criterion name ids across sources
    let mut all_names: Vec<String> = case.peers.iter().flat_map(|p| p.crits.iter().map(|c| c.name.clone())).collect();
    all_names.sort();
    all_names.dedup();
    t.n(case.peers.len());
    for p in &case.peers {
        let pn = p.crit_names();
        let fidx = |s: &str| pn.iter().position(|x| x == s).unwrap_or(pn.len() + 7);
        let mut customs: Vec<&RawCrit> = p.crits.iter().filter(|c| c.parses).collect();
        customs.sort_by(|a, b| a.name.cmp(&b.name));
        t.n(customs.len());
        for c in &customs {
            let clash = if c.name == SAFE_TO_RUN { 1 } else if c.name == SAFE_TO_DEPLOY { 2 } else { 0 };
            t.n(clash);
            t.list(&c.implies.iter().map(|i| fidx(i)).collect::<Vec<_>>());
        }
        t.n(customs.len());
        for c in &customs {
            t.n(all_names.iter().position(|x| *x == c.name).unwrap()).n(c.desc);
        }
        t.n(p.audits.len());
        for (name, l) in &p.audits {
            t.n(cx.name(name)).n(l.len());
            for a in l {
                t.b(a.parses);
                enc_kind(&cx, &raw_kind(&a.kind), &mut t);
                t.list(&a.criteria.iter().map(|c| fidx(c)).collect::<Vec<_>>());
                t.b(a.importable).b(false);
            }
        }
        t.n(p.wild.len());
        for (name, l) in &p.wild {
            t.n(cx.name(name)).n(l.len());
            for w in l {
                t.b(w.parses);
                t.n(w.user as usize).n(wire::day(&gen::date(w.start))).n(wire::day(&gen::date(w.end)));
                t.list(&w.criteria.iter().map(|c| fidx(c)).collect::<Vec<_>>());
                t.b(false);
            }
        }
        // criteria map in this source's namespace
        let entries: Vec<(usize, Vec<usize>)> = case.cmap.iter().map(|(k, v)| (fidx(k), v.iter().map(|c| cx.local(c)).collect())).collect();
        t.n(entries.len());
        for (k, v) in entries {
            t.n(k).list(&v);
        }
    }
    t.list(&case.exclude.iter().map(|e| cx.name(e)).collect::<Vec<_>>());
    enc_afile_local(&cx, &case.lock, &mut t);
    (cx, format!("import {}", t.text()))
}

/// closure of a list of names within a peer's own (sanitised) table; None if cyclic/ill-formed
fn peer_closure(p: &RawPeer) -> Option<(Vec<String>, Vec<u64>)> {
    let names = p.crit_names();
    let mut table: SortedMap<CriteriaName, CriteriaEntry> = SortedMap::new();
    for c in p.crits.iter().filter(|c| c.parses) {
        if c.name == SAFE_TO_RUN || c.name == SAFE_TO_DEPLOY {
            return None;
        }
        table.insert(c.name.clone(), CriteriaEntry { description: None, description_url: None, implies: c.implies.iter().filter(|i| names.contains(i)).map(|i| gen::sp(i.clone())).collect(), aggregated_from: vec![] });
    }
    let spec = core::Spec::new(&table)?;
    Some((spec.crits, spec.closure))
}

pub fn check_case(r: &mut Report, d: &mut Driver, case: &ImportCase, tag: &str) {
    r.evaluations += 1;
    let prop = r.prop.clone();
    let (cx, line) = encode(case);
    let real = run_real(case);
    let model = d.ask(&line);
    let real_line = match &real {
        Ok(f) => format!("ok {}", canon_file(&cx, f)),
        Err(e) if e.starts_with("refused") => "refused".to_owned(),
        Err(e) => e.clone(),
    };
    let model = if model == "refused-by-validate" { "refused".to_owned() } else { model };
    let model_line = if let Some(rest) = model.strip_prefix("ok ") { format!("ok {}", canon_model(rest)) } else if model == "ok" { "ok ".to_owned() } else { model.clone() };
    let descr = format!("{line}\n--- cmap {:?} exclude {:?}\n{}", case.cmap, case.exclude, case.peers.iter().map(|p| p.toml()).collect::<Vec<_>>().join("\n=====\n"));
    r.corr("corr.import", &real_line, &model_line, &descr);
    r.count(&format!("outcome:{}", real_line.split(' ').next().unwrap()));
    r.count(&format!("sources:{}", case.peers.len()));
    if case.peers.iter().any(|p| p.audits.values().flatten().any(|a| a.criteria.iter().any(|c| c.starts_with("p-") && case.cmap.iter().any(|(k, _)| k == c)))) {
        r.nontrivial(&line);
    }
    if r.samples.len() < 3 {
        r.sample(format!("[{tag}] cmap={:?} exclude={:?} -> {}", case.cmap, case.exclude, &real_line[..real_line.len().min(200)]));
    }
    // ---------------- oracles on the real result
    if let Err(e) = &real {
        if e.starts_with("panic") && prop == "C15" {
            let site = if e.contains("implies-itself") || e.contains("dup-criteria") { "peer-criteria-table" } else if e.contains("unknown-criterion") { "criteria-map-target" } else if case.lock.criteria.values().any(|c| c.description.is_none()) { "lock-criteria-without-description" } else { "other" };
            r.fail("oracle", &format!("C15/panic@{site}"), format!("acquiring the store with this peer data panics: {e}"), &descr);
        }
        return;
    }
    let live = real.unwrap();
    let Some(lspec) = core::Spec::new(&case.local_criteria) else { return };
    r.oracle_checked += 1;
    // "Unparseable or unknown-criteria entries in a peer file are skipped individually without
    // changing how the remaining entries are read": the same peer files with those entries
    // deleted must import to the same thing
    if prop == "C07" {
        let mut clean_peers = case.peers.clone();
        let mut dropped = 0usize;
        for p in &mut clean_peers {
            let known = p.crit_names();
            // (an entry is an "unknown-criteria entry" when none of its criteria is known to the peer's
            // table; unknown names next to known ones are dropped from the list, the entry stays)
            let ok = |crit: &Vec<String>| crit.iter().any(|c| known.contains(c));
            for l in p.audits.values_mut() {
                let n0 = l.len();
                l.retain(|a| a.parses && ok(&a.criteria));
                dropped += n0 - l.len();
            }
            for l in p.wild.values_mut() {
                let n0 = l.len();
                l.retain(|w| w.parses && ok(&w.criteria));
                dropped += n0 - l.len();
            }
            p.audits.retain(|_, l| !l.is_empty());
            p.wild.retain(|_, l| !l.is_empty());
        }
        if dropped > 0 {
            let clean = ImportCase { local_criteria: case.local_criteria.clone(), peers: clean_peers, exclude: case.exclude.clone(), cmap: case.cmap.clone(), lock: case.lock.clone() };
            r.oracle_checked += 1;
            r.count("skip-individually:checked");
            match run_real(&clean) {
                Ok(f2) => {
                    let (a, b) = (canon_file(&cx, &live), canon_file(&cx, &f2));
                    if a != b {
                        r.fail("oracle", "C07/bad-entry-changes-how-the-rest-is-read", format!("with the {dropped} unparseable / unknown-criteria entries present the import is\n{a}\nwithout them it is\n{b}"), &descr);
                    }
                }
                Err(e) => r.fail("oracle", "C07/bad-entry-changes-how-the-rest-is-read", format!("the file imports with the bad entries present but not with them deleted: {e}"), &descr),
            }
        }
    }
    // what each raw entry may contribute, per C07
    let mut allowed: BTreeMap<(String, String), u64> = BTreeMap::new(); // (crate, kind-key) -> local bits
    let mut allowed_w: BTreeMap<(String, u64, i64, i64), u64> = BTreeMap::new();
    for p in &case.peers {
        let Some((pn, pclo)) = peer_closure(p) else { return };
        let map_f = |f: &str| -> u64 {
            if let Some((_, v)) = case.cmap.iter().find(|(k, _)| k == f) {
                lspec.cl(v).unwrap_or(0)
            } else if f == SAFE_TO_DEPLOY || f == SAFE_TO_RUN {
                lspec.cl(&[f]).unwrap_or(0)
            } else {
                0
            }
        };
        let contrib = |crit: &[String]| -> u64 {
            let mut fset = 0u64;
            for c in crit {
                if let Some(i) = pn.iter().position(|x| x == c) {
                    fset |= pclo[i];
                }
            }
            let mut l = 0u64;
            for (i, n) in pn.iter().enumerate() {
                if fset & (1 << i) != 0 {
                    l |= map_f(n);
                }
            }
            l
        };
        for (name, l) in &p.audits {
            for a in l {
                if !a.parses || !a.importable || case.exclude.contains(name) {
                    continue;
                }
                let key = format!("{:?}", raw_kind(&a.kind));
                *allowed.entry((name.clone(), key)).or_insert(0) |= contrib(&a.criteria);
            }
        }
        for (name, l) in &p.wild {
            for w in l {
                if !w.parses {
                    continue;
                }
                *allowed_w.entry((name.clone(), w.user, w.start, w.end)).or_insert(0) |= contrib(&w.criteria);
            }
        }
    }
    // completeness ("a multi-URL import behaves like the union of its sources"; entries are
    // skipped only for the stated reasons): every entry the raw peer data justifies with a
    // non-empty local contribution is in the live view
    if prop == "C07" {
        for ((name, key), may) in &allowed {
            if *may != 0 && !live.audits.get(name).map(|l| l.iter().any(|a| format!("{:?}", a.kind) == *key)).unwrap_or(false) {
                r.fail("oracle", "C07/justified-audit-missing", format!("{name}: a served, importable, parseable audit {key} contributing local criteria {may} is not in the imported view"), &descr);
            }
        }
        for ((name, user, s, e), may) in &allowed_w {
            let present = live.wildcard_audits.get(name).map(|l| l.iter().any(|w| w.user_id == *user && (*w.start - gen::date(0)).num_days() == *s && (*w.end - gen::date(0)).num_days() == *e)).unwrap_or(false);
            if *may != 0 && !present && !case.exclude.contains(name) {
                r.fail("oracle", "C07/justified-wildcard-missing", format!("{name}: a served, parseable wildcard audit (user {user}, days {s}..{e}) contributing local criteria {may} is not in the imported view"), &descr);
            }
        }
    }
    for (name, l) in &live.audits {
        if case.exclude.contains(name) && (prop == "C07") {
            r.fail("oracle", "C07/excluded-crate-audit-imported", format!("{name} is excluded but the live view has audits for it"), &descr);
        }
        for a in l {
            let got = lspec.cl(&a.criteria).unwrap_or(u64::MAX);
            let may = allowed.get(&(name.clone(), format!("{:?}", a.kind))).copied().unwrap_or(0);
            if got & !may != 0 && prop == "C07" {
                r.fail("oracle", "C07/leak-audit", format!("{name}: imported {:?} carries local criteria {got} but the peer data and criteria-map justify only {may}", a.kind), &descr);
            }
        }
    }
    for (name, l) in &live.wildcard_audits {
        if case.exclude.contains(name) && prop == "C07" {
            r.fail("oracle", "C07/excluded-crate-wildcard-imported", format!("{name} is listed in `exclude` but its wildcard audits are imported"), &descr);
        }
        for w in l {
            let got = lspec.cl(&w.criteria).unwrap_or(u64::MAX);
            let s = (*w.start - gen::date(0)).num_days();
            let e = (*w.end - gen::date(0)).num_days();
            let may = allowed_w.get(&(name.clone(), w.user_id, s, e)).copied().unwrap_or(0);
            if got & !may != 0 && prop == "C07" {
                r.fail("oracle", "C07/leak-wildcard", format!("{name}: imported wildcard audit carries {got}, justified {may}"), &descr);
            }
        }
    }
}

pub fn corpus(prop: &str) -> Vec<(String, ImportCase)> {
    let mut out = Vec::new();
    if prop == "C07" {
        // F3: crate listed in `exclude`, peer serves a wildcard audit for it
        let mut p = RawPeer::default();
        p.wild.insert("crate-one".into(), vec![RawWild { user: 1, start: 0, end: 50, criteria: vec![SAFE_TO_DEPLOY.into()], parses: true }]);
        p.audits.insert("crate-one".into(), vec![RawAudit { kind: RawKind::Full("1.0.0".into()), criteria: vec![SAFE_TO_DEPLOY.into()], importable: true, parses: true, tag: 1 }]);
        out.push(("corpus:C07-exclude-wildcard".to_owned(), ImportCase { local_criteria: SortedMap::new(), peers: vec![p], exclude: vec!["crate-one".into()], cmap: vec![], lock: AuditsFile::default() }));
    }
    out
}

pub fn run(r: &mut Report) {
    let mut d = Driver::spawn();
    let (shard, nshards) = shard();
    let prev = if r.rule.is_empty() { String::new() } else { format!("{}; PLUS ", r.rule) };
    r.rule = prev + "import cases = (local criteria table, 1-2 raw peer files with their own criteria tables incl. unparseable / unknown-criteria / non-importable entries, criteria-map incl. built-in overrides, exclude list, lock); non-trivial = some peer entry uses a peer criterion that the criteria-map maps; distinct by hash of the encoded case";
    let n = if r.thorough() { 32000 } else { 9000 } / nshards;
    let mut rng = Rng::new(r.seed.wrapping_add(shard.wrapping_mul(6700417)) ^ 0x1234);
    if shard == 0 {
        for (tag, c) in corpus(&r.prop) {
            check_case(r, &mut d, &c, &tag);
        }
    }
    let malformed_stream = r.prop == "C15";
    for i in 0..n {
        let mut crng = rng.fork();
        let mut case = gen_case(&mut crng, malformed_stream || i % 10 == 0);
        // second pass with a lock: what the first import kept (staleness marking)
        if i % 3 == 0 {
            if let Ok(f) = run_real(&case) {
                let mut lock = f;
                for l in lock.audits.values_mut() {
                    l.retain(|_| crng.chance(1, 2));
                    for a in l.iter_mut() {
                        a.is_fresh_import = false;
                    }
                }
                for l in lock.wildcard_audits.values_mut() {
                    for a in l.iter_mut() {
                        a.is_fresh_import = false;
                        // what was locked may differ from what is served now in the fields that do
                        // not make it another audit: who, notes, and the renew flag
                        if crng.chance(1, 3) {
                            a.renew = Some(crng.chance(1, 2));
                        }
                        if crng.chance(1, 4) {
                            a.notes = Some("reworded since".to_owned());
                        }
                    }
                }
                lock.audits.retain(|_, l| !l.is_empty());
                // imports.lock keeps the (mapped) criteria with their descriptions; a hand-edited
                // one may lack the description
                if crng.chance(1, 2) {
                    lock.criteria.clear();
                } else if malformed_stream && crng.chance(1, 2) {
                    for c in lock.criteria.values_mut() {
                        c.description = None;
                    }
                    r.count("lock-criteria-without-description");
                }
                lock.trusted.clear();
                case.lock = lock;
            }
        }
        check_case(r, &mut d, &case, &format!("random#{i}"));
    }
    r.count_n("driver-requests", d.requests);
}
