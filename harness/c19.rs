// C19: fetched crate sources stay inside the cache and are used only if fully unpacked.
// Real `Cache::fetch_package` on a temp cache with crafted `.crate` archives (benign and hostile
// entry names, links, an archive carrying its own completion marker), cut short by a corrupt
// header after k entries, then a retry with the intact archive; the whole tree of the temp
// directory is compared with the model and checked against the property directly.
use super::*;
use crate::format::*;
use wire::Toks;
use crate::storage::Cache;

const CRATE: &str = "victim";
const VER: &str = "1.0.0";

#[derive(Clone, Debug)]
enum Kind {
    File(String),
    Dir,
    Symlink(String),
}

#[derive(Clone, Debug)]
struct Ent {
    /// `Some((pax, name))`: the entry is preceded by a GNU long-name record (or a PAX `path=`
    /// record) carrying `path`, and its own 100-byte name field says `name` instead
    header: Option<(bool, String)>,
    /// the name the entry goes by
    path: String,
    kind: Kind,
}

fn prefix() -> String {
    format!("{CRATE}-{VER}")
}

fn build_archive(entries: &[Ent], corrupt_after: Option<usize>) -> Vec<u8> {
    use std::io::Write;
    let mut tar_bytes: Vec<u8> = Vec::new();
    let mut emit = |name: &[u8], typeflag: u8, data: &[u8], link: &str| {
        let mut block = [0u8; 512];
        let n = name.len().min(99);
        block[..n].copy_from_slice(&name[..n]);
        block[100..107].copy_from_slice(b"0000644");
        block[108..115].copy_from_slice(b"0000000");
        block[116..123].copy_from_slice(b"0000000");
        let size = format!("{:011o}", data.len());
        block[124..135].copy_from_slice(size.as_bytes());
        block[136..147].copy_from_slice(b"00000000000");
        block[156] = typeflag;
        let l = link.as_bytes();
        let ln = l.len().min(99);
        block[157..157 + ln].copy_from_slice(&l[..ln]);
        block[257..263].copy_from_slice(b"ustar\0");
        block[263..265].copy_from_slice(b"00");
        for b in &mut block[148..156] {
            *b = b' ';
        }
        let sum: u32 = block.iter().map(|b| *b as u32).sum();
        let cs = format!("{:06o}\0 ", sum);
        block[148..156].copy_from_slice(cs.as_bytes());
        tar_bytes.extend_from_slice(&block);
        tar_bytes.extend_from_slice(data);
        let pad = (512 - data.len() % 512) % 512;
        tar_bytes.extend(std::iter::repeat(0u8).take(pad));
    };
    for (i, e) in entries.iter().enumerate() {
        if corrupt_after == Some(i) {
            break;
        }
        // write the raw name ourselves: tar::Builder refuses `..` and absolute names
        let (typeflag, data, link): (u8, Vec<u8>, String) = match &e.kind {
            Kind::File(c) => (b'0', c.as_bytes().to_vec(), String::new()),
            Kind::Dir => (b'5', vec![], String::new()),
            Kind::Symlink(t) => (b'2', vec![], t.clone()),
        };
        match &e.header {
            None => emit(e.path.as_bytes(), typeflag, &data, &link),
            Some((pax, hname)) => {
                if *pax {
                    let body = format!(" path={}\n", e.path);
                    let mut len = body.len() + 1;
                    while format!("{len}{body}").len() != len {
                        len = format!("{len}{body}").len();
                    }
                    emit(b"PaxHeaders.0/x", b'x', format!("{len}{body}").as_bytes(), "");
                } else {
                    let mut d = e.path.as_bytes().to_vec();
                    d.push(0);
                    emit(b"././@LongLink", b'L', &d, "");
                }
                emit(hname.as_bytes(), typeflag, &data, &link);
            }
        }
    }
    drop(emit);
    if corrupt_after.is_some() {
        // a header block with a bad checksum: the reader stops with an error here
        let mut junk = [0x41u8; 512];
        junk[148..156].copy_from_slice(b"0000000\0");
        tar_bytes.extend_from_slice(&junk);
    } else {
        tar_bytes.extend(std::iter::repeat(0u8).take(1024));
    }
    let mut gz = flate2::write::GzEncoder::new(Vec::new(), flate2::Compression::default());
    gz.write_all(&tar_bytes).unwrap();
    gz.finish().unwrap()
}

struct Sandbox {
    dir: tempfile::TempDir,
}

impl Sandbox {
    fn new() -> Sandbox {
        let root = std::env::var("VERIF_WORK").map(PathBuf::from).unwrap_or_else(|_| std::env::temp_dir());
        fs::create_dir_all(&root).unwrap();
        let dir = tempfile::Builder::new().prefix("vetc19").tempdir_in(root).unwrap();
        let s = Sandbox { dir };
        fs::create_dir_all(s.cache().join("src").join("sibling-2.0.0")).unwrap();
        fs::write(s.cache().join("src").join("sibling-2.0.0").join("lib.rs"), "sibling code").unwrap();
        fs::write(s.cache().join("src").join("sibling-2.0.0").join(".cargo-ok"), "ok").unwrap();
        fs::create_dir_all(s.cache().join("cache")).unwrap();
        fs::create_dir_all(s.dir.path().join("outside")).unwrap();
        fs::write(s.dir.path().join("outside").join("decoy.txt"), "precious").unwrap();
        s
    }
    fn cache(&self) -> PathBuf {
        self.dir.path().join("cache-root")
    }
    fn put_crate(&self, bytes: &[u8]) {
        fs::write(self.cache().join("cache").join(format!("{}.crate", prefix())), bytes).unwrap();
    }
    /// one real fetch through a fresh Cache instance
    fn fetch(&self, md: &Metadata) -> Result<PathBuf, String> {
        let pc = PartialConfig {
            cli: { let crate::cli::FakeCli::Vet(cli) = crate::cli::FakeCli::try_parse_from(["cargo", "vet"]).unwrap(); cli },
            now: mock_now(),
            cache_dir: self.cache(),
            mock_cache: false,
        };
        let r = guarded(|| {
            let cache = Cache::acquire(&pc).map_err(|e| format!("cache: {e:?}"))?;
            tokio::runtime::Handle::current()
                .block_on(cache.fetch_package(md, None, CRATE, &VetVersion::parse(VER).unwrap()))
                .map_err(|e| format!("{e:?}").chars().take(300).collect::<String>())
        });
        match r {
            Ok(x) => x,
            Err(p) => Err(format!("panic {p}")),
        }
    }
    /// the whole tree under the sandbox: relative path -> description
    fn snapshot(&self) -> BTreeMap<String, String> {
        fn walk(base: &std::path::Path, p: &std::path::Path, out: &mut BTreeMap<String, String>) {
            let Ok(rd) = fs::read_dir(p) else { return };
            for e in rd.flatten() {
                let path = e.path();
                let rel = path.strip_prefix(base).unwrap().to_string_lossy().to_string();
                let md = fs::symlink_metadata(&path).unwrap();
                if md.file_type().is_symlink() {
                    out.insert(rel, format!("link:{}", fs::read_link(&path).unwrap().to_string_lossy()));
                } else if md.is_dir() {
                    out.insert(rel.clone(), "dir".into());
                    walk(base, &path, out);
                } else {
                    out.insert(rel, format!("file:{}", fs::read_to_string(&path).unwrap_or_else(|_| "<binary>".into())));
                }
            }
        }
        let mut out = BTreeMap::new();
        walk(self.dir.path(), self.dir.path(), &mut out);
        out
    }
}

fn gen_entries(rng: &mut Rng, hostile: bool) -> Vec<Ent> {
    let p = prefix();
    let mut v = Vec::new();
    let n = rng.range(2, 6);
    let files = ["Cargo.toml", "src/lib.rs", "src/a/mod.rs", "README.md", "build.rs", "src/b.rs"];
    for i in 0..n {
        let f = files[rng.below(files.len())];
        v.push(Ent { header: None, path: format!("{p}/{f}"), kind: Kind::File(format!("content{i}")) });
    }
    if rng.chance(1, 3) {
        v.insert(rng.below(v.len() + 1), Ent { header: None, path: format!("{p}/src"), kind: Kind::Dir });
    }
    if hostile {
        let tricks: Vec<Ent> = vec![
            Ent { header: None, path: format!("{p}/.cargo-ok"), kind: Kind::File("ok".into()) },
            Ent { header: None, path: format!("{p}/.cargo-ok"), kind: Kind::File("nope".into()) },
            Ent { header: None, path: format!("{p}/../sibling-2.0.0/lib.rs"), kind: Kind::File("evil".into()) },
            Ent { header: None, path: format!("/{p}/abs.rs"), kind: Kind::File("abs".into()) },
            Ent { header: None, path: "sibling-2.0.0/lib.rs".into(), kind: Kind::File("evil".into()) },
            Ent { header: None, path: format!("{p}x/lib.rs"), kind: Kind::File("evil".into()) },
            Ent { header: None, path: format!("{p}/link"), kind: Kind::Symlink("../sibling-2.0.0".into()) },
            Ent { header: None, path: format!("{p}/link/lib.rs"), kind: Kind::File("evil".into()) },
            Ent { header: None, path: format!("{p}/out"), kind: Kind::Symlink("../../../outside".into()) },
            Ent { header: None, path: format!("{p}/out/decoy.txt"), kind: Kind::File("evil".into()) },
            Ent { header: None, path: format!("{p}/.cargo-ok"), kind: Kind::Symlink("../../../outside/decoy.txt".into()) },
            Ent { header: None, path: format!("{p}/./dot.rs"), kind: Kind::File("dot".into()) },
            // something *below* the marker name: makes `.cargo-ok` a directory
            Ent { header: None, path: format!("{p}/.cargo-ok/inner.txt"), kind: Kind::File("ok".into()) },
            Ent { header: None, path: format!("{p}/.cargo-ok/"), kind: Kind::Dir },
            // the crate directory itself as an entry: a link out of the cache / to a sibling, a
            // plain file, a directory
            Ent { header: None, path: p.clone(), kind: Kind::Symlink("../../outside".into()) },
            Ent { header: None, path: p.clone(), kind: Kind::Symlink("sibling-2.0.0".into()) },
            Ent { header: None, path: p.clone(), kind: Kind::File("flat".into()) },
            Ent { header: None, path: format!("{p}/"), kind: Kind::Dir },
            // the name that counts is the long one from the preceding record, whatever the
            // entry's own name field says
            Ent { header: Some((false, format!("{p}/src/long.rs"))), path: "sibling-2.0.0/lib.rs".into(), kind: Kind::File("evil".into()) },
            Ent { header: Some((true, format!("{p}/build.rs"))), path: "sibling-2.0.0/build.rs".into(), kind: Kind::File("evil".into()) },
            Ent { header: Some((false, format!("{p}/ok.txt"))), path: format!("{p}/.cargo-ok"), kind: Kind::File("ok".into()) },
            Ent { header: Some((true, format!("{p}/ok.txt"))), path: format!("{p}/.cargo-ok"), kind: Kind::File("ok".into()) },
            Ent { header: Some((rng.chance(1, 2), format!("{p}/src/trunc"))), path: format!("{p}/src/deeply/nested/module.rs"), kind: Kind::File("long".into()) },
            Ent { header: Some((false, "sibling-2.0.0/lib.rs".into())), path: format!("{p}/src/fine.rs"), kind: Kind::File("fine".into()) },
        ];
        for _ in 0..rng.range(1, 3) {
            let t = tricks[rng.below(tricks.len())].clone();
            v.insert(rng.below(v.len() + 1), t);
        }
    }
    v
}

/// hand-written archives that run first in every tier
fn corpus() -> Vec<(Vec<Ent>, Option<usize>)> {
    let p = prefix();
    let f = |path: String, c: &str| Ent { header: None, path, kind: Kind::File(c.into()) };
    let l = |path: String, t: &str| Ent { header: None, path, kind: Kind::Symlink(t.into()) };
    let benign = vec![f(format!("{p}/Cargo.toml"), "manifest"), f(format!("{p}/src/lib.rs"), "code")];
    let with = |extra: Vec<Ent>, at_front: bool| {
        let mut v = benign.clone();
        if at_front {
            let mut e = extra;
            e.extend(v);
            v = e;
        } else {
            v.extend(extra);
        }
        v
    };
    vec![
        // known finding: a link to a sibling crate, then a file through it
        (with(vec![l(format!("{p}/link"), "../sibling-2.0.0"), f(format!("{p}/link/lib.rs"), "evil")], false), None),
        // former findings (fixed by c2593c5): own marker + interruption; marker as a link out
        (with(vec![f(format!("{p}/.cargo-ok"), "ok")], true), Some(2)),
        (with(vec![l(format!("{p}/.cargo-ok"), "../../../outside/decoy.txt")], true), None),
        // a directory named like the marker (an entry below it), then an interruption
        (with(vec![f(format!("{p}/.cargo-ok/inner.txt"), "ok")], true), Some(2)),
        (with(vec![f(format!("{p}/.cargo-ok/inner.txt"), "ok")], true), None),
        // a link out of the cache, then a file through it
        (with(vec![l(format!("{p}/out"), "../../../outside"), f(format!("{p}/out/decoy.txt"), "evil")], false), None),
        // the crate directory itself as an entry
        (vec![l(p.clone(), "../../outside")], None),
        (with(vec![l(p.clone(), "../../outside")], true), None),
        (with(vec![l(p.clone(), "../../outside")], false), None),
        (with(vec![l(p.clone(), "sibling-2.0.0")], true), None),
        (with(vec![f(p.clone(), "flat")], true), None),
        (with(vec![Ent { header: None, path: format!("{p}/"), kind: Kind::Dir }], true), Some(1)),
        // long-name records: the marker under a long name, then an interruption; a sibling's file
        (with(vec![Ent { header: Some((false, format!("{p}/ok.txt"))), path: format!("{p}/.cargo-ok"), kind: Kind::File("ok".into()) }], true), Some(2)),
        (with(vec![Ent { header: Some((true, format!("{p}/ok.txt"))), path: format!("{p}/.cargo-ok"), kind: Kind::File("ok".into()) }], true), Some(2)),
        (with(vec![Ent { header: Some((false, format!("{p}/src/long.rs"))), path: "sibling-2.0.0/lib.rs".into(), kind: Kind::File("evil".into()) }], false), None),
        (with(vec![Ent { header: Some((true, format!("{p}/build.rs"))), path: "sibling-2.0.0/build.rs".into(), kind: Kind::File("evil".into()) }], true), None),
        // `..`, absolute and foreign-prefix names
        (with(vec![f(format!("{p}/../sibling-2.0.0/lib.rs"), "evil"), f(format!("/{p}/abs.rs"), "abs"), f(format!("{p}x/lib.rs"), "evil")], false), None),
    ]
}

/// names interned for the model: 0 = .cargo-ok
struct Names(Vec<String>);
impl Names {
    fn id(&mut self, s: &str) -> usize {
        if s == ".cargo-ok" {
            return 0;
        }
        match self.0.iter().position(|x| x == s) {
            Some(i) => i + 1,
            None => {
                self.0.push(s.to_owned());
                self.0.len()
            }
        }
    }
}

fn content_id(names: &mut Names, c: &str) -> usize {
    if c == "ok" { 1 } else { 100 + names.id(&format!("content:{c}")) }
}

fn enc_path(names: &mut Names, rel: &str, t: &mut Toks) {
    let comps: Vec<&str> = rel.split('/').filter(|c| !c.is_empty()).collect();
    t.n(comps.len());
    for c in comps {
        t.n(names.id(c));
    }
}

/// lexical resolution of a link target relative to the link's directory (absolute sandbox-relative)
fn resolve_link(link_rel: &str, target: &str) -> String {
    let mut comps: Vec<String> = link_rel.split('/').map(|s| s.to_owned()).collect();
    comps.pop();
    for c in target.split('/') {
        match c {
            "" | "." => {}
            ".." => {
                comps.pop();
            }
            x => comps.push(x.to_owned()),
        }
    }
    comps.join("/")
}

fn enc_snapshot(names: &mut Names, snap: &BTreeMap<String, String>, t: &mut Toks) {
    t.n(snap.len());
    for (rel, d) in snap {
        enc_path(names, rel, t);
        if d == "dir" {
            t.n(0);
        } else if let Some(c) = d.strip_prefix("file:") {
            t.n(1).n(content_id(names, c));
        } else if let Some(l) = d.strip_prefix("link:") {
            t.n(2);
            enc_path(names, &resolve_link(rel, l), t);
        }
    }
}

fn enc_archive(names: &mut Names, entries: &[Ent], t: &mut Toks) {
    t.n(entries.len());
    for e in entries {
        let abs = e.path.starts_with('/');
        let comps: Vec<&str> = e.path.split('/').filter(|c| !c.is_empty()).collect();
        t.n(comps.len() + abs as usize);
        if abs {
            t.n(2);
        }
        for c in comps {
            match c {
                ".." => {
                    t.n(1);
                }
                "." => {
                    t.n(2);
                }
                x => {
                    t.n(0).n(names.id(x));
                }
            }
        }
        match &e.kind {
            Kind::File(c) => {
                t.n(0).n(content_id(names, c));
            }
            Kind::Dir => {
                t.n(1);
            }
            Kind::Symlink(target) => {
                // resolved against the place the link is created at (src dir + entry path)
                t.n(2);
                let at = format!("cache-root/src/{}", e.path.trim_start_matches('/'));
                enc_path(names, &resolve_link(&at, target), t);
            }
        }
    }
}

fn listing_of_model(ans: &str) -> (bool, bool, Vec<String>) {
    let mut rd = update::Reader::new(ans);
    let ok1 = rd.n() == 1;
    let ok2 = rd.n() == 1;
    let k = rd.n();
    let mut v = Vec::new();
    for _ in 0..k.min(100000) {
        let p = rd.list();
        let kind = rd.n();
        let d = match kind {
            0 => "dir".to_owned(),
            1 => format!("file:{}", rd.n()),
            _ => format!("link:{:?}", rd.list()),
        };
        v.push(format!("{p:?}={d}"));
    }
    v.sort();
    (ok1, ok2, v)
}

fn listing_of_real(names: &mut Names, snap: &BTreeMap<String, String>) -> Vec<String> {
    let mut v = Vec::new();
    for (rel, d) in snap {
        let p: Vec<usize> = rel.split('/').filter(|c| !c.is_empty()).map(|c| names.id(c)).collect();
        let dd = if d == "dir" {
            "dir".to_owned()
        } else if let Some(c) = d.strip_prefix("file:") {
            format!("file:{}", content_id(names, c))
        } else {
            let l = d.strip_prefix("link:").unwrap();
            let tp: Vec<usize> = resolve_link(rel, l).split('/').filter(|c| !c.is_empty()).map(|c| names.id(c)).collect();
            format!("link:{tp:?}")
        };
        v.push(format!("{p:?}={dd}"));
    }
    v.sort();
    v
}

const VOLATILE: [&str; 5] = ["cache-root/.vet-lock", "cache-root/diff-cache.toml", "cache-root/command-history.json", "cache-root/crates-io-cache.json", "cache-root/empty"];

pub fn run(r: &mut Report) {
    let mut d = Driver::spawn();
    let (shard, nshards) = shard();
    r.rule = "archives = 2..6 benign entries plus (hostile stream) entries with `..`, absolute and foreign-prefix names, links to a sibling crate / outside the cache, an own completion marker (file or link); the first fetch reads an archive cut short by a corrupt header after k entries (every k), the retry reads the intact archive; non-trivial = archive with >= 3 entries and a cut strictly inside; distinct by (archive, cut)".into();
    let n = if r.thorough() { 4000 } else { 800 } / nshards;
    let mut rng = Rng::new(r.seed.wrapping_add(shard.wrapping_mul(67867967)) ^ 0xC19);
    std::env::set_var("CARGO_HOME", std::env::var("VERIF_WORK").map(|w| format!("{w}/no-cargo-home")).unwrap_or_else(|_| "/nonexistent-cargo-home".into()));
    let md = gen::GGraph { pkgs: vec![gen::GPkg { name: "rootpkg".into(), version: VetVersion::parse("1.0.0").unwrap(), source: 0, member: true, deps: vec![] }], resolve_order: vec![0], member_order: vec![0] }.metadata();
    // corpus first (shard 0): the witness of known finding C19/escape-into-sibling, the former
    // findings, and the crate directory itself as an archive entry
    let corpus: Vec<(Vec<Ent>, Option<usize>)> = if shard == 0 { corpus() } else { vec![] };
    let ncorpus = corpus.len() as u64;
    for i in 0..n + ncorpus {
        let mut crng = rng.fork();
        let rng = &mut crng;
        let hostile = i < ncorpus || i % 2 == 1;
        let (entries, cut) = if i < ncorpus {
            corpus[i as usize].clone()
        } else {
            let entries = gen_entries(rng, hostile);
            let cut: Option<usize> = if rng.chance(2, 3) { Some(rng.below(entries.len())) } else { None };
            (entries, cut)
        };
        r.evaluations += 1;
        let sb = Sandbox::new();
        // make the cache directories exist as the first Cache::acquire would
        {
            let pc = PartialConfig { cli: { let crate::cli::FakeCli::Vet(cli) = crate::cli::FakeCli::try_parse_from(["cargo", "vet"]).unwrap(); cli }, now: mock_now(), cache_dir: sb.cache(), mock_cache: false };
            let _ = Cache::acquire(&pc);
        }
        let before = sb.snapshot();
        sb.put_crate(&build_archive(&entries, cut));
        let first = sb.fetch(&md);
        let mid = sb.snapshot();
        sb.put_crate(&build_archive(&entries, None));
        let second = sb.fetch(&md);
        let after = sb.snapshot();
        let case = format!("{}#{i} hostile={hostile} cut={cut:?}\nentries: {entries:?}\nfirst: {first:?}\nsecond: {second:?}", if i < ncorpus { "corpus" } else { "case" });
        if entries.len() >= 3 && cut.map(|k| k > 0).unwrap_or(false) {
            r.nontrivial(&case);
        }
        r.count(&format!("first:{}", if first.is_ok() { "ok" } else { "err" }));
        r.count(&format!("second:{}", if second.is_ok() { "ok" } else { "err" }));
        // ---------------- oracles on the real tree
        r.oracle_checked += 1;
        let own = format!("cache-root/src/{}", prefix());
        for (snap, label) in [(&mid, "after the interrupted fetch"), (&after, "after the retry")] {
            for (path, desc) in snap.iter() {
                let was = before.get(path);
                let inside = path == &own || path.starts_with(&format!("{own}/")) || path.starts_with("cache-root/cache/") || VOLATILE.iter().any(|v| path == v || path.starts_with(&format!("{v}/")));
                if !inside && was != Some(desc) && r.prop == "C19" {
                    let sig = if path.starts_with("outside") { "C19/escape-outside-cache" } else { "C19/escape-into-sibling" };
                    r.fail("oracle", sig, format!("{label}: `{path}` is now `{desc}` (was {was:?})"), &case);
                }
            }
            for (path, was) in before.iter() {
                let inside = path == &own || path.starts_with(&format!("{own}/")) || VOLATILE.iter().any(|v| path == v || path.starts_with(&format!("{v}/")));
                if !inside && !snap.contains_key(path) && r.prop == "C19" {
                    r.fail("oracle", "C19/escape-removed", format!("{label}: `{path}` (was `{was}`) disappeared"), &case);
                }
            }
        }
        // a directory is handed out only if the whole archive was unpacked into it
        for (res, label, cutk) in [(&first, "interrupted fetch", cut), (&second, "retry", None)] {
            if let Ok(dir) = res {
                if cutk.is_some() && r.prop == "C19" {
                    r.fail("oracle", "C19/partial-tree-handed-out", format!("the {label} returned {dir:?} although the archive was cut short"), &case);
                }
                // every benign file entry of the intact archive must be there
                let rel = dir.strip_prefix(sb.dir.path()).map(|p| p.to_string_lossy().to_string()).unwrap_or_default();
                for e in &entries {
                    if let Kind::File(c) = &e.kind {
                        let clean = e.path.split('/').all(|c| c != ".." && c != ".") && e.path.starts_with(&format!("{}/", prefix())) && !e.path.ends_with(".cargo-ok") && !e.path.contains("/link/") && !e.path.contains("/out/");
                        if clean {
                            let p = format!("{rel}/{}", &e.path[prefix().len() + 1..]);
                            let later_same = entries.iter().rev().find(|x| x.path == e.path).map(|x| matches!(&x.kind, Kind::File(c2) if c2 == c)).unwrap_or(false);
                            if later_same && after.get(&p) != Some(&format!("file:{c}")) && label == "retry" && r.prop == "C19" {
                                let sig = if entries.iter().any(|x| x.path.ends_with(".cargo-ok")) { "C19/archive-marker-partial-tree-used" } else { "C19/incomplete-tree-handed-out" };
                                r.fail("oracle", sig, format!("the retry returned {dir:?} but `{p}` is {:?}, expected file:{c}", after.get(&p)), &case);
                            }
                        }
                    }
                }
            }
        }
        // ---------------- correspondence with the model (final tree)
        let mut names = Names(vec![]);
        let mut t = Toks::new();
        // initial tree: the sandbox before (paths relative to the sandbox root, which is `[]`)
        enc_snapshot(&mut names, &before, &mut t);
        enc_path(&mut names, "cache-root/src", &mut t);
        let pid = names.id(&prefix());
        t.n(pid);
        enc_archive(&mut names, &entries, &mut t);
        t.n(match cut { None => 0, Some(k) => k + 1 });
        t.b(true);
        enc_archive(&mut names, &entries, &mut t);
        let ans = d.ask(&format!("unpack {}", t.text()));
        if let Some(rest) = ans.strip_prefix("ok ") {
            let (_ok1, ok2, model_list) = listing_of_model(rest);
            let mut real_after = after.clone();
            real_after.retain(|p, _| !p.starts_with("cache-root/cache/") && !VOLATILE.iter().any(|v| p == v || p.starts_with(&format!("{v}/"))));
            let mut real_list = listing_of_real(&mut names, &real_after);
            let vol: Vec<Vec<usize>> = VOLATILE.iter().map(|v| v.split('/').map(|c| names.id(c)).collect()).collect();
            let cache_dir: Vec<usize> = "cache-root/cache".split('/').map(|c| names.id(c)).collect();
            let model_list: Vec<String> = model_list.into_iter().filter(|l| !vol.iter().any(|v| l.starts_with(&format!("{v:?}")) || l.starts_with(&format!("{:?}", v).trim_end_matches(']'))) && !l.starts_with(&format!("{:?}", cache_dir).trim_end_matches(']'))).collect();
            real_list.retain(|l| !l.starts_with(&format!("{:?}", cache_dir).trim_end_matches(']')));
            r.corr("corr.unpack.tree", &format!("{real_list:?}"), &format!("{model_list:?}"), &case);
            r.corr("corr.unpack.fetch-ok", &format!("{}", second.is_ok()), &format!("{ok2}"), &case);
        } else {
            r.fail("corr", "corr.unpack.tree", format!("model answered `{ans}`"), &case);
        }
        if r.samples.len() < 3 {
            r.sample(case.chars().take(500).collect());
        }
    }
    r.count_n("driver-requests", d.requests);
}
