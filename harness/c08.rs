// C08: no crates.io code escapes vetting.  Real cmd_check on disk against a mock registry, over
// registry histories (crate absent / present with matching or non-matching metadata / version
// published or not / later publication), compared with the model of the audit-as-crates-io
// consistency check and of the unpublished-version choice; then the real --locked run after the
// version has been published.
use super::*;
use crate::format::*;
use wire::Toks;

const FP: &str = "firstparty";
const TP: &str = "thirdparty";

fn semver(m: u64) -> semver::Version {
    semver::Version::new(m, 0, 0)
}

struct Case {
    local_major: u64,
    is_git: bool,
    audit_as: Option<bool>,
    registry: Option<Vec<u64>>, // published majors of FP
    matching: bool,
    audited: Vec<u64>, // majors of FP with a local full audit
    stray_policy: bool, // an audit-as entry for a crate that is not in the graph
    yanked: Vec<u64>, // published majors of FP the index marks as yanked
}

fn gen_case(rng: &mut Rng) -> Case {
    let registry = if rng.chance(1, 5) {
        None
    } else {
        let mut v: Vec<u64> = (1..=6).filter(|_| rng.chance(1, 2)).collect();
        if v.is_empty() {
            v.push(rng.range(1, 6) as u64);
        }
        Some(v)
    };
    Case {
        local_major: rng.range(1, 6) as u64,
        is_git: rng.chance(1, 6),
        audit_as: *rng.pick(&[None, Some(true), Some(true), Some(true), Some(false)]),
        registry,
        matching: rng.chance(2, 3),
        audited: (1..=6).filter(|_| rng.chance(2, 3)).collect(),
        stray_policy: rng.chance(1, 10),
        yanked: (1..=6).filter(|_| rng.chance(1, 4)).collect(),
    }
}

fn build(c: &Case) -> (cmd::Project, cmd::Remote) {
    let rev = "cccccccccccccccccccccccccccccccccccccccc";
    let fpv = if c.is_git { VetVersion::parse(&format!("{}.0.0@git:{rev}", c.local_major)).unwrap() } else { VetVersion::parse(&format!("{}.0.0", c.local_major)).unwrap() };
    let graph = gen::GGraph {
        pkgs: vec![
            gen::GPkg { name: "rootpkg".into(), version: VetVersion::parse("1.0.0").unwrap(), source: 0, member: true, deps: vec![(1, 1), (2, 1)] },
            gen::GPkg { name: FP.into(), version: fpv.clone(), source: if c.is_git { 2 } else { 0 }, member: false, deps: vec![] },
            gen::GPkg { name: TP.into(), version: VetVersion::parse("1.0.0").unwrap(), source: 1, member: false, deps: vec![] },
        ],
        resolve_order: vec![0, 1, 2],
        member_order: vec![0],
    };
    let mut config = ConfigFile { cargo_vet: Default::default(), default_criteria: get_default_criteria(), imports: SortedMap::new(), policy: Default::default(), exemptions: SortedMap::new() };
    if c.audit_as.is_some() {
        config.policy.insert(FP.into(), PackagePolicyEntry::Unversioned(PolicyEntry { audit_as_crates_io: c.audit_as, criteria: None, dev_criteria: None, dependency_criteria: CriteriaMap::new(), notes: None }));
    }
    if c.stray_policy {
        config.policy.insert("nosuchcrate".into(), PackagePolicyEntry::Unversioned(PolicyEntry { audit_as_crates_io: Some(true), criteria: None, dev_criteria: None, dependency_criteria: CriteriaMap::new(), notes: None }));
    }
    let mut audits = AuditsFile { criteria: SortedMap::new(), wildcard_audits: SortedMap::new(), audits: SortedMap::new(), trusted: SortedMap::new() };
    let full = |v: VetVersion| AuditEntry { who: vec![], criteria: vec![gen::sp(SAFE_TO_DEPLOY.to_owned())], kind: AuditKind::Full { version: v }, importable: true, notes: None, aggregated_from: vec![], is_fresh_import: false };
    audits.audits.insert(TP.into(), vec![full(VetVersion::parse("1.0.0").unwrap())]);
    let mut l: Vec<AuditEntry> = c.audited.iter().map(|m| full(VetVersion::parse(&format!("{m}.0.0")).unwrap())).collect();
    if c.is_git {
        // an audit of the plain version must not cover the git revision
    }
    if l.is_empty() {
        l.push(full(VetVersion::parse("9.0.0").unwrap()));
    }
    audits.audits.insert(FP.into(), l);
    let mut remote = cmd::Remote::default();
    remote.registry.insert(TP.into(), vec![cmd::RegVersion { version: semver(1), user: Some(1), day: 0 }]);
    if let Some(vs) = &c.registry {
        remote.registry.insert(FP.into(), vs.iter().map(|m| cmd::RegVersion { version: semver(*m), user: Some(1), day: 0 }).collect());
        if c.matching {
            remote.matching_metadata.insert(FP.into());
        }
        for m in vs.iter().filter(|m| c.yanked.contains(m)) {
            remote.yanked.insert((FP.into(), semver(*m)));
        }
    }
    let w = cmd::CmdWorld { graph, config, audits, remote: remote.clone() };
    (cmd::setup_project(&w), remote)
}

/// Tie of the model of `check_crate_policies`: random `[policy]` tables (unversioned / versioned
/// entries, with and without dependency-criteria, matching and stray names and versions) over
/// graphs in which a crate name occurs in several versions and from several sources.
fn policies_run(r: &mut Report, d: &mut Driver, rng: &mut Rng, n: u64) {
    for i in 0..n {
        let mut graph = gen::gen_graph(rng, 6);
        // (the mock registry's index URL layout needs crate names of 4+ characters)
        for q in &mut graph.pkgs {
            let k = gen::PKG_NAMES.iter().position(|n| *n == q.name).unwrap();
            q.name = cmd::NAMES[k % cmd::NAMES.len()].to_owned();
        }
        let md = graph.metadata();
        let mut names: Vec<String> = graph.pkgs.iter().map(|p| p.name.clone()).collect();
        names.push("zz-stray".into());
        names.sort();
        names.dedup();
        let mut vers: Vec<VetVersion> = graph.pkgs.iter().map(|p| p.version.clone()).collect();
        vers.extend(gen::version_pool().into_iter().take(4));
        vers.sort();
        vers.dedup();
        let mut config = ConfigFile { cargo_vet: Default::default(), default_criteria: get_default_criteria(), imports: SortedMap::new(), policy: Default::default(), exemptions: SortedMap::new() };
        let entry = |rng: &mut Rng| PolicyEntry {
            audit_as_crates_io: if rng.chance(1, 4) { Some(rng.chance(1, 2)) } else { None }, criteria: None, dev_criteria: None,
            dependency_criteria: { let mut m = CriteriaMap::new(); if rng.chance(1, 2) { m.insert(gen::sp("somedep".to_owned()), vec![gen::sp(SAFE_TO_RUN.to_owned())]); } m },
            notes: None,
        };
        for nm in &names {
            match rng.below(4) {
                0 => { config.policy.package.insert(nm.clone(), PackagePolicyEntry::Unversioned(entry(rng))); }
                1 | 2 => {
                    let mut vs = SortedMap::new();
                    let own: Vec<VetVersion> = graph.pkgs.iter().filter(|p| &p.name == nm).map(|p| p.version.clone()).collect();
                    for v in &own {
                        if rng.chance(3, 4) { vs.insert(v.clone(), entry(rng)); }
                    }
                    if rng.chance(1, 4) { vs.insert(rng.pick(&vers).clone(), entry(rng)); }
                    if !vs.is_empty() { config.policy.package.insert(nm.clone(), PackagePolicyEntry::Versioned { version: vs }); }
                }
                _ => {}
            }
        }
        let store = Store::mock(config.clone(), AuditsFile::default(), ImportsFile { unpublished: SortedMap::new(), publisher: SortedMap::new(), audits: SortedMap::new() });
        let cfg = mock_cfg(&md);
        r.evaluations += 1;
        let real = guarded(|| crate::check_crate_policies(&cfg, &store));
        // canonical error set: (kind, name, version?)
        let mut imp: Vec<(usize, usize, usize)> = Vec::new();
        let rank_n = |s: &str| names.iter().position(|x| x == s).unwrap_or(9999);
        let rank_v = |v: &VetVersion| vers.iter().position(|x| x == v).unwrap_or(9999);
        let imp_line = match &real {
            Ok(Ok(())) => "ok 0".to_owned(),
            Ok(Err(e)) => {
                for ce in &e.errors {
                    match ce {
                        crate::errors::CratePolicyError::NeedsVersion(x) => for pe in &x.errors { imp.push((0, rank_n(&pe.package), pe.version.as_ref().map(|v| rank_v(v) + 1).unwrap_or(0))); },
                        crate::errors::CratePolicyError::UnusedVersion(x) => for pe in &x.errors { imp.push((1, rank_n(&pe.package), pe.version.as_ref().map(|v| rank_v(v) + 1).unwrap_or(0))); },
                        _ => {}
                    }
                }
                imp.sort();
                format!("ok {} {}", imp.len(), imp.iter().map(|(a, b, c)| format!("{a} {b} {c}")).collect::<Vec<_>>().join(" "))
            }
            Err(p) => format!("panic {p}"),
        };
        // the model's view
        let mut t = Toks::new();
        let entries: Vec<(String, Option<VetVersion>, bool)> = config.policy.iter().map(|(n, v, e)| (n.clone(), v.cloned(), !e.dependency_criteria.is_empty())).collect();
        t.n(entries.len());
        for (n, v, dc) in &entries {
            t.n(rank_n(n));
            match v { Some(v) => { t.n(rank_v(v) + 1); } None => { t.n(0); } }
            t.b(*dc);
        }
        t.n(md.packages.len());
        for p in &md.packages {
            t.n(rank_n(&p.name)).n(rank_v(&p.vet_version()));
        }
        // names with a crates.io-sourced package (independent of foreign_packages_strict)
        let tp: BTreeSet<usize> = graph.pkgs.iter().filter(|p| p.source == 1).map(|p| rank_n(&p.name)).collect();
        t.list(&tp.into_iter().collect::<Vec<_>>());
        let ans = d.ask(&format!("policies {}", t.text()));
        let model_line = match ans.strip_prefix("ok ") {
            Some(body) => {
                let toks: Vec<usize> = body.split(' ').filter_map(|x| x.parse().ok()).collect();
                let mut v: Vec<(usize, usize, usize)> = toks[1.min(toks.len())..].chunks(3).filter(|c| c.len() == 3).map(|c| (c[0], c[1], c[2])).collect();
                v.sort();
                format!("ok {} {}", v.len(), v.iter().map(|(a, b, c)| format!("{a} {b} {c}")).collect::<Vec<_>>().join(" ")).trim_end().to_owned()
            }
            None => ans.clone(),
        };
        let case = format!("policies#{i}: packages {:?}\npolicy {:?}", graph.pkgs.iter().map(|p| format!("{}:{} src{}", p.name, p.version, p.source)).collect::<Vec<_>>(), entries);
        r.corr("corr.crate-policies", imp_line.trim_end(), &model_line, &case);
        r.count(if imp.is_empty() { "policies:accepted" } else { "policies:refused" });
        if !entries.is_empty() {
            r.nontrivial(&case);
        }
        // ---- check_audit_as_crates_io on the same project, against a mock registry in which some
        // of the names exist, with or without matching metadata
        let mut remote = cmd::Remote::default();
        for nm in &names {
            if rng.chance(2, 3) {
                remote.registry.insert(nm.clone(), vec![cmd::RegVersion { version: semver::Version::new(1, 0, 0), user: Some(1), day: 0 }]);
                if rng.chance(1, 2) {
                    remote.matching_metadata.insert(nm.clone());
                }
            }
        }
        remote.install();
        let real2 = guarded(|| {
            let network = Network::acquire(&cfg);
            let mut cache = crate::storage::Cache::acquire(&cfg).map_err(|e| format!("{e:?}"))?;
            Ok::<_, String>(tokio::runtime::Handle::current().block_on(crate::check_audit_as_crates_io(&cfg, &store, network.as_ref(), &mut cache)))
        });
        let mut imp2: Vec<(usize, usize, usize)> = Vec::new();
        let imp2_line = match &real2 {
            Ok(Ok(Ok(()))) => "ok 0".to_owned(),
            Ok(Ok(Err(e))) => {
                for ae in &e.errors {
                    match ae {
                        crate::errors::AuditAsError::UnusedAuditAs(x) => for pe in &x.errors { imp2.push((0, rank_n(&pe.package), 0)); },
                        crate::errors::AuditAsError::NeedsAuditAs(x) => for pe in &x.errors { imp2.push((1, rank_n(&pe.package), pe.version.as_ref().map(|v| rank_v(v) + 1).unwrap_or(0))); },
                        crate::errors::AuditAsError::ShouldntBeAuditAs(x) => for pe in &x.errors { imp2.push((2, rank_n(&pe.package), pe.version.as_ref().map(|v| rank_v(v) + 1).unwrap_or(0))); },
                    }
                }
                imp2.sort();
                format!("ok {} {}", imp2.len(), imp2.iter().map(|(a, b, c)| format!("{a} {b} {c}")).collect::<Vec<_>>().join(" "))
            }
            other => format!("error {other:?}").chars().take(200).collect(),
        };
        let mut t2 = Toks::new();
        let pe: Vec<(String, Option<VetVersion>)> = config.policy.iter().filter(|(_, _, e)| e.audit_as_crates_io.is_some()).map(|(n, v, _)| (n.clone(), v.cloned())).collect();
        t2.n(pe.len());
        for (n, v) in &pe {
            t2.n(rank_n(n));
            match v { Some(v) => { t2.n(rank_v(v) + 1); } None => { t2.n(0); } }
        }
        let fps: Vec<&gen::GPkg> = graph.pkgs.iter().filter(|q| q.source != 1).collect();
        t2.n(fps.len());
        for q in &fps {
            // the policy entry that applies to this very version (independent of Policy::get)
            let applies: Option<&PolicyEntry> = match config.policy.package.get(&q.name) {
                Some(PackagePolicyEntry::Unversioned(e)) => Some(e),
                Some(PackagePolicyEntry::Versioned { version }) => version.get(&q.version),
                None => None,
            };
            t2.n(rank_n(&q.name)).n(rank_v(&q.version)).b(q.version.git_rev.is_some());
            match applies.and_then(|e| e.audit_as_crates_io) { None => { t2.n(0); } Some(false) => { t2.n(1); } Some(true) => { t2.n(2); } }
            if remote.registry.contains_key(&q.name) { t2.n(1).list(&[0]); } else { t2.n(0); }
            t2.b(remote.matching_metadata.contains(&q.name));
        }
        let ans2 = d.ask(&format!("auditas {}", t2.text()));
        let model2 = match ans2.strip_prefix("ok ") {
            Some(body) => {
                let toks: Vec<usize> = body.split(' ').filter_map(|x| x.parse().ok()).collect();
                let mut v: Vec<(usize, usize, usize)> = toks[1.min(toks.len())..].chunks(3).filter(|c| c.len() == 3).map(|c| (c[0], c[1], c[2])).collect();
                v.sort();
                format!("ok {} {}", v.len(), v.iter().map(|(a, b, c)| format!("{a} {b} {c}")).collect::<Vec<_>>().join(" ")).trim_end().to_owned()
            }
            None => ans2.clone(),
        };
        r.corr("corr.audit-as", imp2_line.trim_end(), &model2, &format!("{case}\nregistry {:?} matching {:?}", remote.registry.keys().collect::<Vec<_>>(), remote.matching_metadata));
    }
    *crate::network::VERIF_MOCK_NETWORK.lock().unwrap() = None;
}

/// Tie of `considerSame` (Vet/Model/Registry.lean): the real `consider_as_same` on every
/// combination of absent / one / another description and repository on either side.
fn same_metadata_run(r: &mut Report, d: &mut Driver) {
    let strs = [None, Some("one"), Some("another")];
    let pkg = |desc: Option<&str>, repo: Option<&str>| -> cargo_metadata::Package {
        serde_json::from_value(serde_json::json!({
            "name": "copy", "version": "1.0.0", "id": "copy 1.0.0 (path+file:///FAKE)",
            "license": "MIT", "license_file": null, "description": desc, "source": null,
            "dependencies": [], "targets": [], "features": {}, "manifest_path": "/FAKE/Cargo.toml",
            "metadata": null, "publish": null, "authors": [], "categories": [], "keywords": [],
            "readme": null, "repository": repo, "homepage": null, "documentation": null,
            "edition": "2015", "links": null, "default_run": null, "rust_version": null
        })).unwrap()
    };
    let opt = |i: usize| match i { 0 => "0".to_owned(), k => format!("{}", k + 1) };
    for a in 0..3 {
        for b in 0..3 {
            for c in 0..3 {
                for e in 0..3 {
                    let reg = CratesAPICrateMetadata { description: strs[a].map(|s| s.to_owned()), repository: strs[b].map(|s| s.to_owned()) };
                    let real = reg.consider_as_same(&pkg(strs[c], strs[e]));
                    let ans = d.ask(&format!("samemeta {} {} {} {}", opt(a), opt(b), opt(c), opt(e)));
                    r.evaluations += 1;
                    r.corr("corr.same-metadata", &format!("ok {}", real as u8), &ans, &format!("crates.io: description {:?} repository {:?}; local package: description {:?} repository {:?}", strs[a], strs[b], strs[c], strs[e]));
                    // the property's own words: a matching description or repository
                    let want = (a != 0 && a == c) || (b != 0 && b == e);
                    r.oracle_checked += 1;
                    if real != want {
                        r.fail("oracle", "C08/metadata-match", format!("consider_as_same = {real}, but the description {} and the repository {}", if a != 0 && a == c { "matches" } else { "does not match" }, if b != 0 && b == e { "matches" } else { "does not match" }), &format!("crates.io: description {:?} repository {:?}; local package: description {:?} repository {:?}", strs[a], strs[b], strs[c], strs[e]));
                    }
                }
            }
        }
    }
}

pub fn run(r: &mut Report) {
    let mut d = Driver::spawn();
    let (shard, nshards) = shard();
    if r.prop == "C08" && shard == 0 {
        same_metadata_run(r, &mut d);
    }
    let rule08 = "cases = a first-party (path or git) package named like a crates.io crate, with policy audit-as-crates-io = none/true/false, registry state (crate absent, present with matching / non-matching metadata, published versions a random subset of 1..6), local full audits for a random subset of versions; then the real unlocked check, publication of the local version, and the real --locked check; non-trivial = the crate is forced to audit-as-crates-io and known to the registry; distinct by case parameters";
    if r.prop == "C08" {
        r.rule = rule08.into();
    } else {
        r.rule.push_str(" + registry histories: ");
        r.rule.push_str(rule08);
    }
    let n = if r.thorough() { 6000 } else { 1200 } / nshards;
    if r.prop == "C08" {
        let mut prng = Rng::new(r.seed.wrapping_add(shard.wrapping_mul(7368787)) ^ 0xC08);
        policies_run(r, &mut d, &mut prng, n * 2);
    }
    let mut rng = Rng::new(r.seed.wrapping_add(shard.wrapping_mul(86028121)) ^ 0xC08);
    for i in 0..n {
        let mut crng = rng.fork();
        let c = gen_case(&mut crng);
        let (p, mut remote) = build(&c);
        remote.install();
        r.evaluations += 1;
        let case = format!("case#{i}: local {}.0.0 git={} audit-as={:?} registry={:?} matching={} audited={:?} stray={}", c.local_major, c.is_git, c.audit_as, c.registry, c.matching, c.audited, c.stray_policy);
        let (o, text) = p.run(&[]);
        let files = p.files();
        // ---- model
        let mut t = Toks::new();
        t.n(0); // empty lock
        t.n(1);
        t.n(0).n(c.local_major as usize).b(c.is_git);
        t.n(match c.audit_as { None => 0, Some(false) => 1, Some(true) => 2 });
        match &c.registry {
            None => {
                t.n(0);
            }
            Some(vs) => {
                t.n(1).list(&vs.iter().map(|m| *m as usize).collect::<Vec<_>>());
            }
        }
        t.b(c.matching);
        let mut pe: Vec<(usize, usize)> = Vec::new();
        if c.audit_as.is_some() {
            pe.push((0, 0));
        }
        if c.stray_policy {
            pe.push((1, 0));
        }
        t.n(pe.len());
        for (n, v) in &pe {
            t.n(*n).n(*v);
        }
        let model = d.ask(&format!("registry {}", t.text()));
        // classify the real run: refused before resolving / resolved
        let real_class = match &o {
            cmd::Outcome::Err(_) => "refused".to_owned(),
            cmd::Outcome::Panic(m) => format!("panic {m}"),
            _ => "ok".to_owned(),
        };
        // every refusal before resolving is one class (crate-policy structure, audit-as consistency,
        // unknown crate); a stray policy entry is refused by check_crate_policies already
        let mut model_class = model.split(' ').next().unwrap_or("").to_owned();
        if model_class == "audit-as-errors" || c.stray_policy {
            model_class = "refused".to_owned();
        }
        r.corr("corr.registry.outcome-class", &real_class, &model_class, &format!("{case}\nreal: {o:?}\nmodel: {model}"));
        r.count(&format!("unlocked:{real_class}"));
        r.oracle_checked += 1;
        if c.audit_as == Some(true) && c.registry.is_some() && !c.is_git {
            r.nontrivial(&case);
        }
        // ---- oracles on the real outcome
        if o == cmd::Outcome::Ok {
            // (a) a first-party package whose crates.io namesake matches needs an explicit choice
            if c.audit_as.is_none() && c.registry.is_some() && c.matching && r.prop == "C08" {
                r.fail("oracle", "C08/passes-without-explicit-choice", "vet passes although a first-party package matches a crates.io crate and has no audit-as-crates-io choice".into(), &case);
            }
            if c.audit_as == Some(true) && (c.registry.is_none() || !c.matching) && r.prop == "C08" {
                r.fail("oracle", "C08/passes-with-unjustified-audit-as", "vet passes although audit-as-crates-io = true is claimed for something crates.io does not know (or that does not match)".into(), &case);
            }
            if c.stray_policy && r.prop == "C08" {
                r.fail("oracle", "C08/passes-with-unmatched-entry", "vet passes although an audit-as-crates-io entry matches no package".into(), &case);
            }
            // (b) forced third-party: held to the chain rule for its exact version
            if c.audit_as == Some(true) && r.prop == "C08" {
                let vs = c.registry.clone().unwrap_or_default();
                let expect_as: Option<u64> = if c.is_git { None } else { vs.iter().filter(|m| **m <= c.local_major).max().or_else(|| vs.iter().filter(|m| **m > c.local_major).min()).copied() };
                let lock = &files[2];
                if c.is_git {
                    // only an audit for exactly the git version could certify it; we never generate one
                    r.fail("oracle", "C08/git-revision-covered-by-plain-audit", "a git revision audited as crates.io passes although only plain versions are audited".into(), &case);
                } else if let Some(a) = expect_as {
                    // an audit of the exact local version certifies it directly; otherwise the link
                    // to the chosen published version must be what certifies it, and be recorded
                    let direct = c.audited.contains(&c.local_major);
                    if !direct && !c.audited.contains(&a) {
                        r.fail("oracle", "C08/passes-without-audit-of-chosen-version", format!("vet passes although neither {}.0.0 nor {a}.0.0 (what it is vetted as) is audited", c.local_major), &case);
                    }
                    if a != c.local_major && !direct {
                        let want = format!("audited_as = \"{a}.0.0\"");
                        if !lock.contains(&want) || !lock.contains("[[unpublished.firstparty]]") {
                            r.fail("oracle", "C08/unpublished-choice-not-recorded", format!("expected the choice `{want}` in imports.lock:\n{lock}"), &case);
                        }
                    } else if a == c.local_major && lock.contains("[[unpublished.firstparty]]") {
                        r.fail("oracle", "C08/unpublished-entry-for-published-version", format!("the exact version is published but an unpublished entry was recorded:\n{lock}"), &case);
                    }
                }
            }
            // C11: an unpublished link recorded in imports.lock must rest on what crates.io serves:
            // the local version is not published, the version it is vetted as is
            if r.prop == "C11" {
                let lock = &files[2];
                r.oracle_checked += 1;
                if lock.contains("[[unpublished.") {
                    let grab = |key: &str| lock.lines().find(|l| l.starts_with(key)).and_then(|l| l.split('"').nth(1)).and_then(|v| v.split('.').next()).and_then(|m| m.parse::<u64>().ok());
                    let vs = c.registry.clone().unwrap_or_default();
                    let (v, a) = (grab("version = "), grab("audited_as = "));
                    let justified = match (v, a) {
                        (Some(v), Some(a)) => v == c.local_major && !vs.contains(&v) && vs.contains(&a) && c.audit_as == Some(true),
                        _ => false,
                    };
                    if !justified {
                        r.fail("oracle", "C11/lock-records-unjustified-unpublished", format!("registry serves {vs:?}, local version {}.0.0, yet imports.lock now records:\n{lock}", c.local_major), &case);
                    }
                }
            }
            // (c) --locked keeps passing, also after the version gets published
            let (o2, _) = p.run(&["--locked"]);
            if o2 != cmd::Outcome::Ok && r.prop == "C08" {
                r.fail("oracle", "C08/locked-fails-after-unlocked", format!("--locked gives {o2:?} right after a successful unlocked run"), &case);
            }
            if let Some(vs) = remote.registry.get_mut(FP) {
                if !vs.iter().any(|v| v.version == semver(c.local_major)) {
                    vs.push(cmd::RegVersion { version: semver(c.local_major), user: Some(1), day: 50 });
                }
            }
            remote.install();
            let (o3, _) = p.run(&["--locked"]);
            r.oracle_checked += 1;
            if o3 != cmd::Outcome::Ok && r.prop == "C08" {
                r.fail("oracle", "C08/locked-fails-after-publication", format!("--locked gives {o3:?} after the local version was published"), &case);
            }
            let (o4, _) = p.run(&[]);
            r.count(&format!("unlocked-after-publication:{}", match o4 { cmd::Outcome::Ok => "ok", cmd::Outcome::Exit(_) => "exit", cmd::Outcome::Err(_) => "refused", cmd::Outcome::Panic(_) => "panic" }));
        } else if let cmd::Outcome::Panic(m) = &o {
            r.fail("oracle", "C08/panic", m.clone(), &case);
        }
        let _ = text;
        if r.samples.len() < 4 {
            r.sample(format!("{case} -> {real_class}"));
        }
    }
    // ---- second stream: a crates.io-source package can never be argued out of vetting by policy
    // (audit-as-crates-io = false on its name, alone or shared with a path package of the same
    // name at another version), neither unlocked nor --locked
    let n2 = if r.thorough() { 1600 } else { 240 } / nshards;
    for i in 0..n2 {
        let mut crng = rng.fork();
        let tp_audited = crng.chance(1, 3);
        let overlap = crng.chance(1, 2);
        let versioned = overlap && crng.chance(1, 3);
        let policy_false = crng.chance(3, 4);
        let in_registry = crng.chance(3, 4);
        let matching = crng.chance(1, 2);
        let mut pkgs = vec![
            gen::GPkg { name: "rootpkg".into(), version: VetVersion::parse("1.0.0").unwrap(), source: 0, member: true, deps: vec![(1, 1)] },
            gen::GPkg { name: TP.into(), version: VetVersion::parse("1.0.0").unwrap(), source: 1, member: false, deps: vec![] },
        ];
        if overlap {
            pkgs[0].deps.push((2, 1));
            pkgs.push(gen::GPkg { name: TP.into(), version: VetVersion::parse("2.0.0").unwrap(), source: 0, member: false, deps: vec![] });
        }
        let order: Vec<usize> = (0..pkgs.len()).collect();
        let graph = gen::GGraph { pkgs, resolve_order: order, member_order: vec![0] };
        let mut config = ConfigFile { cargo_vet: Default::default(), default_criteria: get_default_criteria(), imports: SortedMap::new(), policy: Default::default(), exemptions: SortedMap::new() };
        let pe = |v: bool| PolicyEntry { audit_as_crates_io: Some(v), criteria: None, dev_criteria: None, dependency_criteria: CriteriaMap::new(), notes: None };
        if policy_false {
            if versioned {
                let mut m = SortedMap::new();
                m.insert(VetVersion::parse("1.0.0").unwrap(), pe(false));
                m.insert(VetVersion::parse("2.0.0").unwrap(), pe(false));
                config.policy.insert(TP.into(), PackagePolicyEntry::Versioned { version: m });
            } else {
                config.policy.insert(TP.into(), PackagePolicyEntry::Unversioned(pe(false)));
            }
        }
        let mut audits = AuditsFile { criteria: SortedMap::new(), wildcard_audits: SortedMap::new(), audits: SortedMap::new(), trusted: SortedMap::new() };
        if tp_audited {
            audits.audits.insert(TP.into(), vec![AuditEntry { who: vec![], criteria: vec![gen::sp(SAFE_TO_DEPLOY.to_owned())], kind: AuditKind::Full { version: VetVersion::parse("1.0.0").unwrap() }, importable: true, notes: None, aggregated_from: vec![], is_fresh_import: false }]);
        }
        let mut remote = cmd::Remote::default();
        if in_registry {
            remote.registry.insert(TP.into(), vec![cmd::RegVersion { version: semver(1), user: Some(1), day: 0 }]);
            if matching {
                remote.matching_metadata.insert(TP.into());
            }
        }
        let w = cmd::CmdWorld { graph, config, audits, remote: remote.clone() };
        let p = cmd::setup_project(&w);
        remote.install();
        r.evaluations += 1;
        let case = format!("escape#{i}: crates.io package thirdparty:1.0.0 audited={tp_audited} policy-false={policy_false} versioned={versioned} path-namesake-2.0.0={overlap} registry={in_registry} matching={matching}");
        r.nontrivial(&case);
        for args in [&["--locked"][..], &[][..], &["--locked"][..]] {
            let (o, _) = p.run(args);
            r.oracle_checked += 1;
            r.count(&format!("escape{}:{}", if args.is_empty() { "" } else { "-locked" }, match &o { cmd::Outcome::Ok => "ok", cmd::Outcome::Exit(_) => "exit", cmd::Outcome::Err(_) => "refused", cmd::Outcome::Panic(_) => "panic" }));
            match &o {
                cmd::Outcome::Ok if !tp_audited && r.prop == "C08" => {
                    r.fail("oracle", "C08/crates-io-package-escapes-vetting", format!("`cargo vet {}` passes although thirdparty:1.0.0 comes from crates.io and has no audit or exemption", args.join(" ")), &case);
                }
                cmd::Outcome::Panic(m) => r.fail("oracle", "C08/panic", m.clone(), &case),
                _ => {}
            }
        }
    }
    *crate::network::VERIF_MOCK_NETWORK.lock().unwrap() = None;
    r.count_n("driver-requests", d.requests);
}
