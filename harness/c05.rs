// C05: criteria mean their implication closure.
//  * correspondence: CriteriaMapper::new / criteria_from_list / minimal_indices vs the model
//  * oracle on the implementation: implied sets are the reflexive-transitive closure computed
//    independently; minimal names regenerate the set and contain no implied member
//  * metamorphic oracle on the real `resolve`: rewriting criteria lists (closure, minimal set,
//    permutation, duplication) and adding records for crates outside the graph never changes
//    the verdict
use super::*;
use crate::criteria::{CriteriaMapper, CriteriaSet};
use crate::format::*;

fn table_case(criteria: &SortedMap<CriteriaName, CriteriaEntry>) -> String {
    wire::enc_table(criteria).text()
}

fn describe(criteria: &SortedMap<CriteriaName, CriteriaEntry>) -> String {
    criteria
        .iter()
        .map(|(k, e)| {
            format!(
                "{k}->[{}]",
                e.implies.iter().map(|s| s.to_string()).collect::<Vec<_>>().join(",")
            )
        })
        .collect::<Vec<_>>()
        .join(" ")
}

fn cset_bits(s: &CriteriaSet) -> u64 {
    s.indices().fold(0u64, |a, i| a | (1u64 << i))
}

/// independent closure: fixpoint over the direct edges (plus deploy -> run)
fn spec_closure(criteria: &SortedMap<CriteriaName, CriteriaEntry>) -> Option<Vec<u64>> {
    let mut names = vec![SAFE_TO_RUN.to_owned(), SAFE_TO_DEPLOY.to_owned()];
    names.extend(criteria.keys().cloned());
    let n = names.len();
    let mut direct = vec![0u64; n];
    direct[1] |= 1;
    for (name, e) in criteria {
        let i = names.iter().position(|x| x == name)?;
        for imp in &e.implies {
            let j = names.iter().position(|x| x == &**imp)?;
            direct[i] |= 1 << j;
        }
    }
    let mut clo: Vec<u64> = (0..n).map(|i| 1u64 << i).collect();
    loop {
        let mut changed = false;
        for i in 0..n {
            let mut s = clo[i];
            for j in 0..n {
                if clo[i] & (1 << j) != 0 {
                    s |= direct[j];
                }
            }
            if s != clo[i] {
                clo[i] = s;
                changed = true;
            }
        }
        if !changed {
            break;
        }
    }
    Some(clo)
}

fn check_table(r: &mut Report, d: &mut Driver, rng: &mut Rng, criteria: &SortedMap<CriteriaName, CriteriaEntry>) {
    r.evaluations += 1;
    let t = table_case(criteria);
    let case = format!("mapper {t}");
    let imp = guarded(|| CriteriaMapper::new(criteria));
    let imp_line = match &imp {
        Ok(m) => {
            let mut s = format!("ok {}", m.len());
            for c in m.all_criteria_iter() {
                s.push_str(&format!(" {}", cset_bits(c)));
            }
            s
        }
        Err(e) => panic_class(e).to_owned(),
    };
    let model = d.ask(&case);
    r.corr("corr.mapper.new", &imp_line, &model, &case);
    r.count(if imp.is_ok() { "mapper:ok" } else { imp_line.as_str() });
    r.count(&format!("customs:{}", criteria.len().min(9)));
    if criteria.values().any(|e| !e.implies.is_empty()) {
        r.nontrivial(&case);
    }
    r.sample(format!("{} => {}", describe(criteria), imp_line));
    let Ok(m) = imp else { return };
    let n = m.len();
    // oracle: closure
    r.oracle_checked += 1;
    if let Some(spec) = spec_closure(criteria) {
        let got: Vec<u64> = m.all_criteria_iter().map(cset_bits).collect();
        if got != spec {
            r.fail(
                "oracle",
                "C05/closure",
                format!("implied sets {got:?} differ from the reflexive-transitive closure {spec:?}"),
                &case,
            );
        }
        // acyclic tables only: no criterion other than itself implies it back
        // minimal generating sets
        let names: Vec<String> = m.all_criteria_names().map(|s| s.to_owned()).collect();
        for _ in 0..4 {
            let k = rng.below(4);
            let list: Vec<String> = (0..k).map(|_| names[rng.below(n)].clone()).collect();
            let set = m.criteria_from_list(&list);
            let bits = cset_bits(&set);
            let idx: Vec<usize> = list.iter().map(|s| names.iter().position(|x| x == s).unwrap()).collect();
            let expect = idx.iter().fold(0u64, |a, &i| a | spec[i]);
            r.oracle_checked += 1;
            if bits != expect {
                r.fail("oracle", "C05/from-list", format!("list {list:?} gives {bits} expected {expect}"), &case);
            }
            let mut fl = Toks::new();
            fl.list(&idx);
            let c2 = format!("fromlist {t} {}", fl.text());
            let model = d.ask(&c2);
            r.corr("corr.mapper.from_list", &format!("ok {bits}"), &model, &c2);
            let minimal: Vec<usize> = m.minimal_indices(&set).collect();
            let c3 = format!("minimal {t} {bits}");
            let model = d.ask(&c3);
            let mut ml = Toks::new();
            ml.list(&minimal);
            r.corr("corr.mapper.minimal", &format!("ok {}", ml.text()), &model, &c3);
            // the printed names denote the same set, with no implied duplicates
            let regenerated = minimal.iter().fold(0u64, |a, &i| a | spec[i]);
            r.oracle_checked += 1;
            if regenerated != bits {
                r.fail("oracle", "C05/minimal-denotes", format!("minimal {minimal:?} of {bits} regenerates {regenerated}"), &c3);
            }
            for &a in &minimal {
                for &b in &minimal {
                    if a != b && spec[b] & (1 << a) != 0 {
                        r.fail("oracle", "C05/minimal-redundant", format!("{a} implied by {b} in {minimal:?}"), &c3);
                    }
                }
            }
        }
    }
}

use wire::Toks;

fn entry(implies: Vec<&str>) -> CriteriaEntry {
    CriteriaEntry {
        description: Some("d".into()),
        description_url: None,
        implies: implies.into_iter().map(|s| gen::sp(s.to_owned())).collect(),
        aggregated_from: vec![],
    }
}

/// every implication table over `k` customs (each may imply any other custom and the built-ins)
fn enumerate(k: usize, f: &mut dyn FnMut(&SortedMap<CriteriaName, CriteriaEntry>)) {
    let names = &gen::CUSTOM_NAMES[..k];
    if k == 0 {
        f(&SortedMap::new());
        return;
    }
    let opts = k - 1 + 2;
    let per = 1usize << opts;
    let total = per.pow(k as u32);
    for code in 0..total {
        let mut c = code;
        let mut m = SortedMap::new();
        for i in 0..k {
            let bits = c % per;
            c /= per;
            let mut targets: Vec<&str> = Vec::new();
            let mut others: Vec<&str> = names.iter().copied().filter(|n| *n != names[i]).collect();
            others.push(SAFE_TO_RUN);
            others.push(SAFE_TO_DEPLOY);
            for (b, t) in others.iter().enumerate() {
                if bits & (1 << b) != 0 {
                    targets.push(t);
                }
            }
            m.insert(names[i].to_owned(), entry(targets));
        }
        f(&m);
    }
}

pub fn run(r: &mut Report, _replay: Option<&str>) {
    let mut d = Driver::spawn();
    let (shard, nshards) = shard();
    let mut rng = Rng::new(r.seed ^ (shard.wrapping_mul(0x1234567)));
    r.rule = "criteria tables: all implication tables over <=2 (quick) / <=3 (thorough) customs exhaustively (incl. cyclic), random tables up to 5 customs, malformed tables (built-in redefined, undefined implies, >64 criteria); non-trivial = table with at least one custom implication; distinct by table hash. Metamorphic worlds: generated stores rewritten by closure/minimal/permutation/duplication/outside-record edits; non-trivial = rewrite changed at least one list.".into();
    let kmax = if r.thorough() { 3 } else { 2 };
    let mut idx = 0u64;
    for k in 0..=kmax {
        let mut tables = Vec::new();
        enumerate(k, &mut |m| tables.push(m.clone()));
        for m in tables {
            idx += 1;
            if idx % nshards != shard {
                continue;
            }
            check_table(r, &mut d, &mut rng, &m);
        }
    }
    r.exhaustive = false;
    // random, mostly acyclic
    let n_random = if r.thorough() { 12000 } else { 6000 } / nshards;
    for _ in 0..n_random {
        let acyclic = !rng.chance(1, 6);
        let m = gen::gen_criteria(&mut rng, 5, acyclic);
        check_table(r, &mut d, &mut rng, &m);
    }
    // malformed
    if shard == 0 {
        let mut m = SortedMap::new();
        m.insert(SAFE_TO_RUN.to_owned(), entry(vec![]));
        check_table(r, &mut d, &mut rng, &m);
        let mut m = SortedMap::new();
        m.insert(SAFE_TO_DEPLOY.to_owned(), entry(vec!["c-alpha"]));
        m.insert("c-alpha".to_owned(), entry(vec![]));
        check_table(r, &mut d, &mut rng, &m);
        let mut m = SortedMap::new();
        m.insert("c-alpha".to_owned(), entry(vec!["nowhere"]));
        check_table(r, &mut d, &mut rng, &m);
        for total in [61usize, 62, 63, 70] {
            let mut m = SortedMap::new();
            for i in 0..total {
                m.insert(format!("k{i:03}"), entry(if i + 1 < total && i % 7 == 0 { vec!["safe-to-run"] } else { vec![] }));
            }
            check_table(r, &mut d, &mut rng, &m);
        }
    }
    metamorphic(r, &mut rng, nshards);
}

/// Rewrite every criteria list of records that *count for* criteria.
fn rewrite_list(
    rng: &mut Rng,
    m: &CriteriaMapper,
    l: &[crate::serialization::spanned::Spanned<String>],
    how: usize,
    contravariant: bool,
) -> Vec<crate::serialization::spanned::Spanned<String>> {
    let set = m.criteria_from_list(l);
    match how {
        // closure (not for violation lists, which are read item by item)
        0 if !contravariant => set.indices().map(|i| gen::sp(m.criteria_name(i).to_owned())).collect(),
        // minimal generating set
        1 if !contravariant => m.criteria_names(&set).map(|s| gen::sp(s.to_owned())).collect(),
        // permutation
        2 => {
            let mut v = l.to_vec();
            v.reverse();
            v
        }
        // duplication
        3 => {
            let mut v = l.to_vec();
            if !v.is_empty() {
                let d = v[rng.below(v.len())].clone();
                v.push(d);
            }
            v
        }
        _ => l.to_vec(),
    }
}

fn verdict(md: &Metadata, store: &Store) -> String {
    match guarded(|| {
        // the store has to be accepted by the loader's validation first
        if let Err(e) = store.validate(mock_today(), false) {
            return format!("refused {}", format!("{e:?}").chars().take(160).collect::<String>());
        }
        let rep = crate::resolver::resolve(md, None, store);
        match &rep.conclusion {
            crate::resolver::Conclusion::Success(_) => "success".to_owned(),
            crate::resolver::Conclusion::FailForViolationConflict(f) => {
                format!("violation {:?}", f.violations.iter().map(|(i, _)| *i).collect::<Vec<_>>())
            }
            crate::resolver::Conclusion::FailForVet(f) => format!(
                "fail {:?}",
                f.failures
                    .iter()
                    .map(|(i, a)| (*i, cset_bits(&a.criteria_failures)))
                    .collect::<Vec<_>>()
            ),
        }
    }) {
        Ok(s) => s,
        Err(e) => panic_class(&e).to_owned(),
    }
}

fn metamorphic(r: &mut Report, rng: &mut Rng, nshards: u64) {
    let n = if r.thorough() { 20000 } else { 9000 } / nshards;
    let cfg = gen::WorldCfg { violations: 2, ..Default::default() };
    for _ in 0..n {
        let w = gen::gen_world(rng, &cfg);
        r.evaluations += 1;
        let store = w.store();
        let base = verdict(&w.md, &store);
        let Ok(m) = guarded(|| CriteriaMapper::new(&store.audits.criteria)) else { continue };
        let how = rng.below(5);
        let mut w2 = GWorldClone::of(&w);
        let mut changed = false;
        {
            let mut rw = |l: &mut Vec<crate::serialization::spanned::Spanned<String>>, contra: bool, rng: &mut Rng| {
                let new = rewrite_list(rng, &m, l, how, contra);
                if new.iter().map(|s| s.to_string()).collect::<Vec<_>>() != l.iter().map(|s| s.to_string()).collect::<Vec<_>>() {
                    changed = true;
                }
                *l = new;
            };
            let mut files: Vec<&mut AuditsFile> = vec![&mut w2.audits];
            files.extend(w2.imports.audits.values_mut());
            if let Some(l) = &mut w2.live {
                files.extend(l.audits.values_mut());
            }
            for f in files {
                for l in f.audits.values_mut() {
                    for a in l {
                        let contra = matches!(a.kind, AuditKind::Violation { .. });
                        rw(&mut a.criteria, contra, rng);
                    }
                }
                for l in f.wildcard_audits.values_mut() {
                    for a in l {
                        rw(&mut a.criteria, false, rng);
                    }
                }
                for l in f.trusted.values_mut() {
                    for a in l {
                        rw(&mut a.criteria, false, rng);
                    }
                }
            }
            for l in w2.config.exemptions.values_mut() {
                for e in l {
                    rw(&mut e.criteria, false, rng);
                }
            }
            // the `implies` lists of the criteria table are criteria lists too
            for c in w2.audits.criteria.values_mut() {
                if !c.implies.is_empty() {
                    rw(&mut c.implies, false, rng);
                }
            }
            for p in w2.config.policy.package.values_mut() {
                let entries: Vec<&mut PolicyEntry> = match p {
                    PackagePolicyEntry::Unversioned(e) => vec![e],
                    PackagePolicyEntry::Versioned { version } => version.values_mut().collect(),
                };
                for e in entries {
                    if let Some(c) = &mut e.criteria {
                        rw(c, false, rng);
                    }
                    if let Some(c) = &mut e.dev_criteria {
                        rw(c, false, rng);
                    }
                    for c in e.dependency_criteria.values_mut() {
                        rw(c, false, rng);
                    }
                }
            }
        }
        if how == 4 {
            // records about a crate outside the graph
            changed = true;
            w2.audits.audits.entry("zzz-unrelated".to_owned()).or_default().push(AuditEntry {
                who: vec![],
                criteria: vec![gen::sp(SAFE_TO_DEPLOY.to_owned())],
                kind: AuditKind::Full { version: gen::version_pool()[0].clone() },
                importable: true,
                notes: None,
                aggregated_from: vec![],
                is_fresh_import: false,
            });
            w2.config.exemptions.entry("zzz-unrelated".to_owned()).or_default().push(ExemptedDependency {
                version: gen::version_pool()[1].clone(),
                criteria: vec![gen::sp(SAFE_TO_RUN.to_owned())],
                suggest: true,
                notes: None,
            });
        }
        let mut s2 = Store::mock(w2.config.clone(), w2.audits.clone(), w2.imports.clone());
        s2.live_imports = w2.live.clone();
        let after = verdict(&w.md, &s2);
        r.oracle_checked += 1;
        let case = format!("metamorphic how={how} seed-index={}", r.evaluations);
        if changed {
            r.nontrivial(&format!("{case} {base}"));
        }
        r.count(&format!("metamorphic:how{how}"));
        r.count(&format!("metamorphic:verdict:{}", base.split(' ').next().unwrap_or("")));
        if base != after {
            r.fail(
                "oracle",
                &format!("C05/metamorphic/how{how}"),
                format!("verdict changed from `{base}` to `{after}` under rewrite {how}"),
                &format!("{case}\nbefore: {:?}\n{:?}\nafter: {:?}\n{:?}", w.config.exemptions, w.audits.audits, w2.config.exemptions, w2.audits.audits),
            );
        }
    }
}

struct GWorldClone {
    config: ConfigFile,
    audits: AuditsFile,
    imports: ImportsFile,
    live: Option<ImportsFile>,
}
impl GWorldClone {
    fn of(w: &gen::GWorld) -> Self {
        GWorldClone {
            config: w.config.clone(),
            audits: w.audits.clone(),
            imports: w.imports.clone(),
            live: w.live.clone(),
        }
    }
}
