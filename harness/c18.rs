// C18: concurrent invocations on one store serialise.
//  (a) trace conformance: the real Store::acquire_offline / commit (and Cache::acquire) run in a
//      child process under strace; the syscall sequence on the store directory is abstracted to
//      the alphabet of lean/Vet/Model/Lock.lean and checked to be a run of the process program
//      (exclusive flock on config.toml before the first read of any store file, every write and
//      truncate while the lock is held, lock released by close only after the last write);
//  (b) real schedules: 2..6 threads with random think times on one store directory; final files
//      must contain every committed update and no thread may ever load a torn file.
use super::*;
use crate::format::*;
use std::sync::atomic::{AtomicUsize, Ordering};

fn base_project() -> cmd::Project {
    let mut rng = Rng::new(7);
    let w = cmd::gen_cmd_world(&mut rng, false);
    cmd::setup_project(&w)
}

/// one load-modify-write of the store through the real API; returns Err on any load error
/// global flags an invocation may be started with; none of them makes it read-only
const FLAGS: [&[&str]; 3] = [&[], &["--locked"], &["--locked", "--frozen"]];

fn invocation(p: &cmd::Project, id: usize, writer: bool, think_ms: (u64, u64), flags: usize) -> Result<(), String> {
    let cfg = p.cfg(FLAGS[flags % FLAGS.len()]);
    std::thread::sleep(std::time::Duration::from_millis(think_ms.0));
    let mut store = match guarded(|| Store::acquire_offline(&cfg)) {
        Ok(Ok(s)) => s,
        Ok(Err(e)) => return Err(format!("load error: {e:?}").chars().take(300).collect()),
        Err(m) => return Err(format!("load panic: {m}")),
    };
    std::thread::sleep(std::time::Duration::from_millis(think_ms.1));
    if writer {
        store.config.exemptions.entry(format!("marker-{id:03}")).or_default().push(ExemptedDependency {
            version: VetVersion::parse("1.0.0").unwrap(),
            criteria: vec![gen::sp(SAFE_TO_RUN.to_owned())],
            suggest: true,
            notes: None,
        });
        store.audits.audits.entry(format!("marker-{id:03}")).or_default().push(AuditEntry {
            who: vec![], criteria: vec![gen::sp(SAFE_TO_RUN.to_owned())], kind: AuditKind::Full { version: VetVersion::parse("1.0.0").unwrap() },
            importable: true, notes: None, aggregated_from: vec![], is_fresh_import: false,
        });
        match guarded(|| store.commit()) {
            Ok(Ok(())) => Ok(()),
            Ok(Err(e)) => Err(format!("commit error: {e:?}")),
            Err(m) => Err(format!("commit panic: {m}")),
        }
    } else {
        drop(store);
        Ok(())
    }
}

fn schedules(r: &mut Report, rng: &mut Rng, n: u64) {
    for i in 0..n {
        let p = std::sync::Arc::new(base_project());
        let k = rng.range(2, 6);
        // in a third of the schedules every invocation is started with --locked (and some --frozen)
        let all_locked = i % 3 == 2;
        let plan: Vec<(bool, (u64, u64), usize)> = (0..k).map(|_| (rng.chance(2, 3), (rng.below(12) as u64, rng.below(12) as u64), if all_locked { 1 + rng.below(2) } else { rng.below(3) })).collect();
        r.evaluations += 1;
        let errors = std::sync::Arc::new(std::sync::Mutex::new(Vec::<String>::new()));
        let committed = std::sync::Arc::new(std::sync::Mutex::new(Vec::<usize>::new()));
        let mut handles = Vec::new();
        for (id, (writer, think, flags)) in plan.iter().cloned().enumerate() {
            let p = p.clone();
            let errors = errors.clone();
            let committed = committed.clone();
            handles.push(std::thread::spawn(move || {
                match invocation(&p, id, writer, think, flags) {
                    Ok(()) => {
                        if writer {
                            committed.lock().unwrap().push(id);
                        }
                    }
                    Err(e) => errors.lock().unwrap().push(format!("invocation {id}: {e}")),
                }
            }));
        }
        for h in handles {
            let _ = h.join();
        }
        let case = format!("schedule#{i}: {plan:?}");
        r.oracle_checked += 1;
        let errs = errors.lock().unwrap().clone();
        if !errs.is_empty() {
            r.fail("oracle", "C18/load-or-commit-error-under-concurrency", format!("{errs:?}"), &case);
        }
        let files = p.files();
        let mut missing = Vec::new();
        for id in committed.lock().unwrap().iter() {
            let m = format!("marker-{id:03}");
            if !files[0].contains(&m) || !files[1].contains(&m) {
                missing.push(*id);
            }
        }
        if !missing.is_empty() {
            r.fail("oracle", "C18/lost-update", format!("invocations {missing:?} reported success but their update is not in the final files"), &case);
        }
        // the final store must load
        let cfg = p.cfg(&[]);
        if !matches!(guarded(|| Store::acquire_offline(&cfg).map(|_| ())), Ok(Ok(()))) {
            r.fail("oracle", "C18/final-store-corrupt", "the final store does not load".into(), &case);
        }
        if plan.iter().filter(|p| p.0).count() >= 1 && plan.len() >= 2 {
            r.nontrivial(&case);
        }
        r.count(&format!("threads:{k}"));
        if r.samples.len() < 3 {
            r.sample(format!("{case} -> {} committed, {} errors", committed.lock().unwrap().len(), errs.len()));
        }
    }
}

/// The shared cache directory: each invocation acquires the real `Cache` on one directory (an
/// exclusive lock on its lock file), fetches crates.io metadata for its own crate through the
/// mock network — which lands in the in-memory crates.io cache — and drops the cache, which writes
/// the cache files back.  Serialised invocations leave every crate in crates-io-cache.json; an
/// invocation that read the file before another one wrote it would lose that other entry.
fn cache_schedules(r: &mut Report, rng: &mut Rng, n: u64) {
    let names: Vec<String> = (0..6).map(|i| format!("cachecrate{i}")).collect();
    let mut remote = cmd::Remote::default();
    for nm in &names {
        remote.registry.insert(nm.clone(), vec![cmd::RegVersion { version: semver::Version::new(1, 0, 0), user: Some(1), day: 0 }]);
    }
    remote.install();
    for i in 0..n {
        let root = std::env::var("VERIF_WORK").map(PathBuf::from).unwrap_or_else(|_| std::env::temp_dir());
        let dir = std::sync::Arc::new(tempfile::Builder::new().prefix("vetc18cache").tempdir_in(root).unwrap());
        let k = rng.range(2, 6);
        let plan: Vec<(u64, u64)> = (0..k).map(|_| (rng.below(10) as u64, rng.below(10) as u64)).collect();
        // in a third of the schedules one invocation is `gc --clean` / `gc` instead of a fetch
        let special: Option<(usize, bool)> = if i % 3 == 1 { Some((rng.below(k), rng.chance(2, 3))) } else { None };
        r.evaluations += 1;
        let errors = std::sync::Arc::new(std::sync::Mutex::new(Vec::<String>::new()));
        let holders = std::sync::Arc::new(AtomicUsize::new(0));
        let overlap = std::sync::Arc::new(AtomicUsize::new(0));
        let base = base_project();
        let cfg0 = std::sync::Arc::new(base.cfg(&[]));
        let mut handles = Vec::new();
        for (id, think) in plan.iter().cloned().enumerate() {
            let dir = dir.clone();
            let errors = errors.clone();
            let name = names[id].clone();
            let cfg0 = cfg0.clone();
            let holders = holders.clone();
            let overlap = overlap.clone();
            let role = special.filter(|(who, _)| *who == id).map(|(_, clean)| clean);
            handles.push(std::thread::spawn(move || {
                let _enter = TEST_RUNTIME.enter();
                // the gc / clean invocation starts first, the others while it is at work
                std::thread::sleep(std::time::Duration::from_millis(if role.is_some() { 0 } else if special.is_some() { 4 + 2 * think.0 } else { think.0 }));
                let pc = PartialConfig {
                    cli: { let crate::cli::FakeCli::Vet(cli) = crate::cli::FakeCli::try_parse_from(["cargo", "vet"]).unwrap(); cli },
                    now: mock_now(),
                    cache_dir: dir.path().join("cache-root"),
                    mock_cache: false,
                };
                let res = guarded(|| -> Result<(), String> {
                    let network = Network::acquire(&cfg0).ok_or("no network")?;
                    let cache = crate::storage::Cache::acquire(&pc).map_err(|e| format!("acquire: {e:?}"))?;
                    // between acquire and drop this invocation must be alone in the cache directory
                    if holders.fetch_add(1, Ordering::SeqCst) != 0 {
                        overlap.fetch_add(1, Ordering::SeqCst);
                    }
                    std::thread::sleep(std::time::Duration::from_millis(think.1));
                    let res = match role {
                        Some(true) => cache.clean_sync().map_err(|e| format!("clean: {e:?}")),
                        Some(false) => { cache.gc_sync(std::time::Duration::from_secs(0)); Ok(()) }
                        None => tokio::runtime::Handle::current().block_on(cache.crates_io_info(Some(&network), &name)).map(|_| ()).map_err(|e| format!("info: {e:?}")),
                    };
                    // (a gc / clean keeps the cache for a while after its work, so that invocations
                    // starting meanwhile have to wait for it)
                    std::thread::sleep(std::time::Duration::from_millis(if role.is_some() { 25 } else { think.0 / 2 }));
                    if holders.load(Ordering::SeqCst) != 1 {
                        overlap.fetch_add(1, Ordering::SeqCst);
                    }
                    holders.fetch_sub(1, Ordering::SeqCst);
                    drop(cache);
                    res
                });
                match res {
                    Ok(Ok(())) => {}
                    Ok(Err(e)) => errors.lock().unwrap().push(format!("invocation {id}: {e}")),
                    Err(p) => errors.lock().unwrap().push(format!("invocation {id} panicked: {p}")),
                }
            }));
        }
        for h in handles {
            let _ = h.join();
        }
        let case = format!("cache-schedule#{i}: {plan:?} special={special:?}");
        r.oracle_checked += 1;
        if overlap.load(Ordering::SeqCst) != 0 {
            r.fail("oracle", "C18/cache-held-by-two-invocations", "two invocations were between Cache::acquire and drop at the same time".into(), &case);
        }
        let errs = errors.lock().unwrap().clone();
        if !errs.is_empty() {
            r.fail("oracle", "C18/cache-error-under-concurrency", format!("{errs:?}").chars().take(600).collect(), &case);
            continue;
        }
        let text = fs::read_to_string(dir.path().join("cache-root").join("crates-io-cache.json")).unwrap_or_default();
        let missing: Vec<&String> = names.iter().take(k).filter(|nm| !text.contains(nm.as_str())).collect();
        // (a `gc --clean` legitimately wipes what was fetched before it; a `gc` fetches nothing)
        if !missing.is_empty() && special.is_none() {
            r.fail("oracle", "C18/cache-lost-update", format!("invocations that fetched {missing:?} finished without error but the final crates.io cache file does not hold their entries"), &case);
        }
        if !text.is_empty() && serde_json::from_str::<serde_json::Value>(&text).is_err() {
            r.fail("oracle", "C18/cache-file-corrupt", "the final crates.io cache file is not valid JSON".into(), &case);
        }
        r.nontrivial(&case);
        r.count(&format!("cache-threads:{k}"));
    }
    *crate::network::VERIF_MOCK_NETWORK.lock().unwrap() = None;
}

/// child mode (run under strace): one real invocation on the directory in VERIF_C18_DIR
pub fn child() {
    let dir = std::env::var("VERIF_C18_DIR").unwrap();
    let writer = std::env::var("VERIF_C18_WRITER").map(|v| v == "1").unwrap_or(true);
    let md = gen::GGraph { pkgs: vec![gen::GPkg { name: "rootpkg".into(), version: VetVersion::parse("1.0.0").unwrap(), source: 0, member: true, deps: vec![] }], resolve_order: vec![0], member_order: vec![0] }.metadata();
    let p = cmd::Project { dir: tempfile::Builder::new().prefix("unused").tempdir().unwrap(), md };
    let flags: usize = std::env::var("VERIF_C18_FLAGS").ok().and_then(|v| v.parse().ok()).unwrap_or(0);
    let mut cfg = p.cfg(FLAGS[flags % FLAGS.len()]);
    cfg.metacfg = MetaConfig(vec![MetaConfigInstance { version: Some(1), store: Some(StoreInfo { path: Some(PathBuf::from(&dir)) }) }]);
    eprintln!("C18CHILD begin");
    let mut store = Store::acquire_offline(&cfg).expect("child load");
    if writer {
        store.config.exemptions.entry("child-marker".into()).or_default().push(ExemptedDependency { version: VetVersion::parse("1.0.0").unwrap(), criteria: vec![gen::sp(SAFE_TO_RUN.to_owned())], suggest: true, notes: None });
        store.commit().expect("child commit");
    } else {
        drop(store);
    }
    eprintln!("C18CHILD end");
}

#[derive(Debug, Clone, PartialEq)]
enum Ev {
    Open(String, i64),   // file, fd
    LockEx(i64),
    LockOther(i64),
    Read(i64),
    Write(i64),
    Trunc(i64),
    OpenTrunc(String, i64),
    Close(i64),
}

fn parse_trace(text: &str, dir: &str) -> Vec<Ev> {
    let mut evs = Vec::new();
    let mut interesting: BTreeMap<i64, String> = BTreeMap::new();
    let mut started = false;
    for line in text.lines() {
        if line.contains("C18CHILD begin") {
            started = true;
            continue;
        }
        if line.contains("C18CHILD end") {
            break;
        }
        if !started {
            continue;
        }
        let Some(rest) = line.split_once(' ').map(|x| x.1.trim_start()) else { continue };
        let ret: i64 = rest.rsplit_once("= ").and_then(|x| x.1.split_whitespace().next()).and_then(|s| s.parse().ok()).unwrap_or(-1);
        if rest.starts_with("openat(") {
            if let Some(path) = rest.split('"').nth(1) {
                if path.starts_with(dir) && ret >= 0 {
                    let name = path.rsplit('/').next().unwrap_or("").to_owned();
                    if ["config.toml", "audits.toml", "imports.lock"].contains(&name.as_str()) {
                        interesting.insert(ret, name.clone());
                        if rest.contains("O_TRUNC") {
                            evs.push(Ev::OpenTrunc(name, ret));
                        } else {
                            evs.push(Ev::Open(name, ret));
                        }
                    }
                }
            }
        } else {
            let fd: i64 = rest.split('(').nth(1).and_then(|s| s.split(|c| c == ',' || c == ')').next()).and_then(|s| s.trim().parse().ok()).unwrap_or(-1);
            if !interesting.contains_key(&fd) {
                continue;
            }
            if rest.starts_with("flock(") {
                if rest.contains("LOCK_EX") && ret == 0 {
                    evs.push(Ev::LockEx(fd));
                } else {
                    evs.push(Ev::LockOther(fd));
                }
            } else if rest.starts_with("read(") || rest.starts_with("pread64(") {
                evs.push(Ev::Read(fd));
            } else if rest.starts_with("write(") || rest.starts_with("pwrite64(") {
                evs.push(Ev::Write(fd));
            } else if rest.starts_with("ftruncate(") {
                evs.push(Ev::Trunc(fd));
            } else if rest.starts_with("close(") {
                evs.push(Ev::Close(fd));
                interesting.remove(&fd);
            }
        }
    }
    evs
}

/// the conformance check: the trace is a run of the process program of the model
fn conforms(evs: &[Ev], writer: bool) -> Result<(), String> {
    // 1. the first event on the store is opening config.toml, then an exclusive flock on it
    let mut it = evs.iter();
    let lock_fd = match it.next() {
        Some(Ev::Open(n, fd)) if n == "config.toml" => *fd,
        other => return Err(format!("first store access is {other:?}, expected open(config.toml)")),
    };
    match it.next() {
        Some(Ev::LockEx(fd)) if *fd == lock_fd => {}
        other => return Err(format!("after opening config.toml: {other:?}, expected flock(LOCK_EX)")),
    }
    // 2. everything else happens while that descriptor is open and locked
    let mut locked = true;
    let mut wrote = 0;
    for e in it {
        match e {
            Ev::Close(fd) if *fd == lock_fd => locked = false,
            // FileLock::drop unlocks explicitly just before closing: that is the release point
            Ev::LockOther(fd) if *fd == lock_fd => locked = false,
            Ev::Read(_) | Ev::Write(_) | Ev::Trunc(_) | Ev::Open(_, _) | Ev::OpenTrunc(_, _) => {
                if !locked {
                    return Err(format!("{e:?} after the lock was released"));
                }
                if matches!(e, Ev::Write(_) | Ev::Trunc(_) | Ev::OpenTrunc(_, _)) {
                    wrote += 1;
                }
            }
            _ => {}
        }
    }
    if writer && wrote == 0 {
        return Err("a committing invocation performed no write".into());
    }
    if !writer && wrote != 0 {
        return Err("a read-only invocation wrote to the store".into());
    }
    Ok(())
}

fn traces(r: &mut Report, n: u64) {
    let exe = std::env::current_exe().unwrap();
    for i in 0..n {
        let p = base_project();
        let writer = i % 2 == 0;
        let trace_file = p.dir.path().join("strace.log");
        let out = Command::new("strace")
            .args(["-f", "-e", "trace=openat,flock,read,pread64,write,pwrite64,ftruncate,close", "-o"])
            .arg(&trace_file)
            .arg(&exe)
            .args(["tests::verif::run", "--exact", "--nocapture", "--test-threads=1"])
            .env("VERIF_PROP", "C18child")
            .env("VERIF_C18_DIR", p.store_dir())
            .env("VERIF_C18_WRITER", if writer { "1" } else { "0" })
            .env("VERIF_C18_FLAGS", format!("{}", (i / 2) % 3))
            .env_remove("VERIF_OUT")
            .output();
        r.evaluations += 1;
        let Ok(out) = out else {
            r.count("strace:unavailable");
            continue;
        };
        if !out.status.success() {
            r.fail("oracle", "C18/child-failed", String::from_utf8_lossy(&out.stderr).chars().take(400).collect(), "trace child");
            continue;
        }
        let text = fs::read_to_string(&trace_file).unwrap_or_default();
        let evs = parse_trace(&text, p.store_dir().to_str().unwrap());
        r.oracle_checked += 1;
        r.count(&format!("trace-events:{}", evs.len() / 5 * 5));
        let case = format!("trace#{i} writer={writer} flags={:?}: {evs:?}", FLAGS[((i / 2) % 3) as usize]);
        if let Err(why) = conforms(&evs, writer) {
            r.fail("oracle", "C18/trace-nonconforming", why, &case);
        }
        r.nontrivial(&case);
        if i < 2 {
            r.sample(case.chars().take(400).collect());
        }
    }
}

pub fn run(r: &mut Report) {
    let (shard, nshards) = shard();
    r.rule = "cache schedules = 2..6 real threads each acquiring the real Cache on one directory, fetching its own crate's crates.io metadata and dropping the cache (final crates-io-cache.json must hold every entry); schedules = 2..6 real threads (readers that drop, writers that commit) with random think times before load and between load and commit on one store directory; traces = one real invocation under strace abstracted to open/flock/read/write/truncate/close on the three store files; non-trivial = at least two invocations of which one commits (schedules), every trace; distinct by schedule / trace".into();
    let mut rng = Rng::new(r.seed.wrapping_add(shard.wrapping_mul(49979687)) ^ 0xC18);
    let n = if r.thorough() { 2400 } else { 320 } / nshards;
    schedules(r, &mut rng, n.max(4));
    traces(r, if r.thorough() { 12 } else { 6 });
    cache_schedules(r, &mut rng, (n / 4).max(4));
}
