// C14: stores round-trip unchanged through a canonical format cargo-vet itself accepts.
//  (a) generated stores (every record kind, optional fields on/off, empty and singleton lists,
//      long arrays / inline tables, multi-line, quoted, Unicode and control-character text,
//      git-revision and pre-release versions) are written with the real serialiser, loaded with
//      the real loader *with the formatting check on*, compared with the original, and written
//      again: the bytes must not change;
//  (b) the hand-written serialisers (string_or_vec, flattened audit entries, policy keys) are
//      compared with the model on the value tree the real serde code produces.
use super::*;
use crate::format::*;
use wire::Toks;

const NASTY: [&str; 14] = [
    "plain", "", "with \"double quotes\"", "it's", "'''triple'''", "line one\nline two", "trailing space ", "tab\there",
    "unicode: ümlaut — 日本語 🦀", "back\\slash", "cr\r\nlf", "\u{1}control", "# not a comment", "[table-like]",
];

fn nasty(rng: &mut Rng) -> String {
    NASTY[rng.below(NASTY.len())].to_owned()
}

fn spice(rng: &mut Rng, w: &mut gen::GWorld) {
    for l in w.audits.audits.values_mut().chain(w.imports.audits.values_mut().flat_map(|f| f.audits.values_mut())) {
        for a in l.iter_mut() {
            if rng.chance(1, 2) {
                a.notes = Some(nasty(rng));
            }
            a.who = (0..rng.below(3)).map(|_| gen::sp(nasty(rng))).collect();
            if rng.chance(1, 6) {
                a.aggregated_from = vec![gen::sp("https://example.com/a.toml".to_owned())];
            }
            if rng.chance(1, 8) {
                // a long criteria array (wrapping threshold)
                a.criteria = (0..6).map(|_| gen::sp(SAFE_TO_DEPLOY.to_owned())).collect();
            }
        }
    }
    for c in w.audits.criteria.values_mut() {
        c.description = Some(nasty(rng));
        if rng.chance(1, 4) {
            c.description = None;
            c.description_url = Some("https://example.com/criteria".to_owned());
        }
    }
    for l in w.config.exemptions.values_mut() {
        for e in l.iter_mut() {
            if rng.chance(1, 3) {
                e.notes = Some(nasty(rng));
            }
        }
    }
    for p in w.config.policy.package.values_mut() {
        let es: Vec<&mut PolicyEntry> = match p {
            PackagePolicyEntry::Unversioned(e) => vec![e],
            PackagePolicyEntry::Versioned { version } => version.values_mut().collect(),
        };
        for e in es {
            if rng.chance(1, 3) {
                e.notes = Some(nasty(rng));
            }
            if rng.chance(1, 4) {
                e.criteria = Some(vec![]);
            }
            if rng.chance(1, 6) {
                // a long dependency-criteria table
                for i in 0..10 {
                    e.dependency_criteria.insert(gen::sp(format!("dep-number-{i:02}")), vec![gen::sp(SAFE_TO_RUN.to_owned())]);
                }
            }
        }
    }
    if rng.chance(1, 3) {
        // policy entries that set nothing: a bare table only naming a crate or a version (the
        // shape the dependency-criteria rule demands for sibling versions, and what
        // `regenerate audit-as-crates-io` leaves behind)
        let bare = PolicyEntry { audit_as_crates_io: None, criteria: None, dev_criteria: None, dependency_criteria: CriteriaMap::new(), notes: None };
        if rng.chance(1, 2) {
            w.config.policy.package.insert("zz-bare".into(), PackagePolicyEntry::Unversioned(bare.clone()));
        }
        let mut vs = SortedMap::new();
        vs.insert(VetVersion::parse("1.0.0").unwrap(), bare.clone());
        vs.insert(VetVersion::parse("2.0.0").unwrap(), PolicyEntry { criteria: Some(vec![gen::sp(SAFE_TO_RUN.to_owned())]), ..bare.clone() });
        if rng.chance(1, 2) {
            vs.insert(VetVersion::parse("3.0.0@git:dddddddddddddddddddddddddddddddddddddddd").unwrap(), bare);
        }
        w.config.policy.package.insert("zz-versions".into(), PackagePolicyEntry::Versioned { version: vs });
    }
    for l in w.audits.wildcard_audits.values_mut() {
        for a in l.iter_mut() {
            a.renew = *rng.pick(&[None, Some(true), Some(false)]);
            if rng.chance(1, 3) {
                a.notes = Some(nasty(rng));
            }
            a.who = (0..rng.below(2)).map(|_| gen::sp(nasty(rng))).collect();
        }
    }
    // crates.io display names: one name per user id (the files carry them in comments)
    let names: Vec<Option<String>> = (0..4).map(|_| if rng.chance(1, 2) { Some(nasty(rng)) } else { None }).collect();
    for l in w.imports.publisher.values_mut() {
        for p in l.iter_mut() {
            p.user_name = names[(p.user_id as usize) % 4].clone();
        }
    }
}

fn text_roundtrip(r: &mut Report, rng: &mut Rng, i: u64) {
    let cfg = gen::WorldCfg { max_pkgs: 5, max_customs: 3, violations: 2, unknown_criteria: false };
    let mut w = gen::gen_world(rng, &cfg);
    w.live = None;
    spice(rng, &mut w);
    r.evaluations += 1;
    let store0 = Store::mock(w.config.clone(), w.audits.clone(), w.imports.clone());
    let files0 = match guarded(|| store0.mock_commit()) {
        Ok(f) => f,
        Err(p) => {
            r.fail("oracle", "C14/serialiser-panics", p, &format!("case#{i}"));
            return;
        }
    };
    let case = format!("case#{i}\n--- audits.toml\n{}\n--- config.toml\n{}\n--- imports.lock\n{}", files0["audits.toml"], files0["config.toml"], files0["imports.lock"]);
    let n_records = w.audits.audits.values().map(|l| l.len()).sum::<usize>() + w.config.exemptions.values().map(|l| l.len()).sum::<usize>();
    if n_records >= 5 {
        r.nontrivial(&case);
    }
    r.oracle_checked += 1;
    // load what was written, with the formatting self-check on
    let loaded = guarded(|| Store::mock_acquire(&files0["config.toml"], &files0["audits.toml"], &files0["imports.lock"], mock_today(), true));
    let store1 = match loaded {
        Ok(Ok(s)) => s,
        Ok(Err(e)) => {
            let msg = format!("{e:?}");
            let ctrl_name = w.imports.publisher.values().flatten().any(|p| p.user_name.as_ref().map(|n| n.chars().any(|c| c.is_control() && c != '\t')).unwrap_or(false));
            let sig = if msg.contains("BadFormat") { "C14/own-output-rejected-as-badly-formatted" } else if msg.contains("InvalidCriteria") || msg.contains("BadWildcardEndDate") || msg.contains("ImportsLockOutdated") { return } else if ctrl_name { "C14/own-output-does-not-load/control-char-in-user-name-comment" } else { "C14/own-output-does-not-load" };
            r.fail("oracle", sig, msg.chars().take(900).collect(), &case);
            return;
        }
        Err(p) => {
            r.fail("oracle", "C14/loader-panics-on-own-output", p, &case);
            return;
        }
    };
    // nothing lost or altered: what was written must read back equal up to what "tidy" is
    // documented to do — sort the lists and drop empty ones (an independent normalisation, not
    // the code's own `tidy`; policy tables, criteria, import settings must come back verbatim)
    fn norm_list<T: Ord + Clone>(m: &SortedMap<String, Vec<T>>) -> SortedMap<String, Vec<T>> {
        m.iter().filter(|(_, l)| !l.is_empty()).map(|(k, l)| { let mut l = l.clone(); l.sort(); (k.clone(), l) }).collect()
    }
    fn norm_audits(f: &AuditsFile) -> AuditsFile {
        AuditsFile { criteria: f.criteria.clone(), wildcard_audits: norm_list(&f.wildcard_audits), audits: norm_list(&f.audits), trusted: norm_list(&f.trusted) }
    }
    let a0 = norm_audits(&w.audits);
    let i0 = ImportsFile { unpublished: norm_list(&w.imports.unpublished), publisher: norm_list(&w.imports.publisher), audits: w.imports.audits.iter().map(|(k, f)| (k.clone(), norm_audits(f))).collect() };
    let mut c0 = w.config.clone();
    c0.exemptions = norm_list(&w.config.exemptions);
    if store1.audits != a0 {
        r.fail("oracle", "C14/audits-altered", format!("audits.toml reads back differently:\nwritten {:?}\nread    {:?}", a0, store1.audits).chars().take(1500).collect(), &case);
    }
    if store1.imports != i0 {
        r.fail("oracle", "C14/imports-altered", format!("imports.lock reads back differently:\nwritten {:?}\nread    {:?}", i0, store1.imports).chars().take(1500).collect(), &case);
    }
    if format!("{:?}", store1.config) != format!("{:?}", c0) {
        r.fail("oracle", "C14/config-altered", format!("config.toml reads back differently:\nwritten {:?}\nread    {:?}", c0, store1.config).chars().take(1500).collect(), &case);
    }
    // writing what was read reproduces the bytes
    match guarded(|| store1.mock_commit()) {
        Ok(files1) => {
            for k in ["audits.toml", "config.toml", "imports.lock"] {
                if files1[k] != files0[k] {
                    r.fail("oracle", "C14/not-canonical", format!("{k} changes when written again:\n--- first\n{}\n--- second\n{}", files0[k], files1[k]).chars().take(2000).collect(), &case);
                }
            }
        }
        Err(p) => r.fail("oracle", "C14/serialiser-panics", p, &case),
    }
    r.count(&format!("records:{}", (n_records / 5 * 5).min(40)));
    if r.samples.len() < 2 {
        r.sample(case.chars().take(600).collect());
    }
}

fn val_toks(names: &mut Vec<String>, v: &toml::Value, t: &mut Toks) {
    let mut id = |s: &str| -> usize {
        match names.iter().position(|x| x == s) {
            Some(i) => i,
            None => {
                names.push(s.to_owned());
                names.len() - 1
            }
        }
    };
    match v {
        toml::Value::String(s) => {
            t.n(0).n(id(s));
        }
        toml::Value::Array(items) => {
            t.n(1).n(items.len());
            for it in items {
                match it {
                    toml::Value::String(s) => {
                        t.n(id(s));
                    }
                    _ => {
                        t.n(99999);
                    }
                }
            }
        }
        _ => {
            t.n(2);
        }
    }
}

/// (b) the custom serialisers against the model
fn serde_corr(r: &mut Report, d: &mut Driver, rng: &mut Rng, i: u64) {
    r.evaluations += 1;
    let pool = ["x", "y", "z"];
    let list: Vec<String> = (0..*rng.pick(&[0usize, 1, 1, 2, 3])).map(|_| pool[rng.below(3)].to_owned()).collect();
    let who: Vec<String> = (0..rng.below(3)).map(|_| pool[rng.below(3)].to_owned()).collect();
    let from: Vec<String> = (0..rng.below(2)).map(|_| pool[rng.below(3)].to_owned()).collect();
    let kind = match rng.below(3) {
        0 => AuditKind::Full { version: VetVersion::parse("1.0.0").unwrap() },
        1 => AuditKind::Delta { from: VetVersion::parse("1.0.0").unwrap(), to: VetVersion::parse("2.0.0").unwrap() },
        _ => AuditKind::Violation { violation: VersionReq::parse("*").unwrap() },
    };
    let entry = AuditEntry {
        who: who.iter().map(|s| gen::sp(s.clone())).collect(),
        criteria: list.iter().map(|s| gen::sp(s.clone())).collect(),
        kind: kind.clone(),
        importable: rng.chance(1, 2),
        notes: if rng.chance(1, 2) { Some("n".into()) } else { None },
        aggregated_from: from.iter().map(|s| gen::sp(s.clone())).collect(),
        is_fresh_import: false,
    };
    let v = match toml::Value::try_from(&entry) {
        Ok(v) => v,
        Err(e) => {
            r.fail("oracle", "C14/entry-does-not-serialise", format!("{e}"), &format!("{entry:?}"));
            return;
        }
    };
    let tbl = v.as_table().unwrap();
    // real shape: criteria value, presence of the optional keys
    let mut names: Vec<String> = pool.iter().map(|s| s.to_string()).collect();
    let mut real = Toks::new();
    val_toks(&mut names, tbl.get("criteria").unwrap_or(&toml::Value::Boolean(false)), &mut real);
    for k in ["who", "version", "delta", "violation", "importable", "notes", "aggregated-from"] {
        real.b(tbl.contains_key(k));
    }
    let idx = |s: &String| pool.iter().position(|x| x == s).unwrap();
    let mut t = Toks::new();
    t.list(&who.iter().map(idx).collect::<Vec<_>>());
    t.list(&list.iter().map(idx).collect::<Vec<_>>());
    t.n(match kind { AuditKind::Full { .. } => 0, AuditKind::Delta { .. } => 1, AuditKind::Violation { .. } => 2 });
    t.b(entry.importable).b(entry.notes.is_some());
    t.list(&from.iter().map(idx).collect::<Vec<_>>());
    let ans = d.ask(&format!("auditall {}", t.text()));
    r.corr("corr.serde.audit-entry", &format!("ok {}", real.text()), &ans, &format!("case#{i} {entry:?}\n{v}"));
    // and back: the real deserialiser returns the same entry
    r.oracle_checked += 1;
    match toml::de::from_str::<AuditEntry>(&toml::to_string(&v).unwrap_or_default()) {
        Ok(back) => {
            if back != entry {
                r.fail("oracle", "C14/entry-roundtrip", format!("{entry:?} reads back as {back:?}"), &format!("{v}"));
            }
        }
        Err(e) => r.fail("oracle", "C14/entry-roundtrip", format!("does not read back: {e}"), &format!("{v}")),
    }
    // policy keys
    let mut pol = Policy::default();
    let mut toks = Toks::new();
    let n = rng.range(1, 3);
    toks.n(n);
    for j in 0..n {
        let name = format!("crate{j}");
        let mk = || PolicyEntry { audit_as_crates_io: None, criteria: None, dev_criteria: None, dependency_criteria: CriteriaMap::new(), notes: None };
        if rng.chance(1, 2) {
            pol.package.insert(name, PackagePolicyEntry::Unversioned(mk()));
            toks.n(j).n(0).n(0);
        } else {
            let vs: Vec<u64> = (1..=3).filter(|_| rng.chance(1, 2)).collect();
            let vs = if vs.is_empty() { vec![1] } else { vs };
            pol.package.insert(name, PackagePolicyEntry::Versioned { version: vs.iter().map(|m| (VetVersion::parse(&format!("{m}.0.0")).unwrap(), mk())).collect() });
            toks.n(j).n(1).list(&vs.iter().map(|m| *m as usize).collect::<Vec<_>>());
        }
    }
    let pv = toml::Value::try_from(&pol).unwrap();
    let mut keys: Vec<String> = pv.as_table().map(|t| t.keys().cloned().collect()).unwrap_or_default();
    keys.sort();
    let ans = d.ask(&format!("policykeys {}", toks.text()));
    // model answers `ok k (name ver+1|0)*` in table order; render both as sorted strings
    let mut model_keys: Vec<String> = Vec::new();
    if let Some(rest) = ans.strip_prefix("ok ") {
        let mut rd = update::Reader::new(rest);
        let k = rd.n();
        for _ in 0..k.min(1000) {
            let name = rd.n();
            let ver = rd.n();
            model_keys.push(if ver == 0 { format!("crate{name}") } else { format!("crate{name}:{}.0.0", ver - 1) });
        }
    }
    model_keys.sort();
    r.corr("corr.serde.policy-keys", &format!("{keys:?}"), &format!("{model_keys:?}"), &format!("case#{i} {pol:?}"));
    match toml::de::from_str::<Policy>(&toml::to_string(&pv).unwrap_or_default()) {
        Ok(back) => {
            if format!("{back:?}") != format!("{pol:?}") {
                r.fail("oracle", "C14/policy-roundtrip", format!("{pol:?} reads back as {back:?}"), "");
            }
        }
        Err(e) => r.fail("oracle", "C14/policy-roundtrip", format!("does not read back: {e}"), ""),
    }
    r.nontrivial(&format!("serde#{i}:{list:?}:{who:?}"));
}

pub fn run(r: &mut Report) {
    let mut d = Driver::spawn();
    let (shard, nshards) = shard();
    r.rule = "stores = generated worlds spiced with quoted / multi-line / Unicode / control-character free text, empty and singleton lists, explicit empty policy criteria, long arrays and inline tables, renew flags, description-url criteria; written, loaded with the formatting check on, compared, written again. Serde cases = random audit entries / policy tables through the real serde code vs the model. Non-trivial = store with >= 5 records, every serde case; distinct by file contents".into();
    let n = if r.thorough() { 12000 } else { 3600 } / nshards;
    let mut rng = Rng::new(r.seed.wrapping_add(shard.wrapping_mul(141650939)) ^ 0xC14);
    for i in 0..n {
        let mut crng = rng.fork();
        if i % 3 == 2 {
            serde_corr(r, &mut d, &mut crng, i);
        } else {
            text_roundtrip(r, &mut crng, i);
        }
    }
    r.count_n("driver-requests", d.requests);
}
