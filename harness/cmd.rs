// Command layer: the real `cmd_*` functions of cargo-vet on a store directory on disk, with the
// guarded mock network standing in for the peers and crates.io.  Histories of
// (remote change | command) steps; oracles for C09, C10, C11, C13 (and C08 via reg states).
use super::*;
use crate::format::*;
use crate::resolver::{self, Conclusion, SearchMode, UpdateMode};
use std::collections::HashMap;

pub const NAMES: [&str; 8] = ["alfa", "bravo", "charlie", "delta", "echo1", "foxtrot", "golf", "hotel"];

#[derive(Clone)]
pub struct RegVersion {
    pub version: semver::Version,
    pub user: Option<u64>,
    pub day: i64,
}

#[derive(Clone, Default)]
pub struct Remote {
    /// url -> what the peer serves (in the peer's own criteria namespace)
    pub peers: BTreeMap<String, AuditsFile>,
    /// crate name -> published versions
    pub registry: BTreeMap<String, Vec<RegVersion>>,
    /// crates whose crates.io metadata matches the local package (description)
    pub matching_metadata: BTreeSet<String>,
    /// (crate, version) pairs the index marks as yanked (they are published all the same)
    pub yanked: BTreeSet<(String, semver::Version)>,
}

impl Remote {
    pub fn install(&self) {
        let mut m: HashMap<reqwest::Url, bytes::Bytes> = HashMap::new();
        for (url, f) in &self.peers {
            let text = crate::serialization::to_formatted_toml(f, None).unwrap().to_string();
            m.insert(reqwest::Url::parse(url).unwrap(), bytes::Bytes::from(text));
        }
        m.insert(
            reqwest::Url::parse(crate::storage::REGISTRY_URL).unwrap(),
            bytes::Bytes::from(crate::serialization::to_formatted_toml(&RegistryFile::default(), None).unwrap().to_string()),
        );
        for (name, versions) in &self.registry {
            if versions.is_empty() {
                continue;
            }
            let index: String = versions
                .iter()
                .map(|v| {
                    serde_json::to_string(&json!({"name": name, "vers": v.version.to_string(), "deps": [],
                        "cksum": "90527ab4abff2f0608cdb1a78e2349180e1d92059f59b5a65ce2a1a15a499b73",
                        "features": {}, "yanked": self.yanked.contains(&(name.clone(), v.version.clone()))}))
                    .unwrap()
                })
                .collect::<Vec<_>>()
                .join("\n");
            let iurl = match name.len() {
                1 => format!("https://index.crates.io/1/{name}"),
                2 => format!("https://index.crates.io/2/{name}"),
                3 => format!("https://index.crates.io/3/{}/{name}", &name[0..1]),
                _ => format!("https://index.crates.io/{}/{}/{name}", &name[0..2], &name[2..4]),
            }
            .to_ascii_lowercase();
            m.insert(reqwest::Url::parse(&iurl).unwrap(), bytes::Bytes::from(index));
            // how the (non-)match of the metadata comes about varies with the registry content:
            // "description matches OR repository matches", each only when crates.io declares it
            let variant = (name.bytes().map(|b| b as u64).sum::<u64>() + versions.iter().map(|v| v.version.major).sum::<u64>() + versions.len() as u64) % 4;
            let same_desc = Some("whatever".to_owned());
            let other_desc = Some("something else entirely".to_owned());
            let same_repo = Some(gen::local_repository(name));
            let other_repo = Some(format!("https://example.com/upstream/{name}"));
            let (description, repository) = match (self.matching_metadata.contains(name), variant) {
                (true, 0) => (same_desc, None),
                (true, 1) => (same_desc, other_repo),
                (true, 2) => (other_desc, same_repo),
                (true, _) => (None, same_repo),
                (false, 0) => (other_desc, None),
                (false, 1) => (other_desc, other_repo),
                (false, 2) => (None, None),
                (false, _) => (None, other_repo),
            };
            let api = CratesAPICrate {
                crate_data: CratesAPICrateMetadata { description, repository },
                versions: versions
                    .iter()
                    .map(|v| CratesAPIVersion {
                        created_at: chrono::DateTime::from_utc(gen::date(v.day).and_hms_opt(12, 0, 0).unwrap(), chrono::Utc),
                        num: v.version.clone(),
                        published_by: v.user.map(|id| CratesAPIUser { id, login: format!("user{id}"), name: None }),
                    })
                    .collect(),
            };
            m.insert(
                reqwest::Url::parse(&format!("https://crates.io/api/v1/crates/{name}")).unwrap(),
                bytes::Bytes::from(serde_json::to_vec(&api).unwrap()),
            );
        }
        *crate::network::VERIF_MOCK_NETWORK.lock().unwrap() = Some(m);
    }
}

pub struct Project {
    pub dir: tempfile::TempDir,
    pub md: Metadata,
}

#[derive(Clone, Debug, PartialEq)]
pub enum Outcome {
    Ok,
    Exit(i32),
    Err(String),
    Panic(String),
}

impl Project {
    pub fn store_dir(&self) -> PathBuf {
        self.dir.path().join("supply-chain")
    }
    pub fn write(&self, files: &SortedMap<String, String>) {
        fs::create_dir_all(self.store_dir()).unwrap();
        for (name, text) in files {
            fs::write(self.store_dir().join(name), text).unwrap();
        }
    }
    pub fn files(&self) -> Vec<String> {
        ["audits.toml", "config.toml", "imports.lock"]
            .iter()
            .map(|f| fs::read_to_string(self.store_dir().join(f)).unwrap_or_default())
            .collect()
    }
    pub fn cfg(&self, args: &[&str]) -> Config {
        let mut full = vec!["cargo", "vet"];
        full.extend_from_slice(args);
        let crate::cli::FakeCli::Vet(cli) = crate::cli::FakeCli::try_parse_from(full.iter().copied()).expect("bad args");
        Config {
            metacfg: MetaConfig(vec![MetaConfigInstance { version: Some(1), store: Some(StoreInfo { path: Some(self.store_dir()) }) }]),
            metadata: self.md.clone(),
            _rest: PartialConfig { cli, now: mock_now(), cache_dir: PathBuf::new(), mock_cache: true },
        }
    }
    /// run one real command in-process; returns the outcome and what it printed
    pub fn run(&self, args: &[&str]) -> (Outcome, String) {
        use crate::cli::{Commands, RegenerateSubcommands};
        let cfg = self.cfg(args);
        let out = BasicTestOutput::new();
        let o = out.clone().as_dyn();
        let res = guarded(|| match &cfg.cli.command {
            None => crate::cmd_check(&o, &cfg, &cfg.cli.check_args),
            Some(Commands::Check(a)) => crate::cmd_check(&o, &cfg, a),
            Some(Commands::Prune(a)) => crate::cmd_prune(&o, &cfg, a),
            Some(Commands::Fmt(a)) => crate::cmd_fmt(&o, &cfg, a),
            Some(Commands::Regenerate(RegenerateSubcommands::Imports(a))) => crate::cmd_regenerate_imports(&o, &cfg, a),
            Some(Commands::Regenerate(RegenerateSubcommands::Exemptions(a))) => crate::cmd_regenerate_exemptions(&o, &cfg, a),
            Some(Commands::Regenerate(RegenerateSubcommands::Unpublished(a))) => crate::cmd_regenerate_unpublished(&o, &cfg, a),
            Some(Commands::Regenerate(RegenerateSubcommands::AuditAsCratesIo(a))) => crate::cmd_regenerate_audit_as(&o, &cfg, a),
            Some(Commands::Suggest(a)) => crate::cmd_suggest(&o, &cfg, a),
            Some(Commands::Init(a)) => crate::cmd_init(&o, &cfg, a),
            Some(Commands::Certify(a)) => crate::cmd_certify(&o, &cfg, a),
            Some(Commands::Trust(a)) => crate::cmd_trust(&o, &cfg, a),
            Some(Commands::Import(a)) => crate::cmd_import(&o, &cfg, a),
            Some(Commands::AddExemption(a)) => crate::cmd_add_exemption(&o, &cfg, a),
            Some(Commands::RecordViolation(a)) => crate::cmd_record_violation(&o, &cfg, a),
            Some(Commands::Renew(a)) => crate::cmd_renew(&o, &cfg, a),
            _ => panic!("command not supported by the harness"),
        });
        let text = out.to_string();
        let outcome = match res {
            Ok(Ok(())) => Outcome::Ok,
            Ok(Err(e)) => Outcome::Err(format!("{e:?}").chars().take(600).collect()),
            Err(m) => match m.strip_prefix("exit:") {
                Some(c) => Outcome::Exit(c.parse().unwrap_or(-99)),
                None => Outcome::Panic(m),
            },
        };
        (outcome, text)
    }
    /// the store as an unlocked command would see it right now (live imports resolved)
    pub fn acquire(&self, locked: bool) -> Result<Store, String> {
        let cfg = self.cfg(if locked { &["--locked"] } else { &[] });
        match guarded(|| {
            let network = Network::acquire(&cfg);
            Store::acquire(&cfg, network.as_ref(), false)
        }) {
            Ok(Ok(s)) => Ok(s),
            Ok(Err(e)) => Err(format!("{e:?}").chars().take(400).collect()),
            Err(m) => Err(m),
        }
    }
}

pub struct CmdWorld {
    pub graph: gen::GGraph,
    pub config: ConfigFile,
    pub audits: AuditsFile,
    pub remote: Remote,
}

fn peer_url(i: usize) -> String {
    format!("https://peer{i}.example/audits.toml")
}

/// A project plus remote state. Local criteria: up to 2 customs; peers define their own
/// criteria (some mapped by criteria-map, some not).
pub fn gen_cmd_world(rng: &mut Rng, first_party_in_registry: bool) -> CmdWorld {
    let mut graph = gen::gen_graph(rng, 6);
    // command layer needs crate names of 4+ characters (index URL layout)
    for p in &mut graph.pkgs {
        let i = gen::PKG_NAMES.iter().position(|n| *n == p.name).unwrap();
        p.name = NAMES[i % NAMES.len()].to_owned();
    }
    let md = graph.metadata();
    let _ = md;
    let criteria = gen::gen_criteria(rng, 2, true);
    let crits = gen::all_crit_names(&criteria);
    let pool = gen::version_pool();
    let mut names: Vec<String> = graph.pkgs.iter().map(|p| p.name.clone()).collect();
    names.sort();
    names.dedup();
    let mut third: Vec<String> = graph.pkgs.iter().filter(|p| p.source != 0).map(|p| p.name.clone()).collect();
    // sometimes one path (first-party) non-member package whose name is unique in the graph is
    // audited as its crates.io namesake; its local version may or may not be published
    let aac: Option<String> = if rng.chance(1, 3) {
        let cands: Vec<String> = graph.pkgs.iter().filter(|p| p.source == 0 && !p.member && graph.pkgs.iter().filter(|q| q.name == p.name).count() == 1).map(|p| p.name.clone()).collect();
        if cands.is_empty() { None } else { Some(rng.pick(&cands).clone()) }
    } else {
        None
    };
    if let Some(n) = &aac {
        third.push(n.clone());
    }
    let vers_of = |name: &str, rng: &mut Rng| -> Vec<VetVersion> {
        let mut v: Vec<VetVersion> = graph.pkgs.iter().filter(|p| p.name == name).map(|p| p.version.clone()).collect();
        for _ in 0..rng.range(1, 2) {
            v.push(pool[rng.below(8)].clone());
        }
        v
    };
    let mut tag = 0usize;
    let mut audit = |rng: &mut Rng, vs: &[VetVersion], crits: &[String], viol: usize| -> AuditEntry {
        tag += 1;
        let kind = if rng.chance(viol, 20) {
            AuditKind::Violation { violation: VersionReq::parse(["=2.0.0", ">=4.0.0", "<2.0.0"][rng.below(3)]).unwrap() }
        } else if rng.chance(1, 2) {
            AuditKind::Full { version: rng.pick(vs).clone() }
        } else {
            AuditKind::Delta { from: rng.pick(vs).clone(), to: rng.pick(vs).clone() }
        };
        let importable = !matches!(&kind, AuditKind::Full { version } if version.git_rev.is_some())
            && !matches!(&kind, AuditKind::Delta { from, to } if from.git_rev.is_some() || to.git_rev.is_some());
        AuditEntry {
            who: vec![],
            criteria: gen::gen_crit_list(rng, crits, false),
            importable: importable && !rng.chance(1, 6),
            kind,
            notes: Some(format!("t{tag}")),
            aggregated_from: vec![],
            is_fresh_import: false,
        }
    };
    let mut audits = AuditsFile { criteria: criteria.clone(), wildcard_audits: SortedMap::new(), audits: SortedMap::new(), trusted: SortedMap::new() };
    let density = rng.range(1, 3);
    for name in &third {
        let vs = vers_of(name, rng);
        if rng.chance(density, 3) {
            let l: Vec<AuditEntry> = (0..rng.range(1, 3)).map(|_| audit(rng, &vs, &crits, 1)).collect();
            audits.audits.entry(name.clone()).or_default().extend(l);
        }
        if rng.chance(1, 4) {
            audits.wildcard_audits.entry(name.clone()).or_default().push(WildcardEntry {
                who: vec![], criteria: gen::gen_crit_list(rng, &crits, false), user_id: rng.range(1, 2) as u64,
                start: gen::sp(gen::date(0)), end: gen::sp(gen::date(rng.below(8) as i64 * 10)), renew: None, notes: None, aggregated_from: vec![], is_fresh_import: false,
            });
        }
        if rng.chance(1, 5) {
            audits.trusted.entry(name.clone()).or_default().push(TrustEntry {
                criteria: gen::gen_crit_list(rng, &crits, false), user_id: rng.range(1, 2) as u64,
                start: gen::sp(gen::date(0)), end: gen::sp(gen::date(rng.below(8) as i64 * 10)), notes: None, aggregated_from: vec![],
            });
        }
    }
    let mut config = ConfigFile { cargo_vet: Default::default(), default_criteria: get_default_criteria(), imports: SortedMap::new(), policy: Default::default(), exemptions: SortedMap::new() };
    for name in &third {
        if rng.chance(1, 2) {
            let vs = vers_of(name, rng);
            let graph_vs: Vec<VetVersion> = graph.pkgs.iter().filter(|p| &p.name == name).map(|p| p.version.clone()).collect();
            let l: Vec<ExemptedDependency> = (0..rng.range(1, 3))
                .map(|_| ExemptedDependency {
                    version: if rng.chance(3, 4) { rng.pick(&graph_vs).clone() } else { rng.pick(&vs).clone() },
                    criteria: if rng.chance(1, 10) { vec![] } else { gen::gen_crit_list(rng, &crits, false) },
                    suggest: !rng.chance(1, 6),
                    notes: None,
                })
                .collect();
            config.exemptions.insert(name.clone(), l);
        }
    }
    if let Some(n) = &aac {
        config.policy.insert(n.clone(), PackagePolicyEntry::Unversioned(PolicyEntry { audit_as_crates_io: Some(true), criteria: None, dev_criteria: None, dependency_criteria: CriteriaMap::new(), notes: None }));
    }
    // simple policies on workspace members
    for p in graph.pkgs.iter().filter(|p| p.member) {
        if rng.chance(1, 3) {
            config.policy.insert(
                p.name.clone(),
                PackagePolicyEntry::Unversioned(PolicyEntry {
                    audit_as_crates_io: None,
                    // an explicitly empty list ("nothing is required") is not the same as an absent one
                    criteria: if rng.chance(1, 2) { Some(if rng.chance(1, 5) { vec![] } else { gen::gen_crit_list(rng, &crits, false) }) } else { None },
                    dev_criteria: if rng.chance(1, 3) { Some(if rng.chance(1, 3) { vec![] } else { gen::gen_crit_list(rng, &crits, false) }) } else { None },
                    dependency_criteria: {
                        let mut m = CriteriaMap::new();
                        // (an unversioned policy with dependency-criteria is refused by
                        // check_crate_policies when the crate occurs in several versions)
                        let unique = graph.pkgs.iter().filter(|q| q.name == p.name).count() == 1;
                        for (d, _) in p.deps.iter() {
                            if unique && rng.chance(1, 6) {
                                m.insert(gen::sp(graph.pkgs[*d].name.clone()), if rng.chance(1, 3) { vec![] } else { gen::gen_crit_list(rng, &crits, false) });
                            }
                        }
                        m
                    },
                    notes: None,
                }),
            );
        }
    }
    // peers
    let mut remote = Remote::default();
    let n_peers = rng.below(3);
    for i in 0..n_peers {
        let peer_customs = ["p-strong", "p-weak"];
        let mut pcrit: SortedMap<CriteriaName, CriteriaEntry> = SortedMap::new();
        pcrit.insert("p-strong".into(), CriteriaEntry { description: Some("strong".into()), description_url: None, implies: vec![gen::sp("p-weak".to_owned())], aggregated_from: vec![] });
        pcrit.insert("p-weak".into(), CriteriaEntry { description: Some("weak".into()), description_url: None, implies: if rng.chance(1, 2) { vec![gen::sp(SAFE_TO_RUN.to_owned())] } else { vec![] }, aggregated_from: vec![] });
        let mut pnames = vec![SAFE_TO_RUN.to_owned(), SAFE_TO_DEPLOY.to_owned()];
        pnames.extend(peer_customs.iter().map(|s| s.to_string()));
        let mut f = AuditsFile { criteria: pcrit, wildcard_audits: SortedMap::new(), audits: SortedMap::new(), trusted: SortedMap::new() };
        for name in &third {
            let vs = vers_of(name, rng);
            if rng.chance(2, 3) {
                let l: Vec<AuditEntry> = (0..rng.range(1, 3)).map(|_| { let mut a = audit(rng, &vs, &pnames, 1); a.importable = true; a }).collect();
                f.audits.insert(name.clone(), l);
            }
            if rng.chance(1, 3) {
                // one to three wildcard audits; some carry a single custom peer criterion (which
                // the criteria-map may leave unmapped: such an entry is imported with no criteria)
                for _ in 0..rng.range(1, 3) {
                    let criteria = if rng.chance(1, 3) { vec![gen::sp((*rng.pick(&peer_customs)).to_owned())] } else { gen::gen_crit_list(rng, &pnames, false) };
                    f.wildcard_audits.entry(name.clone()).or_default().push(WildcardEntry {
                        who: vec![], criteria, user_id: rng.range(1, 2) as u64,
                        start: gen::sp(gen::date(0)), end: gen::sp(gen::date(rng.below(10) as i64 * 10)), renew: None, notes: None, aggregated_from: vec![], is_fresh_import: false,
                    });
                }
            }
        }
        if rng.chance(1, 3) {
            // records about a crate that is not in the graph at all
            let kind = if rng.chance(1, 2) { AuditKind::Violation { violation: VersionReq::parse("*").unwrap() } } else { AuditKind::Full { version: VetVersion::parse("1.0.0").unwrap() } };
            f.audits.insert("zulu-outside".into(), vec![AuditEntry { who: vec![], criteria: vec![gen::sp(SAFE_TO_RUN.to_owned())], kind, importable: true, notes: None, aggregated_from: vec![], is_fresh_import: false }]);
        }
        let url = peer_url(i);
        remote.peers.insert(url.clone(), f);
        let mut cmap = CriteriaMap::new();
        if rng.chance(2, 3) {
            cmap.insert(gen::sp("p-strong".to_owned()), gen::gen_crit_list(rng, &crits, false));
        }
        if rng.chance(1, 3) {
            cmap.insert(gen::sp("p-weak".to_owned()), gen::gen_crit_list(rng, &crits, true));
        }
        if rng.chance(1, 6) {
            cmap.insert(gen::sp(SAFE_TO_DEPLOY.to_owned()), gen::gen_crit_list(rng, &crits, true));
        }
        config.imports.insert(
            format!("peer{i}"),
            RemoteImport { url: vec![url], exclude: if rng.chance(1, 5) && !third.is_empty() { vec![rng.pick(&third).clone()] } else { vec![] }, criteria_map: cmap },
        );
    }
    // registry: every third-party crate is served
    for name in &names {
        let is_third = third.contains(name);
        if !is_third && !first_party_in_registry {
            continue;
        }
        if Some(name) == aac.as_ref() {
            remote.matching_metadata.insert(name.clone());
        }
        // (the local version of an audited-as-crates.io path package is published half of the time)
        let mut vs: Vec<semver::Version> = graph.pkgs.iter().filter(|p| &p.name == name && (p.source != 0 || (Some(name) == aac.as_ref() && rng.chance(1, 2)))).map(|p| p.version.semver.clone()).collect();
        for _ in 0..rng.range(1, 2) {
            vs.push(pool[rng.below(6)].semver.clone());
        }
        vs.sort();
        vs.dedup();
        remote.registry.insert(
            name.clone(),
            vs.into_iter().map(|v| RegVersion { version: v, user: if rng.chance(5, 6) { Some(rng.range(1, 2) as u64) } else { None }, day: rng.below(10) as i64 * 8 }).collect(),
        );
    }
    for (name, vs) in &remote.registry {
        for v in vs {
            if rng.chance(1, 6) {
                remote.yanked.insert((name.clone(), v.version.clone()));
            }
        }
    }
    CmdWorld { graph, config, audits, remote }
}

/// mutate the remote state: peers add / revoke / change audits, new publisher data
pub fn mutate_remote(rng: &mut Rng, w: &mut CmdWorld) -> String {
    let urls: Vec<String> = w.remote.peers.keys().cloned().collect();
    match rng.below(6) {
        5 if !urls.is_empty() => {
            // the peer changes only the renew flag of a wildcard audit (the same audit)
            let f = w.remote.peers.get_mut(rng.pick(&urls)).unwrap();
            for l in f.wildcard_audits.values_mut() {
                if let Some(a) = l.first_mut() {
                    a.renew = Some(!a.renew.unwrap_or(true));
                    return "peer flips the renew flag of a wildcard audit".into();
                }
            }
            "no-op".into()
        }
        4 => {
            // crates.io now says something else about an existing version: another user, an
            // unknown publisher, another day (crate deleted and re-registered, account removed)
            let keys: Vec<String> = w.remote.registry.iter().filter(|(_, l)| !l.is_empty()).map(|(k, _)| k.clone()).collect();
            if keys.is_empty() {
                return "no-op".into();
            }
            let k = rng.pick(&keys).clone();
            let l = w.remote.registry.get_mut(&k).unwrap();
            let i = rng.below(l.len());
            match rng.below(3) {
                0 => l[i].user = Some(3 - l[i].user.unwrap_or(1).min(2)),
                1 => l[i].user = None,
                _ => l[i].day += 40,
            }
            format!("crates.io changes the publisher record of {k} {}", l[i].version)
        }
        0 if !urls.is_empty() => {
            // revoke an audit
            let f = w.remote.peers.get_mut(rng.pick(&urls)).unwrap();
            let keys: Vec<String> = f.audits.keys().cloned().collect();
            if let Some(k) = keys.get(rng.below(keys.len().max(1))) {
                let l = f.audits.get_mut(k).unwrap();
                if !l.is_empty() {
                    let i = rng.below(l.len());
                    l.remove(i);
                    return format!("peer revokes an audit of {k}");
                }
            }
            "no-op".into()
        }
        1 if !urls.is_empty() => {
            // add a full audit for an in-graph version
            let third: Vec<(String, VetVersion)> = w.graph.pkgs.iter().filter(|p| p.source != 0).map(|p| (p.name.clone(), p.version.clone())).collect();
            if third.is_empty() {
                return "no-op".into();
            }
            let (n, v) = rng.pick(&third).clone();
            let f = w.remote.peers.get_mut(rng.pick(&urls)).unwrap();
            f.audits.entry(n.clone()).or_default().push(AuditEntry {
                who: vec![], criteria: vec![gen::sp(SAFE_TO_DEPLOY.to_owned())], kind: AuditKind::Full { version: v }, importable: true,
                notes: Some(format!("added{}", rng.below(1000))), aggregated_from: vec![], is_fresh_import: false,
            });
            format!("peer adds a full audit of {n}")
        }
        2 if !urls.is_empty() => {
            // change who/notes of an audit (same audit semantically)
            let f = w.remote.peers.get_mut(rng.pick(&urls)).unwrap();
            for l in f.audits.values_mut() {
                if let Some(a) = l.first_mut() {
                    a.notes = Some(format!("reworded{}", rng.below(1000)));
                    return "peer rewords an audit".into();
                }
            }
            "no-op".into()
        }
        _ => {
            // a new version gets published
            let keys: Vec<String> = w.remote.registry.keys().cloned().collect();
            if keys.is_empty() {
                return "no-op".into();
            }
            let k = rng.pick(&keys).clone();
            let l = w.remote.registry.get_mut(&k).unwrap();
            let v = semver::Version::new(7 + rng.below(3) as u64, 0, 0);
            if !l.iter().any(|x| x.version == v) {
                l.push(RegVersion { version: v, user: Some(rng.range(1, 2) as u64), day: 30 });
            }
            format!("new version of {k} published")
        }
    }
}

pub fn setup_project(w: &CmdWorld) -> Project {
    let md = w.graph.metadata();
    let store = Store::mock(
        w.config.clone(),
        w.audits.clone(),
        ImportsFile { unpublished: SortedMap::new(), publisher: SortedMap::new(), audits: w.config.imports.keys().map(|k| (k.clone(), AuditsFile::default())).collect() },
    );
    let mut files = store.mock_commit();
    // The initial files come from the serialiser under test.  Explicitly empty policy lists
    // (`criteria = []` means "nothing required", unlike an absent key) are re-inserted by hand if
    // the serialiser lost them, so that the project on disk is the one that was generated.
    if let Some(text) = files.get_mut("config.toml") {
        for (name, version, e) in w.config.policy.iter() {
            {
                if version.is_some() || e.audit_as_crates_io.is_some() {
                    continue;
                }
                let header = format!("[policy.{name}]\n");
                let Some(at) = text.find(&header) else { continue };
                let body_at = at + header.len();
                let body_end = text[body_at..].find("\n[").map(|k| body_at + k + 1).unwrap_or(text.len());
                let body = text[body_at..body_end].to_owned();
                let has = |key: &str| body.lines().any(|l| l.starts_with(key));
                let mut insert_at = body_at;
                if matches!(&e.criteria, Some(v) if v.is_empty()) && !has("criteria = ") {
                    text.insert_str(insert_at, "criteria = []\n");
                }
                if e.criteria.is_some() {
                    // skip past the criteria line (possibly a wrapped array)
                    let rest = &text[insert_at..];
                    let mut off = 0;
                    for l in rest.split_inclusive('\n') {
                        off += l.len();
                        if l.starts_with("criteria = ") && (l.trim_end().ends_with(']') || l.trim_end().ends_with('"')) || l.trim_end() == "]" {
                            break;
                        }
                    }
                    insert_at += off;
                }
                let body_now = text[body_at..].to_owned();
                if matches!(&e.dev_criteria, Some(v) if v.is_empty()) && !body_now.lines().take_while(|l| !l.starts_with('[')).any(|l| l.starts_with("dev-criteria = ")) {
                    text.insert_str(insert_at, "dev-criteria = []\n");
                }
            }
        }
    }
    let root = std::env::var("VERIF_WORK").map(PathBuf::from).unwrap_or_else(|_| std::env::temp_dir());
    fs::create_dir_all(&root).unwrap();
    let dir = tempfile::Builder::new().prefix("vetcase").tempdir_in(root).unwrap();
    let p = Project { dir, md };
    p.write(&files);
    p
}

fn describe_outcome(o: &Outcome) -> String {
    match o {
        Outcome::Ok => "ok".into(),
        Outcome::Exit(c) => format!("exit{c}"),
        Outcome::Err(_) => "refused".into(),
        Outcome::Panic(_) => "panic".into(),
    }
}

/// would an unlocked check print the "could be pruned" advice right now? (the condition of
/// cmd_check, src/main.rs:2239-2263, recomputed on the store as acquired)
fn prune_advice(p: &Project) -> Option<bool> {
    let mut store = p.acquire(false).ok()?;
    let cfg = p.cfg(&[]);
    guarded(|| {
        let updates = resolver::get_store_updates(&cfg, &store, |_| updrun::PRUNE_MODE);
        resolver::update_store(&cfg, &mut store, |_| updrun::CHECK_MODE);
        store.config.exemptions != updates.exemptions || store.imports != updates.imports || store.audits.audits != updates.audits
    })
    .ok()
}

/// C11 at the command layer: the three files before/after a non-widening command
fn c11_files(r: &mut Report, before: &[String], after: &[String], live: Option<&Store>, step: &str, case: &str) {
    let today = mock_today();
    let (Ok(b), Ok(a)) = (
        guarded(|| Store::mock_acquire(&before[1], &before[0], &before[2], today, false)),
        guarded(|| Store::mock_acquire(&after[1], &after[0], &after[2], today, false)),
    ) else { return };
    let (Ok(b), Ok(a)) = (b, a) else { return };
    r.oracle_checked += 1;
    if a.audits.criteria != b.audits.criteria || a.audits.wildcard_audits != b.audits.wildcard_audits || a.audits.trusted != b.audits.trusted {
        r.fail("oracle", "C11/cmd/criteria-wildcard-trusted-changed", format!("`{step}` changed criteria, wildcard audits or trusted entries"), case);
    }
    if format!("{:?}", a.config.policy) != format!("{:?}", b.config.policy) || a.config.default_criteria != b.config.default_criteria || format!("{:?}", a.config.imports) != format!("{:?}", b.config.imports) {
        r.fail("oracle", "C11/cmd/policy-or-imports-config-changed", format!("`{step}` changed policy / import configuration"), case);
    }
    for (name, new) in &a.audits.audits {
        let old = b.audits.audits.get(name).cloned().unwrap_or_default();
        for x in new {
            if !old.contains(x) {
                r.fail("oracle", "C11/cmd/local-audit-added-or-altered", format!("`{step}`: {name}: {x:?}"), case);
            }
        }
    }
    let Some(spec) = core::Spec::new(&b.audits.criteria) else { return };
    for (name, new) in &a.config.exemptions {
        let old = b.config.exemptions.get(name).cloned().unwrap_or_default();
        for e in new {
            let Some(ne) = spec.cl(&e.criteria) else { continue };
            let granted = old.iter().filter(|o| o.version == e.version).filter_map(|o| spec.cl(&o.criteria)).fold(0u64, |x, y| x | y);
            if ne & !granted != 0 {
                r.fail("oracle", "C11/cmd/exemption-added-or-broadened", format!("`{step}`: {name}: {e:?} (old grants {granted})"), case);
            }
        }
    }
    // imports.lock: every record was locked before or is served now
    if let Some(live) = live {
        for (iname, f) in &a.imports.audits {
            for (name, l) in &f.audits {
                for x in l {
                    let locked = b.imports.audits.get(iname).and_then(|f| f.audits.get(name)).map(|l| l.contains(x)).unwrap_or(false);
                    let served = live.imported_audits().get(iname).and_then(|f| f.audits.get(name)).map(|l| l.iter().any(|y| AuditEntry { is_fresh_import: false, ..y.clone() } == *x)).unwrap_or(false);
                    if !locked && !served {
                        r.fail("oracle", "C11/cmd/lock-records-unserved-audit", format!("`{step}`: {iname}/{name}: {x:?}"), case);
                    }
                }
            }
        }
        for (name, l) in &a.imports.publisher {
            for x in l {
                let locked = b.imports.publisher.get(name).map(|l| l.contains(x)).unwrap_or(false);
                let served = live.publishers().get(name).map(|l| l.iter().any(|y| CratesPublisher { is_fresh_import: false, ..y.clone() } == *x)).unwrap_or(false);
                if !locked && !served {
                    r.fail("oracle", "C11/cmd/lock-records-unserved-publisher", format!("`{step}`: {name}: {x:?}"), case);
                }
            }
        }
    }
}

/// Tie of the model of `import_publisher_versions` (Vet/Model/Publishers.lean): the live publisher
/// table of the store as acquired unlocked against the model's, from the registry as served, the
/// lock and the publisher-based entries.
pub fn corr_publishers(r: &mut Report, d: &mut Driver, p: &Project, w: &CmdWorld, case: &str) {
    let Ok(store) = p.acquire(false) else { return };
    let live = store.clone_for_suggest(false);
    let lock = store.imports.clone();
    drop(store);
    let Some(li) = &live.live_imports else { return };
    let sg = core::SpecGraph::new(&p.md);
    let mut names: BTreeSet<String> = w.remote.registry.keys().cloned().collect();
    names.extend(live.audits.wildcard_audits.keys().cloned());
    names.extend(live.audits.trusted.keys().cloned());
    names.extend(lock.publisher.keys().cloned());
    names.extend(li.publisher.keys().cloned());
    let names: Vec<String> = names.into_iter().collect();
    let mut t = wire::Toks::new();
    t.n(names.len());
    let mut imp = wire::Toks::new();
    let mut rows = 0usize;
    let mut imp_rows = wire::Toks::new();
    for (i, n) in names.iter().enumerate() {
        // version ranks per crate
        let mut vs: Vec<semver::Version> = w.remote.registry.get(n).map(|l| l.iter().map(|x| x.version.clone()).collect()).unwrap_or_default();
        vs.extend(lock.publisher.get(n).into_iter().flatten().map(|q| q.version.semver.clone()));
        vs.extend(li.publisher.get(n).into_iter().flatten().map(|q| q.version.semver.clone()));
        vs.sort();
        vs.dedup();
        let rank = |v: &semver::Version| vs.iter().position(|x| x == v).unwrap();
        t.n(i);
        t.b(live.audits.wildcard_audits.contains_key(n));
        t.b(li.audits.values().any(|f| f.wildcard_audits.contains_key(n)));
        t.b(false);
        t.b(live.audits.trusted.contains_key(n));
        t.b((0..sg.ids.len()).any(|q| sg.name[q] == *n && sg.third_party(&live.config.policy, q)));
        t.list(&lock.publisher.get(n).into_iter().flatten().map(|q| rank(&q.version.semver)).collect::<Vec<_>>());
        let mut reg: Vec<&RegVersion> = w.remote.registry.get(n).map(|l| l.iter().collect()).unwrap_or_default();
        reg.sort_by(|a, b| a.version.cmp(&b.version));
        t.n(reg.len());
        for rv in reg {
            t.n(rank(&rv.version));
            match rv.user { Some(u) => { t.n(u as usize + 1); } None => { t.n(0); } }
            t.n(wire::day(&gen::date(rv.day)));
        }
        if let Some(l) = li.publisher.get(n) {
            rows += 1;
            imp_rows.n(i).n(l.len());
            for q in l {
                imp_rows.n(rank(&q.version.semver)).n(q.user_id as usize).n(wire::day(&q.when)).b(q.is_fresh_import);
            }
        }
    }
    imp.n(rows).ext(&imp_rows);
    let ans = d.ask(&format!("publishers {}", t.text()));
    r.corr("corr.publishers", &format!("ok {}", imp.text()), &ans, case);
}

/// C06 at the command layer: recompute every required chain from the records, with the publisher
/// table rebuilt from the registry as served now.
fn c06_live_publishers(r: &mut Report, p: &Project, w: &CmdWorld, case: &str) {
    r.oracle_checked += 1;
    if let Some(Some(m)) = live_truth_missing(p, w) {
        r.fail("oracle", "C06/cmd/grant-not-justified-by-live-registry", format!("the unlocked check succeeds, but with the publisher data crates.io serves now {m}"), case);
    }
}

/// With the publisher table rebuilt from the registry as served now: `Some(None)` when every
/// required (package, criterion) pair has a certifying chain over the records an unlocked run
/// sees, `Some(Some(what))` naming a pair without one, `None` when the store cannot be judged.
fn live_truth_missing(p: &Project, w: &CmdWorld) -> Option<Option<String>> {
    let store = p.acquire(false).ok()?;
    let mut live = store.clone_for_suggest(false);
    drop(store);
    let li = live.live_imports.as_mut()?;
    let mut truth: SortedMap<PackageName, Vec<CratesPublisher>> = SortedMap::new();
    for (name, l) in &w.remote.registry {
        let v: Vec<CratesPublisher> = l.iter().filter_map(|rv| rv.user.map(|u| CratesPublisher {
            version: VetVersion { semver: rv.version.clone(), git_rev: None }, when: gen::date(rv.day), user_id: u, user_login: format!("user{u}"), user_name: None, is_fresh_import: false,
        })).collect();
        if !v.is_empty() {
            truth.insert(name.clone(), v);
        }
    }
    li.publisher = truth;
    let spec = core::Spec::new(&live.audits.criteria)?;
    let sg = core::SpecGraph::new(&p.md);
    let demand = sg.demand(&live.config.policy, &spec)?;
    for q in 0..sg.ids.len() {
        if !sg.third_party(&live.config.policy, q) {
            continue;
        }
        let edges = core::spec_edges(&live, &spec, &sg.name[q])?;
        for c in 0..spec.crits.len() {
            if demand[q] & (1 << c) != 0 && !core::spec_reach(&edges, c, &|_| true).contains(&Some(sg.ver[q].clone())) {
                return Some(Some(format!("{}:{} has no certifying chain for `{}`", sg.name[q], sg.ver[q], spec.crits[c])));
            }
        }
    }
    Some(None)
}

const COMMANDS: [&[&str]; 9] = [
    &[],
    &[],
    &["--locked"],
    &["prune"],
    &["prune", "--no-exemptions"],
    &["prune", "--no-imports", "--no-audits"],
    &["regenerate", "imports"],
    &["regenerate", "exemptions"],
    &["fmt"],
];

/// Template worlds around an audit-as-crates-io path package whose local version is not
/// published: crates.io serves a few versions around it, local and peer audits cover published
/// versions and deltas from them to the local version, the peer may serve them only later.
pub fn gen_unpublished_world(rng: &mut Rng) -> CmdWorld {
    let v = |m: u64| VetVersion::parse(&format!("{m}.0.0")).unwrap();
    let local = rng.range(3, 6) as u64;
    let graph = gen::GGraph {
        pkgs: vec![
            gen::GPkg { name: "alfa".into(), version: v(1), source: 0, member: true, deps: vec![(1, 1), (2, 1)] },
            gen::GPkg { name: "bravo".into(), version: v(local), source: 0, member: false, deps: vec![] },
            gen::GPkg { name: "charlie".into(), version: v(1), source: 1, member: false, deps: vec![] },
        ],
        resolve_order: vec![0, 1, 2],
        member_order: vec![0],
    };
    let mut config = ConfigFile { cargo_vet: Default::default(), default_criteria: get_default_criteria(), imports: SortedMap::new(), policy: Default::default(), exemptions: SortedMap::new() };
    config.policy.insert("bravo".into(), PackagePolicyEntry::Unversioned(PolicyEntry { audit_as_crates_io: Some(true), criteria: None, dev_criteria: None, dependency_criteria: CriteriaMap::new(), notes: None }));
    let mut published: Vec<u64> = (1..=7).filter(|m| *m != local && rng.chance(1, 2)).collect();
    if !published.iter().any(|m| *m < local) {
        published.push(local - 1);
    }
    if rng.chance(1, 5) {
        published.push(local);
    }
    published.sort();
    let mut tag = 0;
    let mut entry = |kind: AuditKind, crit: &str| {
        tag += 1;
        AuditEntry { who: vec![], criteria: vec![gen::sp(crit.to_owned())], kind, importable: true, notes: Some(format!("u{tag}")), aggregated_from: vec![], is_fresh_import: false }
    };
    let mut audits = AuditsFile { criteria: SortedMap::new(), wildcard_audits: SortedMap::new(), audits: SortedMap::new(), trusted: SortedMap::new() };
    audits.audits.insert("charlie".into(), vec![entry(AuditKind::Full { version: v(1) }, SAFE_TO_DEPLOY)]);
    let mut mine = Vec::new();
    let mut theirs = Vec::new();
    for m in &published {
        if rng.chance(1, 2) {
            mine.push(entry(AuditKind::Full { version: v(*m) }, if rng.chance(3, 4) { SAFE_TO_DEPLOY } else { SAFE_TO_RUN }));
        }
        if rng.chance(1, 2) {
            theirs.push(entry(AuditKind::Full { version: v(*m) }, SAFE_TO_DEPLOY));
        }
        if rng.chance(1, 3) {
            theirs.push(entry(AuditKind::Delta { from: v(*m), to: v(local) }, if rng.chance(3, 4) { SAFE_TO_DEPLOY } else { SAFE_TO_RUN }));
        }
        if rng.chance(1, 4) {
            mine.push(entry(AuditKind::Delta { from: v(*m), to: v(local) }, SAFE_TO_DEPLOY));
        }
    }
    if !mine.is_empty() {
        audits.audits.insert("bravo".into(), mine);
    }
    if rng.chance(1, 3) {
        config.exemptions.insert("bravo".into(), vec![ExemptedDependency { version: v(local), criteria: vec![gen::sp(SAFE_TO_DEPLOY.to_owned())], suggest: true, notes: None }]);
    }
    let mut remote = Remote::default();
    let mut peer = AuditsFile { criteria: SortedMap::new(), wildcard_audits: SortedMap::new(), audits: SortedMap::new(), trusted: SortedMap::new() };
    if !theirs.is_empty() {
        peer.audits.insert("bravo".into(), theirs);
    }
    remote.peers.insert(peer_url(0), peer);
    config.imports.insert("peer0".into(), RemoteImport { url: vec![peer_url(0)], exclude: vec![], criteria_map: CriteriaMap::new() });
    remote.registry.insert("bravo".into(), published.iter().map(|m| RegVersion { version: semver::Version::new(*m, 0, 0), user: Some(1), day: 0 }).collect());
    remote.matching_metadata.insert("bravo".into());
    remote.registry.insert("charlie".into(), vec![RegVersion { version: semver::Version::new(1, 0, 0), user: Some(1), day: 0 }]);
    for m in &published {
        if rng.chance(1, 4) {
            remote.yanked.insert(("bravo".into(), semver::Version::new(*m, 0, 0)));
        }
    }
    CmdWorld { graph, config, audits, remote }
}

/// Template worlds around publisher-based grants: one crates.io crate certified only through a
/// wildcard audit or a trusted entry for the user who published the in-graph version; the history
/// is check (the publisher record lands in imports.lock), then crates.io changes what it says
/// about that very version, then check again.
pub fn publisher_history(r: &mut Report, rng: &mut Rng, idx: u64) {
    let v = |m: u64| VetVersion::parse(&format!("{m}.0.0")).unwrap();
    let graph = gen::GGraph {
        pkgs: vec![
            gen::GPkg { name: "alfa".into(), version: v(1), source: 0, member: true, deps: vec![(1, 1)] },
            gen::GPkg { name: "bravo".into(), version: v(2), source: 1, member: false, deps: vec![] },
        ],
        resolve_order: vec![0, 1],
        member_order: vec![0],
    };
    let config = ConfigFile { cargo_vet: Default::default(), default_criteria: get_default_criteria(), imports: SortedMap::new(), policy: Default::default(), exemptions: SortedMap::new() };
    let mut audits = AuditsFile { criteria: SortedMap::new(), wildcard_audits: SortedMap::new(), audits: SortedMap::new(), trusted: SortedMap::new() };
    let day = rng.below(6) as i64 * 10;
    let (start, end) = (gen::date(day - rng.below(3) as i64 * 5), gen::date(day + 1 + rng.below(3) as i64 * 5));
    if rng.chance(1, 2) {
        audits.wildcard_audits.insert("bravo".into(), vec![WildcardEntry { who: vec![], criteria: vec![gen::sp(SAFE_TO_DEPLOY.to_owned())], user_id: 1, start: gen::sp(start), end: gen::sp(end), renew: None, notes: None, aggregated_from: vec![], is_fresh_import: false }]);
    } else {
        audits.trusted.insert("bravo".into(), vec![TrustEntry { criteria: vec![gen::sp(SAFE_TO_DEPLOY.to_owned())], user_id: 1, start: gen::sp(start), end: gen::sp(end), notes: None, aggregated_from: vec![] }]);
    }
    let mut remote = Remote::default();
    remote.registry.insert("bravo".into(), vec![RegVersion { version: semver::Version::new(1, 0, 0), user: Some(2), day: 0 }, RegVersion { version: semver::Version::new(2, 0, 0), user: Some(1), day }]);
    let mut w = CmdWorld { graph, config, audits, remote };
    let p = setup_project(&w);
    r.evaluations += 1;
    w.remote.install();
    let mut trace = vec![format!("publisher-history#{idx}")];
    let (o1, _) = p.run(&[]);
    trace.push(format!("check -> {}", describe_outcome(&o1)));
    let l = w.remote.registry.get_mut("bravo").unwrap();
    let what = match rng.below(3) {
        0 => { l[1].user = Some(2); "another user" }
        1 => { l[1].user = None; "an unknown publisher" }
        _ => { l[1].day += 200; "a day outside the window" }
    };
    trace.push(format!("remote: crates.io now records bravo 2.0.0 with {what}"));
    w.remote.install();
    let files = p.files();
    let case = format!("{}\n--- audits.toml\n{}\n--- imports.lock\n{}", trace.join("\n"), files[0], files[2]);
    let (o2, _) = p.run(&[]);
    r.count(&format!("publisher-history:{}:{}", describe_outcome(&o1), describe_outcome(&o2)));
    r.oracle_checked += 1;
    if o2 == Outcome::Ok {
        c06_live_publishers(r, &p, &w, &case);
    }
    r.nontrivial(&case);
}

/// Template worlds for settledness of publisher records: two crates.io crates that both receive
/// publisher data (a trusted entry / a wildcard audit), one certified only through it, the other
/// audited anyway; their published version numbers collide or not.
pub fn gen_two_publishers_world(rng: &mut Rng) -> CmdWorld {
    let v = |m: u64| VetVersion::parse(&format!("{m}.0.0")).unwrap();
    let graph = gen::GGraph {
        pkgs: vec![
            gen::GPkg { name: "alfa".into(), version: v(1), source: 0, member: true, deps: vec![(1, 1), (2, 1)] },
            gen::GPkg { name: "bravo".into(), version: v(2), source: 1, member: false, deps: vec![] },
            gen::GPkg { name: "charlie".into(), version: v(3), source: 1, member: false, deps: vec![] },
        ],
        resolve_order: vec![0, 1, 2],
        member_order: vec![0],
    };
    let config = ConfigFile { cargo_vet: Default::default(), default_criteria: get_default_criteria(), imports: SortedMap::new(), policy: Default::default(), exemptions: SortedMap::new() };
    let mut audits = AuditsFile { criteria: SortedMap::new(), wildcard_audits: SortedMap::new(), audits: SortedMap::new(), trusted: SortedMap::new() };
    let d2 = vec![gen::sp(SAFE_TO_DEPLOY.to_owned())];
    audits.trusted.insert("bravo".into(), vec![TrustEntry { criteria: d2.clone(), user_id: 1, start: gen::sp(gen::date(0)), end: gen::sp(gen::date(300)), notes: None, aggregated_from: vec![] }]);
    audits.audits.insert("charlie".into(), vec![AuditEntry { who: vec![], criteria: d2.clone(), kind: AuditKind::Full { version: v(3) }, importable: true, notes: None, aggregated_from: vec![], is_fresh_import: false }]);
    if rng.chance(1, 2) {
        audits.wildcard_audits.insert("charlie".into(), vec![WildcardEntry { who: vec![], criteria: d2.clone(), user_id: 2, start: gen::sp(gen::date(0)), end: gen::sp(gen::date(300)), renew: None, notes: None, aggregated_from: vec![], is_fresh_import: false }]);
    } else {
        audits.trusted.insert("charlie".into(), vec![TrustEntry { criteria: d2, user_id: 2, start: gen::sp(gen::date(0)), end: gen::sp(gen::date(300)), notes: None, aggregated_from: vec![] }]);
    }
    let mut remote = Remote::default();
    let mut bravo = vec![RegVersion { version: semver::Version::new(2, 0, 0), user: Some(1), day: 10 }];
    let mut charlie = vec![RegVersion { version: semver::Version::new(3, 0, 0), user: Some(2), day: 20 }];
    for m in 1..=4u64 {
        if m != 2 && rng.chance(1, 2) {
            bravo.push(RegVersion { version: semver::Version::new(m, 0, 0), user: Some(1), day: 5 + m as i64 });
        }
        if m != 3 && rng.chance(1, 2) {
            charlie.push(RegVersion { version: semver::Version::new(m, 0, 0), user: Some(2), day: 7 + m as i64 });
        }
    }
    remote.registry.insert("bravo".into(), bravo);
    remote.registry.insert("charlie".into(), charlie);
    CmdWorld { graph, config, audits, remote }
}

/// Template worlds around a peer's wildcard-audit list: one crates.io crate certified only
/// through imported wildcard audits of its publisher; the peer lists two or three entries in
/// random order, some carrying only a criterion of the peer's own that the (empty) criteria-map
/// leaves unmapped - such an entry is imported with no criteria and certifies nothing.
pub fn gen_peer_wildcard_world(rng: &mut Rng) -> CmdWorld {
    let v = |m: u64| VetVersion::parse(&format!("{m}.0.0")).unwrap();
    let graph = gen::GGraph {
        pkgs: vec![
            gen::GPkg { name: "alfa".into(), version: v(1), source: 0, member: true, deps: vec![(1, 1)] },
            gen::GPkg { name: "bravo".into(), version: v(2), source: 1, member: false, deps: vec![] },
        ],
        resolve_order: vec![0, 1],
        member_order: vec![0],
    };
    let mut config = ConfigFile { cargo_vet: Default::default(), default_criteria: get_default_criteria(), imports: SortedMap::new(), policy: Default::default(), exemptions: SortedMap::new() };
    let audits = AuditsFile { criteria: SortedMap::new(), wildcard_audits: SortedMap::new(), audits: SortedMap::new(), trusted: SortedMap::new() };
    let mut pcrit: SortedMap<CriteriaName, CriteriaEntry> = SortedMap::new();
    pcrit.insert("p-weak".into(), CriteriaEntry { description: Some("weak".into()), description_url: None, implies: vec![], aggregated_from: vec![] });
    let mut peer = AuditsFile { criteria: pcrit, wildcard_audits: SortedMap::new(), audits: SortedMap::new(), trusted: SortedMap::new() };
    let n = rng.range(2, 3);
    let covering = rng.below(n);
    let mut l = Vec::new();
    for i in 0..n {
        let own_only = i != covering && rng.chance(2, 3);
        l.push(WildcardEntry {
            who: vec![], criteria: vec![gen::sp(if own_only { "p-weak".to_owned() } else if i == covering || rng.chance(1, 2) { SAFE_TO_DEPLOY.to_owned() } else { SAFE_TO_RUN.to_owned() })],
            user_id: 1, start: gen::sp(gen::date(0)), end: gen::sp(gen::date(200 + 10 * i as i64)), renew: None, notes: None, aggregated_from: vec![], is_fresh_import: false,
        });
    }
    peer.wildcard_audits.insert("bravo".into(), l);
    let mut remote = Remote::default();
    remote.peers.insert(peer_url(0), peer);
    config.imports.insert("peer0".into(), RemoteImport { url: vec![peer_url(0)], exclude: vec![], criteria_map: CriteriaMap::new() });
    remote.registry.insert("bravo".into(), vec![RegVersion { version: semver::Version::new(2, 0, 0), user: Some(1), day: 10 }]);
    CmdWorld { graph, config, audits, remote }
}

pub fn run_history(r: &mut Report, rng: &mut Rng, idx: u64) {
    if idx % 8 == 3 && r.prop != "C06" {
        let w = gen_peer_wildcard_world(rng);
        let p = setup_project(&w);
        exec_history(r, rng, idx, w, p, Some(vec![&[], &["--locked"], &["prune"], &["--locked"]]));
        return;
    }
    if (r.prop == "C13" || r.prop == "C09") && idx % 8 == 7 {
        let w = gen_two_publishers_world(rng);
        let p = setup_project(&w);
        exec_history(r, rng, idx, w, p, Some(vec![&[], &[], &["prune"], &[]]));
        return;
    }
    if r.prop == "C06" && idx % 3 == 0 {
        publisher_history(r, rng, idx);
        return;
    }
    if idx % 5 == 0 {
        let w = gen_unpublished_world(rng);
        let p = setup_project(&w);
        exec_history(r, rng, idx, w, p, None);
        return;
    }
    let w = gen_cmd_world(rng, false);
    let p = setup_project(&w);
    exec_history(r, rng, idx, w, p, None);
}

/// the witness of known finding F4 (C13): two unrelated required criteria, a lock-stale
/// single-criterion audit and a fresh two-criteria audit listed first by the peer
pub fn corpus_f4() -> (CmdWorld, Project) {
    let graph = gen::GGraph {
        pkgs: vec![
            gen::GPkg { name: "alfa".into(), version: VetVersion::parse("1.0.0").unwrap(), source: 0, member: true, deps: vec![(1, 1)] },
            gen::GPkg { name: "bravo".into(), version: VetVersion::parse("1.0.0").unwrap(), source: 1, member: false, deps: vec![] },
        ],
        resolve_order: vec![0, 1],
        member_order: vec![0],
    };
    let crit = |d: &str| CriteriaEntry { description: Some(d.into()), description_url: None, implies: vec![], aggregated_from: vec![] };
    let mut audits = AuditsFile { criteria: SortedMap::new(), wildcard_audits: SortedMap::new(), audits: SortedMap::new(), trusted: SortedMap::new() };
    audits.criteria.insert("reviewed".into(), crit("reviewed"));
    audits.criteria.insert("fuzzed".into(), crit("fuzzed"));
    let mut config = ConfigFile { cargo_vet: Default::default(), default_criteria: get_default_criteria(), imports: SortedMap::new(), policy: Default::default(), exemptions: SortedMap::new() };
    config.policy.insert("alfa".into(), PackagePolicyEntry::Unversioned(PolicyEntry { audit_as_crates_io: None, criteria: Some(vec![gen::sp("reviewed".to_owned()), gen::sp("fuzzed".to_owned())]), dev_criteria: None, dependency_criteria: CriteriaMap::new(), notes: None }));
    let mut cmap = CriteriaMap::new();
    cmap.insert(gen::sp("reviewed".to_owned()), vec![gen::sp("reviewed".to_owned())]);
    cmap.insert(gen::sp("fuzzed".to_owned()), vec![gen::sp("fuzzed".to_owned())]);
    config.imports.insert("peer0".into(), RemoteImport { url: vec![peer_url(0)], exclude: vec![], criteria_map: cmap });
    let full = |c: &[&str]| AuditEntry { who: vec![], criteria: c.iter().map(|s| gen::sp(s.to_string())).collect(), kind: AuditKind::Full { version: VetVersion::parse("1.0.0").unwrap() }, importable: true, notes: None, aggregated_from: vec![], is_fresh_import: false };
    let mut peer = AuditsFile { criteria: audits.criteria.clone(), wildcard_audits: SortedMap::new(), audits: SortedMap::new(), trusted: SortedMap::new() };
    peer.audits.insert("bravo".into(), vec![full(&["fuzzed", "reviewed"]), full(&["reviewed"])]);
    let mut remote = Remote::default();
    remote.peers.insert(peer_url(0), peer);
    remote.registry.insert("bravo".into(), vec![RegVersion { version: semver::Version::new(1, 0, 0), user: Some(1), day: 0 }]);
    let w = CmdWorld { graph, config, audits, remote };
    let p = setup_project(&w);
    // the lock already holds the single-criterion audit
    let mut lock_file = AuditsFile { criteria: w.audits.criteria.clone(), wildcard_audits: SortedMap::new(), audits: SortedMap::new(), trusted: SortedMap::new() };
    lock_file.audits.insert("bravo".into(), vec![full(&["reviewed"])]);
    let store = Store::mock(w.config.clone(), w.audits.clone(), ImportsFile { unpublished: SortedMap::new(), publisher: SortedMap::new(), audits: [("peer0".to_owned(), lock_file)].into_iter().collect() });
    p.write(&store.mock_commit());
    (w, p)
}

/// witness of the audits.toml variants of F4: as `corpus_f4`, but the single-criterion audit is a
/// local non-importable one instead of a lock-stale imported one.  The first pruning run needs it
/// (level "non-importable" beats "fresh import") and imports the peer's two-criteria audit for
/// the other criterion; in the second run that import is stale, both criteria are routed over it
/// and the local audit is pruned from audits.toml.
pub fn corpus_f4_local() -> (CmdWorld, Project) {
    let (mut w, _p) = corpus_f4();
    let full = |c: &[&str], importable: bool| AuditEntry { who: vec![], criteria: c.iter().map(|s| gen::sp(s.to_string())).collect(), kind: AuditKind::Full { version: VetVersion::parse("1.0.0").unwrap() }, importable, notes: None, aggregated_from: vec![], is_fresh_import: false };
    w.audits.audits.insert("bravo".into(), vec![full(&["reviewed"], false)]);
    let peer = w.remote.peers.get_mut(&peer_url(0)).unwrap();
    peer.audits.insert("bravo".into(), vec![full(&["fuzzed", "reviewed"], true)]);
    let p = setup_project(&w);
    (w, p)
}

/// witness of C13/cmd/regenerate-exemptions-twice-changes-config.toml: two in-graph versions of
/// one crate joined by a delta audit, an exemption for the later one only
pub fn corpus_regen_exemptions() -> (CmdWorld, Project) {
    let v = |s: &str| VetVersion::parse(s).unwrap();
    let graph = gen::GGraph {
        pkgs: vec![
            gen::GPkg { name: "alfa".into(), version: v("1.0.0"), source: 0, member: true, deps: vec![(1, 1), (2, 1)] },
            gen::GPkg { name: "bravo".into(), version: v("3.0.0"), source: 1, member: false, deps: vec![] },
            gen::GPkg { name: "bravo".into(), version: v("5.0.0"), source: 1, member: false, deps: vec![] },
        ],
        resolve_order: vec![0, 1, 2],
        member_order: vec![0],
    };
    let mut audits = AuditsFile { criteria: SortedMap::new(), wildcard_audits: SortedMap::new(), audits: SortedMap::new(), trusted: SortedMap::new() };
    audits.audits.insert("bravo".into(), vec![AuditEntry { who: vec![], criteria: vec![gen::sp(SAFE_TO_DEPLOY.to_owned())], kind: AuditKind::Delta { from: v("3.0.0"), to: v("5.0.0") }, importable: true, notes: None, aggregated_from: vec![], is_fresh_import: false }]);
    let mut config = ConfigFile { cargo_vet: Default::default(), default_criteria: get_default_criteria(), imports: SortedMap::new(), policy: Default::default(), exemptions: SortedMap::new() };
    config.exemptions.insert("bravo".into(), vec![ExemptedDependency { version: v("5.0.0"), criteria: vec![gen::sp(SAFE_TO_DEPLOY.to_owned())], suggest: true, notes: None }]);
    let mut remote = Remote::default();
    remote.registry.insert("bravo".into(), vec![RegVersion { version: semver::Version::new(3, 0, 0), user: Some(1), day: 0 }, RegVersion { version: semver::Version::new(5, 0, 0), user: Some(1), day: 1 }]);
    let w = CmdWorld { graph, config, audits, remote };
    let p = setup_project(&w);
    (w, p)
}

pub fn exec_history(r: &mut Report, rng: &mut Rng, idx: u64, mut w: CmdWorld, p: Project, fixed: Option<Vec<&'static [&'static str]>>) {
    r.evaluations += 1;
    let prop = r.prop.clone();
    let mut driver: Option<Driver> = if prop == "C06" || prop == "C02" { Some(Driver::spawn()) } else { None };
    w.remote.install();
    if fixed.is_none() && rng.chance(1, 5) {
        // the store on disk was last written by an older cargo-vet, or touched by hand without
        // changing what it says: unlocked commands accept it and write the canonical form
        let mut files = p.files();
        let pick = rng.below(3);
        let mut merged = false;
        if pick == 2 {
            // a merge left a second, identical copy of an audit after the crate's other audits
            let mut blocks: Vec<String> = files[0].split("\n[[").map(|b| b.to_owned()).collect();
            let head = |b: &str| b.split("]]").next().unwrap_or("").to_owned();
            if let Some(i) = (1..blocks.len()).find(|&i| blocks[i].starts_with("audits.") && i + 1 < blocks.len() && head(&blocks[i + 1]) == head(&blocks[i]) && blocks[i + 1] != blocks[i]) {
                let j = (i..blocks.len()).take_while(|&j| head(&blocks[j]) == head(&blocks[i])).last().unwrap();
                let copy = blocks[i].clone();
                if !blocks[j].ends_with('\n') {
                    blocks[j].push('\n');
                }
                blocks.insert(j + 1, copy);
                files[0] = blocks.join("\n[[");
                merged = true;
                r.count("store:merge-left-duplicate-audit");
            }
        }
        if merged {
        } else if pick == 1 {
            files[1] = files[1].replacen("version = \"1.0\"", "version = \"0.9\"", 1);
        } else {
            files[0] = format!("# reviewed by hand on 2022-12-01\n{}", files[0]);
        }
        for (n, t) in ["audits.toml", "config.toml", "imports.lock"].iter().zip(files.iter()) {
            fs::write(p.store_dir().join(n), t).unwrap();
        }
    }
    let steps = fixed.as_ref().map(|f| f.len()).unwrap_or_else(|| rng.range(3, 6));
    let mut trace: Vec<String> = vec![format!("history#{idx}: {} packages, {} peers", w.graph.pkgs.len(), w.remote.peers.len())];
    let mut nontrivial = false;
    // start from a store that passes if possible: regenerate exemptions first in half the cases
    if fixed.is_none() && rng.chance(1, 2) {
        let (o, _) = p.run(&["regenerate", "exemptions"]);
        trace.push(format!("regenerate exemptions -> {}", describe_outcome(&o)));
    }
    for si in 0..steps {
        if fixed.is_none() && rng.chance(1, 3) {
            let what = mutate_remote(rng, &mut w);
            w.remote.install();
            trace.push(format!("remote: {what}"));
            continue;
        }
        let cmd: &[&str] = match &fixed { Some(f) => f[si], None => COMMANDS[rng.below(COMMANDS.len())] };
        let cmd_s = if cmd.is_empty() { "check".to_owned() } else if cmd == ["--locked"] { "check --locked".to_owned() } else { cmd.join(" ") };
        let before = p.files();
        let passes_before = matches!(p.run(&["--locked"]).0, Outcome::Ok);
        let unlocked_before = if prop == "C10" { Some(p.run(&[]).0) } else { None };
        let before2 = p.files(); // the unlocked probe check may itself update the lock
        // clone without the store lock (a held Store would block the command under test)
        let live = if prop == "C11" { p.acquire(false).ok().map(|s| s.clone_for_suggest(false)) } else { None };
        if prop == "C06" || prop == "C02" {
            if let Some(d) = driver.as_mut() {
                corr_publishers(r, d, &p, &w, &format!("{}\nbefore step: {cmd_s}", trace.join("\n")));
            }
        }
        // C12: which third-party packages the records on disk certify without exemptions
        let c12_recorded: Option<Vec<String>> = if prop == "C12" && cmd.is_empty() {
            p.acquire(true).ok().map(|s| s.clone_for_suggest(false)).and_then(|mut lockedv| {
                // (who published what is crates.io's to say: a publisher record an older run left
                // in the lock counts as recorded only while the registry still says the same)
                for (name, l) in lockedv.imports.publisher.iter_mut() {
                    l.retain(|q| w.remote.registry.get(name).map(|reg| reg.iter().any(|rv| rv.version == q.version.semver && rv.user == Some(q.user_id) && gen::date(rv.day) == q.when)).unwrap_or(false));
                }
                let spec = core::Spec::new(&lockedv.audits.criteria)?;
                let sg = core::SpecGraph::new(&p.md);
                let demand = sg.demand(&lockedv.config.policy, &spec)?;
                let mut out = Vec::new();
                for q in 0..sg.ids.len() {
                    if !sg.third_party(&lockedv.config.policy, q) {
                        continue;
                    }
                    let edges = core::spec_edges(&lockedv, &spec, &sg.name[q])?;
                    let no_ex = |e: &core::SpecEdge| e.kind != "exemption" && e.kind != "unpublished";
                    if (0..spec.crits.len()).filter(|c| demand[q] & (1 << c) != 0).all(|c| core::spec_reach(&edges, c, &no_ex).contains(&Some(sg.ver[q].clone()))) {
                        out.push(format!("{}:{}", sg.name[q], sg.ver[q]));
                    }
                }
                Some(out)
            })
        } else {
            None
        };
        // C02: the conclusion the resolver reaches on the store as this very command will load it
        let concl_before: Option<bool> = if prop == "C02" && (cmd.is_empty() || cmd == ["--locked"]) {
            let md = p.md.clone();
            p.acquire(cmd.contains(&"--locked")).ok().map(|s| s.clone_for_suggest(false)).and_then(|s| guarded(|| matches!(resolver::resolve(&md, None, &s).conclusion, Conclusion::Success(_))).ok())
        } else {
            None
        };
        let (o, _text) = p.run(cmd);
        let after = p.files();
        let case = format!("{}\nstep: {cmd_s}\n--- audits.toml before\n{}\n--- config.toml before\n{}\n--- imports.lock before\n{}", trace.join("\n"), before2[0], before2[1], before2[2]);
        trace.push(format!("{cmd_s} -> {}", describe_outcome(&o)));
        r.count(&format!("cmd:{cmd_s}:{}", describe_outcome(&o)));
        r.oracle_checked += 1;
        if let Outcome::Panic(m) = &o {
            r.fail("oracle", &format!("{prop}/cmd-panics"), format!("`{cmd_s}` panicked: {m}"), &case);
            continue;
        }
        let is_check = cmd.is_empty() || cmd == ["--locked"];
        let locked = cmd.contains(&"--locked");
        if after[2].contains("[[audits") || after[2].contains("[[publisher") {
            nontrivial = true;
        }
        match prop.as_str() {
            "C12" => {
                // "always [reported fully audited] when the audits and grants already recorded in
                // the store suffice": recomputed from the store as it was on disk (locked view)
                if is_check && !locked && o == Outcome::Ok {
                    if let Some(want) = c12_recorded.as_ref() {
                        let (o2, text) = p.run(&["--output-format", "json"]);
                        r.oracle_checked += 1;
                        if o2 == Outcome::Ok {
                            if let Ok(v) = serde_json::from_str::<serde_json::Value>(text.trim()) {
                                let fully: Vec<String> = v["vetted_fully"].as_array().map(|a| a.iter().map(|x| format!("{}:{}", x["name"].as_str().unwrap_or(""), x["version"].as_str().unwrap_or(""))).collect()).unwrap_or_default();
                                for pkg in want {
                                    if !fully.contains(pkg) {
                                        r.fail("oracle", "C12/cmd/not-fully-though-recorded-audits-suffice", format!("{pkg} is certified for everything required by audits and grants already recorded in the store, yet the check reports fully audited only {fully:?}"), &case);
                                    }
                                }
                            }
                        }
                    }
                }
            }
            "C06" => {
                // a passing unlocked run rests only on grants that what crates.io serves NOW
                // justifies (exact version, that user, a day inside the window) — whatever an
                // older imports.lock remembered
                if is_check && !locked && o == Outcome::Ok {
                    c06_live_publishers(r, &p, &w, &case);
                }
            }
            "C02" => {
                // the exit status is non-zero exactly when the conclusion is not success, and the
                // human report says which
                if let (true, Some(success)) = (is_check, concl_before) {
                    r.oracle_checked += 1;
                    match &o {
                        Outcome::Ok if !success => r.fail("oracle", "C02/cmd/exit-zero-on-failure", format!("`{cmd_s}` exits 0 but the resolver's conclusion on the same store is a failure"), &case),
                        Outcome::Exit(c) if success || *c == 0 => r.fail("oracle", "C02/cmd/exit-nonzero-on-success", format!("`{cmd_s}` exits {c} but the resolver's conclusion on the same store is success"), &case),
                        Outcome::Ok if !_text.contains("Vetting Succeeded") => r.fail("oracle", "C02/cmd/success-not-reported", format!("`{cmd_s}` exits 0 without reporting success: {}", _text.chars().take(200).collect::<String>()), &case),
                        Outcome::Exit(_) if !_text.contains("Vetting Failed") && !_text.contains("iolation") => r.fail("oracle", "C02/cmd/failure-not-reported", format!("`{cmd_s}` fails without a failure report: {}", _text.chars().take(200).collect::<String>()), &case),
                        _ => {}
                    }
                }
                // ... and an unlocked check does not fail for lack of audits while the records
                // it loads, with what crates.io serves about the publishers, certify everything
                if is_check && !locked && matches!(o, Outcome::Exit(_)) && _text.contains("Vetting Failed") {
                    r.oracle_checked += 1;
                    if let Some(None) = live_truth_missing(&p, &w) {
                        r.fail("oracle", "C02/cmd/fails-though-everything-certified", format!("`{cmd_s}` reports a vetting failure, but every required pair has a certifying chain over the records and the publishers crates.io serves: {}", _text.chars().take(300).collect::<String>()), &case);
                    }
                }
            }
            "C09" => {
                if is_check && !locked {
                    if o == Outcome::Ok {
                        let (o2, _) = p.run(&["--locked"]);
                        r.oracle_checked += 1;
                        if o2 != Outcome::Ok {
                            r.fail("oracle", "C09/cmd/locked-fails-after-successful-check", format!("unlocked check succeeded, the following --locked check gave {o2:?}"), &case);
                        }
                        // ... whatever the remotes serve afterwards
                        let mut w2 = Remote::default();
                        w2.registry = w.remote.registry.clone();
                        for (u, _) in &w.remote.peers {
                            w2.peers.insert(u.clone(), AuditsFile::default());
                        }
                        w2.install();
                        let (o3, _) = p.run(&["--locked"]);
                        w.remote.install();
                        if o3 != Outcome::Ok {
                            r.fail("oracle", "C09/cmd/locked-depends-on-remote", format!("--locked check after the peers revoked everything gave {o3:?}"), &case);
                        }
                    } else if before2 != after {
                        r.fail("oracle", "C09/cmd/failing-run-changed-files", format!("`{cmd_s}` ended with {o:?} but changed the store files"), &case);
                    }
                }
            }
            "C10" => {
                // a store that vets successfully (unlocked, same remote) still does after the command
                if unlocked_before == Some(Outcome::Ok) && !is_check {
                    let (o2, _) = p.run(&[]);
                    r.oracle_checked += 1;
                    if o2 != Outcome::Ok {
                        r.fail("oracle", &format!("C10/cmd/{}-breaks-passing-store", cmd_s.replace(' ', "-")), format!("store vetted, after `{cmd_s}` ({o:?}) an unlocked check gives {o2:?}"), &case);
                    }
                }
                if cmd_s == "regenerate exemptions" && o == Outcome::Ok {
                    let (o2, text) = p.run(&[]);
                    if o2 != Outcome::Ok && !text.contains("iolation") {
                        r.fail("oracle", "C10/cmd/regenerate-exemptions-leaves-failure", format!("after regenerate exemptions an unlocked check gives {o2:?}: {}", &text[..text.len().min(300)]), &case);
                    }
                }
                let _ = passes_before;
            }
            "C11" => {
                if cmd_s != "regenerate exemptions" {
                    c11_files(r, &before2, &after, live.as_ref(), &cmd_s, &case);
                }
            }
            "C13" => {
                if o == Outcome::Ok {
                    // run it again with unchanged inputs: byte-identical files
                    let (o2, _) = p.run(cmd);
                    let again = p.files();
                    r.oracle_checked += 1;
                    if o2 == Outcome::Ok && again != after {
                        let which: Vec<&str> = ["audits.toml", "config.toml", "imports.lock"].iter().zip(after.iter().zip(&again)).filter(|(_, (a, b))| a != b).map(|(n, _)| *n).collect();
                        // one failure per file that changed, so that a run changing two files is not
                        // a different signature from two runs changing one each
                        for f in &which {
                            // the command without its flags: flags only restrict which of the three
                            // pruning passes run, the call site is the same
                            let base: Vec<&str> = cmd_s.split(' ').filter(|a| !a.starts_with("--")).collect();
                            let sig = format!("C13/cmd/{}-twice-changes-{}", base.join("-"), f);
                            r.fail("oracle", &sig, format!("second `{cmd_s}` changed {which:?}\n--- imports.lock after first\n{}\n--- after second\n{}\n--- config after first\n{}\n--- after second\n{}", after[2], again[2], after[1], again[1]), &case);
                        }
                    }
                    if locked && before2 != after {
                        // a locked check must not change the meaning; it may not even reformat files it wrote
                        r.fail("oracle", "C13/cmd/locked-check-changed-files", "a --locked check changed the store files".into(), &case);
                    }
                    if cmd_s == "prune" {
                        if let Some(true) = prune_advice(&p) {
                            r.fail("oracle", "C13/cmd/advice-after-prune", "after `prune` a check would still advise pruning".into(), &case);
                        }
                    }
                }
            }
            _ => {}
        }
    }
    if nontrivial {
        r.nontrivial(&trace.join("|"));
    }
    if r.samples.len() < 3 {
        r.sample(trace.join(" ; "));
    }
}

/// C12 scenario of seeded change s75: a peer wildcard audit and its publisher record are in
/// imports.lock and certify the crate; a left-over exemption is still listed; the peer then changes
/// only the `renew` flag of that audit.
fn corpus_renew_flip(r: &mut Report) {
    let v = |m: u64| VetVersion::parse(&format!("{m}.0.0")).unwrap();
    let graph = gen::GGraph {
        pkgs: vec![
            gen::GPkg { name: "alfa".into(), version: v(1), source: 0, member: true, deps: vec![(1, 1)] },
            gen::GPkg { name: "bravo".into(), version: v(2), source: 1, member: false, deps: vec![] },
        ],
        resolve_order: vec![0, 1],
        member_order: vec![0],
    };
    let mut config = ConfigFile { cargo_vet: Default::default(), default_criteria: get_default_criteria(), imports: SortedMap::new(), policy: Default::default(), exemptions: SortedMap::new() };
    config.imports.insert("peer0".into(), RemoteImport { url: vec![peer_url(0)], exclude: vec![], criteria_map: CriteriaMap::new() });
    let audits = AuditsFile { criteria: SortedMap::new(), wildcard_audits: SortedMap::new(), audits: SortedMap::new(), trusted: SortedMap::new() };
    let mut peer = AuditsFile { criteria: SortedMap::new(), wildcard_audits: SortedMap::new(), audits: SortedMap::new(), trusted: SortedMap::new() };
    peer.wildcard_audits.insert("bravo".into(), vec![WildcardEntry { who: vec![], criteria: vec![gen::sp(SAFE_TO_DEPLOY.to_owned())], user_id: 1, start: gen::sp(gen::date(0)), end: gen::sp(gen::date(300)), renew: None, notes: None, aggregated_from: vec![], is_fresh_import: false }]);
    let mut remote = Remote::default();
    remote.peers.insert(peer_url(0), peer);
    remote.registry.insert("bravo".into(), vec![RegVersion { version: semver::Version::new(2, 0, 0), user: Some(1), day: 10 }]);
    let mut w = CmdWorld { graph, config, audits, remote };
    let p = setup_project(&w);
    w.remote.install();
    // first check: the wildcard audit and the publisher record land in imports.lock
    let (o1, _) = p.run(&[]);
    // a left-over exemption
    if let Ok(Ok(mut st)) = guarded(|| Store::mock_acquire(&p.files()[1], &p.files()[0], &p.files()[2], mock_today(), false)) {
        st.config.exemptions.insert("bravo".into(), vec![ExemptedDependency { version: v(2), criteria: vec![gen::sp(SAFE_TO_DEPLOY.to_owned())], suggest: true, notes: None }]);
        p.write(&st.mock_commit());
    }
    // the peer flips renew
    for l in w.remote.peers.get_mut(&peer_url(0)).unwrap().wildcard_audits.values_mut() {
        for a in l.iter_mut() {
            a.renew = Some(false);
        }
    }
    r.count(&format!("corpus-renew-flip:first-check:{}", describe_outcome(&o1)));
    let mut crng = Rng::new(1);
    exec_history(r, &mut crng, 0, w, p, Some(vec![&[], &[]]));
}

pub fn run(r: &mut Report) {
    let (shard, nshards) = shard();
    if shard == 0 && r.prop == "C12" && std::env::var("VERIF_ONLY_CMD").is_err() {
        corpus_renew_flip(r);
    }
    let n = if r.thorough() { 9600 } else { 1600 } / nshards;
    let mut rng = Rng::new(r.seed.wrapping_add(shard.wrapping_mul(15485863)) ^ 0xC0FFEE);
    let only: Option<u64> = std::env::var("VERIF_ONLY_CMD").ok().and_then(|s| s.parse().ok());
    let base = r.evaluations;
    if shard == 0 && only.is_none() && r.prop == "C13" {
        // the witnesses of the known findings, one fresh project per command
        for cmd in [&["prune"][..], &["regenerate", "imports"][..], &["regenerate", "exemptions"][..]] {
            let (w, p) = corpus_f4();
            let mut crng = Rng::new(1);
            exec_history(r, &mut crng, 0, w, p, Some(vec![cmd]));
        }
        for cmd in [&["prune"][..], &["regenerate", "imports"][..], &["regenerate", "exemptions"][..]] {
            let (w, p) = corpus_f4_local();
            let mut crng = Rng::new(1);
            exec_history(r, &mut crng, 0, w, p, Some(vec![cmd]));
        }
        let (w, p) = corpus_regen_exemptions();
        let mut crng = Rng::new(1);
        exec_history(r, &mut crng, 0, w, p, Some(vec![&["regenerate", "exemptions"]]));
    }
    for i in 0..n {
        let mut crng = rng.fork();
        if let Some(o) = only {
            if o != i + 1 {
                continue;
            }
        }
        run_history(r, &mut crng, i + 1);
    }
    let _ = base;
    *crate::network::VERIF_MOCK_NETWORK.lock().unwrap() = None;
}
