// Verification harness for cargo-vet, `include!`d into the crate's unit-test binary as
// `crate::tests::verif` when the cargo feature `verif` is on (see /verif/DESIGN.md).
//
// It generates structured inputs from one PRNG seed, runs the real cargo-vet functions
// in-process, pipes the same inputs to the Lean model driver (`vetdriver`), compares the
// canonical outputs and evaluates per-property oracles on the implementation's own output.


use super::*;
use std::collections::{BTreeMap, BTreeSet, HashSet};
use std::io::{BufRead, BufReader, Write as IoWrite};
use std::process::{Child, ChildStdin, ChildStdout, Command, Stdio};

macro_rules! sub {
    ($name:ident, $file:literal) => {
        mod $name {
            include!(concat!(env!("VET_VERIF_DIR"), "/", $file));
        }
    };
}

sub!(wire, "wire.rs");
sub!(gen, "gen.rs");
sub!(c05, "c05.rs");
sub!(core, "core.rs");
sub!(update, "update.rs");
sub!(updrun, "updrun.rs");
sub!(cmd, "cmd.rs");
sub!(ucmd, "ucmd.rs");
sub!(imports, "imports.rs");
sub!(c15, "c15.rs");
sub!(c16, "c16.rs");
sub!(c18, "c18.rs");
sub!(c08, "c08.rs");
sub!(c17, "c17.rs");
sub!(c14, "c14.rs");
sub!(c19, "c19.rs");

/// SplitMix64: every random choice of a run derives from one state.
pub struct Rng(pub u64);
impl Rng {
    pub fn new(seed: u64) -> Self {
        Rng(seed.wrapping_mul(0x9E3779B97F4A7C15) ^ 0xD1B54A32D192ED03)
    }
    pub fn next(&mut self) -> u64 {
        self.0 = self.0.wrapping_add(0x9E3779B97F4A7C15);
        let mut z = self.0;
        z = (z ^ (z >> 30)).wrapping_mul(0xBF58476D1CE4E5B9);
        z = (z ^ (z >> 27)).wrapping_mul(0x94D049BB133111EB);
        z ^ (z >> 31)
    }
    /// uniform in 0..n (n > 0)
    pub fn below(&mut self, n: usize) -> usize {
        (self.next() % (n as u64)) as usize
    }
    pub fn range(&mut self, lo: usize, hi: usize) -> usize {
        lo + self.below(hi - lo + 1)
    }
    /// true with probability num/den
    pub fn chance(&mut self, num: usize, den: usize) -> bool {
        self.below(den) < num
    }
    pub fn pick<'a, T>(&mut self, xs: &'a [T]) -> &'a T {
        &xs[self.below(xs.len())]
    }
    pub fn fork(&mut self) -> Rng {
        Rng(self.next())
    }
}

/// The Lean model behind a pipe: one request line in, one answer line out.
pub struct Driver {
    child: Child,
    stdin: ChildStdin,
    stdout: BufReader<ChildStdout>,
    pub requests: u64,
}
impl Driver {
    pub fn spawn() -> Driver {
        let path = std::env::var("VERIF_DRIVER").expect("VERIF_DRIVER not set");
        let mut child = Command::new(path)
            .stdin(Stdio::piped())
            .stdout(Stdio::piped())
            .spawn()
            .expect("cannot spawn the Lean model driver");
        let stdin = child.stdin.take().unwrap();
        let stdout = BufReader::new(child.stdout.take().unwrap());
        Driver {
            child,
            stdin,
            stdout,
            requests: 0,
        }
    }
    pub fn ask(&mut self, line: &str) -> String {
        self.requests += 1;
        self.stdin.write_all(line.as_bytes()).unwrap();
        self.stdin.write_all(b"\n").unwrap();
        self.stdin.flush().unwrap();
        let mut out = String::new();
        self.stdout.read_line(&mut out).unwrap();
        if out.is_empty() {
            panic!("Lean driver died on request: {}", &line[..line.len().min(200)]);
        }
        out.trim_end().to_owned()
    }
}
impl Drop for Driver {
    fn drop(&mut self) {
        let _ = self.child.kill();
        let _ = self.child.wait();
    }
}

#[derive(Clone, Debug)]
pub struct Failure {
    /// "oracle": the implementation's own output violates the property;
    /// "corr": model and implementation disagree (correspondence broken).
    pub kind: &'static str,
    pub signature: String,
    pub detail: String,
    pub case: String,
    pub index: u64,
}

pub struct Report {
    pub prop: String,
    pub tier: String,
    pub seed: u64,
    pub evaluations: u64,
    pub nontrivial: HashSet<u64>,
    pub samples: Vec<String>,
    pub dist: BTreeMap<String, u64>,
    pub failures: Vec<Failure>,
    pub corr_checked: u64,
    pub oracle_checked: u64,
    pub exhaustive: bool,
    pub rule: String,
}
impl Report {
    pub fn new(prop: &str) -> Report {
        Report {
            prop: prop.to_owned(),
            tier: std::env::var("VERIF_TIER").unwrap_or_else(|_| "quick".into()),
            seed: std::env::var("VERIF_SEED")
                .ok()
                .and_then(|s| s.parse().ok())
                .unwrap_or(1),
            evaluations: 0,
            nontrivial: HashSet::new(),
            samples: Vec::new(),
            dist: BTreeMap::new(),
            failures: Vec::new(),
            corr_checked: 0,
            oracle_checked: 0,
            exhaustive: false,
            rule: String::new(),
        }
    }
    pub fn thorough(&self) -> bool {
        self.tier == "thorough"
    }
    pub fn count(&mut self, key: &str) {
        *self.dist.entry(key.to_owned()).or_insert(0) += 1;
    }
    pub fn count_n(&mut self, key: &str, n: u64) {
        *self.dist.entry(key.to_owned()).or_insert(0) += n;
    }
    pub fn sample(&mut self, s: String) {
        if self.samples.len() < 5 {
            self.samples.push(s);
        }
    }
    pub fn nontrivial(&mut self, case: &str) {
        self.nontrivial.insert(hash_str(case));
    }
    pub fn fail(&mut self, kind: &'static str, signature: &str, detail: String, case: &str) {
        // keep the first few failures per signature; count all
        self.count(&format!("failure:{kind}:{signature}"));
        let same = self
            .failures
            .iter()
            .filter(|f| f.signature == signature && f.kind == kind)
            .count();
        if same < 3 {
            self.failures.push(Failure {
                kind,
                signature: signature.to_owned(),
                detail,
                case: case.to_owned(),
                index: self.evaluations,
            });
        }
    }
    /// an empty report with the same settings, for re-running a case while minimising it
    pub fn scratch(&self) -> Report {
        let mut r = Report::new(&self.prop);
        r.tier = self.tier.clone();
        r.seed = self.seed;
        r
    }
    /// After `first_new` failures were recorded for world `w`, minimise `w` with respect to the
    /// first new failure (same kind and signature must still be reported) and append the reduced
    /// world, rendered readably, to that failure's detail.
    pub fn minimise_last(&mut self, first_new: usize, w: &gen::GWorld, rerun: &mut dyn FnMut(&mut Report, &gen::GWorld)) {
        if self.failures.len() <= first_new || std::env::var("VERIF_NO_SHRINK").is_ok() {
            return;
        }
        // prefer an oracle failure (the property itself) over a mere disagreement with the model
        let first_new = (first_new..self.failures.len()).find(|i| self.failures[*i].kind == "oracle").unwrap_or(first_new);
        let (kind, sig) = (self.failures[first_new].kind, self.failures[first_new].signature.clone());
        let proto = self.scratch();
        let (small, steps) = gen::minimise(w, 300, &mut |cand| {
            let mut sr = proto.scratch();
            rerun(&mut sr, cand);
            sr.failures.iter().any(|f| f.kind == kind && f.signature == sig)
        });
        // the detail of the failure as reported on the reduced world
        let mut sr = proto.scratch();
        rerun(&mut sr, &small);
        let small_detail = sr.failures.iter().find(|f| f.kind == kind && f.signature == sig).map(|f| f.detail.clone()).unwrap_or_default();
        let f = &mut self.failures[first_new];
        f.detail.push_str(&format!("\n=== minimised world ({steps} reductions; packages {} -> {})\n{}\n=== on the minimised world: {}", w.graph.pkgs.len(), small.graph.pkgs.len(), gen::describe(&small), small_detail.chars().take(1500).collect::<String>()));
        f.detail.push_str(&format!("\n=== original world\n{}", gen::describe(w)));
    }
    /// compare the two canonical answers of one correspondence obligation
    pub fn corr(&mut self, name: &str, imp: &str, model: &str, case: &str) -> bool {
        self.corr_checked += 1;
        if imp != model {
            self.fail(
                "corr",
                name,
                format!("impl:  {imp}\nmodel: {model}"),
                case,
            );
            false
        } else {
            true
        }
    }
    pub fn write(&self) {
        let Ok(path) = std::env::var("VERIF_OUT") else {
            return;
        };
        let v = json!({
            "prop": self.prop,
            "tier": self.tier,
            "seed": self.seed,
            "evaluations": self.evaluations,
            "distinct_nontrivial": self.nontrivial.len(),
            "samples": self.samples,
            "distribution": self.dist,
            "corr_checked": self.corr_checked,
            "oracle_checked": self.oracle_checked,
            "exhaustive": self.exhaustive,
            "rule": self.rule,
            "failures": self.failures.iter().map(|f| json!({
                "kind": f.kind, "signature": f.signature, "detail": f.detail,
                "case": f.case, "index": f.index,
            })).collect::<Vec<_>>(),
        });
        fs::write(path, serde_json::to_string_pretty(&v).unwrap()).unwrap();
    }
}

pub fn hash_str(s: &str) -> u64 {
    // FNV-1a
    let mut h: u64 = 0xcbf29ce484222325;
    for b in s.bytes() {
        h ^= b as u64;
        h = h.wrapping_mul(0x100000001b3);
    }
    h
}

/// shard `i` of `n` (VERIF_SHARD = "i/n"); each shard uses its own sub-seed
pub fn shard() -> (u64, u64) {
    std::env::var("VERIF_SHARD")
        .ok()
        .and_then(|s| {
            let (a, b) = s.split_once('/')?;
            Some((a.parse().ok()?, b.parse().ok()?))
        })
        .unwrap_or((0, 1))
}

/// Run a closure, mapping a panic to `Err(message)`. An `ExitPanic(code)` payload (cargo-vet's
/// way to exit with a status) is reported as `Err("exit:<code>")`.
thread_local! { static IN_GUARD: std::cell::Cell<u32> = std::cell::Cell::new(0); }

pub fn guarded<T>(f: impl FnOnce() -> T) -> Result<T, String> {
    IN_GUARD.with(|g| g.set(g.get() + 1));
    let res = std::panic::catch_unwind(std::panic::AssertUnwindSafe(f));
    IN_GUARD.with(|g| g.set(g.get() - 1));
    match res {
        Ok(v) => Ok(v),
        Err(p) => {
            if let Some(crate::ExitPanic(c)) = p.downcast_ref::<crate::ExitPanic>() {
                Err(format!("exit:{c}"))
            } else if let Some(s) = p.downcast_ref::<String>() {
                Err(format!("panic:{s}"))
            } else if let Some(s) = p.downcast_ref::<&str>() {
                Err(format!("panic:{s}"))
            } else {
                Err("panic:?".to_owned())
            }
        }
    }
}

/// Map a panic message of the real code to the model's panic class.
pub fn panic_class(msg: &str) -> &'static str {
    if msg.contains("Cannot specify multiple criteria") {
        "panic:dup-criteria"
    } else if msg.contains("implies itself") {
        "panic:implies-itself"
    } else if msg.contains("was not Enough For Everyone") {
        "panic:too-many"
    } else if msg.contains("no entry found for key") {
        "panic:unknown-criterion"
    } else {
        "panic:other"
    }
}

#[test]
fn run() {
    let Ok(prop) = std::env::var("VERIF_PROP") else {
        return;
    };
    // silence the default panic hook: panics of the code under test are expected outcomes
    let default_hook = std::panic::take_hook();
    std::panic::set_hook(Box::new(move |info| {
        if IN_GUARD.with(|g| g.get()) == 0 {
            default_hook(info);
        }
    }));
    let _enter = TEST_RUNTIME.enter();
    let mut report = Report::new(&prop);
    let replay = std::env::var("VERIF_REPLAY").ok();
    match prop.as_str() {
        "C05" => {
            c05::run(&mut report, replay.as_deref());
            let rule = report.rule.clone();
            ucmd::run(&mut report);
            c17::run(&mut report);
            report.rule = format!("{rule} + user commands (certify, trust, ...) on disk: the written records certify nothing beyond the store before plus the entry asked for + suggestions: the criteria printed for a failing package are the set computed as missing");
        }
        "C01" | "C02" | "C03" | "C04" | "C06" | "C12" => {
            core::run(&mut report, replay.as_deref());
            if prop == "C12" || prop == "C04" {
                // the prune half of C12 and the lock half of C04 live in the update layer
                let rule = report.rule.clone();
                updrun::run(&mut report, replay.as_deref());
                report.rule = format!("{rule} + prune half: {}", report.rule);
            }
            if prop == "C06" {
                // unlocked runs against a registry whose publisher records change between runs
                let rule = report.rule.clone();
                cmd::run(&mut report);
                report.rule = format!("{rule} + command layer: successful unlocked checks re-derived from the records with the publisher table rebuilt from what the registry serves now");
            }
            if prop == "C02" {
                // exit status and printed conclusion of the real cmd_check
                let rule = report.rule.clone();
                cmd::run(&mut report);
                report.rule = format!("{rule} + command layer: exit status and printed conclusion of real `check` runs against the resolver's conclusion on the same store");
            }
            if prop == "C04" {
                // violations through the commands: recorded ones are exported, none is dropped
                ucmd::run(&mut report);
            }
            if prop == "C12" {
                // the clean-ups of certify / trust / import prune the target's exemptions too
                ucmd::run(&mut report);
                // what real check runs report as fully audited against the records on disk
                cmd::run(&mut report);
            }
        }
        "C09" | "C10" | "C11" | "C13" => {
            updrun::run(&mut report, replay.as_deref());
            cmd::run(&mut report);
            if prop == "C10" || prop == "C11" {
                // user commands (certify, trust, import, add-exemption, ...) with their clean-up
                ucmd::run(&mut report);
            }
            if prop == "C11" {
                // registry histories: what gets recorded as an unpublished link
                c08::run(&mut report);
            }
        }
        "C07" => {
            imports::run(&mut report);
            c15::run_lock_sites(&mut report);
        }
        "C15" => c15::run(&mut report),
        "C16" => c16::run(&mut report),
        "C18" => c18::run(&mut report),
        "C08" => {
            c08::run(&mut report);
            // init / regenerate audit-as-crates-io on projects with crates.io namesakes
            ucmd::run(&mut report);
        }
        "C17" => c17::run(&mut report),
        "C14" => c14::run(&mut report),
        "C19" => c19::run(&mut report),
        "C18child" => {
            c18::child();
            return;
        }
        other => panic!("no runner for property {other}"),
    }
    report.write();
}
