// C17: suggestions heal.  Real `compute_suggest` / `compute_suggested_criteria` on failing
// worlds; the proposed audits are added for their proposed criteria and the real resolver is run
// again; the real recommendation must be a least-cost member of the model's candidate set.
use super::*;
use crate::criteria::CriteriaMapper;
use crate::format::*;
use crate::resolver::{self, Conclusion};
use wire::Toks;

fn bits(s: &crate::criteria::CriteriaSet) -> u64 {
    s.indices().fold(0u64, |a, i| a | (1u64 << i))
}

fn cost(from: &Option<VetVersion>, to: &VetVersion) -> u64 {
    let f = from.as_ref().map(|v| v.semver.major * v.semver.major).unwrap_or(0) as i64;
    let t = (to.semver.major * to.semver.major) as i64;
    (t - f).unsigned_abs()
}

/// versions from which `target` can be reached along edges carrying criterion `c` (incl. itself)
fn reaches(edges: &[core::SpecEdge], c: usize, target: &VetVersion) -> BTreeSet<VetVersion> {
    let mut seen: BTreeSet<VetVersion> = BTreeSet::new();
    seen.insert(target.clone());
    loop {
        let mut grew = false;
        for e in edges {
            if e.crit & (1 << c) != 0 && seen.contains(&e.dst) {
                if let Some(s) = &e.src {
                    if seen.insert(s.clone()) {
                        grew = true;
                    }
                }
            }
        }
        if !grew {
            return seen;
        }
    }
}

/// C17, last sentence: the criteria `certify` pre-selects for a delta (`guess_audit_criteria`, the
/// function behind the prompt) are ones for which that delta connects an audited version to a
/// needed one — in the store as it is, or in the store without its removable exemptions (the
/// `suggest` view the function falls back to).  Recomputed from the records.
fn check_guess(r: &mut Report, md: &Metadata, store: &Store, case: &str) {
    let Some(spec) = core::Spec::new(&store.audits.criteria) else { return };
    let sg = core::SpecGraph::new(md);
    let Some(demand) = sg.demand(&store.config.policy, &spec) else { return };
    let cfg = mock_cfg(md);
    let views = [store.clone_for_suggest(false), store.clone_for_suggest(true)];
    let mut names: Vec<String> = (0..sg.ids.len()).filter(|p| sg.third_party(&store.config.policy, *p)).map(|p| sg.name[p].clone()).collect();
    names.sort();
    names.dedup();
    for name in names.iter().take(3) {
        let Some(e0) = core::spec_edges(&views[0], &spec, name) else { continue };
        let Some(e1) = core::spec_edges(&views[1], &spec, name) else { continue };
        let mut vs: Vec<VetVersion> = (0..sg.ids.len()).filter(|p| sg.name[*p] == *name).map(|p| sg.ver[p].clone()).collect();
        for e in &e0 {
            vs.push(e.dst.clone());
            if let Some(s) = &e.src {
                vs.push(s.clone());
            }
        }
        vs.push(VetVersion::parse("9.9.9").unwrap());
        vs.sort();
        vs.dedup();
        let mut pairs: Vec<(Option<VetVersion>, VetVersion)> = Vec::new();
        for t in &vs {
            pairs.push((None, t.clone()));
            for f in &vs {
                if f != t {
                    pairs.push((Some(f.clone()), t.clone()));
                }
            }
        }
        // a deterministic handful
        let h = hash_str(case) as usize;
        let k = pairs.len();
        for j in 0..k.min(6) {
            let (from, to) = pairs[(h.wrapping_add(j.wrapping_mul(7919))) % k].clone();
            let got = match guarded(|| crate::guess_audit_criteria(&cfg, store, name, from.as_ref(), &to)) {
                Ok(g) => g,
                Err(e) => {
                    r.fail("oracle", "C17/guess-panics", e, case);
                    continue;
                }
            };
            r.oracle_checked += 1;
            r.count(if got.is_empty() { "guess:none" } else { "guess:some" });
            for cname in &got {
                let Some(c) = spec.crits.iter().position(|x| x == cname) else { continue };
                // some view in which `from` is certified for c and `to` leads to an in-graph
                // version that needs c and lacks it
                let connects = [&e0, &e1].iter().any(|edges| {
                    let from_ok = match &from {
                        None => true,
                        Some(f) => core::spec_reach(edges, c, &|_| true).contains(&Some(f.clone())),
                    };
                    from_ok && (0..sg.ids.len()).any(|p| {
                        sg.name[p] == *name && sg.third_party(&store.config.policy, p) && demand[p] & (1 << c) != 0
                            && !core::spec_reach(edges, c, &|_| true).contains(&Some(sg.ver[p].clone()))
                            && reaches(edges, c, &sg.ver[p]).contains(&to)
                    })
                });
                if !connects && r.prop == "C17" {
                    r.fail("oracle", "C17/certify-preselects-unconnected-criteria", format!("certify pre-selects `{cname}` for {name} {} -> {to}, but that delta does not connect a version certified for it to an in-graph version that needs it", from.as_ref().map(|f| f.to_string()).unwrap_or_else(|| "(full)".into())), case);
                }
            }
        }
    }
}

pub fn check_world(r: &mut Report, d: &mut Driver, w: &gen::GWorld, tag: &str) {
    let store = w.store();
    let md = &w.md;
    let Ok(rep) = guarded(|| resolver::resolve(md, None, &store)) else { return };
    let Conclusion::FailForVet(fail) = &rep.conclusion else { return };
    r.evaluations += 1;
    let cfg = mock_cfg(md);
    let sug = match guarded(|| rep.compute_suggest(&cfg, &store, None)) {
        Ok(Ok(Some(s))) => s,
        Ok(Ok(None)) => return,
        Ok(Err(e)) => {
            r.count("suggest:error");
            let _ = e;
            return;
        }
        Err(p) => {
            r.fail("oracle", "C17/suggest-panics", p, tag);
            return;
        }
    };
    let (it, world_line) = wire::enc_world(md, &store);
    let case = format!("{tag}\n{world_line}");
    check_guess(r, md, &store, &case);
    let mapper = CriteriaMapper::new(&store.audits.criteria);
    r.count(&format!("suggestions:{}", sug.suggestions.len().min(6)));
    if !sug.suggestions.is_empty() {
        r.nontrivial(&world_line);
    }
    // ---- targets and criteria: every suggestion is for a failing package, with exactly its
    // missing criteria
    r.oracle_checked += 1;
    for s in &sug.suggestions {
        let Some((_, f)) = fail.failures.iter().find(|(i, _)| *i == s.package) else {
            r.fail("oracle", "C17/suggestion-for-non-failing-package", format!("suggestion for package index {} which is not in the failure list", s.package), &case);
            continue;
        };
        if bits(&f.criteria_failures) != bits(&s.suggested_criteria) && r.prop == "C17" {
            r.fail("oracle", "C17/suggested-criteria-not-the-missing-ones", format!("package {} is missing {} but the suggestion names {}", s.package, bits(&f.criteria_failures), bits(&s.suggested_criteria)), &case);
        }
    }
    // ---- C05 ("every criteria list cargo-vet prints ... denotes the same set it computed"): the
    // set computed as missing for a failing package is printed for its crate, not a weaker one
    r.oracle_checked += 1;
    for (idx, f) in &fail.failures {
        let name = rep.graph.nodes[*idx].name;
        let for_crate: Vec<_> = sug.suggestions.iter().filter(|s| rep.graph.nodes[s.package].name == name).collect();
        if !for_crate.is_empty() && !for_crate.iter().any(|s| bits(&s.suggested_criteria) == bits(&f.criteria_failures)) {
            let printed: Vec<Vec<&str>> = for_crate.iter().map(|s| mapper.criteria_names(&s.suggested_criteria).collect()).collect();
            let missing: Vec<&str> = mapper.criteria_names(&f.criteria_failures).collect();
            r.fail("oracle", &format!("{}/suggest/missing-set-not-printed", if r.prop == "C05" { "C05" } else { "C17" }), format!("{name}:{} is missing {missing:?}, the suggestions for {name} name only {printed:?}", rep.graph.nodes[*idx].version), &case);
        }
    }
    // ---- correspondence: the recommendation is a least-cost member of the model's candidates
    for (idx, f) in &fail.failures {
        let p = &rep.graph.nodes[*idx];
        let Some(rr) = &rep.results[*idx] else { continue };
        let mut t = Toks::new();
        t.n(it.ver(&p.version));
        // published version for the git rewrite (offline: the bare version is assumed published)
        match &p.version.git_rev {
            None => {
                t.n(0);
            }
            Some(_) => {
                let bare = VetVersion { semver: p.version.semver.clone(), git_rev: None };
                match it.vers.binary_search(&bare) {
                    Ok(i) => {
                        // optNat encoding of `some (optKey (some i))`
                        t.n(i + 2);
                    }
                    Err(_) => continue, // the bare version does not occur in the case: skip the model query
                }
            }
        }
        t.list(&it.vers.iter().enumerate().filter(|(_, v)| v.git_rev.is_some()).map(|(i, _)| i).collect::<Vec<_>>());
        let fs: Vec<&resolver::SearchFailure> = f.criteria_failures.indices().filter_map(|c| rr.search_results[c].as_ref().err()).collect();
        t.n(fs.len());
        for sf in &fs {
            t.list(&sf.reachable_from_root.iter().map(|v| it.optver(v.as_ref())).collect::<Vec<_>>());
            t.list(&sf.reachable_from_target.iter().map(|v| it.optver(v.as_ref())).collect::<Vec<_>>());
        }
        let ans = d.ask(&format!("suggest {}", t.text()));
        let Some(rest) = ans.strip_prefix("ok ") else {
            r.fail("corr", "corr.suggest.candidates", format!("model answered `{ans}`"), &case);
            continue;
        };
        let mut rd = update::Reader::new(rest);
        let k = rd.n();
        let cands: Vec<(usize, usize)> = (0..k.min(1000)).map(|_| (rd.n(), rd.n())).collect();
        let mine: Vec<&resolver::SuggestItem> = sug.suggestions.iter().filter(|s| s.package == *idx).collect();
        r.corr_checked += 1;
        // the main recommendation is the item that is not the git "extra delta"
        for s in &mine {
            let key = (it.optver(s.suggested_diff.from.as_ref()), it.ver(&s.suggested_diff.to));
            let is_extra = p.version.git_rev.is_some() && s.suggested_diff.to == p.version && s.suggested_diff.from.as_ref().map(|v| v.git_rev.is_none() && v.semver == p.version.semver).unwrap_or(false);
            if is_extra {
                continue;
            }
            if !cands.contains(&key) {
                r.fail("corr", "corr.suggest.candidates", format!("real recommendation {:?} -> {} is not among the model's candidates {cands:?}\npackage {}:{} versions {:?}\nfailures {:?}", s.suggested_diff.from.as_ref().map(|v| v.to_string()), s.suggested_diff.to, p.name, p.version, it.vers.iter().map(|v| v.to_string()).collect::<Vec<_>>(), fs.iter().map(|sf| (sf.reachable_from_root.iter().map(|v| v.as_ref().map(|x| x.to_string())).collect::<Vec<_>>(), sf.reachable_from_target.iter().map(|v| v.as_ref().map(|x| x.to_string())).collect::<Vec<_>>())).collect::<Vec<_>>()), &case);
            } else {
                let best = cands.iter().map(|(f, t)| cost(&if *f == 0 { None } else { Some(it.vers[*f - 1].clone()) }, &it.vers[*t])).min().unwrap();
                if s.suggested_diff.diffstat.count() != best {
                    r.fail("corr", "corr.suggest.min-cost", format!("real recommendation costs {} but the cheapest candidate costs {best}", s.suggested_diff.diffstat.count()), &case);
                }
            }
        }
        // certify's pre-selected criteria for the suggested delta
        for s in &mine {
            let got = guarded(|| rep.compute_suggested_criteria(p.name, s.suggested_diff.from.as_ref(), &s.suggested_diff.to)).unwrap_or_default();
            r.oracle_checked += 1;
            // recomputed from the search failures of every failing package of that name
            let mut want = 0u64;
            for (j, fj) in &fail.failures {
                if rep.graph.nodes[*j].name != p.name {
                    continue;
                }
                let Some(rj) = &rep.results[*j] else { continue };
                for c in fj.criteria_failures.indices() {
                    if let Err(sf) = &rj.search_results[c] {
                        if sf.reachable_from_target.contains(&Some(s.suggested_diff.to.clone())) && sf.reachable_from_root.contains(&s.suggested_diff.from) {
                            want |= 1 << c;
                        }
                    }
                }
            }
            let got_set = mapper.criteria_from_list(&got);
            let want_min: u64 = {
                // the printed list is the minimal generating set of `want`
                let mut cs = mapper.no_criteria();
                for c in 0..mapper.len() {
                    if want & (1 << c) != 0 {
                        cs.set_criteria(c);
                    }
                }
                bits(&mapper.criteria_from_list(mapper.criteria_names(&cs).collect::<Vec<_>>()))
            };
            if bits(&got_set) != want_min && r.prop == "C17" {
                r.fail("oracle", "C17/certify-criteria", format!("certify pre-selects {got:?} for {} {:?}->{} but the connecting criteria are {want}", p.name, s.suggested_diff.from, s.suggested_diff.to), &case);
            }
        }
    }
    // ---- healing: certify every proposed audit for its proposed criteria, vet again
    let mut audits2 = store.audits.clone();
    for s in &sug.suggestions {
        let p = &rep.graph.nodes[s.package];
        let crit: Vec<_> = mapper.criteria_names(&s.suggested_criteria).map(|c| gen::sp(c.to_owned())).collect();
        let kind = match &s.suggested_diff.from {
            None => AuditKind::Full { version: s.suggested_diff.to.clone() },
            Some(f) => AuditKind::Delta { from: f.clone(), to: s.suggested_diff.to.clone() },
        };
        audits2.audits.entry(p.name.to_owned()).or_default().push(AuditEntry { who: vec![], criteria: crit, kind, importable: true, notes: None, aggregated_from: vec![], is_fresh_import: false });
    }
    let mut store2 = Store::mock(store.config.clone(), audits2, store.imports.clone());
    store2.live_imports = store.live_imports.clone();
    r.oracle_checked += 1;
    match guarded(|| resolver::resolve(md, None, &store2)) {
        Ok(rep2) => {
            if let Conclusion::FailForVet(f2) = &rep2.conclusion {
                // packages without any suggestion (no sources for any candidate) are a separate matter
                let unhealed: Vec<String> = f2.failures.iter().map(|(i, a)| format!("{}:{} missing {}", rep2.graph.nodes[*i].name, rep2.graph.nodes[*i].version, bits(&a.criteria_failures))).collect();
                let had_suggestion = f2.failures.iter().all(|(i, _)| sug.suggestions.iter().any(|s| rep.graph.nodes[s.package].name == rep2.graph.nodes[*i].name));
                if r.prop == "C17" && had_suggestion {
                    // which cause? two versions sharing one proposed diff is the de-duplication defect
                    let shared = f2.failures.iter().any(|(i, _)| {
                        let name = rep2.graph.nodes[*i].name;
                        fail.failures.iter().filter(|(j, _)| rep.graph.nodes[*j].name == name).count() >= 2
                    });
                    let sig = if shared { "C17/dedup-drops-criteria" } else { "C17/suggestions-do-not-heal" };
                    r.fail("oracle", sig, format!("after certifying all {} proposed audits vet still fails: {unhealed:?}", sug.suggestions.len()), &case);
                }
            }
            r.count(&format!("after:{}", match &rep2.conclusion { Conclusion::Success(_) => "success", Conclusion::FailForVet(_) => "failvet", Conclusion::FailForViolationConflict(_) => "violation" }));
        }
        Err(p) => r.fail("oracle", "C17/panic-after-certify", p, &case),
    }
    // ---- the same through the real `certify`, one proposal after the other in the listed order,
    // each followed by certify's own clean-up (which may prune what a later proposal starts from)
    if sug.suggestions.len() >= 2 && hash_str(&world_line) % 2 == 0 {
        let mut st = Store::mock(store.config.clone(), store.audits.clone(), store.imports.clone());
        st.live_imports = store.live_imports.clone();
        let mut ok = true;
        for s in &sug.suggestions {
            let p = &rep.graph.nodes[s.package];
            let mut args: Vec<String> = vec!["cargo".into(), "vet".into(), "certify".into(), p.name.to_owned()];
            if let Some(f) = &s.suggested_diff.from {
                args.push(f.to_string());
            }
            args.push(s.suggested_diff.to.to_string());
            for c in mapper.criteria_names(&s.suggested_criteria) {
                args.push("--criteria".into());
                args.push(c.to_owned());
            }
            args.extend(["--who".to_owned(), "tester".to_owned(), "--accept-all".to_owned()]);
            if s.suggested_diff.from.is_some() {
                args.push("--no-collapse".into());
            }
            let cfg2 = mock_cfg_args(md, args.iter().map(|a| a.as_str()));
            let Some(crate::cli::Commands::Certify(sub)) = &cfg2.cli.command else { ok = false; break };
            let out = BasicTestOutput::new();
            match guarded(|| crate::do_cmd_certify(&out.clone().as_dyn(), &cfg2, sub, &mut st, None, None)) {
                Ok(Ok(())) => {}
                Ok(Err(_)) => { ok = false; break; }
                Err(pn) => {
                    if r.prop == "C17" { r.fail("oracle", "C17/certify-panics", pn, &case); }
                    ok = false;
                    break;
                }
            }
        }
        if ok {
            r.oracle_checked += 1;
            r.count("certify-in-order:run");
            if let Ok(rep3) = guarded(|| resolver::resolve(md, None, &st)) {
                if let Conclusion::FailForVet(f3) = &rep3.conclusion {
                    let unhealed: Vec<String> = f3.failures.iter().filter(|(i, _)| sug.suggestions.iter().any(|s| rep.graph.nodes[s.package].name == rep3.graph.nodes[*i].name)).map(|(i, a)| format!("{}:{} missing {}", rep3.graph.nodes[*i].name, rep3.graph.nodes[*i].version, bits(&a.criteria_failures))).collect();
                    // (two versions sharing one proposed diff is the separate, fixed, de-duplication matter)
                    let shared = f3.failures.iter().any(|(i, _)| {
                        let name = rep3.graph.nodes[*i].name;
                        fail.failures.iter().filter(|(j, _)| rep.graph.nodes[*j].name == name).count() >= 2
                    });
                    if !unhealed.is_empty() && r.prop == "C17" {
                        let sig = if shared { "C17/certify-in-order-does-not-heal/several-versions" } else { "C17/certify-in-order-does-not-heal" };
                        r.fail("oracle", sig, format!("after running `certify` for each of the {} proposals in the listed order vet still fails: {unhealed:?}", sug.suggestions.len()), &case);
                    }
                }
            }
        }
    }
    if r.samples.len() < 3 {
        r.sample(format!("[{tag}] {} failing packages, {} suggestions", fail.failures.len(), sug.suggestions.len()));
    }
}

/// the witness of known finding F9: two in-graph versions of one crate, same proposed diff,
/// different missing criteria
pub fn corpus_f9() -> gen::GWorld {
    let graph = gen::GGraph {
        pkgs: vec![
            gen::GPkg { name: "a".into(), version: VetVersion::parse("1.0.0").unwrap(), source: 0, member: true, deps: vec![(2, 1), (1, 4)] },
            gen::GPkg { name: "b".into(), version: VetVersion::parse("1.0.0").unwrap(), source: 1, member: false, deps: vec![] },
            gen::GPkg { name: "b".into(), version: VetVersion::parse("2.0.0").unwrap(), source: 1, member: false, deps: vec![] },
        ],
        resolve_order: vec![0, 1, 2],
        member_order: vec![0],
    };
    let md = graph.metadata();
    let mut w = core::simple_world("1.0.0");
    w.graph = graph;
    w.md = md;
    w.audits.audits.insert("b".into(), vec![AuditEntry { who: vec![], criteria: vec![gen::sp(SAFE_TO_DEPLOY.to_owned())], kind: AuditKind::Delta { from: VetVersion::parse("1.0.0").unwrap(), to: VetVersion::parse("2.0.0").unwrap() }, importable: true, notes: None, aggregated_from: vec![], is_fresh_import: false }]);
    w
}

/// The sufficiency clause with the crates.io index reachable: a failing git-revision package is
/// first sent to the closest published version at or below it (which may be strictly lower than
/// its bare version), then from there to the revision.  Certify everything proposed, vet again.
fn online_git_heal(r: &mut Report, w: &gen::GWorld, tag: &str) {
    let store = w.store();
    let md = &w.md;
    let Ok(rep) = guarded(|| resolver::resolve(md, None, &store)) else { return };
    let Conclusion::FailForVet(fail) = &rep.conclusion else { return };
    if !fail.failures.iter().any(|(i, _)| rep.graph.nodes[*i].version.git_rev.is_some()) {
        return;
    }
    let mut remote = cmd::Remote::default();
    let mut published_txt = String::new();
    for node in rep.graph.nodes.iter() {
        let l = remote.registry.entry(node.name.to_owned()).or_default();
        let mut add = |v: semver::Version| {
            if !l.iter().any(|x| x.version == v) {
                l.push(cmd::RegVersion { version: v, user: Some(1), day: 0 });
            }
        };
        add(semver::Version::new(0, 0, 1));
        // the bare version of a git revision is published for some packages only
        if node.version.git_rev.is_none() || (node.version.semver.major + node.name.len() as u64) % 2 == 0 {
            add(node.version.semver.clone());
        }
    }
    for (n, l) in &remote.registry {
        published_txt.push_str(&format!("{n}: {:?}\n", l.iter().map(|x| x.version.to_string()).collect::<Vec<_>>()));
    }
    remote.install();
    let cfg = mock_cfg_args(md, ["cargo", "vet", "--output-format", "json"].into_iter());
    let network = Network::acquire(&cfg);
    let sug = match guarded(|| rep.compute_suggest(&cfg, &store, network.as_ref())) {
        Ok(Ok(Some(s))) => s,
        Ok(_) => return,
        Err(p) => {
            r.fail("oracle", "C17/online/suggest-panics", p, tag);
            return;
        }
    };
    r.evaluations += 1;
    let (_, world_line) = wire::enc_world(md, &store);
    let case = format!("{tag} (crates.io index reachable)\npublished versions:\n{published_txt}{world_line}");
    let mapper = CriteriaMapper::new(&store.audits.criteria);
    let mut audits2 = store.audits.clone();
    let mut proposed = Vec::new();
    for s in &sug.suggestions {
        let p = &rep.graph.nodes[s.package];
        let crit: Vec<_> = mapper.criteria_names(&s.suggested_criteria).map(|c| gen::sp(c.to_owned())).collect();
        proposed.push(format!("{} {:?} -> {}", p.name, s.suggested_diff.from.as_ref().map(|v| v.to_string()), s.suggested_diff.to));
        let kind = match &s.suggested_diff.from {
            None => AuditKind::Full { version: s.suggested_diff.to.clone() },
            Some(f) => AuditKind::Delta { from: f.clone(), to: s.suggested_diff.to.clone() },
        };
        audits2.audits.entry(p.name.to_owned()).or_default().push(AuditEntry { who: vec![], criteria: crit, kind, importable: true, notes: None, aggregated_from: vec![], is_fresh_import: false });
    }
    let mut store2 = Store::mock(store.config.clone(), audits2, store.imports.clone());
    store2.live_imports = store.live_imports.clone();
    r.oracle_checked += 1;
    r.count("online-git-heal");
    if let Ok(rep2) = guarded(|| resolver::resolve(md, None, &store2)) {
        if let Conclusion::FailForVet(f2) = &rep2.conclusion {
            let had_suggestion = f2.failures.iter().all(|(i, _)| sug.suggestions.iter().any(|s| rep.graph.nodes[s.package].name == rep2.graph.nodes[*i].name));
            let shared = f2.failures.iter().any(|(i, _)| {
                let name = rep2.graph.nodes[*i].name;
                fail.failures.iter().filter(|(j, _)| rep.graph.nodes[*j].name == name).count() >= 2
            });
            if had_suggestion && r.prop == "C17" {
                let unhealed: Vec<String> = f2.failures.iter().map(|(i, a)| format!("{}:{} missing {}", rep2.graph.nodes[*i].name, rep2.graph.nodes[*i].version, bits(&a.criteria_failures))).collect();
                let sig = if shared { "C17/dedup-drops-criteria" } else { "C17/online/suggestions-do-not-heal" };
                r.fail("oracle", sig, format!("after certifying all proposed audits {proposed:?} vet still fails: {unhealed:?}"), &case);
            }
        }
    }
}

pub fn run(r: &mut Report) {
    let mut d = Driver::spawn();
    let (shard, nshards) = shard();
    r.rule = "failing worlds (resolver-core generator, sparse stores so that audits are missing) with the real compute_suggest (offline: every version has sources, mocked diffstat |to^2 - from^2|); non-trivial = at least one suggestion; distinct by hash of the encoded world".into();
    let n = if r.thorough() { 60000 } else { 12000 } / nshards;
    let mut rng = Rng::new(r.seed.wrapping_add(shard.wrapping_mul(982451653)) ^ 0xC17);
    if shard == 0 {
        check_world(r, &mut d, &corpus_f9(), "corpus:C17-dedup");
    }
    for i in 0..n {
        let mut crng = rng.fork();
        let cfg = gen::WorldCfg { max_pkgs: if i % 3 == 0 { 8 } else { 5 }, max_customs: if i % 2 == 0 { 3 } else { 1 }, violations: 0, unknown_criteria: false };
        let w = gen::gen_world(&mut crng, &cfg);
        let nf = r.failures.len();
        check_world(r, &mut d, &w, &format!("random#{i}"));
        r.minimise_last(nf, &w, &mut |sr, cand| check_world(sr, &mut d, cand, "minimising"));
        if r.prop == "C17" {
            online_git_heal(r, &w, &format!("random#{i}"));
        }
    }
    r.count_n("driver-requests", d.requests);
}
