// Resolver core (C01, C02, C03, C04, C06, C12): correspondence of DepGraph::new,
// resolve_requirements, AuditGraph::build, search and resolve with the Lean model, plus
// specification-level oracles evaluated on the implementation's own output.
use super::*;
use crate::criteria::{CriteriaMapper, CriteriaSet};
use crate::format::*;
use crate::resolver::{self, AuditGraph, Conclusion, DeltaEdgeOrigin, DepGraph, SearchMode, ViolationConflict};
use wire::{Interner, Toks};

fn bits(s: &CriteriaSet) -> u64 {
    s.indices().fold(0u64, |a, i| a | (1u64 << i))
}

fn graph_line(it: &Interner, g: &DepGraph<'_>) -> String {
    let mut t = Toks::new();
    t.n(g.nodes.len());
    for p in &g.nodes {
        t.n(it.name(p.name)).n(it.ver(&p.version));
        t.b(p.is_third_party).b(p.is_workspace_member).b(p.is_root).b(p.is_dev_only);
        t.list(&p.normal_and_build_deps);
        t.list(&p.dev_deps);
        t.list(&p.reverse_deps.iter().copied().collect::<Vec<_>>());
    }
    t.list(&g.topo_index);
    format!("ok {}", t.text())
}

fn conflict_toks(it: &Interner, c: &ViolationConflict, t: &mut Toks) {
    let src = |s: &Option<ImportName>, it: &Interner, store_imports: &[String]| -> usize {
        match s {
            None => 0,
            Some(n) => store_imports.iter().position(|x| x == n).unwrap() + 1,
        }
    };
    let _ = (it, src);
    match c {
        ViolationConflict::UnauditedConflict { .. } => {
            t.n(0);
        }
        ViolationConflict::AuditConflict { .. } => {
            t.n(1);
        }
    }
}

fn conflicts_line(it: &Interner, imports: &[String], cs: &[ViolationConflict]) -> Toks {
    let src = |s: &Option<ImportName>| -> usize {
        match s {
            None => 0,
            Some(n) => imports.iter().position(|x| x == n).unwrap() + 1,
        }
    };
    let mut t = Toks::new();
    t.n(cs.len());
    for c in cs {
        match c {
            ViolationConflict::UnauditedConflict {
                violation_source,
                violation,
                exemptions,
            } => {
                t.n(0).n(src(violation_source));
                wire::conflict_audit_toks(it, violation, &mut t);
                t.n(it.ver(&exemptions.version));
                t.list(&it.crit_list(&exemptions.criteria));
                t.b(exemptions.suggest);
            }
            ViolationConflict::AuditConflict {
                violation_source,
                violation,
                audit_source,
                audit,
            } => {
                t.n(1).n(src(violation_source));
                wire::conflict_audit_toks(it, violation, &mut t);
                t.n(src(audit_source));
                wire::conflict_audit_toks(it, audit, &mut t);
            }
        }
    }
    t
}

fn edges_toks(it: &Interner, es: &[resolver::verif_hooks::Edge], t: &mut Toks) {
    t.n(es.len());
    for (src, dst, crit, origin, fresh) in es {
        t.n(it.optver(src.as_ref())).n(it.optver(dst.as_ref()));
        t.0.push(bits(crit));
        for x in it.origin(origin) {
            t.n(x);
        }
        t.n(*fresh as usize);
    }
}

fn path_toks(it: &Interner, p: &[DeltaEdgeOrigin], t: &mut Toks) {
    t.n(p.len());
    for o in p {
        for x in it.origin(o) {
            t.n(x);
        }
    }
}

fn outcome_toks(it: &Interner, o: &Result<Vec<DeltaEdgeOrigin>, resolver::SearchFailure>, t: &mut Toks) {
    match o {
        Ok(p) => {
            t.n(0);
            path_toks(it, p, t);
        }
        Err(f) => {
            t.n(1);
            let r: Vec<usize> = f.reachable_from_root.iter().map(|v| it.optver(v.as_ref())).collect();
            let g: Vec<usize> = f.reachable_from_target.iter().map(|v| it.optver(v.as_ref())).collect();
            t.list(&r).list(&g);
        }
    }
}

fn resolve_line(it: &Interner, imports: &[String], rep: &resolver::ResolveReport<'_>) -> String {
    let mut t = Toks::new();
    match &rep.conclusion {
        Conclusion::Success(s) => {
            t.n(0)
                .list(&s.vetted_with_exemptions)
                .list(&s.vetted_partially)
                .list(&s.vetted_fully);
        }
        Conclusion::FailForViolationConflict(f) => {
            t.n(1).n(f.violations.len());
            for (i, cs) in &f.violations {
                t.n(*i);
                t.ext(&conflicts_line(it, imports, cs));
            }
        }
        Conclusion::FailForVet(f) => {
            t.n(2).n(f.failures.len());
            for (i, a) in &f.failures {
                t.n(*i);
                t.0.push(bits(&a.criteria_failures));
            }
        }
    }
    t.n(rep.results.len());
    for r in &rep.results {
        match r {
            None => {
                t.n(0);
            }
            Some(rr) => {
                t.n(2).n(rr.search_results.len());
                for o in &rr.search_results {
                    outcome_toks(it, o, &mut t);
                }
            }
        }
    }
    format!("ok {}", t.text())
}

/// --------------------------------------------------------------------------------------
/// Specification-level oracles, written independently of the resolver (fixpoints and plain
/// reachability over the *records*, not over the implementation's graph).
/// --------------------------------------------------------------------------------------

pub struct Spec {
    pub crits: Vec<String>,
    pub closure: Vec<u64>,
}

impl Spec {
    pub fn new(criteria: &SortedMap<CriteriaName, CriteriaEntry>) -> Option<Spec> {
        let mut names = vec![SAFE_TO_RUN.to_owned(), SAFE_TO_DEPLOY.to_owned()];
        names.extend(criteria.keys().cloned());
        let n = names.len();
        let mut direct = vec![0u64; n];
        direct[1] |= 1;
        for (name, e) in criteria {
            let i = names.iter().position(|x| x == name)?;
            for imp in &e.implies {
                let j = names.iter().position(|x| x == &**imp)?;
                direct[i] |= 1 << j;
            }
        }
        let mut clo: Vec<u64> = (0..n).map(|i| 1u64 << i).collect();
        loop {
            let mut changed = false;
            for i in 0..n {
                let mut s = clo[i];
                for j in 0..n {
                    if clo[i] & (1 << j) != 0 {
                        s |= direct[j];
                    }
                }
                if s != clo[i] {
                    clo[i] = s;
                    changed = true;
                }
            }
            if !changed {
                break;
            }
        }
        Some(Spec { crits: names, closure: clo })
    }
    /// closure of a list of names; None if a name is undefined
    pub fn cl<S: AsRef<str>>(&self, l: &[S]) -> Option<u64> {
        let mut s = 0;
        for c in l {
            let i = self.crits.iter().position(|x| x == c.as_ref())?;
            s |= self.closure[i];
        }
        Some(s)
    }
}

/// Independent reading of the metadata: package facts and edges by package id.
pub struct SpecGraph {
    pub ids: Vec<String>,
    pub name: Vec<String>,
    pub ver: Vec<VetVersion>,
    pub crates_io: Vec<bool>,
    pub nb: Vec<Vec<usize>>,
    pub dev: Vec<Vec<usize>>,
    pub members: Vec<usize>,
}

impl SpecGraph {
    pub fn new(md: &Metadata) -> SpecGraph {
        let ids: Vec<String> = md.packages.iter().map(|p| p.id.repr.clone()).collect();
        let idx = |id: &cargo_metadata::PackageId| ids.iter().position(|x| x == &id.repr).unwrap();
        let mut nb = vec![vec![]; ids.len()];
        let mut dev = vec![vec![]; ids.len()];
        for node in &md.resolve.as_ref().unwrap().nodes {
            let i = idx(&node.id);
            for d in &node.deps {
                let j = idx(&d.pkg);
                for k in &d.dep_kinds {
                    match k.kind {
                        cargo_metadata::DependencyKind::Normal | cargo_metadata::DependencyKind::Build => {
                            if !nb[i].contains(&j) {
                                nb[i].push(j)
                            }
                        }
                        cargo_metadata::DependencyKind::Development => {
                            if !dev[i].contains(&j) {
                                dev[i].push(j)
                            }
                        }
                        _ => {}
                    }
                }
            }
        }
        SpecGraph {
            name: md.packages.iter().map(|p| p.name.clone()).collect(),
            ver: md.packages.iter().map(|p| p.vet_version()).collect(),
            crates_io: md
                .packages
                .iter()
                .map(|p| p.source.as_ref().map(|s| s.repr.starts_with("registry+https://github.com/rust-lang/crates.io-index")).unwrap_or(false))
                .collect(),
            members: md.workspace_members.iter().map(|m| idx(m)).collect(),
            ids,
            nb,
            dev,
        }
    }
    fn policy<'a>(&self, pol: &'a Policy, i: usize) -> Option<&'a PolicyEntry> {
        match pol.package.get(&self.name[i])? {
            PackagePolicyEntry::Unversioned(e) => Some(e),
            PackagePolicyEntry::Versioned { version } => version.get(&self.ver[i]),
        }
    }
    pub fn third_party(&self, pol: &Policy, i: usize) -> bool {
        self.crates_io[i] || self.policy(pol, i).and_then(|p| p.audit_as_crates_io).unwrap_or(false)
    }
    /// The demand of C03 as a least fixpoint of the documented rules. None when a policy names
    /// an undefined criterion.
    pub fn demand(&self, pol: &Policy, spec: &Spec) -> Option<Vec<u64>> {
        let n = self.ids.len();
        // nodes of the normal build graph (reachable from members over normal/build edges)
        let mut in_nb = vec![false; n];
        let mut stack = self.members.clone();
        while let Some(i) = stack.pop() {
            if !in_nb[i] {
                in_nb[i] = true;
                stack.extend(self.nb[i].iter().copied());
            }
        }
        // the maximal graph: plus dev-dependencies of members and what they need
        let mut in_all = in_nb.clone();
        let mut stack: Vec<usize> = self.members.iter().flat_map(|&m| self.dev[m].iter().copied()).collect();
        while let Some(i) = stack.pop() {
            if !in_all[i] {
                in_all[i] = true;
                stack.extend(self.nb[i].iter().copied());
            }
        }
        let is_root = |i: usize| self.members.contains(&i) && !(0..n).any(|q| in_nb[q] && self.nb[q].contains(&i));
        let mut d = vec![0u64; n];
        loop {
            let mut next = vec![0u64; n];
            for p in 0..n {
                if !in_all[p] {
                    continue;
                }
                let pe = self.policy(pol, p);
                if let Some(c) = pe.and_then(|e| e.criteria.as_ref()) {
                    next[p] = spec.cl(c)?;
                    continue;
                }
                let mut s = 0;
                if is_root(p) {
                    s |= spec.cl(&[SAFE_TO_DEPLOY])?;
                }
                for q in 0..n {
                    if !in_all[q] {
                        continue;
                    }
                    let qe = self.policy(pol, q);
                    let dc = qe.and_then(|e| e.dependency_criteria.iter().find(|(k, _)| ***k == self.name[p]).map(|(_, v)| v));
                    if self.nb[q].contains(&p) {
                        s |= match dc {
                            Some(l) => spec.cl(l)?,
                            None => d[q],
                        };
                    }
                    if self.members.contains(&q) && self.dev[q].contains(&p) {
                        s |= match dc {
                            Some(l) => spec.cl(l)?,
                            None => match qe.and_then(|e| e.dev_criteria.as_ref()) {
                                Some(l) => spec.cl(l)?,
                                None => spec.cl(&[SAFE_TO_RUN])?,
                            },
                        };
                    }
                }
                next[p] = s;
            }
            if next == d {
                return Some(d);
            }
            d = next;
        }
    }
}

#[derive(Clone, Debug)]
pub struct SpecEdge {
    pub src: Option<VetVersion>,
    pub dst: VetVersion,
    pub crit: u64,
    /// "full" | "delta" | "exemption" | "wildcard" | "trusted" | "unpublished"
    pub kind: &'static str,
    pub stale_audit: bool,
}

/// The certifying edges of C01 for crate `name`, straight from the records.
pub fn spec_edges(store: &Store, spec: &Spec, name: &str) -> Option<Vec<SpecEdge>> {
    let mut out = Vec::new();
    let all: u64 = if spec.crits.len() >= 64 { u64::MAX } else { (1u64 << spec.crits.len()) - 1 };
    let mut files: Vec<(&AuditsFile, bool)> = store.imported_audits().values().map(|f| (f, false)).collect();
    files.push((&store.audits, true));
    let pubs = store.publishers().get(name).map(|v| &v[..]).unwrap_or(&[]);
    for (f, local) in &files {
        for a in f.audits.get(name).map(|v| &v[..]).unwrap_or(&[]) {
            let crit = spec.cl(&a.criteria)?;
            match &a.kind {
                AuditKind::Full { version } => out.push(SpecEdge { src: None, dst: version.clone(), crit, kind: "full", stale_audit: !a.is_fresh_import }),
                AuditKind::Delta { from, to } => out.push(SpecEdge { src: Some(from.clone()), dst: to.clone(), crit, kind: "delta", stale_audit: !a.is_fresh_import }),
                AuditKind::Violation { .. } => {}
            }
        }
        for w in f.wildcard_audits.get(name).map(|v| &v[..]).unwrap_or(&[]) {
            for p in pubs {
                if p.user_id == w.user_id && *w.start <= p.when && p.when < *w.end {
                    out.push(SpecEdge { src: None, dst: p.version.clone(), crit: spec.cl(&w.criteria)?, kind: "wildcard", stale_audit: !w.is_fresh_import && !p.is_fresh_import });
                }
            }
        }
        if *local {
            for t in f.trusted.get(name).map(|v| &v[..]).unwrap_or(&[]) {
                for p in pubs {
                    if p.user_id == t.user_id && *t.start <= p.when && p.when < *t.end {
                        out.push(SpecEdge { src: None, dst: p.version.clone(), crit: spec.cl(&t.criteria)?, kind: "trusted", stale_audit: !p.is_fresh_import });
                    }
                }
            }
        }
    }
    for u in store.unpublished().get(name).map(|v| &v[..]).unwrap_or(&[]) {
        out.push(SpecEdge { src: Some(u.audited_as.clone()), dst: u.version.clone(), crit: all, kind: "unpublished", stale_audit: false });
    }
    for e in store.config.exemptions.get(name).map(|v| &v[..]).unwrap_or(&[]) {
        out.push(SpecEdge { src: None, dst: e.version.clone(), crit: spec.cl(&e.criteria)?, kind: "exemption", stale_audit: false });
    }
    Some(out)
}

/// versions reachable from "nothing" along edges carrying criterion `c` and accepted by `keep`
pub fn spec_reach(edges: &[SpecEdge], c: usize, keep: &dyn Fn(&SpecEdge) -> bool) -> BTreeSet<Option<VetVersion>> {
    let mut seen: BTreeSet<Option<VetVersion>> = BTreeSet::new();
    seen.insert(None);
    loop {
        let mut grew = false;
        for e in edges {
            if e.crit & (1 << c) != 0 && keep(e) && seen.contains(&e.src) && !seen.contains(&Some(e.dst.clone())) {
                seen.insert(Some(e.dst.clone()));
                grew = true;
            }
        }
        if !grew {
            return seen;
        }
    }
}

/// Is there a violation conflict for crate `name` per C04's second sentence (audits and
/// exemptions touching a violating version while claiming a violated criterion)?
pub fn spec_conflict(store: &Store, spec: &Spec, name: &str) -> Option<bool> {
    let mut files: Vec<&AuditsFile> = store.imported_audits().values().collect();
    files.push(&store.audits);
    let mut viols: Vec<(&VersionReq, Vec<u64>)> = Vec::new();
    for f in &files {
        for a in f.audits.get(name).map(|v| &v[..]).unwrap_or(&[]) {
            if let AuditKind::Violation { violation } = &a.kind {
                let mut sets = Vec::new();
                for c in &a.criteria {
                    sets.push(spec.cl(&[c.to_string()])?);
                }
                viols.push((violation, sets));
            }
        }
    }
    for (req, sets) in &viols {
        let hit = |crit: u64| sets.iter().any(|v| crit & v == *v);
        for e in store.config.exemptions.get(name).map(|v| &v[..]).unwrap_or(&[]) {
            if hit(spec.cl(&e.criteria)?) && req.0.matches(&e.version.semver) {
                return Some(true);
            }
        }
        for f in &files {
            for a in f.audits.get(name).map(|v| &v[..]).unwrap_or(&[]) {
                let crit = spec.cl(&a.criteria)?;
                let touches = match &a.kind {
                    AuditKind::Full { version } => req.0.matches(&version.semver),
                    AuditKind::Delta { from, to } => req.0.matches(&from.semver) || req.0.matches(&to.semver),
                    AuditKind::Violation { .. } => false,
                };
                if touches && hit(crit) {
                    return Some(true);
                }
            }
        }
    }
    Some(false)
}

fn origin_kind(o: &DeltaEdgeOrigin) -> &'static str {
    match o {
        DeltaEdgeOrigin::StoredLocalAudit { .. } => "LocalAudit",
        DeltaEdgeOrigin::ImportedAudit { .. } => "ImportedAudit",
        DeltaEdgeOrigin::WildcardAudit { .. } => "WildcardAudit",
        DeltaEdgeOrigin::Trusted { .. } => "Trusted",
        DeltaEdgeOrigin::Exemption { .. } => "Exemption",
        DeltaEdgeOrigin::Unpublished { .. } => "Unpublished",
        DeltaEdgeOrigin::FreshExemption { .. } => "FreshExemption",
    }
}

/// caveat level of an edge as the *property* C12 reads it: 0 = recorded audits/grants that
/// need nothing new, 1 = needs fresh imports, 2 = exemption / unpublished link
fn coarse_level(e: &SpecEdge) -> u8 {
    match e.kind {
        "exemption" | "unpublished" => 2,
        _ if e.stale_audit => 0,
        _ => 1,
    }
}

/// The report layer (C02): what `print_json` and `print_human` render and what `has_errors`
/// says, compared with the model's `Report.jsonFailures` / `humanFailures` / `exitCode` and, as an
/// oracle, with the uncertified pairs recomputed from the records.
fn check_report(r: &mut Report, d: &mut Driver, it: &Interner, md: &Metadata, rep: &resolver::ResolveReport<'_>, spec: &Spec, expected: Option<&[(usize, u64)]>, case: &str) {
    let cfg = mock_cfg(md);
    let out = BasicTestOutput::new();
    let json_text = match guarded(|| rep.print_json(&out.clone().as_dyn(), None).map(|_| out.to_string())) {
        Ok(Ok(t)) => t,
        other => {
            r.fail("oracle", "C02/report/print-json-fails", format!("{other:?}").chars().take(300).collect(), case);
            return;
        }
    };
    let out2 = BasicTestOutput::new();
    let human_text = match guarded(|| rep.print_human(&out2.clone().as_dyn(), &cfg, None).map(|_| out2.to_string())) {
        Ok(Ok(t)) => t,
        other => {
            r.fail("oracle", "C02/report/print-human-fails", format!("{other:?}").chars().take(300).collect(), case);
            return;
        }
    };
    let parsed: Result<serde_json::Value, _> = serde_json::from_str(&json_text);
    let Ok(parsed) = parsed else {
        r.fail("oracle", "C02/report/json-unparsable", json_text.chars().take(400).collect(), case);
        return;
    };
    let crit_idx = |c: &str| spec.crits.iter().position(|x| x == c).unwrap_or(usize::MAX);
    // (name, version, criteria indices in printed order)
    let mut json_lines: Vec<(String, VetVersion, Vec<usize>)> = Vec::new();
    let json_concl = match parsed["conclusion"].as_str().unwrap_or("") {
        "success" => "success",
        "fail (violation)" => "violation",
        "fail (vetting)" => {
            for l in parsed["failures"].as_array().cloned().unwrap_or_default() {
                let ver = l["version"].as_str().and_then(|v| VetVersion::parse(v).ok());
                let (Some(name), Some(ver), Some(mc)) = (l["name"].as_str(), ver, l["missing_criteria"].as_array()) else {
                    r.fail("oracle", "C02/report/json-unparsable", format!("failure entry {l}"), case);
                    return;
                };
                json_lines.push((name.to_owned(), ver, mc.iter().map(|c| crit_idx(c.as_str().unwrap_or(""))).collect()));
            }
            "failvet"
        }
        other => {
            r.fail("oracle", "C02/report/json-unparsable", format!("conclusion `{other}`"), case);
            return;
        }
    };
    let mut human_lines: Vec<(String, VetVersion, Vec<usize>)> = Vec::new();
    for l in human_text.lines() {
        let Some((head, tail)) = l.split_once(" missing [") else { continue };
        let Some((name, ver)) = head.trim_start().split_once(':') else { continue };
        let Ok(ver) = VetVersion::parse(ver) else { continue };
        let crits: Vec<usize> = tail.trim_end_matches(']').split(", ").filter(|x| !x.is_empty()).map(|x| crit_idx(x.trim_matches('"'))).collect();
        human_lines.push((name.to_owned(), ver, crits));
    }
    let has_errors = rep.has_errors();
    let enc = |lines: &[(String, VetVersion, Vec<usize>)], t: &mut Toks| {
        t.n(lines.len());
        for (n, v, c) in lines {
            t.n(it.name(n)).n(it.ver(v)).list(c);
        }
    };
    let mut t = Toks::new();
    t.n(has_errors as usize);
    enc(&json_lines, &mut t);
    enc(&human_lines, &mut t);
    r.corr("corr.resolve.report", &format!("ok {}", t.text()), &d.ask("report"), case);

    // ---- oracle: the rendered report against the conclusion and the records
    r.oracle_checked += 1;
    let concl = match &rep.conclusion {
        Conclusion::Success(_) => "success",
        Conclusion::FailForViolationConflict(_) => "violation",
        Conclusion::FailForVet(_) => "failvet",
    };
    if r.prop != "C02" {
        return;
    }
    if json_concl != concl {
        r.fail("oracle", "C02/report/json-conclusion", format!("the JSON report says `{json_concl}`, the conclusion is `{concl}`"), case);
    }
    if has_errors != (concl != "success") {
        r.fail("oracle", "C02/report/has-errors", format!("has_errors() = {has_errors} but the conclusion is `{concl}`"), case);
    }
    let human_fail = human_text.contains("Vetting Failed!");
    let human_ok = human_text.contains("Vetting Succeeded");
    if human_ok != (concl == "success") || (human_fail != (concl == "failvet")) {
        r.fail("oracle", "C02/report/human-conclusion", format!("the human report does not state the conclusion `{concl}`: {}", human_text.chars().take(200).collect::<String>()), case);
    }
    let mut hs = human_lines.clone();
    let mut js = json_lines.clone();
    hs.sort();
    js.sort();
    if hs != js {
        r.fail("oracle", "C02/report/human-differs-from-json", format!("human lines {human_lines:?}\njson lines {json_lines:?}"), case);
    }
    if let (Some(expected), "failvet") = (expected, concl) {
        // expected lines: package of node i, minimal names of the uncertified required criteria
        let mut want: Vec<(String, VetVersion, Vec<usize>)> = Vec::new();
        for (i, missing) in expected {
            let p = &rep.graph.nodes[*i];
            let mut names = Vec::new();
            for c in 0..spec.crits.len() {
                if missing & (1 << c) == 0 {
                    continue;
                }
                let implied_by_other = (0..spec.crits.len()).any(|o| o != c && missing & (1 << o) != 0 && spec.closure[o] & (1 << c) != 0);
                if !implied_by_other {
                    names.push(c);
                }
            }
            want.push((p.name.to_owned(), p.version.clone(), names));
        }
        if want != json_lines {
            r.fail("oracle", "C02/report/json-lines", format!("the JSON report lists {json_lines:?}, the uncertified pairs (without implied duplicates) are {want:?}"), case);
        }
    }
}

pub fn check_world(r: &mut Report, d: &mut Driver, w: &gen::GWorld, tag: &str) {
    r.evaluations += 1;
    let store = w.store();
    let md = &w.md;
    let (it, world_line) = wire::enc_world(md, &store);
    let imports: Vec<String> = store.imported_audits().keys().cloned().collect();
    let ans = d.ask(&world_line);
    if ans != "ok" {
        r.fail("corr", "corr.wire.world", format!("driver answered `{ans}`"), &world_line);
        return;
    }
    let case = world_line.as_str();
    let prop = r.prop.clone();

    // --- DepGraph::new
    let graph = match guarded(|| DepGraph::new(md, None, Some(&store.config.policy))) {
        Ok(g) => g,
        Err(e) => {
            r.fail("oracle", &format!("{prop}/panic@depgraph"), e, case);
            return;
        }
    };
    r.corr("corr.depgraph", &graph_line(&it, &graph), &d.ask("graph"), case);

    // --- mapper + requirements
    let mapper = match guarded(|| CriteriaMapper::new(&store.audits.criteria)) {
        Ok(m) => m,
        Err(e) => {
            r.corr("corr.mapper.new", panic_class(&e), &d.ask("reqs"), case);
            return;
        }
    };
    let reqs = guarded(|| resolver::verif_hooks::requirements(&graph, &store.config.policy, &mapper));
    let reqs_line = match &reqs {
        Ok(v) => {
            let mut t = Toks::new();
            t.n(v.len());
            for s in v {
                t.0.push(bits(s));
            }
            format!("ok {}", t.text())
        }
        Err(e) => panic_class(e).to_owned(),
    };
    r.corr("corr.requirements", &reqs_line, &d.ask("reqs"), case);

    // --- AuditGraph::build per name
    let mut names: Vec<&str> = graph.nodes.iter().filter(|p| p.is_third_party).map(|p| p.name).collect();
    names.sort();
    names.dedup();
    let mut n_edges = 0usize;
    for name in &names {
        let line = match guarded(|| AuditGraph::build(&store, &mapper, name, None).map(|g| resolver::verif_hooks::edges(&g))) {
            Ok(Ok((f, b))) => {
                let mut t = Toks::new();
                n_edges += f.len();
                edges_toks(&it, &f, &mut t);
                edges_toks(&it, &b, &mut t);
                format!("graph {}", t.text())
            }
            Ok(Err(cs)) => format!("conflicts {}", conflicts_line(&it, &imports, &cs).text()),
            Err(e) => panic_class(&e).to_owned(),
        };
        r.corr("corr.auditgraph.build", &line, &d.ask(&format!("build {}", it.name(name))), case);
    }

    // --- search in the two modes `resolve` does not use
    if let Ok(_) = &reqs {
        for p in graph.nodes.iter().filter(|p| p.is_third_party) {
            if let Ok(Ok(g)) = guarded(|| AuditGraph::build(&store, &mapper, p.name, None)) {
                for c in 0..mapper.len() {
                    for (mi, mode) in [(1, SearchMode::PreferFreshImports), (2, SearchMode::RegenerateExemptions)] {
                        let line = match guarded(|| g.search(c, &p.version, mode)) {
                            Ok(o) => {
                                let mut t = Toks::new();
                                outcome_toks(&it, &o, &mut t);
                                format!("ok {}", t.text())
                            }
                            Err(e) => panic_class(&e).to_owned(),
                        };
                        let q = format!("search {} {} {} {}", it.name(p.name), it.ver(&p.version), c, mi);
                        r.corr("corr.search", &line, &d.ask(&q), case);
                    }
                }
            }
        }
    }

    // --- resolve
    let rep = guarded(|| resolver::resolve(md, None, &store));
    let line = match &rep {
        Ok(rep) => resolve_line(&it, &imports, rep),
        Err(e) => panic_class(e).to_owned(),
    };
    r.corr("corr.resolve", &line, &d.ask("resolve"), case);

    // ------------------------------------------------------------------ oracles
    let Ok(rep) = rep else { return };
    let Some(spec) = Spec::new(&store.audits.criteria) else { return };
    let sg = SpecGraph::new(md);
    let Some(demand) = sg.demand(&store.config.policy, &spec) else { return };
    // map DepGraph nodes to the independent reading
    let node_of: Vec<usize> = rep
        .graph
        .nodes
        .iter()
        .map(|p| sg.ids.iter().position(|x| x == &p.package_id.repr).unwrap())
        .collect();

    let concl = match &rep.conclusion {
        Conclusion::Success(_) => "success",
        Conclusion::FailForViolationConflict(_) => "violation",
        Conclusion::FailForVet(_) => "failvet",
    };
    r.count(&format!("conclusion:{concl}"));
    r.count(&format!("pkgs:{}", rep.graph.nodes.len()));
    r.count(&format!("edges:{}", (n_edges / 4) * 4));
    r.count(if store.live_imports.is_some() { "view:live" } else { "view:locked" });

    // C03: requirements = demand, third-party classification
    let mut c03_nontrivial = rep.graph.nodes.len() >= 3 && !store.config.policy.package.is_empty();
    if let Ok(reqs) = &reqs {
        r.oracle_checked += 1;
        for (i, p) in rep.graph.nodes.iter().enumerate() {
            let want = demand[node_of[i]];
            if bits(&reqs[i]) != want && prop == "C03" {
                r.fail("oracle", "C03/demand", format!("package {}:{} required {} but the policy rules demand {}", p.name, p.version, bits(&reqs[i]), want), case);
            }
            if p.is_third_party != sg.third_party(&store.config.policy, node_of[i]) && prop == "C03" {
                r.fail("oracle", "C03/third-party", format!("package {}:{} classified third-party={}", p.name, p.version, p.is_third_party), case);
            }
        }
    } else {
        c03_nontrivial = false;
    }

    // per third-party package: chains per required criterion from the records
    let mut all_chains = true;
    let mut any_conflict = false;
    let mut expected_failures: Vec<(usize, u64)> = Vec::new();
    let mut has_records = false;
    let mut c04_relevant = false;
    let mut c06_relevant = false;
    let mut c12_relevant = false;
    for (i, p) in rep.graph.nodes.iter().enumerate() {
        if !sg.third_party(&store.config.policy, node_of[i]) {
            continue;
        }
        let Some(edges) = spec_edges(&store, &spec, p.name) else { return };
        if !edges.is_empty() {
            has_records = true;
        }
        if edges.iter().any(|e| e.kind == "wildcard" || e.kind == "trusted") {
            c06_relevant = true;
        }
        let Some(conf) = spec_conflict(&store, &spec, p.name) else { return };
        any_conflict |= conf;
        let want = demand[node_of[i]];
        let mut missing = 0u64;
        for c in 0..spec.crits.len() {
            if want & (1 << c) == 0 {
                continue;
            }
            let reach = spec_reach(&edges, c, &|_| true);
            if !reach.contains(&Some(p.version.clone())) {
                missing |= 1 << c;
            }
        }
        if missing != 0 {
            all_chains = false;
            expected_failures.push((i, missing));
        }

        // C04 first sentence: a violation covering this version for a required-or-implied criterion
        let mut files: Vec<&AuditsFile> = store.imported_audits().values().collect();
        files.push(&store.audits);
        for f in &files {
            for a in f.audits.get(p.name).map(|v| &v[..]).unwrap_or(&[]) {
                if let AuditKind::Violation { violation } = &a.kind {
                    if !violation.0.matches(&p.version.semver) {
                        continue;
                    }
                    for vc in &a.criteria {
                        let Some(vi) = spec.crits.iter().position(|x| x == &**vc) else { continue };
                        if want & (1 << vi) != 0 {
                            c04_relevant = true;
                            r.oracle_checked += 1;
                            if concl == "success" && prop == "C04" {
                                // which kind of record let it through?
                                let kind = rep.results[i]
                                    .as_ref()
                                    .and_then(|rr| rr.search_results[vi].as_ref().ok())
                                    .and_then(|path| path.first())
                                    .map(origin_kind)
                                    .unwrap_or("?");
                                r.fail("oracle", &format!("C04/edge={kind}"), format!("{}:{} is covered by a violation for `{vc}` (required or implied) yet vet succeeds through a {kind} edge", p.name, p.version), case);
                            }
                        }
                    }
                }
            }
        }

        // C06: every publisher-based origin on an accepted chain is justified by the records
        if let Some(rr) = &rep.results[i] {
            for c in 0..spec.crits.len() {
                if want & (1 << c) == 0 {
                    continue;
                }
                if let Ok(path) = &rr.search_results[c] {
                    let pubs = store.publishers().get(p.name).map(|v| &v[..]).unwrap_or(&[]);
                    for o in path {
                        match o {
                            DeltaEdgeOrigin::WildcardAudit { import_index, audit_index, publisher_index } => {
                                r.oracle_checked += 1;
                                let f = match import_index {
                                    Some(ii) => store.imported_audits().values().nth(*ii).unwrap(),
                                    None => &store.audits,
                                };
                                let e = &f.wildcard_audits[p.name][*audit_index];
                                let pb = &pubs[*publisher_index];
                                let ok = e.user_id == pb.user_id && *e.start <= pb.when && pb.when <= *e.end
                                    && spec.cl(&e.criteria).map(|s| s & (1 << c) != 0).unwrap_or(false);
                                if !ok && prop == "C06" {
                                    r.fail("oracle", "C06/wildcard-unjustified", format!("{}: wildcard audit {e:?} used for publisher record {pb:?} criterion {c}", p.name), case);
                                }
                            }
                            DeltaEdgeOrigin::Trusted { publisher_index } => {
                                r.oracle_checked += 1;
                                let pb = &pubs[*publisher_index];
                                let ok = store.audits.trusted.get(p.name).map(|l| {
                                    l.iter().any(|e| e.user_id == pb.user_id && *e.start <= pb.when && pb.when <= *e.end
                                        && spec.cl(&e.criteria).map(|s| s & (1 << c) != 0).unwrap_or(false))
                                }).unwrap_or(false);
                                if !ok && prop == "C06" {
                                    r.fail("oracle", "C06/trusted-unjustified", format!("{}: trusted edge for publisher record {pb:?} criterion {c} has no local trusted entry", p.name), case);
                                }
                            }
                            _ => {}
                        }
                    }
                }
            }
        }

        // C12: "fully audited" exactly per the property
        if let (Conclusion::Success(s), Some(rr)) = (&rep.conclusion, &rep.results[i]) {
            let uses_exemption = (0..spec.crits.len()).filter(|c| want & (1 << c) != 0).any(|c| {
                rr.search_results[c].as_ref().map(|p| p.iter().any(|o| matches!(o, DeltaEdgeOrigin::Exemption { .. }))).unwrap_or(false)
            });
            let audits_suffice = (0..spec.crits.len()).filter(|c| want & (1 << c) != 0).all(|c| {
                spec_reach(&edges, c, &|e| coarse_level(e) == 0).contains(&Some(p.version.clone()))
            });
            let with_ex = (0..spec.crits.len()).filter(|c| want & (1 << c) != 0).all(|c| {
                spec_reach(&edges, c, &|e| e.kind != "exemption").contains(&Some(p.version.clone()))
            });
            if edges.iter().any(|e| e.kind == "exemption") && edges.iter().any(|e| e.kind != "exemption") {
                c12_relevant = true;
            }
            let fully = s.vetted_fully.contains(&i);
            r.oracle_checked += 1;
            if prop == "C12" {
                if fully && uses_exemption {
                    r.fail("oracle", "C12/fully-but-exemption", format!("{}:{} reported fully audited but a chosen chain uses an exemption", p.name, p.version), case);
                }
                if audits_suffice && !fully {
                    r.fail("oracle", "C12/not-fully-though-audits-suffice", format!("{}:{} not reported fully audited although recorded audits and grants suffice", p.name, p.version), case);
                }
                if fully && !with_ex {
                    r.fail("oracle", "C12/fully-without-exemption-free-chain", format!("{}:{} reported fully audited but some required criterion has no exemption-free chain", p.name, p.version), case);
                }
            }
        }
    }

    // the rendered report (JSON, human, has_errors)
    if prop == "C02" || prop == "C01" {
        check_report(r, d, &it, md, &rep, &spec, if any_conflict { None } else { Some(&expected_failures) }, case);
    }

    // C01 / C02 on the conclusion
    r.oracle_checked += 1;
    match &rep.conclusion {
        Conclusion::Success(_) => {
            if !all_chains && (prop == "C01" || prop == "C02") {
                r.fail("oracle", "C01/success-without-chain", format!("vet succeeds but these (package, criteria) have no certifying chain: {expected_failures:?}"), case);
            }
            if any_conflict && prop == "C04" {
                r.fail("oracle", "C04/conflict-ignored", "an audit or exemption touches a violating version while claiming a violated criterion, yet vet succeeds".into(), case);
            }
        }
        Conclusion::FailForVet(f) => {
            let got: Vec<(usize, u64)> = f.failures.iter().map(|(i, a)| (*i, bits(&a.criteria_failures))).collect();
            if prop == "C02" {
                if any_conflict {
                    r.fail("oracle", "C02/conflict-not-reported", "a violation conflict exists but the failure is reported as missing audits".into(), case);
                } else if got != expected_failures {
                    r.fail("oracle", "C02/failure-set", format!("reported failures {got:?}, uncertified pairs {expected_failures:?}"), case);
                }
            }
            if any_conflict && prop == "C04" {
                r.fail("oracle", "C04/conflict-ignored", "a violation conflict exists but is not reported".into(), case);
            }
        }
        Conclusion::FailForViolationConflict(_) => {
            if !any_conflict && (prop == "C02" || prop == "C04") {
                r.fail("oracle", "C02/spurious-conflict", "violation conflict reported but no audit or exemption touches a violating version".into(), case);
            }
        }
    }

    let nontrivial = match prop.as_str() {
        "C03" => c03_nontrivial,
        "C04" => c04_relevant || any_conflict,
        "C06" => c06_relevant,
        "C12" => c12_relevant,
        _ => has_records,
    };
    if nontrivial {
        r.nontrivial(case);
    }
    if r.samples.len() < 3 {
        r.sample(format!("[{tag}] {} packages, {} names with records, conclusion {concl}: {}", rep.graph.nodes.len(), names.len(), &case[..case.len().min(300)]));
    }
}

/// member `a` (path) depending on crates.io crate `b` at `bver`; empty store
pub fn simple_world(bver: &str) -> gen::GWorld {
    let graph = gen::GGraph {
        pkgs: vec![
            gen::GPkg { name: "a".into(), version: VetVersion::parse("1.0.0").unwrap(), source: 0, member: true, deps: vec![(1, 1)] },
            gen::GPkg { name: "b".into(), version: VetVersion::parse(bver).unwrap(), source: 1, member: false, deps: vec![] },
        ],
        resolve_order: vec![0, 1],
        member_order: vec![0],
    };
    let md = graph.metadata();
    gen::GWorld {
        graph,
        md,
        config: ConfigFile { cargo_vet: Default::default(), default_criteria: get_default_criteria(), imports: SortedMap::new(), policy: Default::default(), exemptions: SortedMap::new() },
        audits: AuditsFile { criteria: SortedMap::new(), wildcard_audits: SortedMap::new(), audits: SortedMap::new(), trusted: SortedMap::new() },
        imports: ImportsFile { unpublished: SortedMap::new(), publisher: SortedMap::new(), audits: SortedMap::new() },
        live: None,
    }
}

fn audit(kind: AuditKind, crit: &str) -> AuditEntry {
    AuditEntry { who: vec![], criteria: vec![gen::sp(crit.to_owned())], kind, importable: true, notes: None, aggregated_from: vec![], is_fresh_import: false }
}

/// hand-written worlds run first in every tier: the witnesses of the known findings
pub fn corpus(prop: &str) -> Vec<(String, gen::GWorld)> {
    let mut out = Vec::new();
    let viol = |req: &str| audit(AuditKind::Violation { violation: VersionReq::parse(req).unwrap() }, SAFE_TO_DEPLOY);
    let publisher = |v: &str| CratesPublisher { version: VetVersion::parse(v).unwrap(), when: gen::date(5), user_id: 7, user_login: "u".into(), user_name: None, is_fresh_import: false };
    if prop == "C04" {
        // F1: violation + wildcard audit by the publisher
        let mut w = simple_world("1.0.0");
        w.audits.audits.insert("b".into(), vec![viol("*")]);
        w.audits.wildcard_audits.insert("b".into(), vec![WildcardEntry { who: vec![], criteria: vec![gen::sp(SAFE_TO_DEPLOY.to_owned())], user_id: 7, start: gen::sp(gen::date(0)), end: gen::sp(gen::date(100)), renew: None, notes: None, aggregated_from: vec![], is_fresh_import: false }]);
        w.imports.publisher.insert("b".into(), vec![publisher("1.0.0")]);
        out.push(("corpus:C04-wildcard".to_owned(), w));
        // F2: violation + trusted publisher
        let mut w = simple_world("1.0.0");
        w.audits.audits.insert("b".into(), vec![viol("*")]);
        w.audits.trusted.insert("b".into(), vec![TrustEntry { criteria: vec![gen::sp(SAFE_TO_DEPLOY.to_owned())], user_id: 7, start: gen::sp(gen::date(0)), end: gen::sp(gen::date(100)), notes: None, aggregated_from: vec![] }]);
        w.imports.publisher.insert("b".into(), vec![publisher("1.0.0")]);
        out.push(("corpus:C04-trusted".to_owned(), w));
        // unpublished link from a clean audited version to the violating in-graph version
        let mut w = simple_world("2.0.0");
        w.audits.audits.insert("b".into(), vec![viol("=2.0.0"), audit(AuditKind::Full { version: VetVersion::parse("1.0.0").unwrap() }, SAFE_TO_DEPLOY)]);
        w.imports.unpublished.insert("b".into(), vec![UnpublishedEntry { version: VetVersion::parse("2.0.0").unwrap(), audited_as: VetVersion::parse("1.0.0").unwrap(), still_unpublished: false, is_fresh_import: false }]);
        out.push(("corpus:C04-unpublished".to_owned(), w));
        // control: the same violation against a full audit is caught
        let mut w = simple_world("1.0.0");
        w.audits.audits.insert("b".into(), vec![viol("*"), audit(AuditKind::Full { version: VetVersion::parse("1.0.0").unwrap() }, SAFE_TO_DEPLOY)]);
        out.push(("corpus:C04-control-full-audit".to_owned(), w));
    }
    out
}

pub fn run(r: &mut Report, replay: Option<&str>) {
    let mut d = Driver::spawn();
    let (shard, nshards) = shard();
    r.rule = "worlds = (dependency graph, criteria table, policy, store incl. imports/publishers/unpublished, live or locked view) generated from cargo-vet's own types; non-trivial: C01/C02 >=1 third-party package with records for its name; C03 >=3 packages and a policy entry; C04 a violation matching an in-graph version for a required criterion or a conflict; C06 a wildcard/trusted edge for an in-graph crate; C12 a crate with both exemption and non-exemption edges; distinct by hash of the encoded world".into();
    if let Some(path) = replay {
        let _ = path;
    }
    let n = if r.thorough() { 120000 } else { 24000 } / nshards;
    let mut rng = Rng::new(r.seed.wrapping_add(shard.wrapping_mul(7919)));
    let only: Option<u64> = std::env::var("VERIF_ONLY").ok().and_then(|s| s.parse().ok());
    if shard == 0 && only.is_none() {
        for (tag, w) in corpus(&r.prop) {
            check_world(r, &mut d, &w, &tag);
        }
        r.evaluations = 0;
    }
    for i in 0..n {
        let mut crng = rng.fork();
        if let Some(o) = only {
            if o != i + 1 {
                continue;
            }
            r.evaluations = i;
        }
        let cfg = gen::WorldCfg {
            max_pkgs: if i % 4 == 0 { 9 } else { 6 },
            max_customs: if i % 3 == 0 { 4 } else { 2 },
            violations: match r.prop.as_str() {
                "C04" => 5,
                _ => if i % 5 == 0 { 3 } else { 1 },
            },
            unknown_criteria: false,
        };
        let w = gen::gen_world(&mut crng, &cfg);
        let nf = r.failures.len();
        check_world(r, &mut d, &w, &format!("random#{i}"));
        r.minimise_last(nf, &w, &mut |sr, cand| check_world(sr, &mut d, cand, "minimising"));
    }
    r.count_n("driver-requests", d.requests);
}
