// C15: malformed stores and peer files are refused or skipped, never crash or pass.
//  (a) well-formed worlds with one structural defect at a chosen site, written to TOML and loaded
//      with the real `Store::mock_acquire` (+ real resolve): outcome class vs the model's
//      `validate` + `resolve`; oracle: never a panic;
//  (b) malformed peer files through the import pipeline (imports.rs, malformed stream);
//  (c) text-level damage of the three files: the real loader must refuse or process, never crash.
use super::*;
use crate::format::*;
use crate::resolver::{self, Conclusion};
use wire::Toks;

const SITES: [&str; 18] = [
    "none", "exemption", "policy-criteria", "policy-dev-criteria", "policy-dependency-criteria", "implies",
    "local-audit", "local-wildcard", "trusted", "lock-audit", "lock-wildcard", "criteria-cycle",
    "criteria-builtin-redefined", "wildcard-end-date", "criteria-map-target", "criteria-too-many",
    "lock-stale-exclude", "lock-import-set",
];

fn bad() -> crate::serialization::spanned::Spanned<String> {
    gen::sp("c-undefined".to_owned())
}

/// apply one defect; returns false if the world has no such site
fn inject(rng: &mut Rng, w: &mut gen::GWorld, site: &str) -> bool {
    match site {
        "none" => true,
        "exemption" => w.config.exemptions.values_mut().flatten().next().map(|e| e.criteria.push(bad())).is_some(),
        "policy-criteria" | "policy-dev-criteria" | "policy-dependency-criteria" => {
            for p in w.config.policy.package.values_mut() {
                let entries: Vec<&mut PolicyEntry> = match p {
                    PackagePolicyEntry::Unversioned(e) => vec![e],
                    PackagePolicyEntry::Versioned { version } => version.values_mut().collect(),
                };
                for e in entries {
                    match site {
                        "policy-criteria" => {
                            e.criteria = Some(vec![bad()]);
                            return true;
                        }
                        "policy-dev-criteria" => {
                            e.dev_criteria = Some(vec![bad()]);
                            return true;
                        }
                        _ => {
                            e.dependency_criteria.insert(gen::sp("zz-outside".to_owned()), vec![bad()]);
                            return true;
                        }
                    }
                }
            }
            false
        }
        "implies" => w.audits.criteria.values_mut().next().map(|c| c.implies.push(bad())).is_some(),
        "local-audit" => w.audits.audits.values_mut().flatten().next().map(|a| a.criteria.push(bad())).is_some(),
        "local-wildcard" => w.audits.wildcard_audits.values_mut().flatten().next().map(|a| a.criteria.push(bad())).is_some(),
        "trusted" => w.audits.trusted.values_mut().flatten().next().map(|a| a.criteria.push(bad())).is_some(),
        "lock-audit" | "lock-wildcard" => {
            // the undefined name may well be one imports.lock itself records for that peer (a
            // criteria-map key of an older cargo-vet, a bad merge): it is foreign all the same
            let recorded = rng.chance(1, 2);
            for f in w.imports.audits.values_mut() {
                let hit = if site == "lock-audit" {
                    f.audits.values_mut().flatten().next().map(|a| a.criteria.push(bad())).is_some()
                } else {
                    f.wildcard_audits.values_mut().flatten().next().map(|a| a.criteria.push(bad())).is_some()
                };
                if hit {
                    if recorded {
                        f.criteria.insert("c-undefined".into(), CriteriaEntry { description: Some("as the peer defines it".into()), description_url: None, implies: vec![], aggregated_from: vec![] });
                    }
                    return true;
                }
            }
            false
        }
        "criteria-cycle" => {
            let names: Vec<String> = w.audits.criteria.keys().cloned().collect();
            if names.len() < 2 {
                if names.len() == 1 {
                    let n = names[0].clone();
                    w.audits.criteria.get_mut(&n).unwrap().implies.push(gen::sp(n.clone()));
                    return true;
                }
                return false;
            }
            let (a, b) = (names[0].clone(), names[1].clone());
            w.audits.criteria.get_mut(&a).unwrap().implies.push(gen::sp(b.clone()));
            w.audits.criteria.get_mut(&b).unwrap().implies.push(gen::sp(a));
            true
        }
        "criteria-builtin-redefined" => {
            w.audits.criteria.insert(
                if rng.chance(1, 2) { SAFE_TO_RUN.to_owned() } else { SAFE_TO_DEPLOY.to_owned() },
                CriteriaEntry { description: Some("mine".into()), description_url: None, implies: vec![], aggregated_from: vec![] },
            );
            true
        }
        "lock-stale-exclude" => {
            // one import's `exclude` names a crate its imports.lock entry still has records for;
            // the other imports get exclude lists that are consistent with the lock
            let names: Vec<String> = w.config.imports.keys().cloned().collect();
            let mut cands: Vec<(String, String)> = Vec::new();
            for n in &names {
                if let Some(f) = w.imports.audits.get(n) {
                    // (the serialiser drops empty tables)
                    for c in f.audits.iter().filter(|(_, l)| !l.is_empty()).map(|(k, _)| k).chain(f.wildcard_audits.iter().filter(|(_, l)| !l.is_empty()).map(|(k, _)| k)) {
                        cands.push((n.clone(), c.clone()));
                    }
                }
            }
            if cands.is_empty() {
                return false;
            }
            let (imp, krate) = cands[rng.below(cands.len())].clone();
            let all_crates: Vec<String> = w.graph.pkgs.iter().map(|p| p.name.clone()).collect();
            for n in &names {
                let mentioned: Vec<String> = w.imports.audits.get(n).map(|f| f.audits.keys().chain(f.wildcard_audits.keys()).cloned().collect()).unwrap_or_default();
                let e = &mut w.config.imports.get_mut(n).unwrap().exclude;
                if *n == imp {
                    e.push(krate.clone());
                } else if let Some(c) = all_crates.iter().find(|c| !mentioned.contains(c)) {
                    e.push(c.clone());
                }
                e.sort();
                e.dedup();
            }
            true
        }
        "lock-import-set" => {
            // config.toml and imports.lock disagree about the set of imports
            let first = w.config.imports.keys().next().cloned();
            if let (0, Some(k)) = (rng.below(3), first.clone()) {
                // a peer renamed in config.toml only: same number of imports, other names
                let v = w.config.imports.remove(&k).unwrap();
                w.config.imports.insert(if rng.chance(1, 2) { "peer-zz".into() } else { "aa-peer".into() }, v);
                true
            } else if rng.chance(1, 2) {
                w.config.imports.insert("peer-zz".into(), RemoteImport { url: vec!["https://peer-zz.example/audits.toml".into()], ..Default::default() });
                true
            } else if let Some(k) = first {
                w.config.imports.remove(&k);
                true
            } else {
                false
            }
        }
        "criteria-map-target" => w
            .config
            .imports
            .values_mut()
            .next()
            .map(|i| {
                i.criteria_map.insert(gen::sp(if rng.chance(1, 2) { SAFE_TO_DEPLOY.to_owned() } else { "p-foreign".to_owned() }), vec![bad()]);
            })
            .is_some(),
        "criteria-too-many" => {
            // 62 customs is the most `CriteriaSet` can hold next to the two built-ins
            let have = w.audits.criteria.len();
            let want = 63 + rng.below(3);
            for i in have..want {
                w.audits.criteria.insert(format!("c-filler-{i:03}"), CriteriaEntry { description: Some("filler".into()), description_url: None, implies: vec![], aggregated_from: vec![] });
            }
            true
        }
        "wildcard-end-date" => w
            .audits
            .wildcard_audits
            .values_mut()
            .flatten()
            .next()
            .map(|a| a.end = gen::sp(mock_today() + chrono::Months::new(12) + chrono::Duration::days(rng.range(0, 2) as i64)))
            .is_some(),
        _ => false,
    }
}

thread_local! { static LAST_REFUSAL: std::cell::RefCell<String> = std::cell::RefCell::new(String::new()); }

fn outcome_of_real(md: &Metadata, files: &SortedMap<String, String>, locked: bool) -> (String, Option<Store>) {
    let today = mock_today();
    let loaded = guarded(|| Store::mock_acquire(&files["config.toml"], &files["audits.toml"], &files["imports.lock"], today, locked));
    match loaded {
        Err(p) => (format!("{}@load", panic_class(&p)), None),
        Ok(Err(e)) => {
            LAST_REFUSAL.with(|l| *l.borrow_mut() = format!("{e:?}").chars().take(700).collect());
            ("refused".to_owned(), None)
        }
        Ok(Ok(store)) => {
            let r = guarded(|| match resolver::resolve(md, None, &store).conclusion {
                Conclusion::Success(_) => "success",
                Conclusion::FailForViolationConflict(_) => "violation",
                Conclusion::FailForVet(_) => "failvet",
            });
            match r {
                Ok(v) => (v.to_owned(), Some(store)),
                Err(p) => (panic_class(&p).to_owned(), Some(store)),
            }
        }
    }
}

pub fn check_world(r: &mut Report, d: &mut Driver, rng: &mut Rng, mut w: gen::GWorld, site: &str, tag: &str) {
    // the on-disk store is what a locked run sees.  An unlocked run replaces the contents of
    // imports.lock by freshly fetched imports before resolving, so loading + resolving the files
    // as they are reproduces it only for a project without peers: strip them in that case.
    w.live = None;
    let locked = site.starts_with("lock-") || site == "criteria-map-target" || rng.chance(1, 2);
    if !locked {
        w.config.imports.clear();
        w.imports.audits.clear();
    }
    // the serialiser drops lock records of excluded crates: keep the lock written before the edit
    let lock_before = if site == "lock-stale-exclude" {
        guarded(|| Store::mock(w.config.clone(), w.audits.clone(), w.imports.clone()).mock_commit()).ok().map(|f| f["imports.lock"].clone())
    } else {
        None
    };
    if !inject(rng, &mut w, site) {
        return;
    }
    r.evaluations += 1;
    let store0 = Store::mock(w.config.clone(), w.audits.clone(), w.imports.clone());
    let mut files = match guarded(|| store0.mock_commit()) {
        Ok(f) => f,
        Err(_) => return,
    };
    if let Some(l) = lock_before {
        files.insert("imports.lock".to_owned(), l);
    }
    let (real, loaded) = outcome_of_real(&w.md, &files, locked);
    r.count(&format!("site:{site}:{real}"));
    let case_txt = format!("site={site} locked={locked}\n--- audits.toml\n{}\n--- config.toml\n{}\n--- imports.lock\n{}", files["audits.toml"], files["config.toml"], files["imports.lock"]);
    r.oracle_checked += 1;
    if std::env::var("VERIF_DEBUG").is_ok() && site == "lock-stale-exclude" && real != "refused" {
        eprintln!("DEBUG-STALE {real}\n{case_txt}");
    }
    if real.starts_with("panic") && r.prop == "C15" {
        r.fail("oracle", &format!("C15/panic@{site}"), format!("a store with a defect at `{site}` is accepted by the loader and then crashes: {real}"), &case_txt);
    }
    if site == "lock-stale-exclude" && real != "refused" && r.prop == "C07" {
        r.fail("oracle", "C07/locked-excluded-crate-accepted", format!("imports.lock records audits of a crate the configuration excludes, and the locked load accepts it: {real}"), &case_txt);
    }
    if site != "none" {
        r.nontrivial(&case_txt);
    }
    // ---- correspondence with the model: validate + resolve on the same (re-loaded) store
    let view = match &loaded {
        Some(s) => Store::mock(s.config.clone(), s.audits.clone(), s.imports.clone()),
        None => {
            // refused by the real loader: encode the store as generated (tidied like commit does)
            match guarded(|| Store::mock_acquire(&files["config.toml"], &files["audits.toml"], &files["imports.lock"], mock_today() - chrono::Duration::days(100000), false)) {
                _ => Store::mock(w.config.clone(), w.audits.clone(), w.imports.clone()),
            }
        }
    };
    let (it, world_line) = wire::enc_world(&w.md, &view);
    if d.ask(&world_line) != "ok" {
        r.fail("corr", "corr.wire.world", "driver rejected the world".into(), &world_line);
        return;
    }
    let max_end = wire::day(&(mock_today() + chrono::Months::new(12)));
    let mut t = Toks::new();
    t.n(max_end).b(locked);
    // configured imports (ids = rank among all import names) with their exclude lists
    let mut all: BTreeSet<String> = view.config.imports.keys().cloned().collect();
    all.extend(view.imports.audits.keys().cloned());
    let all: Vec<String> = all.into_iter().collect();
    t.n(view.config.imports.len());
    for (name, imp) in &view.config.imports {
        t.n(all.iter().position(|x| x == name).unwrap());
        let ex: Vec<usize> = imp.exclude.iter().filter(|e| it.names.contains(e)).map(|e| it.name(e)).collect();
        t.list(&ex);
    }
    t.list(&view.imports.audits.keys().map(|k| all.iter().position(|x| x == k).unwrap()).collect::<Vec<_>>());
    // criteria-map targets (local criteria lists)
    let targets: Vec<Vec<usize>> = view.config.imports.values().flat_map(|i| i.criteria_map.values()).map(|l| it.crit_list(l)).collect();
    t.n(targets.len());
    for l in &targets {
        t.list(l);
    }
    let v = d.ask(&format!("validate {}", t.text()));
    let model = if v.starts_with("refused") {
        "refused".to_owned()
    } else {
        let rr = d.ask("resolve");
        if rr.starts_with("panic") {
            rr
        } else {
            match rr.split(' ').nth(1) {
                Some("0") => "success".to_owned(),
                Some("1") => "violation".to_owned(),
                Some("2") => "failvet".to_owned(),
                _ => rr,
            }
        }
    };
    let why = if real == "refused" { LAST_REFUSAL.with(|l| l.borrow().clone()) } else { String::new() };
    r.corr("corr.validate+resolve", &real.replace("@load", ""), &model, &format!("{case_txt}\n{world_line}\nrefusal: {why}"));
    if r.samples.len() < 4 && site != "none" {
        r.sample(format!("[{tag}] defect at {site}, locked={locked}: real outcome {real}"));
    }
}

/// text-level damage: the loader must refuse or process, never crash
fn text_fuzz(r: &mut Report, rng: &mut Rng, w: &gen::GWorld) {
    let locked = rng.chance(1, 2);
    let (mut config, mut imports) = (w.config.clone(), w.imports.clone());
    if !locked {
        // see check_world: an unlocked run never resolves against imports.lock as it is
        config.imports.clear();
        imports.audits.clear();
    }
    let store0 = Store::mock(config, w.audits.clone(), imports);
    let Ok(mut files) = guarded(|| store0.mock_commit()) else { return };
    let which = ["audits.toml", "config.toml", "imports.lock"][rng.below(3)];
    let text = files[which].clone();
    let lines: Vec<&str> = text.lines().collect();
    if lines.len() < 3 {
        return;
    }
    let kind = rng.below(6);
    let damaged: String = match kind {
        0 => text[..text.char_indices().nth(rng.below(text.chars().count())).map(|(i, _)| i).unwrap_or(0)].to_owned(),
        1 => {
            let i = rng.below(lines.len());
            lines.iter().enumerate().filter(|(j, _)| *j != i).map(|(_, l)| *l).collect::<Vec<_>>().join("\n")
        }
        2 => {
            let i = rng.below(lines.len());
            let mut v = lines.clone();
            v.insert(i, lines[i]);
            v.join("\n")
        }
        3 => {
            // wrong type for a value
            let i = rng.below(lines.len());
            lines.iter().enumerate().map(|(j, l)| if j == i && l.contains(" = ") { format!("{} = 42", l.split(" = ").next().unwrap()) } else { l.to_string() }).collect::<Vec<_>>().join("\n")
        }
        4 => {
            let i = rng.below(lines.len());
            let mut v: Vec<String> = lines.iter().map(|s| s.to_string()).collect();
            v.insert(i, "unknown-field = \"x\"".to_owned());
            v.join("\n")
        }
        _ => {
            // rename a definition / reference
            text.replacen("c-alpha", "c-renamed", 1)
        }
    };
    files.insert(which.to_owned(), damaged);
    r.evaluations += 1;
    r.oracle_checked += 1;
    let (real, _) = outcome_of_real(&w.md, &files, locked);
    r.count(&format!("textfuzz:{kind}:{}", real.split('@').next().unwrap()));
    if real.starts_with("panic") && r.prop == "C15" {
        // same sites as the injected defects: name the unchecked site the damage produced
        let site = if real.contains("unknown-criterion") {
            match which { "imports.lock" => "lock-audit", "audits.toml" => "trusted", _ => "config-dangling-reference" }
        } else if real.contains("implies-itself") { "criteria-cycle" } else if real.contains("dup-criteria") { "criteria-builtin-redefined" } else { "other" };
        r.fail("oracle", &format!("C15/panic@{site}"), format!("damaged {which} (kind {kind}) crashes: {real}"), &format!("--- {which}\n{}", files[which]));
    }
}

/// C07, locked mode: only the sites about imports.lock vs the configured imports
pub fn run_lock_sites(r: &mut Report) {
    let mut d = Driver::spawn();
    let (shard, nshards) = shard();
    let n = if r.thorough() { 12000 } else { 3600 } / nshards;
    let mut rng = Rng::new(r.seed.wrapping_add(shard.wrapping_mul(2750159)) ^ 0xC07);
    for i in 0..n {
        let mut crng = rng.fork();
        let cfg = gen::WorldCfg { max_pkgs: 5, max_customs: 3, violations: 1, unknown_criteria: false };
        let w = gen::gen_world(&mut crng, &cfg);
        let site = ["lock-stale-exclude", "lock-stale-exclude", "lock-import-set", "none"][i as usize % 4];
        check_world(r, &mut d, &mut crng, w, site, &format!("lock#{i}"));
    }
    r.rule.push_str("; PLUS locked loads of generated stores whose imports.lock is stale w.r.t. an import's `exclude` list or the set of imports");
    r.count_n("driver-requests-lock-sites", d.requests);
}

pub fn run(r: &mut Report) {
    let mut d = Driver::spawn();
    let (shard, nshards) = shard();
    r.rule = "stores = generated worlds (locked view) with one structural defect injected at one of 17 sites (imports.lock stale w.r.t. an import's `exclude` list or the set of imports (locked loads); undefined criterion in exemptions / policy criteria, dev-criteria, dependency-criteria / implies / local audits / local wildcard audits / trusted / criteria-map targets / imports.lock audits and wildcard audits (locked loads); implication cycle; built-in redefined; more than 64 criteria; wildcard end date beyond the cap); unlocked loads are of projects without peers, written with the real serialiser and loaded with the real loader; plus text-level damage (truncation, deleted/duplicated line, wrong type, unknown field, renamed definition); non-trivial = a defect was injected; distinct by file contents".into();
    let n = if r.thorough() { 32000 } else { 9000 } / nshards;
    let mut rng = Rng::new(r.seed.wrapping_add(shard.wrapping_mul(2750159)) ^ 0xC15);
    if shard == 0 {
        // deterministic witnesses of the known findings that need a matching publisher record
        let publisher = CratesPublisher { version: VetVersion::parse("1.0.0").unwrap(), when: gen::date(5), user_id: 7, user_login: "u".into(), user_name: None, is_fresh_import: false };
        let mut w = core::simple_world("1.0.0");
        w.audits.trusted.insert("b".into(), vec![TrustEntry { criteria: vec![gen::sp(SAFE_TO_DEPLOY.to_owned())], user_id: 7, start: gen::sp(gen::date(0)), end: gen::sp(gen::date(100)), notes: None, aggregated_from: vec![] }]);
        w.imports.publisher.insert("b".into(), vec![publisher.clone()]);
        check_world(r, &mut d, &mut rng, w, "trusted", "corpus:C15-trusted");
        let mut w = core::simple_world("1.0.0");
        w.config.imports.insert("peer-a".into(), RemoteImport { url: vec!["https://peer-a.example/audits.toml".into()], ..Default::default() });
        let mut f = AuditsFile::default();
        f.wildcard_audits.insert("b".into(), vec![WildcardEntry { who: vec![], criteria: vec![gen::sp(SAFE_TO_DEPLOY.to_owned())], user_id: 7, start: gen::sp(gen::date(0)), end: gen::sp(gen::date(100)), renew: None, notes: None, aggregated_from: vec![], is_fresh_import: false }]);
        f.audits.insert("b".into(), vec![AuditEntry { who: vec![], criteria: vec![gen::sp(SAFE_TO_RUN.to_owned())], kind: AuditKind::Full { version: VetVersion::parse("1.0.0").unwrap() }, importable: true, notes: None, aggregated_from: vec![], is_fresh_import: false }]);
        w.imports.audits.insert("peer-a".into(), f);
        w.imports.publisher.insert("b".into(), vec![publisher]);
        let w2 = gen::GWorld { graph: w.graph.clone(), md: w.md.clone(), config: w.config.clone(), audits: w.audits.clone(), imports: w.imports.clone(), live: None };
        check_world(r, &mut d, &mut rng, w, "lock-wildcard", "corpus:C15-lock-wildcard");
        check_world(r, &mut d, &mut rng, w2, "lock-audit", "corpus:C15-lock-audit");
    }
    for i in 0..n {
        let mut crng = rng.fork();
        let cfg = gen::WorldCfg { max_pkgs: 5, max_customs: 3, violations: 1, unknown_criteria: false };
        let w = gen::gen_world(&mut crng, &cfg);
        if i % 4 == 3 {
            text_fuzz(r, &mut crng, &w);
        } else {
            let site = SITES[(i as usize / 4 * 3 + i as usize % 4) % SITES.len()];
            check_world(r, &mut d, &mut crng, w, site, &format!("random#{i}"));
        }
    }
    r.count_n("driver-requests", d.requests);
    drop(d);
    // (b) the peer side
    imports::run(r);
}
