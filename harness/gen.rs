// Structured generators: dependency graphs (as `cargo metadata` JSON), criteria tables,
// policies and stores built from cargo-vet's own types.  Every choice comes from `Rng`.
use super::*;
use crate::format::*;

pub const PKG_NAMES: [&str; 10] = ["a", "b", "c", "d", "e", "f", "g", "h", "i", "j"];
pub const CUSTOM_NAMES: [&str; 5] = ["c-alpha", "c-beta", "c-gamma", "c-delta", "c-eps"];
const REV_A: &str = "aaaaaaaaaaaaaaaaaaaaaaaaaaaaaaaaaaaaaaaa";
const REV_B: &str = "bbbbbbbbbbbbbbbbbbbbbbbbbbbbbbbbbbbbbbbb";

pub fn sp<T>(x: T) -> crate::serialization::spanned::Spanned<T> {
    x.into()
}

pub fn version_pool() -> Vec<VetVersion> {
    let mut v = Vec::new();
    for s in [
        "1.0.0", "2.0.0", "3.0.0", "4.0.0", "5.0.0", "2.1.0", "3.0.0-pre", "6.0.0",
    ] {
        v.push(VetVersion::parse(s).unwrap());
    }
    v.push(VetVersion::parse(&format!("2.0.0@git:{REV_A}")).unwrap());
    v.push(VetVersion::parse(&format!("3.0.0@git:{REV_B}")).unwrap());
    v
}

#[derive(Clone, Debug)]
pub struct GPkg {
    pub name: String,
    pub version: VetVersion,
    /// 0 = path (first-party), 1 = crates.io, 2 = git
    pub source: u8,
    pub member: bool,
    /// (package index, kind mask: 1 normal, 2 build, 4 dev)
    pub deps: Vec<(usize, u8)>,
}

#[derive(Clone, Debug)]
pub struct GGraph {
    pub pkgs: Vec<GPkg>,
    /// order in which `resolve.nodes` lists them (a permutation)
    pub resolve_order: Vec<usize>,
    pub member_order: Vec<usize>,
}

/// the `repository` every generated local package declares
pub fn local_repository(name: &str) -> String {
    format!("https://example.com/local/{name}")
}

impl GGraph {
    pub fn pkgid(&self, p: &GPkg) -> String {
        match p.source {
            0 => format!("{} {} (path+file:///FAKE/{})", p.name, p.version.semver, p.name),
            1 => format!(
                "{} {} (registry+https://github.com/rust-lang/crates.io-index)",
                p.name, p.version.semver
            ),
            _ => format!(
                "{} {} (git+https://github.com/owner/{}#{})",
                p.name,
                p.version.semver,
                p.name,
                p.version.git_rev.as_deref().unwrap_or("")
            ),
        }
    }
    fn source(&self, p: &GPkg) -> Value {
        match p.source {
            0 => json!(null),
            1 => json!("registry+https://github.com/rust-lang/crates.io-index"),
            _ => format!(
                "git+https://github.com/owner/{}#{}",
                p.name,
                p.version.git_rev.as_deref().unwrap_or("")
            )
            .into(),
        }
    }
    pub fn metadata(&self) -> Metadata {
        let packages: Vec<Value> = self
            .pkgs
            .iter()
            .map(|p| {
                json!({
                    "name": p.name, "version": p.version.semver.to_string(), "id": self.pkgid(p),
                    "license": "MIT", "license_file": null, "description": "whatever",
                    "source": self.source(p),
                    "dependencies": p.deps.iter().map(|(d, _)| { let q = &self.pkgs[*d]; json!({
                        "name": q.name, "source": self.source(q),
                        "req": format!("={}", q.version.semver), "kind": null, "rename": null,
                        "optional": false, "uses_default_features": true, "features": [],
                        "target": null, "registry": null })}).collect::<Vec<_>>(),
                    "targets": [{ "kind": ["lib"], "crate_types": ["lib"], "name": p.name,
                        "src_path": "/FAKE/src/lib.rs", "edition": "2015", "doc": true,
                        "doctest": true, "test": true }],
                    "features": {}, "manifest_path": "/FAKE/Cargo.toml", "metadata": null,
                    "publish": null, "authors": [], "categories": [], "keywords": [],
                    "readme": "README.md", "repository": local_repository(&p.name), "homepage": null,
                    "documentation": null, "edition": "2015", "links": null,
                    "default_run": null, "rust_version": null
                })
            })
            .collect();
        let nodes: Vec<Value> = self
            .resolve_order
            .iter()
            .map(|&i| {
                let p = &self.pkgs[i];
                json!({
                    "id": self.pkgid(p),
                    "dependencies": p.deps.iter().map(|(d, _)| self.pkgid(&self.pkgs[*d])).collect::<Vec<_>>(),
                    "deps": p.deps.iter().map(|(d, mask)| {
                        let mut kinds = vec![];
                        // a platform-gated edge ([target.'cfg(..)'.dependencies]) is an edge all
                        // the same; some edges are gated, some declared both ways
                        let gate = (*d + p.name.len() + p.deps.len()) % 4;
                        let target = if gate == 0 { json!("cfg(windows)") } else { json!(null) };
                        if mask & 1 != 0 { kinds.push(json!({"kind": null, "target": target})); }
                        if mask & 1 != 0 && gate == 1 { kinds.push(json!({"kind": null, "target": "cfg(unix)"})); }
                        if mask & 2 != 0 { kinds.push(json!({"kind": "build", "target": target})); }
                        if mask & 4 != 0 { kinds.push(json!({"kind": "dev", "target": target})); }
                        json!({ "name": self.pkgs[*d].name, "pkg": self.pkgid(&self.pkgs[*d]), "dep_kinds": kinds })
                    }).collect::<Vec<_>>(),
                })
            })
            .collect();
        let members: Vec<String> = self
            .member_order
            .iter()
            .map(|&i| self.pkgid(&self.pkgs[i]))
            .collect();
        let meta_json = json!({
            "packages": packages, "workspace_members": members,
            "resolve": { "nodes": nodes, "root": null },
            "target_directory": "/FAKE/target", "version": 1, "workspace_root": "/FAKE/",
            "metadata": null,
        });
        serde_json::from_value(meta_json).unwrap()
    }
}

/// A dependency graph: acyclic on normal/build edges (lower index depends on higher), dev
/// edges from workspace members to anything (cycles back into the workspace included).
pub fn gen_graph(rng: &mut Rng, max_pkgs: usize) -> GGraph {
    let n = rng.range(1, max_pkgs);
    let pool = version_pool();
    let n_names = rng.range(1, n.min(PKG_NAMES.len()));
    let mut pkgs: Vec<GPkg> = Vec::new();
    let mut used = BTreeSet::new();
    let mut attempts = 0;
    while pkgs.len() < n && attempts < 200 {
        attempts += 1;
        let name = PKG_NAMES[if pkgs.len() < n_names { pkgs.len() } else { rng.below(n_names) }];
        // first package is always a workspace member
        let source: u8 = if pkgs.is_empty() {
            0
        } else {
            *rng.pick(&[0, 0, 1, 1, 1, 1, 1, 2])
        };
        let version = if source == 2 {
            pool[8 + rng.below(2)].clone()
        } else {
            pool[rng.below(8)].clone()
        };
        if !used.insert((name, version.clone(), source)) {
            continue;
        }
        // avoid identical package ids (same name, semver and source kind)
        if pkgs
            .iter()
            .any(|p: &GPkg| p.name == name && p.version.semver == version.semver && p.source == source)
        {
            continue;
        }
        let member = pkgs.is_empty() || (source == 0 && rng.chance(1, 2));
        pkgs.push(GPkg {
            name: name.to_owned(),
            version,
            source,
            member,
            deps: vec![],
        });
    }
    let n = pkgs.len();
    let density = rng.range(1, 3);
    for i in 0..n {
        let mut deps: Vec<(usize, u8)> = Vec::new();
        for j in 0..n {
            if i == j {
                continue;
            }
            let mut mask = 0u8;
            if j > i && rng.chance(density, 4) {
                mask |= *rng.pick(&[1, 1, 1, 2, 3]);
            }
            if pkgs[i].member && rng.chance(1, 5) {
                mask |= 4;
            }
            if mask != 0 {
                deps.push((j, mask));
            }
        }
        // `resolve.nodes[i].deps` order: sometimes shuffled
        if rng.chance(1, 3) {
            for k in (1..deps.len()).rev() {
                let l = rng.below(k + 1);
                deps.swap(k, l);
            }
        }
        pkgs[i].deps = deps;
    }
    let mut resolve_order: Vec<usize> = (0..n).collect();
    if rng.chance(1, 2) {
        for k in (1..n).rev() {
            let l = rng.below(k + 1);
            resolve_order.swap(k, l);
        }
    }
    let mut member_order: Vec<usize> = (0..n).filter(|&i| pkgs[i].member).collect();
    if rng.chance(1, 2) {
        member_order.reverse();
    }
    GGraph {
        pkgs,
        resolve_order,
        member_order,
    }
}

/// Criteria table: `k` customs with implications. `acyclic` orients edges along a random
/// permutation; otherwise cycles may occur (the mapper then panics).
pub fn gen_criteria(rng: &mut Rng, max_customs: usize, acyclic: bool) -> SortedMap<CriteriaName, CriteriaEntry> {
    let k = rng.range(0, max_customs);
    let names: Vec<&str> = CUSTOM_NAMES[..k].to_vec();
    let mut rank: Vec<usize> = (0..k).collect();
    for i in (1..k).rev() {
        let j = rng.below(i + 1);
        rank.swap(i, j);
    }
    let mut out = SortedMap::new();
    for i in 0..k {
        let mut implies = Vec::new();
        for j in 0..k {
            if i != j && (!acyclic || rank[i] < rank[j]) && rng.chance(1, 3) {
                implies.push(sp(names[j].to_owned()));
            }
        }
        if rng.chance(1, 4) {
            implies.push(sp(SAFE_TO_RUN.to_owned()));
        }
        if rng.chance(1, 5) {
            implies.push(sp(SAFE_TO_DEPLOY.to_owned()));
        }
        if rng.chance(1, 10) && !implies.is_empty() {
            let d = implies[0].clone();
            implies.push(d);
        }
        out.insert(
            names[i].to_owned(),
            CriteriaEntry {
                description: Some("d".to_owned()),
                description_url: None,
                implies,
                aggregated_from: vec![],
            },
        );
    }
    out
}

pub fn all_crit_names(criteria: &SortedMap<CriteriaName, CriteriaEntry>) -> Vec<String> {
    let mut v = vec![SAFE_TO_RUN.to_owned(), SAFE_TO_DEPLOY.to_owned()];
    v.extend(criteria.keys().cloned());
    v
}

pub fn gen_crit_list(rng: &mut Rng, names: &[String], allow_empty: bool) -> Vec<crate::serialization::spanned::Spanned<String>> {
    let k = if allow_empty && rng.chance(1, 8) {
        0
    } else {
        *rng.pick(&[1, 1, 1, 2, 2, 3])
    };
    (0..k).map(|_| sp(rng.pick(names).clone())).collect()
}

pub fn date(days: i64) -> chrono::NaiveDate {
    chrono::NaiveDate::from_ymd_opt(2022, 6, 1).unwrap() + chrono::Duration::days(days)
}

pub struct GWorld {
    pub graph: GGraph,
    pub md: Metadata,
    pub config: ConfigFile,
    pub audits: AuditsFile,
    pub imports: ImportsFile,
    pub live: Option<ImportsFile>,
}

impl GWorld {
    pub fn store(&self) -> Store {
        let mut s = Store::mock(self.config.clone(), self.audits.clone(), self.imports.clone());
        s.live_imports = self.live.clone();
        s
    }
}

pub struct WorldCfg {
    pub max_pkgs: usize,
    pub max_customs: usize,
    pub violations: usize, // probability (out of 20) that an audit entry is a violation
    pub unknown_criteria: bool,
}

impl Default for WorldCfg {
    fn default() -> Self {
        WorldCfg {
            max_pkgs: 7,
            max_customs: 3,
            violations: 1,
            unknown_criteria: false,
        }
    }
}

fn gen_audit(rng: &mut Rng, vers: &[VetVersion], crits: &[String], viol: usize, fresh: bool) -> AuditEntry {
    let kind = if rng.chance(viol, 20) {
        let reqs = ["*", "=2.0.0", ">=2.0.0, <4.0.0", "^1", "<3.0.0", ">=3.0.0", "=3.0.0"];
        AuditKind::Violation {
            violation: VersionReq::parse(reqs[rng.below(reqs.len())]).unwrap(),
        }
    } else if rng.chance(2, 5) {
        AuditKind::Full {
            version: rng.pick(vers).clone(),
        }
    } else {
        AuditKind::Delta {
            from: rng.pick(vers).clone(),
            to: rng.pick(vers).clone(),
        }
    };
    AuditEntry {
        who: if rng.chance(1, 2) { vec![sp("w".to_owned())] } else { vec![] },
        criteria: gen_crit_list(rng, crits, false),
        importable: !rng.chance(1, 5),
        kind,
        notes: if rng.chance(1, 4) { Some(format!("n{}", rng.below(3))) } else { None },
        aggregated_from: vec![],
        is_fresh_import: fresh && rng.chance(1, 2),
    }
}

fn gen_wildcard(rng: &mut Rng, crits: &[String], fresh: bool) -> WildcardEntry {
    let start = rng.below(6) as i64 * 10;
    WildcardEntry {
        who: vec![],
        criteria: gen_crit_list(rng, crits, false),
        user_id: rng.range(1, 3) as u64,
        start: sp(date(start)),
        end: sp(date(start + rng.below(5) as i64 * 10)),
        renew: None,
        notes: None,
        aggregated_from: vec![],
        is_fresh_import: fresh && rng.chance(1, 2),
    }
}

/// Generate a whole world. `locked`: no live imports (all freshness flags false).
pub fn gen_world(rng: &mut Rng, cfg: &WorldCfg) -> GWorld {
    let graph = gen_graph(rng, cfg.max_pkgs);
    let md = graph.metadata();
    let criteria = gen_criteria(rng, cfg.max_customs, true);
    let mut crits = all_crit_names(&criteria);
    if cfg.unknown_criteria && rng.chance(1, 3) {
        crits.push("c-undefined".to_owned());
    }
    // names that get records: graph names plus one outsider
    let mut names: Vec<String> = graph.pkgs.iter().map(|p| p.name.clone()).collect();
    names.sort();
    names.dedup();
    let graph_names = names.clone();
    names.push("zz-outside".to_owned());
    let pool = version_pool();
    let vers_of = |name: &str, rng: &mut Rng| -> Vec<VetVersion> {
        // the versions in the graph plus a few neighbours
        let mut v: Vec<VetVersion> = graph
            .pkgs
            .iter()
            .filter(|p| p.name == name)
            .map(|p| p.version.clone())
            .collect();
        for _ in 0..rng.range(1, 3) {
            v.push(rng.pick(&pool).clone());
        }
        v
    };
    let locked = rng.chance(1, 3);

    let mut audits = AuditsFile {
        criteria,
        wildcard_audits: SortedMap::new(),
        audits: SortedMap::new(),
        trusted: SortedMap::new(),
    };
    let density = rng.range(0, 4);
    for name in &names {
        let vs = vers_of(name, rng);
        let k = rng.below(density + 1) + rng.below(2);
        if k > 0 || rng.chance(1, 3) {
            let l: Vec<AuditEntry> = (0..k)
                .map(|_| gen_audit(rng, &vs, &crits, cfg.violations, false))
                .collect();
            audits.audits.insert(name.clone(), l);
        }
        if rng.chance(1, 4) {
            let l: Vec<WildcardEntry> = (0..rng.range(1, 2)).map(|_| gen_wildcard(rng, &crits, false)).collect();
            audits.wildcard_audits.insert(name.clone(), l);
        }
        if rng.chance(1, 5) {
            let l: Vec<TrustEntry> = (0..rng.range(1, 2))
                .map(|_| {
                    let w = gen_wildcard(rng, &crits, false);
                    TrustEntry {
                        criteria: w.criteria,
                        user_id: w.user_id,
                        start: w.start,
                        end: w.end,
                        notes: None,
                        aggregated_from: vec![],
                    }
                })
                .collect();
            audits.trusted.insert(name.clone(), l);
        }
    }

    let mut config = ConfigFile {
        cargo_vet: Default::default(),
        default_criteria: get_default_criteria(),
        imports: SortedMap::new(),
        policy: Default::default(),
        exemptions: SortedMap::new(),
    };
    for name in &names {
        if rng.chance(1, 4) {
            let vs = vers_of(name, rng);
            let l: Vec<ExemptedDependency> = (0..rng.range(1, 2))
                .map(|_| ExemptedDependency {
                    version: rng.pick(&vs).clone(),
                    // (an exemption may list nothing: accepted by the loader, certifies nothing)
                    criteria: if rng.chance(1, 10) { vec![] } else { gen_crit_list(rng, &crits, false) },
                    suggest: !rng.chance(1, 5),
                    notes: None,
                })
                .collect();
            config.exemptions.insert(name.clone(), l);
        }
    }
    // policy
    for name in &graph_names {
        if !rng.chance(1, 3) {
            continue;
        }
        let mut mk = |rng: &mut Rng| PolicyEntry {
            audit_as_crates_io: *rng.pick(&[None, None, Some(false), Some(true)]),
            criteria: if rng.chance(1, 2) { Some(gen_crit_list(rng, &crits, true)) } else { None },
            dev_criteria: if rng.chance(1, 3) { Some(gen_crit_list(rng, &crits, true)) } else { None },
            dependency_criteria: {
                let mut m = CriteriaMap::new();
                for _ in 0..rng.below(3) {
                    m.insert(sp(rng.pick(&names).clone()), gen_crit_list(rng, &crits, true));
                }
                m
            },
            notes: None,
        };
        let entry = if rng.chance(1, 3) {
            let mut m = SortedMap::new();
            for p in graph.pkgs.iter().filter(|p| &p.name == name) {
                if rng.chance(3, 4) {
                    m.insert(p.version.clone(), mk(rng));
                }
            }
            // an empty version map cannot be produced by parsing a file (it serialises to an
            // empty `[policy]` table that reads back as "no policy")
            if m.is_empty() {
                PackagePolicyEntry::Unversioned(mk(rng))
            } else {
                PackagePolicyEntry::Versioned { version: m }
            }
        } else {
            PackagePolicyEntry::Unversioned(mk(rng))
        };
        config.policy.insert(name.clone(), entry);
    }

    // imports: the live view (with freshness) and the locked file
    let n_imports = rng.below(3);
    let import_names = ["peer-a", "peer-b"];
    let mut live = ImportsFile {
        unpublished: SortedMap::new(),
        publisher: SortedMap::new(),
        audits: SortedMap::new(),
    };
    for i in 0..n_imports {
        config.imports.insert(
            import_names[i].to_owned(),
            RemoteImport {
                url: vec![format!("https://{}.example/audits.toml", import_names[i])],
                ..Default::default()
            },
        );
        let mut f = AuditsFile {
            criteria: SortedMap::new(),
            wildcard_audits: SortedMap::new(),
            audits: SortedMap::new(),
            trusted: SortedMap::new(),
        };
        for name in &names {
            let vs = vers_of(name, rng);
            if rng.chance(1, 2) {
                let l: Vec<AuditEntry> = (0..rng.range(1, 3))
                    .map(|_| {
                        let mut a = gen_audit(rng, &vs, &crits, cfg.violations, !locked);
                        a.importable = true;
                        a
                    })
                    .collect();
                f.audits.insert(name.clone(), l);
            }
            if rng.chance(1, 5) {
                let l: Vec<WildcardEntry> = (0..rng.range(1, 2)).map(|_| gen_wildcard(rng, &crits, !locked)).collect();
                f.wildcard_audits.insert(name.clone(), l);
            }
            if rng.chance(1, 8) {
                // a peer's own trusted entries must never grant trust here (C06): they may sit in
                // a hand-edited or older imports.lock
                f.trusted.insert(name.clone(), vec![TrustEntry { criteria: gen_crit_list(rng, &crits, false), user_id: rng.range(1, 3) as u64, start: sp(date(0)), end: sp(date(60)), notes: None, aggregated_from: vec![] }]);
            }
        }
        live.audits.insert(import_names[i].to_owned(), f);
    }
    for name in &names {
        let vs = vers_of(name, rng);
        if rng.chance(1, 3) {
            let l: Vec<CratesPublisher> = (0..rng.range(1, 3))
                .map(|_| CratesPublisher {
                    version: rng.pick(&vs).clone(),
                    when: date(rng.below(10) as i64 * 5),
                    user_id: rng.range(1, 3) as u64,
                    user_login: "u".to_owned(),
                    user_name: None,
                    is_fresh_import: !locked && rng.chance(1, 2),
                })
                .collect();
            live.publisher.insert(name.clone(), l);
        }
        if rng.chance(1, 6) {
            let l: Vec<UnpublishedEntry> = (0..rng.range(1, 2))
                .map(|_| UnpublishedEntry {
                    version: rng.pick(&vs).clone(),
                    audited_as: rng.pick(&vs).clone(),
                    still_unpublished: false,
                    is_fresh_import: !locked && rng.chance(1, 2),
                })
                .collect();
            let mut l = l;
            if l.len() == 2 && rng.chance(1, 2) {
                // two entries for the same pair of versions: what an unlocked run normally sees
                // is the locked entry and, after it, the freshly computed one; the function
                // layer takes them in either order and with either freshness
                l[1] = UnpublishedEntry { is_fresh_import: l[1].is_fresh_import, ..l[0].clone() };
            }
            live.unpublished.insert(name.clone(), l);
        }
    }
    let (imports, live) = if locked {
        (live, None)
    } else {
        // the stored lock: the stale part of the live view
        let mut lock = live.clone();
        for f in lock.audits.values_mut() {
            for l in f.audits.values_mut() {
                l.retain(|a| !a.is_fresh_import);
            }
            for l in f.wildcard_audits.values_mut() {
                l.retain(|a| !a.is_fresh_import);
            }
        }
        for l in lock.publisher.values_mut() {
            l.retain(|a| !a.is_fresh_import);
        }
        for l in lock.unpublished.values_mut() {
            l.retain(|a| !a.is_fresh_import);
        }
        (lock, Some(live))
    };
    GWorld {
        graph,
        md,
        config,
        audits,
        imports,
        live,
    }
}

// ---------------------------------------------------------------------------------------------
// Minimisation of failing worlds (structural delta debugging) and a readable rendering.

/// human-readable rendering of a world: the dependency graph and the store files as cargo-vet
/// itself would write them
pub fn describe(w: &GWorld) -> String {
    let mut out = String::new();
    for (i, p) in w.graph.pkgs.iter().enumerate() {
        out.push_str(&format!(
            "pkg#{i} {}:{} source={} member={} deps={:?}\n",
            p.name,
            p.version,
            match p.source { 0 => "path", 1 => "crates.io", _ => "git" },
            p.member,
            p.deps.iter().map(|(d, k)| format!("{}{}{}->#{d}", if k & 1 != 0 { "n" } else { "" }, if k & 2 != 0 { "b" } else { "" }, if k & 4 != 0 { "d" } else { "" })).collect::<Vec<_>>()
        ));
    }
    let store = w.store();
    match super::guarded(|| store.mock_commit()) {
        Ok(files) => {
            for (k, v) in files {
                out.push_str(&format!("--- {k}\n{v}\n"));
            }
        }
        Err(e) => out.push_str(&format!("(store does not serialise: {e})\n")),
    }
    if let Some(live) = &w.live {
        let s2 = Store::mock(w.config.clone(), w.audits.clone(), live.clone());
        if let Ok(files) = super::guarded(|| s2.mock_commit()) {
            if let Some(v) = files.get("imports.lock") {
                out.push_str(&format!("--- live imports (what peers and crates.io serve now, freshness flags not shown)\n{v}\n"));
            }
        }
    }
    out
}

fn without_pkg(w: &GWorld, i: usize) -> GWorld {
    let mut g = w.graph.clone();
    g.pkgs.remove(i);
    for p in &mut g.pkgs {
        p.deps.retain(|(d, _)| *d != i);
        for (d, _) in &mut p.deps {
            if *d > i {
                *d -= 1;
            }
        }
    }
    let fix = |o: &Vec<usize>| -> Vec<usize> { o.iter().filter(|x| **x != i).map(|x| if *x > i { *x - 1 } else { *x }).collect() };
    g.resolve_order = fix(&g.resolve_order);
    g.member_order = fix(&g.member_order);
    let md = g.metadata();
    GWorld { graph: g, md, config: w.config.clone(), audits: w.audits.clone(), imports: w.imports.clone(), live: w.live.clone() }
}

fn shrink_imports(f: &ImportsFile, out: &mut Vec<ImportsFile>) {
    for (imp, af) in &f.audits {
        for (name, l) in &af.audits {
            for i in 0..l.len() {
                let mut c = f.clone();
                c.audits.get_mut(imp).unwrap().audits.get_mut(name).unwrap().remove(i);
                out.push(c);
            }
        }
        for (name, l) in &af.wildcard_audits {
            for i in 0..l.len() {
                let mut c = f.clone();
                c.audits.get_mut(imp).unwrap().wildcard_audits.get_mut(name).unwrap().remove(i);
                out.push(c);
            }
        }
    }
    for (name, l) in &f.publisher {
        for i in 0..l.len() {
            let mut c = f.clone();
            c.publisher.get_mut(name).unwrap().remove(i);
            out.push(c);
        }
    }
    for (name, l) in &f.unpublished {
        for i in 0..l.len() {
            let mut c = f.clone();
            c.unpublished.get_mut(name).unwrap().remove(i);
            out.push(c);
        }
    }
}

/// one-step reductions of a world, biggest cuts first
pub fn shrink_candidates(w: &GWorld) -> Vec<GWorld> {
    let mut out = Vec::new();
    // drop a package (never the last workspace member)
    let members = w.graph.pkgs.iter().filter(|p| p.member).count();
    for i in (0..w.graph.pkgs.len()).rev() {
        if w.graph.pkgs[i].member && members <= 1 {
            continue;
        }
        out.push(without_pkg(w, i));
    }
    // drop a dependency edge
    for i in 0..w.graph.pkgs.len() {
        for k in 0..w.graph.pkgs[i].deps.len() {
            let mut g = w.graph.clone();
            g.pkgs[i].deps.remove(k);
            let md = g.metadata();
            out.push(GWorld { graph: g, md, ..clone_store(w) });
        }
    }
    // drop whole per-crate tables
    for name in w.audits.audits.keys() {
        let mut c = clone_all(w);
        c.audits.audits.remove(name);
        out.push(c);
    }
    for name in w.config.exemptions.keys() {
        let mut c = clone_all(w);
        c.config.exemptions.remove(name);
        out.push(c);
    }
    for name in w.config.policy.package.keys() {
        let mut c = clone_all(w);
        c.config.policy.package.remove(name);
        out.push(c);
    }
    // drop single records
    for (name, l) in &w.audits.audits {
        for i in 0..l.len() {
            let mut c = clone_all(w);
            c.audits.audits.get_mut(name).unwrap().remove(i);
            out.push(c);
        }
    }
    for (name, l) in &w.audits.wildcard_audits {
        for i in 0..l.len() {
            let mut c = clone_all(w);
            c.audits.wildcard_audits.get_mut(name).unwrap().remove(i);
            out.push(c);
        }
    }
    for (name, l) in &w.audits.trusted {
        for i in 0..l.len() {
            let mut c = clone_all(w);
            c.audits.trusted.get_mut(name).unwrap().remove(i);
            out.push(c);
        }
    }
    for (name, l) in &w.config.exemptions {
        for i in 0..l.len() {
            let mut c = clone_all(w);
            c.config.exemptions.get_mut(name).unwrap().remove(i);
            out.push(c);
        }
    }
    let mut imps = Vec::new();
    shrink_imports(&w.imports, &mut imps);
    for f in imps {
        let mut c = clone_all(w);
        c.imports = f;
        out.push(c);
    }
    if let Some(live) = &w.live {
        let mut c = clone_all(w);
        c.live = None;
        out.push(c);
        let mut lv = Vec::new();
        shrink_imports(live, &mut lv);
        for f in lv {
            let mut c = clone_all(w);
            c.live = Some(f);
            out.push(c);
        }
    }
    out
}

fn clone_all(w: &GWorld) -> GWorld {
    GWorld { graph: w.graph.clone(), md: w.md.clone(), config: w.config.clone(), audits: w.audits.clone(), imports: w.imports.clone(), live: w.live.clone() }
}

fn clone_store(w: &GWorld) -> GWorld {
    clone_all(w)
}

/// Greedy minimisation: keep taking the first one-step reduction on which `still_fails` holds,
/// within `budget` evaluations.  Returns the reduced world and the number of reductions taken.
pub fn minimise(w: &GWorld, budget: usize, still_fails: &mut dyn FnMut(&GWorld) -> bool) -> (GWorld, usize) {
    let mut cur = clone_all(w);
    let mut left = budget;
    let mut steps = 0;
    'outer: loop {
        for cand in shrink_candidates(&cur) {
            if left == 0 {
                break 'outer;
            }
            left -= 1;
            if still_fails(&cand) {
                cur = cand;
                steps += 1;
                continue 'outer;
            }
        }
        break;
    }
    (cur, steps)
}
