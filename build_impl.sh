#!/bin/bash
# Build cargo-vet's unit-test binary from /repo's working tree with the verification harness.
# Prints the path of the test executable on the last line.
set -o pipefail
HERE="$(cd "$(dirname "${BASH_SOURCE[0]}")" && pwd)"
REPO="${VERIF_REPO:-/repo}"
mkdir -p "$HERE/.build"
cd "$REPO"
export VET_VERIF_HARNESS=$HERE/harness/mod.rs VET_VERIF_DIR=$HERE/harness
export CARGO_TARGET_DIR=$HERE/.build/target CARGO_NET_OFFLINE=true RUSTFLAGS="-Awarnings"
out=$(cargo test --offline --features verif --no-run --bin cargo-vet --message-format=json 2>$HERE/.build/cargo.err) || { cargo test --offline --features verif --no-run --bin cargo-vet 2>&1 | grep -E "^error" -A 12 | head -80; exit 2; }
echo "$out" | python3 -c "
import sys, json
exe=None
for l in sys.stdin:
    try: m=json.loads(l)
    except Exception: continue
    if m.get('reason')=='compiler-artifact' and m.get('executable') and m.get('profile',{}).get('test'):
        exe=m['executable']
print(exe)
"
