#!/bin/bash
# run every claimed property's quick (or $1) check in sequence; summary on stdout
tier=${1:-quick}
cd "$(dirname "$0")/.."
for p in $(python3 -c "import json;print(' '.join(c['property_id'] for c in json.load(open('MANIFEST.json'))['checks']))"); do
  s=$(date +%s)
  out=$(./check $p --tier $tier 2>&1); rc=$?
  echo "== $p rc=$rc $(( $(date +%s)-s ))s"
  echo "$out" | grep -E "VIOLATION|KNOWN-FINDING|NOTE|proof obligations" 
done
