#!/bin/bash
# verify_seed.sh <worktree> <mutation dir>: confirm in a scratch worktree that the mutation
# compiles and passes the existing unit suite, and that the demonstration fails with it and
# passes without it.  Writes <mutation dir>/verified.json.
WT=$1; M=$2
cd $WT || exit 2
git checkout -q -- . && git clean -fdq src
ok_suite=false; demo_fails=false; demo_passes=false
git apply $M/patch.diff || { echo '{"error":"patch does not apply"}' > $M/verified.json; exit 1; }
out=$(cargo test --offline --bin cargo-vet 2>&1 | tail -5)
echo "$out" | grep -q "test result: ok. 254 passed" && ok_suite=true
git apply $M/demo.diff || { echo '{"error":"demo does not apply"}' > $M/verified.json; git checkout -q -- .; git clean -fdq src; exit 1; }
out2=$(cargo test --offline --bin cargo-vet 2>&1 | tail -8)
echo "$out2" | grep -q "test result: FAILED" && demo_fails=true
nfail=$(echo "$out2" | grep -o "[0-9]* failed" | head -1)
git apply -R $M/patch.diff
out3=$(cargo test --offline --bin cargo-vet 2>&1 | tail -5)
echo "$out3" | grep -q "test result: ok" && demo_passes=true
git checkout -q -- . && git clean -fdq src
echo "{\"suite_passes_with_mutation\": $ok_suite, \"demo_fails_with_mutation\": $demo_fails, \"demo_passes_without\": $demo_passes, \"failed_with_mutation\": \"$nfail\"}" > $M/verified.json
cat $M/verified.json
