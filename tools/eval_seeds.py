#!/usr/bin/env python3
"""Apply each seeded mutation to /repo, run the quick checks, undo, record what was caught."""
import json, os, subprocess, sys, shutil, glob
ROOT = os.path.dirname(os.path.dirname(os.path.abspath(__file__)))
REPO = os.environ.get('VERIF_REPO', '/repo')
PROPS = sorted(c["property_id"] for c in json.load(open(ROOT + '/MANIFEST.json'))["checks"])
def sh(cmd, **kw):
    return subprocess.run(cmd, shell=True, stdout=subprocess.PIPE, stderr=subprocess.STDOUT, text=True, **kw)
seeds = sys.argv[1:] or sorted(glob.glob(ROOT + '/seeded/*/'))
for d in seeds:
    d = os.path.abspath(d.rstrip('/'))
    meta_path = os.path.join(d, 'meta.json')
    meta = json.load(open(meta_path))
    if os.path.exists(REPO + '/.git'):
        assert sh('git -C %s status --porcelain --untracked-files=no' % REPO).stdout.strip() == '', 'repo not clean'
    r = sh('git -C %s apply %s/patch.diff' % (REPO, d))
    if r.returncode != 0:
        meta['evaluation'] = {'error': 'patch does not apply: ' + r.stdout[-300:]}
        json.dump(meta, open(meta_path, 'w'), indent=1); print(os.path.basename(d), 'PATCH DOES NOT APPLY', flush=True); continue
    caught, details = [], {}
    try:
        only = meta.get('check_props') or PROPS
        for p in only:
            rr = sh('cd %s && timeout 2400 ./check %s --tier quick' % (ROOT, p))
            viol = [l for l in rr.stdout.splitlines() if l.startswith('VIOLATION')]
            details[p] = {'exit': rr.returncode, 'violations': viol[:3]}
            if rr.returncode != 0 or viol:
                caught.append(p)
                # keep the first replay's signature
                for v in viol[:1]:
                    path = v.split('replay=')[1].split()[0]
                    try:
                        rp = json.load(open(path))
                        details[p]['signature'] = rp.get('signature') or rp.get('kind')
                        details[p]['detail'] = (rp.get('detail') or str(rp.get('problems')))[:400]
                    except Exception as e:
                        pass
    finally:
        sh('git -C %s apply -R %s/patch.diff' % (REPO, d))
    meta['evaluation'] = {'caught_by': caught, 'checks': details}
    json.dump(meta, open(meta_path, 'w'), indent=1)
    print(os.path.basename(d), 'breaks', meta['property'], '-> caught by', caught, flush=True)
# restore evidence for the unchanged tree is the caller's job
