#!/usr/bin/env python3
"""Final evaluation of every seeded change with the machinery as committed: the check of the
property the change breaks (plus, where an earlier evaluation caught it only through another
property's check, that check).  Writes meta['evaluation_final']."""
import json, os, subprocess, sys, glob
ROOT = os.path.dirname(os.path.dirname(os.path.abspath(__file__)))
REPO = os.environ.get('VERIF_REPO', '/repo')
def sh(cmd):
    return subprocess.run(cmd, shell=True, stdout=subprocess.PIPE, stderr=subprocess.STDOUT, text=True)
for d in sys.argv[1:]:
    d = os.path.abspath(d.rstrip('/'))
    mp = os.path.join(d, 'meta.json')
    meta = json.load(open(mp))
    props = [meta['property']]
    prev = (meta.get('evaluation') or {}).get('caught_by') or []
    if prev and meta['property'] not in prev:
        props.append(prev[0])
    assert sh('git -C %s status --porcelain --untracked-files=no' % REPO).stdout.strip() == '', 'repo not clean'
    r = sh('git -C %s apply %s/patch.diff' % (REPO, d))
    if r.returncode != 0:
        meta['evaluation_final'] = {'error': 'patch does not apply on the current tree: ' + r.stdout[-300:]}
        json.dump(meta, open(mp, 'w'), indent=1); print(meta['id'], 'PATCH DOES NOT APPLY', flush=True); continue
    caught, details = [], {}
    try:
        for p in props:
            rr = sh('cd %s && timeout 2400 ./check %s --tier quick' % (ROOT, p))
            viol = [l for l in rr.stdout.splitlines() if l.startswith('VIOLATION')]
            details[p] = {'exit': rr.returncode, 'violations': [v.replace(ROOT, '/verif') for v in viol[:3]]}
            if rr.returncode != 0 or viol:
                caught.append(p)
                for v in viol[:1]:
                    path = v.split('replay=')[1].split()[0]
                    try:
                        rp = json.load(open(path))
                        details[p]['signature'] = rp.get('signature') or rp.get('kind')
                        details[p]['detail'] = (rp.get('detail') or str(rp.get('problems')))[:300]
                    except Exception:
                        pass
                break
    finally:
        sh('git -C %s apply -R %s/patch.diff' % (REPO, d))
    meta['evaluation_final'] = {'caught_by': caught, 'checks': details, 'repo_head': sh('git -C %s rev-parse --short HEAD' % REPO).stdout.strip()}
    json.dump(meta, open(mp, 'w'), indent=1)
    print(meta['id'], 'breaks', meta['property'], '-> caught by', caught, flush=True)
