#!/usr/bin/env python3
"""Regenerate the table of seeded changes in DESIGN.md (between the SEEDED_TABLE markers)
from seeded/*/meta.json."""
import json, glob, os, re
ROOT = os.path.dirname(os.path.dirname(os.path.abspath(__file__)))
rows = ["| id | breaks | change | needs, to manifest | caught by (quick tier) | first signature |", "|---|---|---|---|---|---|"]
for d in sorted(glob.glob(ROOT + "/seeded/*/")):
    m = json.load(open(d + "meta.json"))
    ev = m.get("evaluation_final") or m.get("evaluation", {})
    caught = ev.get("caught_by")
    sig = ""
    for p in (caught or []):
        s = ev.get("checks", {}).get(p, {}).get("signature")
        if s:
            sig = "%s: %s" % (p, s); break
    def cell(s):
        return str(s).replace("|", "/").replace("\n", " ")
    rows.append("| %s | %s | %s | %s | %s | %s |" % (
        m.get("id", os.path.basename(d.rstrip("/"))), m["property"], cell(m.get("mutation", ""))[:160],
        cell(m.get("needs_to_manifest", ""))[:140],
        ("**missed**" if caught == [] else ", ".join(caught) if caught else "not evaluated"), cell(sig)[:70]))
text = open(ROOT + "/DESIGN.md").read()
block = "<!-- SEEDED_TABLE_BEGIN -->\n" + "\n".join(rows) + "\n<!-- SEEDED_TABLE_END -->"
if "SEEDED_TABLE_PLACEHOLDER" in text:
    text = text.replace("SEEDED_TABLE_PLACEHOLDER", block)
else:
    text = re.sub(r"<!-- SEEDED_TABLE_BEGIN -->.*?<!-- SEEDED_TABLE_END -->", lambda _: block, text, flags=re.S)
open(ROOT + "/DESIGN.md", "w").write(text)
print(len(rows) - 2, "rows")
