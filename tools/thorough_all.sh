#!/bin/bash
# every claimed property's thorough check in sequence against a given repo copy
cd "$(dirname "$0")/.."
export VERIF_REPO=${VP_RUN_REPO:-${VERIF_REPO:-/repo}}
./setup.sh > setup.log 2>&1 || { tail -20 setup.log; exit 2; }
for p in $(python3 -c "import json;print(' '.join(c['property_id'] for c in json.load(open('MANIFEST.json'))['checks']))"); do
  s=$(date +%s)
  out=$(VERIF_SEED=${VERIF_SEED:-3} ./check $p --tier thorough 2>&1); rc=$?
  echo "== $p rc=$rc $(( $(date +%s)-s ))s"
  echo "$out" | grep -E "VIOLATION|KNOWN-FINDING|NOTE|proof obligations" | cut -c1-300
done
