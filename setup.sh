#!/bin/bash
# Build the Lean model, theorems and driver, and cargo-vet's test binary with the harness.
set -e
cd /verif/lean
lake build Vet vetdriver $(ls Vet/Props/*.lean 2>/dev/null | sed 's#/#.#g; s#\.lean$##')
cd /verif
mkdir -p .build evidence replay
./build_impl.sh | tail -1
