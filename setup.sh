#!/bin/bash
# Build the Lean model, theorems and driver, and cargo-vet's test binary with the harness.
set -e
HERE="$(cd "$(dirname "${BASH_SOURCE[0]}")" && pwd)"
cd "$HERE/lean"
lake build Vet vetdriver $(ls Vet/Props/*.lean 2>/dev/null | sed 's#/#.#g; s#\.lean$##')
cd "$HERE"
mkdir -p .build evidence replay
./build_impl.sh | tail -1
