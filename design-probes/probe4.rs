use super::*;
use crate::resolver::Conclusion;

fn concl(c: &Conclusion) -> &'static str {
    match c {
        Conclusion::Success(_) => "SUCCESS",
        Conclusion::FailForVet(_) => "FAILVET",
        Conclusion::FailForViolationConflict(_) => "VIOLATION",
    }
}

// C15: well-formatted imports.lock naming an undefined criterion, locked
#[test]
fn probe4_c15_lock_ghost_criteria() {
    let _enter = TEST_RUNTIME.enter();
    let mock = MockMetadata::simple();
    let metadata = mock.metadata();
    let (mut config, mut audits, mut imports) = builtin_files_full_audited(&metadata);
    audits.audits.remove("third-party2");
    imports.audits.insert(
        FOREIGN.to_owned(),
        AuditsFile {
            criteria: SortedMap::new(),
            wildcard_audits: SortedMap::new(),
            audits: [(
                "third-party2".to_owned(),
                vec![full_audit(ver(DEFAULT_VER), "ghost-criteria")],
            )]
            .into_iter()
            .collect(),
            trusted: SortedMap::new(),
        },
    );
    config.imports.insert(
        FOREIGN.to_owned(),
        crate::format::RemoteImport { url: vec![FOREIGN_URL.to_owned()], ..Default::default() },
    );
    let files = Store::mock(config, audits, imports).mock_commit();
    let r = Store::mock_acquire(
        &files["config.toml"], &files["audits.toml"], &files["imports.lock"], mock_today(), true,
    );
    match r {
        Err(e) => eprintln!("PROBE4 lock ghost: refused {e:?}"),
        Ok(store) => {
            eprintln!("PROBE4 lock ghost: locked acquire OK");
            let r = std::panic::catch_unwind(std::panic::AssertUnwindSafe(|| {
                concl(&crate::resolver::resolve(&metadata, None, &store).conclusion)
            }));
            eprintln!("PROBE4 lock ghost resolve: {:?}", r.map_err(|_| "PANIC"));
        }
    }
}

// C15: imports.lock criteria entry without description, then go online
#[test]
fn probe4_c15_lock_criteria_no_description() {
    let _enter = TEST_RUNTIME.enter();
    let mock = MockMetadata::simple();
    let metadata = mock.metadata();
    let (mut config, audits, mut imports) = files_full_audited(&metadata);
    imports.audits.insert(
        FOREIGN.to_owned(),
        AuditsFile {
            criteria: [(
                "fuzzed".to_owned(),
                CriteriaEntry { description: None, description_url: None, implies: vec![], aggregated_from: vec![] },
            )]
            .into_iter()
            .collect(),
            wildcard_audits: SortedMap::new(),
            audits: SortedMap::new(),
            trusted: SortedMap::new(),
        },
    );
    config.imports.insert(
        FOREIGN.to_owned(),
        crate::format::RemoteImport {
            url: vec![FOREIGN_URL.to_owned()],
            criteria_map: [("fuzzed".to_string().into(), vec!["fuzzed".to_string().into()])].into_iter().collect(),
            ..Default::default()
        },
    );
    let foreign = AuditsFile {
        criteria: [("fuzzed".to_owned(), criteria("fuzzed"))].into_iter().collect(),
        wildcard_audits: SortedMap::new(),
        audits: SortedMap::new(),
        trusted: SortedMap::new(),
    };
    let cfg = mock_cfg(&metadata);
    let mut network = Network::new_mock();
    network.mock_serve_toml(FOREIGN_URL, &foreign);
    // is the on-disk form accepted?
    let files = Store::mock(config.clone(), audits.clone(), imports.clone()).mock_commit();
    let r = Store::mock_acquire(&files["config.toml"], &files["audits.toml"], &files["imports.lock"], mock_today(), true);
    eprintln!("PROBE4 lock nodesc: locked acquire ok = {}", r.is_ok());
    let r = std::panic::catch_unwind(std::panic::AssertUnwindSafe(|| {
        Store::mock_online(&cfg, config, audits, imports, &network, false).map(|_| ())
    }));
    match r {
        Ok(Ok(())) => eprintln!("PROBE4 lock nodesc online: OK"),
        Ok(Err(e)) => eprintln!("PROBE4 lock nodesc online: diagnostic {e}"),
        Err(_) => eprintln!("PROBE4 lock nodesc online: PANIC"),
    }
}

// C13: regenerate exemptions twice
#[test]
fn probe4_c13_regen_twice() {
    let _enter = TEST_RUNTIME.enter();
    let mock = MockMetadata::simple();
    let metadata = mock.metadata();
    let (mut config, mut audits, mut imports) = files_full_audited(&metadata);
    for (_n, p) in config.policy.package.iter_mut() {
        if let PackagePolicyEntry::Unversioned(p) = p {
            p.criteria = Some(vec!["reviewed".to_string().into(), "fuzzed".to_string().into()]);
        }
    }
    audits.audits.remove("third-party1");
    audits.audits.remove("transitive-third-party1");
    audits.audits.remove("third-party2");
    let mk = |list: Vec<AuditEntry>| AuditsFile {
        criteria: [
            ("reviewed".to_owned(), criteria("reviewed")),
            ("fuzzed".to_owned(), criteria("fuzzed")),
        ].into_iter().collect(),
        wildcard_audits: SortedMap::new(),
        audits: ["third-party1", "transitive-third-party1", "third-party2"]
            .into_iter().map(|n| (n.to_owned(), list.clone())).collect(),
        trusted: SortedMap::new(),
    };
    let s_a = full_audit(ver(DEFAULT_VER), "reviewed");
    let f_ab = full_audit_m(ver(DEFAULT_VER), ["fuzzed", "reviewed"]);
    let mut old_foreign = mk(vec![s_a.clone()]);
    old_foreign.criteria.clear();
    let new_foreign = mk(vec![f_ab.clone(), s_a.clone()]);
    imports.audits.insert(FOREIGN.to_owned(), old_foreign);
    config.imports.insert(
        FOREIGN.to_owned(),
        crate::format::RemoteImport {
            url: vec![FOREIGN_URL.to_owned()],
            criteria_map: [
                ("reviewed".to_string().into(), vec!["reviewed".to_string().into()]),
                ("fuzzed".to_string().into(), vec!["fuzzed".to_string().into()]),
            ].into_iter().collect(),
            ..Default::default()
        },
    );
    let cfg = mock_cfg(&metadata);
    let mut network = Network::new_mock();
    network.mock_serve_toml(FOREIGN_URL, &new_foreign);
    for (label, sm) in [
        ("regen-exemptions", crate::resolver::SearchMode::RegenerateExemptions),
        ("regen-imports", crate::resolver::SearchMode::PreferFreshImports),
    ] {
        let mode = move |_: &str| crate::resolver::UpdateMode {
            search_mode: sm, prune_exemptions: true, prune_non_importable_audits: true, prune_imports: true,
        };
        let mut store = Store::mock_online(&cfg, config.clone(), audits.clone(), imports.clone(), &network, true).unwrap();
        crate::resolver::update_store(&cfg, &mut store, mode);
        let out1 = store.mock_commit();
        let mut store2 = Store::mock_online(&cfg, store.config.clone(), store.audits.clone(), store.imports.clone(), &network, true).unwrap();
        crate::resolver::update_store(&cfg, &mut store2, mode);
        let out2 = store2.mock_commit();
        eprintln!("PROBE4 c13 {label} idempotent: {}", out1 == out2);
    }
}
