use super::*;

fn roundtrip(tag: &str, config: ConfigFile, audits: AuditsFile, imports: ImportsFile) {
    let store = Store::mock(config, audits, imports);
    let out1 = store.mock_commit();
    let r = std::panic::catch_unwind(std::panic::AssertUnwindSafe(|| {
        Store::mock_acquire(
            &out1["config.toml"],
            &out1["audits.toml"],
            &out1["imports.lock"],
            mock_today(),
            true,
        )
    }));
    match r {
        Err(_) => eprintln!("PROBE3 {tag}: PANIC on reload"),
        Ok(Err(e)) => eprintln!("PROBE3 {tag}: REFUSED own output: {e:?}"),
        Ok(Ok(store2)) => {
            let out2 = store2.mock_commit();
            let same_bytes = out1 == out2;
            let same_audits = store.audits == store2.audits;
            let same_imports = store.imports == store2.imports;
            let same_cfg = format!("{:?}", store.config) == format!("{:?}", store2.config);
            eprintln!("PROBE3 {tag}: bytes={same_bytes} audits={same_audits} imports={same_imports} config={same_cfg}");
            if !same_bytes { eprintln!("{}", diff_store_commits(&out1, &out2)); }
            if !same_cfg {
                eprintln!("CFG1 {:?}\nCFG2 {:?}", store.config.policy, store2.config.policy);
            }
            if !same_audits {
                eprintln!("A1 {:?}\nA2 {:?}", store.audits, store2.audits);
            }
        }
    }
}

#[test]
fn probe3_c14() {
    let _enter = TEST_RUNTIME.enter();
    let mock = MockMetadata::simple();
    let metadata = mock.metadata();

    // 1: nasty strings
    {
        let (mut config, mut audits, imports) = files_full_audited(&metadata);
        let nasty = "line1\nline2 \"quoted\" 'single' ''' triple \\ backslash \t tab \u{7f} \u{1} é 漢 \r\n end ";
        let mut a = full_audit(ver(DEFAULT_VER), "reviewed");
        a.notes = Some(nasty.to_owned());
        a.who = vec![nasty.to_owned().into(), "b".to_owned().into()];
        audits.audits.insert("third-party1".to_owned(), vec![a]);
        config.exemptions.insert(
            "third-party2".to_owned(),
            vec![ExemptedDependency {
                version: VetVersion::parse("1.2.3-alpha.1+build.5@git:00112233445566778899aabbccddeeff00112233").unwrap(),
                criteria: vec![],
                suggest: false,
                notes: Some("".to_owned()),
            }],
        );
        roundtrip("nasty-strings", config, audits, imports);
    }
    // 2: empty who element / empty notes / criteria with one empty string
    {
        let (config, mut audits, imports) = files_full_audited(&metadata);
        let mut a = full_audit(ver(DEFAULT_VER), "reviewed");
        a.who = vec!["".to_owned().into()];
        a.notes = Some("".to_owned());
        audits.audits.insert("third-party1".to_owned(), vec![a]);
        roundtrip("empty-strings", config, audits, imports);
    }
    // 3: versioned policy with empty map; policy with Some(vec![]) criteria; long dependency-criteria
    {
        let (mut config, audits, imports) = files_full_audited(&metadata);
        config.policy.insert(
            "third-party1".to_owned(),
            PackagePolicyEntry::Versioned { version: SortedMap::new() },
        );
        let mut dc = CriteriaMap::new();
        for i in 0..12 {
            dc.insert(format!("some-long-dependency-name-{i}").into(), vec!["reviewed".to_string().into(), "fuzzed".to_string().into()]);
        }
        config.policy.insert(
            "first-party".to_owned(),
            PackagePolicyEntry::Unversioned(PolicyEntry {
                audit_as_crates_io: Some(false),
                criteria: Some(vec![]),
                dev_criteria: None,
                dependency_criteria: dc,
                notes: None,
            }),
        );
        roundtrip("policy-shapes", config, audits, imports);
    }
    // 4: equal sort keys, different importable / aggregated_from
    {
        let (config, mut audits, imports) = files_full_audited(&metadata);
        let mut a = full_audit(ver(DEFAULT_VER), "reviewed");
        let mut b = a.clone();
        a.importable = false;
        b.aggregated_from = vec!["https://x".to_owned().into()];
        audits.audits.insert("third-party1".to_owned(), vec![a, b]);
        roundtrip("equal-sort-keys", config, audits, imports);
    }
    // 5: criteria entry with neither description nor url; implies single
    {
        let (config, mut audits, imports) = files_full_audited(&metadata);
        audits.criteria.insert(
            "zzz".to_owned(),
            CriteriaEntry { description: None, description_url: None, implies: vec!["reviewed".to_string().into()], aggregated_from: vec![] },
        );
        roundtrip("criteria-no-desc", config, audits, imports);
    }
    // 6: wildcard audit with renew Some(true), who empty; trusted
    {
        let (config, mut audits, mut imports) = files_full_audited(&metadata);
        let mut w = wildcard_audit(1, "reviewed");
        w.renew = Some(true);
        w.who = vec![];
        audits.wildcard_audits.insert("third-party1".to_owned(), vec![w]);
        audits.trusted.insert("third-party1".to_owned(), vec![trusted_entry(1, "reviewed")]);
        imports.publisher.insert("third-party1".to_owned(), vec![publisher_entry(ver(DEFAULT_VER), 1)]);
        imports.unpublished.insert("third-party1".to_owned(), vec![crate::format::UnpublishedEntry{ version: ver(11), audited_as: ver(10), still_unpublished: false, is_fresh_import: false }]);
        roundtrip("wildcard-trusted-imports", config, audits, imports);
    }
    // 7: package name with colon in unversioned policy
    {
        let (mut config, audits, imports) = files_full_audited(&metadata);
        config.policy.insert(
            "weird:1.0.0".to_owned(),
            PackagePolicyEntry::Unversioned(PolicyEntry { notes: Some("n".into()), ..Default::default() }),
        );
        roundtrip("colon-name", config, audits, imports);
    }
}
