import Topo.Basic
namespace Topo

variable {deps : Nat → List Nat}

theorem not_mem_stack (hac : Acyclic deps) {S : List Nat} {n : Nat}
    (hS : ∀ s ∈ S, Reach deps s n) : n ∉ S :=
  fun h => hac n (hS n h)

/-- the contract of one `visit` call -/
def Contract (deps : Nat → List Nat) (U : List Nat) (fuel : Nat) : Prop :=
  ∀ n S vis ord, Inv deps S vis ord → n ∈ U → (∀ s ∈ S, Reach deps s n) → unvisited U vis < fuel →
    Post deps S vis ord (visit deps fuel n (vis, ord)).1 (visit deps fuel n (vis, ord)).2 ∧
    n ∈ (visit deps fuel n (vis, ord)).2

theorem fold_children {U : List Nat} {fuel : Nat} (H : Contract deps U fuel)
    (S : List Nat) (top : Nat) :
    ∀ (cs : List Nat) vis ord, Inv deps S vis ord → (∀ c ∈ cs, c ∈ U) →
      (∀ c ∈ cs, ∀ s ∈ S, Reach deps s c) → unvisited U vis < fuel →
      let r := cs.foldl (fun st c => visit deps fuel c st) (vis, ord)
      Post deps S vis ord r.1 r.2 ∧ ∀ c ∈ cs, c ∈ r.2 := by
  intro cs
  induction cs with
  | nil => intro vis ord inv _ _ _; exact ⟨Post.refl inv, by simp⟩
  | cons c cs ih =>
    intro vis ord inv hU hR hf
    simp only [List.foldl_cons]
    have hc := H c S vis ord inv (hU c (by simp)) (hR c (by simp)) hf
    generalize hst : visit deps fuel c (vis, ord) = st at hc
    obtain ⟨v1, o1⟩ := st
    obtain ⟨hpost, hmem⟩ := hc
    have hf1 : unvisited U v1 < fuel := Nat.lt_of_le_of_lt (unvisited_mono hpost.mono) hf
    have := ih v1 o1 hpost.inv (fun c' h => hU c' (by simp [h])) (fun c' h => hR c' (by simp [h])) hf1
    obtain ⟨hpost2, hmem2⟩ := this
    refine ⟨hpost.trans hpost2, ?_⟩
    intro c' hc'
    simp at hc'
    rcases hc' with rfl | hc'
    · obtain ⟨e, he, _⟩ := hpost2.ext
      simp at he hmem
      rw [he]; simp [hmem]
    · exact hmem2 c' hc'

theorem visit_contract (hac : Acyclic deps) (U : List Nat) (hU : ∀ a b, b ∈ deps a → b ∈ U) :
    ∀ fuel, Contract deps U fuel := by
  intro fuel
  induction fuel with
  | zero => intro n S vis ord _ _ _ hf; exact absurd hf (Nat.not_lt_zero _)
  | succ fuel ih =>
    intro n S vis ord inv hn hS hf
    have hnS : n ∉ S := not_mem_stack hac hS
    simp only [visit]
    split
    · rename_i hvis
      have hvis' : n ∈ vis := by simpa using hvis
      refine ⟨Post.refl inv, ?_⟩
      rcases (inv.split n).1 hvis' with h | h
      · exact h
      · exact absurd h hnS
    · rename_i hvis
      have hvis' : n ∉ vis := by simpa using hvis
      -- invariant with `n` pushed on the ghost stack
      have inv0 : Inv deps (n :: S) (n :: vis) ord := by
        refine ⟨inv.topo, ?_, ?_⟩
        · intro x
          simp
          constructor
          · rintro (rfl | h)
            · exact Or.inr (Or.inl rfl)
            · rcases (inv.split x).1 h with h | h
              · exact Or.inl h
              · exact Or.inr (Or.inr h)
          · rintro (h | rfl | h)
            · exact Or.inr ((inv.split x).2 (Or.inl h))
            · exact Or.inl rfl
            · exact Or.inr ((inv.split x).2 (Or.inr h))
        · intro x hx
          simp
          refine ⟨?_, inv.disj x hx⟩
          rintro rfl
          exact hvis' ((inv.split x).2 (Or.inl hx))
      have hf0 : unvisited U (n :: vis) < fuel := by
        have := unvisited_cons_lt (U := U) hn hvis'
        omega
      have hfold := fold_children ih (n :: S) n (deps n) (n :: vis) ord inv0
        (fun c hc => hU n c hc)
        (fun c hc s hs => by
          simp at hs
          rcases hs with rfl | hs
          · exact Reach.step hc
          · exact Reach.trans (hS s hs) hc)
        hf0
      generalize hst : (deps n).foldl (fun st c => visit deps fuel c st) (n :: vis, ord) = st at hfold
      obtain ⟨v1, o1⟩ := st
      obtain ⟨hpost, hmem⟩ := hfold
      simp only
      have hn_o1 : n ∉ o1 := fun h => hpost.inv.disj n h (by simp)
      obtain ⟨e, he, hne⟩ := hpost.ext
      refine ⟨⟨⟨?_, ?_, ?_⟩, ⟨e ++ [n], by simp only [] at he; rw [he, List.append_assoc], ?_⟩, ?_⟩, by simp⟩
      · exact TopoList.snoc hpost.inv.topo hmem hn_o1
      · intro x
        have := hpost.inv.split x
        simp at this ⊢
        rw [this]
        constructor
        · rintro (h | rfl | h)
          · exact Or.inl (Or.inl h)
          · exact Or.inl (Or.inr rfl)
          · exact Or.inr h
        · rintro ((h | rfl) | h)
          · exact Or.inl h
          · exact Or.inr (Or.inl rfl)
          · exact Or.inr (Or.inr h)
      · intro x hx
        simp at hx
        rcases hx with hx | rfl
        · have := hpost.inv.disj x hx
          simp at this
          exact this.2
        · exact hnS
      · intro x hx
        simp at hx
        rcases hx with hx | rfl
        · have := hne x hx
          simp at this
          exact this.2
        · exact hvis'
      · intro x hx
        exact hpost.mono x (List.mem_cons_of_mem _ hx)

/-- top level: the order produced from the empty state is a topological list containing the root -/
theorem visit_topo (hac : Acyclic deps) (U : List Nat) (hU : ∀ a b, b ∈ deps a → b ∈ U)
    (n : Nat) (hn : n ∈ U) :
    TopoList deps (visit deps (U.length + 1) n ([], [])).2 ∧ n ∈ (visit deps (U.length + 1) n ([], [])).2 := by
  have inv : Inv deps [] [] [] := ⟨TopoList.nil, by simp, by simp⟩
  have hf : unvisited U [] < U.length + 1 := by
    unfold unvisited
    have := List.countP_le_length (p := fun u => !([] : List Nat).contains u) (l := U)
    omega
  have := visit_contract hac U hU (U.length + 1) n [] [] [] inv hn (by simp) hf
  exact ⟨this.1.inv.topo, this.2⟩

end Topo
