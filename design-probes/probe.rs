use super::*;
use crate::resolver::Conclusion;

fn concl(c: &Conclusion) -> &'static str {
    match c {
        Conclusion::Success(_) => "SUCCESS",
        Conclusion::FailForVet(_) => "FAILVET",
        Conclusion::FailForViolationConflict(_) => "VIOLATION",
    }
}

// C04: violation + wildcard audit
#[test]
fn probe_c04_wildcard_vs_violation() {
    let _enter = TEST_RUNTIME.enter();
    let mock = MockMetadata::simple();
    let metadata = mock.metadata();
    let (config, mut audits, mut imports) = builtin_files_full_audited(&metadata);
    audits.audits.insert(
        "transitive-third-party1".to_owned(),
        vec![violation("*".parse().unwrap(), SAFE_TO_DEPLOY)],
    );
    audits.wildcard_audits.insert(
        "transitive-third-party1".to_owned(),
        vec![wildcard_audit(1, SAFE_TO_DEPLOY)],
    );
    imports.publisher.insert(
        "transitive-third-party1".to_owned(),
        vec![publisher_entry(ver(DEFAULT_VER), 1)],
    );
    let store = Store::mock(config, audits, imports);
    let report = crate::resolver::resolve(&metadata, None, &store);
    eprintln!("PROBE c04 wildcard: {}", concl(&report.conclusion));
}

// C04: violation + trusted
#[test]
fn probe_c04_trusted_vs_violation() {
    let _enter = TEST_RUNTIME.enter();
    let mock = MockMetadata::simple();
    let metadata = mock.metadata();
    let (config, mut audits, mut imports) = builtin_files_full_audited(&metadata);
    audits.audits.insert(
        "transitive-third-party1".to_owned(),
        vec![violation("*".parse().unwrap(), SAFE_TO_DEPLOY)],
    );
    audits.trusted.insert(
        "transitive-third-party1".to_owned(),
        vec![trusted_entry(1, SAFE_TO_DEPLOY)],
    );
    imports.publisher.insert(
        "transitive-third-party1".to_owned(),
        vec![publisher_entry(ver(DEFAULT_VER), 1)],
    );
    let store = Store::mock(config, audits, imports);
    let report = crate::resolver::resolve(&metadata, None, &store);
    eprintln!("PROBE c04 trusted: {}", concl(&report.conclusion));
}

// C15: trusted entry with undefined criteria
#[test]
fn probe_c15_trusted_undefined_criteria() {
    let _enter = TEST_RUNTIME.enter();
    let mock = MockMetadata::simple();
    let metadata = mock.metadata();
    let (config, mut audits, mut imports) = builtin_files_full_audited(&metadata);
    audits.audits.remove("transitive-third-party1");
    audits.trusted.insert(
        "transitive-third-party1".to_owned(),
        vec![trusted_entry(1, "no-such-criteria")],
    );
    imports.publisher.insert(
        "transitive-third-party1".to_owned(),
        vec![publisher_entry(ver(DEFAULT_VER), 1)],
    );
    let store = Store::mock(config, audits, imports);
    let v = store.validate(mock_today(), false);
    eprintln!("PROBE c15 trusted validate ok: {}", v.is_ok());
    let r = std::panic::catch_unwind(std::panic::AssertUnwindSafe(|| {
        let report = crate::resolver::resolve(&metadata, None, &store);
        concl(&report.conclusion)
    }));
    eprintln!("PROBE c15 trusted resolve: {:?}", r.map_err(|_| "PANIC"));
}

// C15: criteria implication cycle in own audits.toml
#[test]
fn probe_c15_cycle() {
    let audits = r#"
[criteria.a]
description = "a"
implies = "b"

[criteria.b]
description = "b"
implies = "a"

[audits]
"#;
    let config = r#"
[cargo-vet]
version = "1.0"
"#;
    let imports = "";
    let r = std::panic::catch_unwind(|| {
        Store::mock_acquire(config, audits, imports, mock_today(), false).map(|_| ())
    });
    match r {
        Ok(Ok(())) => {
            eprintln!("PROBE c15 cycle: acquire OK (not refused)");
        }
        Ok(Err(e)) => eprintln!("PROBE c15 cycle: refused {e}"),
        Err(_) => eprintln!("PROBE c15 cycle: PANIC in acquire"),
    }
    let _enter = TEST_RUNTIME.enter();
    let mock = MockMetadata::simple();
    let metadata = mock.metadata();
    let store = Store::mock_acquire(config, audits, imports, mock_today(), false).unwrap();
    let r = std::panic::catch_unwind(std::panic::AssertUnwindSafe(|| {
        let report = crate::resolver::resolve(&metadata, None, &store);
        concl(&report.conclusion)
    }));
    eprintln!("PROBE c15 cycle resolve: {:?}", r.map_err(|_| "PANIC"));
}

// C07: exclude vs wildcard audits from peer
#[test]
fn probe_c07_exclude_wildcard() {
    let _enter = TEST_RUNTIME.enter();
    let mock = MockMetadata::simple();
    let metadata = mock.metadata();
    let (mut config, mut audits, imports) = builtin_files_full_audited(&metadata);
    audits.audits.remove("third-party2");
    let foreign = AuditsFile {
        criteria: SortedMap::new(),
        wildcard_audits: [(
            "third-party2".to_owned(),
            vec![wildcard_audit(1, SAFE_TO_DEPLOY)],
        )]
        .into_iter()
        .collect(),
        audits: SortedMap::new(),
        trusted: SortedMap::new(),
    };
    config.imports.insert(
        FOREIGN.to_owned(),
        crate::format::RemoteImport {
            url: vec![FOREIGN_URL.to_owned()],
            exclude: vec!["third-party2".to_owned()],
            ..Default::default()
        },
    );
    let cfg = mock_cfg(&metadata);
    let mut network = Network::new_mock();
    network.mock_serve_toml(FOREIGN_URL, &foreign);
    MockRegistryBuilder::new()
        .user(1, "user1", "User One")
        .package(
            "third-party2",
            &[reg_published_by(ver(DEFAULT_VER), Some(1), mock_weeks_ago(2))],
        )
        .serve(&mut network);
    let store = Store::mock_online(&cfg, config, audits, imports, &network, true).unwrap();
    let report = crate::resolver::resolve(&metadata, None, &store);
    eprintln!(
        "PROBE c07 excluded crate vetted via peer wildcard: {}",
        concl(&report.conclusion)
    );
}

// C15: peer serving an implication cycle
#[test]
fn probe_c15_peer_cycle() {
    let _enter = TEST_RUNTIME.enter();
    let mock = MockMetadata::simple();
    let metadata = mock.metadata();
    let (mut config, audits, imports) = builtin_files_full_audited(&metadata);
    let foreign = AuditsFile {
        criteria: [
            ("a".to_owned(), criteria_implies("a", ["b"])),
            ("b".to_owned(), criteria_implies("b", ["a"])),
        ]
        .into_iter()
        .collect(),
        wildcard_audits: SortedMap::new(),
        audits: SortedMap::new(),
        trusted: SortedMap::new(),
    };
    config.imports.insert(
        FOREIGN.to_owned(),
        crate::format::RemoteImport {
            url: vec![FOREIGN_URL.to_owned()],
            ..Default::default()
        },
    );
    let cfg = mock_cfg(&metadata);
    let mut network = Network::new_mock();
    network.mock_serve_toml(FOREIGN_URL, &foreign);
    let r = std::panic::catch_unwind(std::panic::AssertUnwindSafe(|| {
        Store::mock_online(&cfg, config, audits, imports, &network, true).map(|_| ())
    }));
    match r {
        Ok(Ok(())) => eprintln!("PROBE c15 peer cycle: OK"),
        Ok(Err(e)) => eprintln!("PROBE c15 peer cycle: diagnostic {e}"),
        Err(_) => eprintln!("PROBE c15 peer cycle: PANIC"),
    }
}

// C13: prune twice
#[test]
fn probe_c13_prune_twice() {
    let _enter = TEST_RUNTIME.enter();
    let mock = MockMetadata::simple();
    let metadata = mock.metadata();
    let (mut config, mut audits, mut imports) = files_full_audited(&metadata);
    // third-party1 requires "reviewed" (+ weak-reviewed implied). Make root require
    // both reviewed and fuzzed, which are unrelated.
    for (_n, p) in config.policy.package.iter_mut() {
        if let PackagePolicyEntry::Unversioned(p) = p {
            p.criteria = Some(vec!["reviewed".to_string().into(), "fuzzed".to_string().into()]);
        }
    }
    audits.audits.remove("third-party1");
    audits.audits.remove("transitive-third-party1");
    audits.audits.remove("third-party2");
    // Lock has: full audit for "reviewed" only (S_a). Peer serves, in order:
    //  F_ab: full audit for [fuzzed, reviewed]; S_a: full audit for reviewed.
    let mk = |list: Vec<AuditEntry>| AuditsFile {
        criteria: SortedMap::new(),
        wildcard_audits: SortedMap::new(),
        audits: ["third-party1", "transitive-third-party1", "third-party2"]
            .into_iter()
            .map(|n| (n.to_owned(), list.clone()))
            .collect(),
        trusted: SortedMap::new(),
    };
    let s_a = full_audit(ver(DEFAULT_VER), "reviewed");
    let f_ab = full_audit_m(ver(DEFAULT_VER), ["fuzzed", "reviewed"]);
    let old_foreign = mk(vec![s_a.clone()]);
    let new_foreign = mk(vec![f_ab.clone(), s_a.clone()]);
    imports.audits.insert(FOREIGN.to_owned(), old_foreign);
    config.imports.insert(
        FOREIGN.to_owned(),
        crate::format::RemoteImport {
            url: vec![FOREIGN_URL.to_owned()],
            criteria_map: [
                ("reviewed".to_string().into(), vec!["reviewed".to_string().into()]),
                ("fuzzed".to_string().into(), vec!["fuzzed".to_string().into()]),
            ]
            .into_iter()
            .collect(),
            ..Default::default()
        },
    );
    let cfg = mock_cfg(&metadata);
    let mut network = Network::new_mock();
    // peer needs to define the criteria
    let mut new_foreign = new_foreign;
    new_foreign.criteria = [
        ("reviewed".to_owned(), criteria("reviewed")),
        ("fuzzed".to_owned(), criteria("fuzzed")),
    ]
    .into_iter()
    .collect();
    network.mock_serve_toml(FOREIGN_URL, &new_foreign);

    let prune_mode = |_: &str| crate::resolver::UpdateMode {
        search_mode: crate::resolver::SearchMode::PreferFreshImports,
        prune_exemptions: true,
        prune_non_importable_audits: true,
        prune_imports: true,
    };

    let mut store =
        Store::mock_online(&cfg, config.clone(), audits.clone(), imports, &network, true).unwrap();
    let report = crate::resolver::resolve(&metadata, None, &store);
    eprintln!("PROBE c13 before prune: {}", concl(&report.conclusion));
    crate::resolver::update_store(&cfg, &mut store, prune_mode);
    let out1 = store.mock_commit();
    // reload
    let mut store2 = Store::mock_online(
        &cfg,
        store.config.clone(),
        store.audits.clone(),
        store.imports.clone(),
        &network,
        true,
    )
    .unwrap();
    let report = crate::resolver::resolve(&metadata, None, &store2);
    eprintln!("PROBE c13 after prune1: {}", concl(&report.conclusion));
    crate::resolver::update_store(&cfg, &mut store2, prune_mode);
    let out2 = store2.mock_commit();
    eprintln!("PROBE c13 prune idempotent: {}", out1 == out2);
    if out1 != out2 {
        eprintln!("{}", diff_store_commits(&out1, &out2));
    }
}

fn mk_cfg_real_cache(metadata: &Metadata, cache_dir: &std::path::Path) -> Config {
    let crate::cli::FakeCli::Vet(cli) =
        crate::cli::FakeCli::try_parse_from(["cargo", "vet"]).unwrap();
    Config {
        metacfg: MetaConfig(vec![]),
        metadata: metadata.clone(),
        _rest: PartialConfig {
            cli,
            now: mock_now(),
            cache_dir: cache_dir.to_owned(),
            mock_cache: false,
        },
    }
}

fn tarball(entries: &[(&str, u8, &[u8], Option<&str>)]) -> Vec<u8> {
    // (path, kind: 0 file, 2 symlink, 5 dir, data, linkname)
    let mut raw = Vec::new();
    {
        let mut b = tar::Builder::new(&mut raw);
        for (path, kind, data, link) in entries {
            let mut h = tar::Header::new_gnu();
            h.set_mode(0o644);
            match kind {
                0 => {
                    h.set_entry_type(tar::EntryType::Regular);
                    h.set_size(data.len() as u64);
                    h.set_cksum();
                    b.append_data(&mut h, path, *data).unwrap();
                }
                2 => {
                    h.set_entry_type(tar::EntryType::Symlink);
                    h.set_size(0);
                    b.append_link(&mut h, path, link.unwrap()).unwrap();
                }
                _ => unreachable!(),
            }
        }
        b.finish().unwrap();
    }
    raw
}

fn gz(raw: &[u8]) -> Vec<u8> {
    use std::io::Write;
    let mut e = flate2::write::GzEncoder::new(Vec::new(), flate2::Compression::none());
    e.write_all(raw).unwrap();
    e.finish().unwrap()
}

#[test]
fn probe_c19() {
    let _enter = TEST_RUNTIME.enter();
    let mock = MockMetadata::simple();
    let metadata = mock.metadata();
    let tmp = tempfile::tempdir().unwrap();
    std::env::set_var("CARGO_HOME", tmp.path().join("cargo-home"));
    let cache_dir = tmp.path().join("cache");
    let cfg = mk_cfg_real_cache(&metadata, &cache_dir);

    // --- marker carried by archive + truncation
    {
        let cache = crate::storage::Cache::acquire(&cfg).unwrap();
        let big = vec![b'x'; 100_000];
        let raw = tarball(&[
            ("evil-1.0.0/.cargo-ok", 0, b"ok", None),
            ("evil-1.0.0/a.rs", 0, b"fn a(){}", None),
            ("evil-1.0.0/big.rs", 0, &big, None),
            ("evil-1.0.0/last.rs", 0, b"fn last(){}", None),
        ]);
        let cut = &raw[..raw.len() - 80_000];
        std::fs::write(cache_dir.join("cache").join("evil-1.0.0.crate"), gz(cut)).unwrap();
        let v = VetVersion::parse("1.0.0").unwrap();
        let r1 = TEST_RUNTIME.block_on(cache.fetch_package(&metadata, None, "evil", &v));
        eprintln!("PROBE c19 first fetch (truncated): {:?}", r1.as_ref().map(|_| "OK").map_err(|e| e.to_string()));
        let r2 = TEST_RUNTIME.block_on(cache.fetch_package(&metadata, None, "evil", &v));
        eprintln!("PROBE c19 second fetch: {:?}", r2.as_ref().map(|_| "OK").map_err(|e| e.to_string()));
        if let Ok(p) = &r2 {
            eprintln!("PROBE c19 partial tree handed out; last.rs exists: {}", p.join("last.rs").exists());
        }
    }
    // --- symlink to sibling
    {
        let cache = crate::storage::Cache::acquire(&cfg).unwrap();
        std::fs::create_dir_all(cache_dir.join("src").join("victim-1.0.0")).unwrap();
        let raw = tarball(&[
            ("evil2-1.0.0/x", 2, b"", Some("../victim-1.0.0")),
            ("evil2-1.0.0/x/pwn.rs", 0, b"pwned", None),
        ]);
        std::fs::write(cache_dir.join("cache").join("evil2-1.0.0.crate"), gz(&raw)).unwrap();
        let v = VetVersion::parse("1.0.0").unwrap();
        let r = TEST_RUNTIME.block_on(cache.fetch_package(&metadata, None, "evil2", &v));
        eprintln!("PROBE c19 symlink fetch: {:?}", r.as_ref().map(|_| "OK").map_err(|e| e.to_string()));
        eprintln!(
            "PROBE c19 sibling modified: {}",
            cache_dir.join("src").join("victim-1.0.0").join("pwn.rs").exists()
        );
    }
}
