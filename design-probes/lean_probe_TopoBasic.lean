namespace Topo

/-- DFS post-order; state = (visited, order). `deps` gives the children. -/
def visit (deps : Nat → List Nat) : Nat → Nat → (List Nat × List Nat) → (List Nat × List Nat)
  | 0, _, st => st
  | fuel+1, n, (vis, ord) =>
    if vis.contains n then (vis, ord)
    else
      let st1 := (deps n).foldl (fun st c => visit deps fuel c st) (n :: vis, ord)
      (st1.1, st1.2 ++ [n])

#eval visit (fun n => if n = 0 then [1,2] else if n = 1 then [2] else []) 10 0 ([], [])

/-- transitive closure of the child relation -/
inductive Reach (deps : Nat → List Nat) : Nat → Nat → Prop
  | step {a b} : b ∈ deps a → Reach deps a b
  | trans {a b c} : Reach deps a b → c ∈ deps b → Reach deps a c

def Acyclic (deps : Nat → List Nat) : Prop := ∀ x, ¬ Reach deps x x

/-- `ord` lists nodes so that each node comes after all its children, without repetition. -/
inductive TopoList (deps : Nat → List Nat) : List Nat → Prop
  | nil : TopoList deps []
  | snoc {l n} : TopoList deps l → (∀ c ∈ deps n, c ∈ l) → n ∉ l → TopoList deps (l ++ [n])

/-- invariant relating visited, order and the ghost stack `S` -/
structure Inv (deps : Nat → List Nat) (S vis ord : List Nat) : Prop where
  topo : TopoList deps ord
  split : ∀ x, x ∈ vis ↔ (x ∈ ord ∨ x ∈ S)
  disj : ∀ x, x ∈ ord → x ∉ S

/-- what one call (or a fold of calls) guarantees -/
structure Post (deps : Nat → List Nat) (S vis ord vis' ord' : List Nat) : Prop where
  inv : Inv deps S vis' ord'
  ext : ∃ e, ord' = ord ++ e ∧ ∀ x ∈ e, x ∉ vis
  mono : ∀ x ∈ vis, x ∈ vis'

theorem Post.refl {deps S vis ord} (h : Inv deps S vis ord) : Post deps S vis ord vis ord :=
  ⟨h, ⟨[], by simp, by simp⟩, fun _ h => h⟩

theorem Post.trans {deps S v0 o0 v1 o1 v2 o2}
    (h1 : Post deps S v0 o0 v1 o1) (h2 : Post deps S v1 o1 v2 o2) : Post deps S v0 o0 v2 o2 := by
  obtain ⟨e1, he1, hn1⟩ := h1.ext
  obtain ⟨e2, he2, hn2⟩ := h2.ext
  refine ⟨h2.inv, ⟨e1 ++ e2, by simp [he2, he1], ?_⟩, fun x hx => h2.mono x (h1.mono x hx)⟩
  intro x hx
  simp at hx
  rcases hx with hx | hx
  · exact hn1 x hx
  · exact fun hv => hn2 x hx (h1.mono x hv)

/-- fuel is enough when it exceeds the number of still-unvisited nodes of a universe `U` -/
def unvisited (U vis : List Nat) : Nat := U.countP (fun u => !vis.contains u)

theorem unvisited_mono {U vis vis' : List Nat} (h : ∀ x ∈ vis, x ∈ vis') :
    unvisited U vis' ≤ unvisited U vis := by
  unfold unvisited
  apply List.countP_mono_left
  intro x _ hx
  simp at hx ⊢
  exact fun hm => hx (h x hm)

theorem unvisited_cons_lt {U vis : List Nat} {n : Nat} (hn : n ∈ U) (hv : n ∉ vis) :
    unvisited U (n :: vis) < unvisited U vis := by
  unfold unvisited
  induction U with
  | nil => simp at hn
  | cons u us ih =>
    simp only [List.countP_cons]
    have hle : us.countP (fun x => !(n :: vis).contains x) ≤ us.countP (fun x => !vis.contains x) :=
      unvisited_mono (U := us) (fun x hx => List.mem_cons_of_mem _ hx)
    by_cases hu : u = n
    · subst hu
      simp [hv]
      simp at hle
      omega
    · have hn' : n ∈ us := by
        simp at hn; rcases hn with h | h
        · exact absurd h.symm hu
        · exact h
      have ih' := ih hn'
      by_cases hc : u ∈ vis
      · simp [hc] at ih' ⊢; omega
      · simp [hc, hu] at ih' ⊢; omega

end Topo
