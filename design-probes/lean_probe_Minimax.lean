import Probe.Basic
namespace Probe

/-- walks from `src` carrying (dst-path, bottleneck level, endpoint) -/
inductive WalkL (edges : List Edge) (src : Nat) : List Nat → Nat → Nat → Prop
  | nil : WalkL edges src [] 0 src
  | snoc {p l b c le} : WalkL edges src p l b → (⟨b, c, le⟩ : Edge) ∈ edges →
      WalkL edges src (p ++ [c]) (max l le) c

theorem popMin_iff {q : List QNode} {n rest} (h : popMin q = some (n, rest)) :
    ∀ m, m ∈ q ↔ m = n ∨ m ∈ rest := by
  induction q generalizing n rest with
  | nil => simp [popMin] at h
  | cons x xs ih =>
    simp only [popMin] at h
    split at h
    · rename_i hnone
      simp at h
      have hxs : xs = [] := by
        cases xs with
        | nil => rfl
        | cons y ys =>
          simp only [popMin] at hnone
          split at hnone <;> (try split at hnone) <;> simp at hnone
      intro m; simp [← h.1, ← h.2, hxs]
    · rename_i m' r hm
      split at h
      · simp at h; intro m; simp [← h.1, ← h.2]
      · simp at h
        intro m
        have := ih hm m
        rw [← h.1, ← h.2]
        simp [this]
        constructor
        · rintro (rfl | rfl | h') <;> simp_all
        · rintro (rfl | rfl | h') <;> simp_all

theorem popMin_min {q : List QNode} {n rest} (h : popMin q = some (n, rest)) :
    ∀ m ∈ q, n.lvl ≤ m.lvl := by
  induction q generalizing n rest with
  | nil => simp [popMin] at h
  | cons x xs ih =>
    simp only [popMin] at h
    split at h
    · rename_i hnone
      simp at h
      have hxs : xs = [] := by
        cases xs with
        | nil => rfl
        | cons y ys =>
          simp only [popMin] at hnone
          split at hnone <;> (try split at hnone) <;> simp at hnone
      intro m hm; simp [hxs] at hm; simp [hm, ← h.1]
    · rename_i m' r hm
      have ihm := ih hm
      split at h
      · rename_i hle
        simp at h
        intro m hmem
        rw [← h.1]
        simp at hmem
        rcases hmem with rfl | hmem
        · exact Nat.le_refl _
        · have h1 := ihm m hmem
          have h2 : x.lvl ≤ m'.lvl := by
            simp at hle
            rcases hle with hlt | ⟨heq, _⟩
            · omega
            · omega
          omega
      · rename_i hle
        simp at h
        intro m hmem
        rw [← h.1]
        simp at hmem
        rcases hmem with rfl | hmem
        · simp at hle
          have := hle.1
          omega
        · exact ihm m hmem

/-- ghost invariant -/
structure Inv (edges : List Edge) (src : Nat) (q : List QNode) (vis : List Nat) (d : Nat → Nat) : Prop where
  qwalk : ∀ n ∈ q, WalkL edges src n.path n.lvl n.ver
  opt   : ∀ u ∈ vis, (∃ p, WalkL edges src p (d u) u) ∧ ∀ p l, WalkL edges src p l u → d u ≤ l
  closed : ∀ u ∈ vis, ∀ e ∈ edges, e.src = u → e.dst ∈ vis ∨ ∃ n ∈ q, n.ver = e.dst ∧ n.lvl ≤ max (d u) e.lvl
  start : src ∈ vis ∨ ∃ n ∈ q, n.ver = src ∧ n.lvl = 0

/-- frontier lemma: a walk ending outside `vis` crosses the frontier somewhere -/
theorem frontier {edges src q vis d} (inv : Inv edges src q vis d) :
    ∀ p l b, WalkL edges src p l b → b ∉ vis → ∃ n ∈ q, n.lvl ≤ l := by
  intro p l b w
  induction w with
  | nil =>
    intro hb
    rcases inv.start with h | ⟨n, hn, _, h0⟩
    · exact absurd h hb
    · exact ⟨n, hn, by omega⟩
  | @snoc p l b c le w' he ih =>
    intro hc
    by_cases hb : b ∈ vis
    · rcases inv.closed b hb ⟨b, c, le⟩ he rfl with h | ⟨n, hn, _, hl⟩
      · exact absurd h hc
      · refine ⟨n, hn, ?_⟩
        have := (inv.opt b hb).2 p l w'
        simp at hl ⊢
        omega
    · obtain ⟨n, hn, hl⟩ := ih hb
      exact ⟨n, hn, by have := Nat.le_max_left l le; omega⟩

theorem search_minimax (edges : List Edge) (src target : Nat) :
    ∀ fuel q vis d, Inv edges src q vis d →
    ∀ l p, search edges target fuel q vis = some (l, p) →
      WalkL edges src p l target ∧ ∀ p' l', WalkL edges src p' l' target → l ≤ l' := by
  intro fuel
  induction fuel with
  | zero => intro q vis d _ l p h; simp [search] at h
  | succ fuel ih =>
    intro q vis d inv l p h
    simp only [search] at h
    split at h
    · simp at h
    · rename_i n rest hpop
      have hmem := popMin_iff hpop
      have hmin := popMin_min hpop
      split at h
      · -- already visited: drop it
        rename_i hvis
        have hvis' : n.ver ∈ vis := by simpa using hvis
        refine ih rest vis d ?_ l p h
        refine ⟨fun m hm => inv.qwalk m ((hmem m).2 (Or.inr hm)), inv.opt, ?_, ?_⟩
        · intro u hu e he hsrc
          rcases inv.closed u hu e he hsrc with h1 | ⟨m, hm, hv, hl⟩
          · exact Or.inl h1
          · rcases (hmem m).1 hm with rfl | hm'
            · exact Or.inl (hv ▸ hvis')
            · exact Or.inr ⟨m, hm', hv, hl⟩
        · rcases inv.start with h1 | ⟨m, hm, hv, hl⟩
          · exact Or.inl h1
          · rcases (hmem m).1 hm with rfl | hm'
            · exact Or.inl (hv ▸ hvis')
            · exact Or.inr ⟨m, hm', hv, hl⟩
      · rename_i hnvis
        have hnvis' : n.ver ∉ vis := by simpa using hnvis
        have hn : n ∈ q := (hmem n).2 (Or.inl rfl)
        have hwalk := inv.qwalk n hn
        -- optimality of the popped node
        have hopt : ∀ p' l', WalkL edges src p' l' n.ver → n.lvl ≤ l' := by
          intro p' l' w
          obtain ⟨m, hm, hl⟩ := frontier inv p' l' n.ver w hnvis'
          have := hmin m hm
          omega
        split at h
        · rename_i heq
          simp at h
          obtain ⟨h1, h2⟩ := h
          subst h1 h2
          exact ⟨heq ▸ hwalk, fun p' l' w => hopt p' l' (heq ▸ w)⟩
        · -- expand
          refine ih _ (n.ver :: vis) (fun v => if v = n.ver then n.lvl else d v) ?_ l p h
          refine ⟨?_, ?_, ?_, ?_⟩
          · intro m hm
            simp at hm
            rcases hm with hm | ⟨e, ⟨he, hsrc, _⟩, rfl⟩
            · exact inv.qwalk m ((hmem m).2 (Or.inr hm))
            · have : e = ⟨n.ver, e.dst, e.lvl⟩ := by cases e; simp_all
              exact WalkL.snoc hwalk (this ▸ he)
          · intro u hu
            simp at hu
            rcases hu with rfl | hu
            · simp; exact ⟨⟨_, hwalk⟩, hopt⟩
            · have hne : u ≠ n.ver := fun h => hnvis' (h ▸ hu)
              simp [hne]; exact inv.opt u hu
          · intro u hu e he hsrc
            simp at hu
            rcases hu with rfl | hu
            · -- edges out of the newly visited node
              by_cases hd : e.dst ∈ (n.ver :: vis)
              · exact Or.inl hd
              · right
                refine ⟨⟨e.dst, max n.lvl e.lvl, n.path ++ [e.dst]⟩, ?_, rfl, by simp⟩
                apply List.mem_append_right
                apply List.mem_map.2
                refine ⟨e, ?_, rfl⟩
                apply List.mem_filter.2
                refine ⟨he, ?_⟩
                simp at hd
                simp [hsrc, hd.1, hd.2]
            · have hne : u ≠ n.ver := fun h => hnvis' (h ▸ hu)
              rcases inv.closed u hu e he hsrc with h1 | ⟨m, hm, hv, hl⟩
              · exact Or.inl (List.mem_cons_of_mem _ h1)
              · rcases (hmem m).1 hm with rfl | hm'
                · exact Or.inl (by simp [hv])
                · right
                  refine ⟨m, ?_, hv, ?_⟩
                  · simp; exact Or.inl hm'
                  · simp [hne]; simpa using hl
          · rcases inv.start with h1 | ⟨m, hm, hv, hl⟩
            · exact Or.inl (List.mem_cons_of_mem _ h1)
            · rcases (hmem m).1 hm with rfl | hm'
              · exact Or.inl (by simp [hv])
              · right; exact ⟨m, by simp; exact Or.inl hm', hv, hl⟩

end Probe
