use super::*;
use crate::format::{MetaConfigInstance, StoreInfo};

fn cfg_for(metadata: &Metadata, store: &std::path::Path, args: &[&str]) -> Config {
    let crate::cli::FakeCli::Vet(cli) =
        crate::cli::FakeCli::try_parse_from(args.iter().copied()).unwrap();
    Config {
        metacfg: MetaConfig(vec![MetaConfigInstance {
            version: Some(1),
            store: Some(StoreInfo { path: Some(store.to_owned()) }),
        }]),
        metadata: metadata.clone(),
        _rest: PartialConfig { cli, now: mock_now(), cache_dir: PathBuf::new(), mock_cache: true },
    }
}

fn run_check(metadata: &Metadata, dir: &std::path::Path, args: &[&str]) -> String {
    let cfg = cfg_for(metadata, dir, args);
    let out = BasicTestOutput::new();
    let r = std::panic::catch_unwind(std::panic::AssertUnwindSafe(|| {
        crate::cmd_check(&out.clone().as_dyn(), &cfg, &cfg.cli.check_args)
    }));
    match r {
        Ok(Ok(())) => "EXIT0".to_owned(),
        Ok(Err(e)) => format!("ERR {e}"),
        Err(p) => {
            if let Some(crate::ExitPanic(c)) = p.downcast_ref::<crate::ExitPanic>() {
                format!("EXIT{c}")
            } else {
                "PANIC".to_owned()
            }
        }
    }
}

#[test]
fn run() {
    let _enter = TEST_RUNTIME.enter();
    let mock = MockMetadata::simple();
    let metadata = mock.metadata();
    let (mut config, mut audits, imports) = builtin_files_full_audited(&metadata);
    audits.audits.remove("third-party2");
    config.imports.insert(
        FOREIGN.to_owned(),
        crate::format::RemoteImport { url: vec![FOREIGN_URL.to_owned()], ..Default::default() },
    );
    let foreign = AuditsFile {
        criteria: SortedMap::new(),
        wildcard_audits: SortedMap::new(),
        audits: [("third-party2".to_owned(), vec![full_audit(ver(DEFAULT_VER), SAFE_TO_DEPLOY)])]
            .into_iter()
            .collect(),
        trusted: SortedMap::new(),
    };
    let mut imports = imports;
    imports.audits.insert(FOREIGN.to_owned(), AuditsFile::default());
    let store = Store::mock(config, audits, imports);
    let files = store.mock_commit();
    let tmp = tempfile::tempdir().unwrap();
    let dir = tmp.path().join("supply-chain");
    fs::create_dir_all(&dir).unwrap();
    for (name, text) in &files {
        fs::write(dir.join(name), text).unwrap();
    }
    let mut network = Network::new_mock();
    network.mock_serve_toml(FOREIGN_URL, &foreign);
    // install mock: move the map out through a second mock (fields are private to network.rs,
    // so go through the helper API: build the map by serving again in the hook's static)
    {
        let mut m = std::collections::HashMap::new();
        m.insert(
            reqwest::Url::parse(FOREIGN_URL).unwrap(),
            bytes::Bytes::from(crate::serialization::to_formatted_toml(&foreign, None).unwrap().to_string()),
        );
        m.insert(
            reqwest::Url::parse(crate::storage::REGISTRY_URL).unwrap(),
            bytes::Bytes::from(
                crate::serialization::to_formatted_toml(&crate::format::RegistryFile::default(), None)
                    .unwrap()
                    .to_string(),
            ),
        );
        *crate::network::VERIF_MOCK_NETWORK.lock().unwrap() = Some(m);
    }
    let before: Vec<_> = files.keys().map(|k| fs::read_to_string(dir.join(k)).unwrap()).collect();
    eprintln!("HPROBE locked-before-import: {}", run_check(&metadata, &dir, &["cargo", "vet", "--locked"]));
    let mid: Vec<_> = files.keys().map(|k| fs::read_to_string(dir.join(k)).unwrap()).collect();
    eprintln!("HPROBE files unchanged after failing locked run: {}", before == mid);
    eprintln!("HPROBE unlocked: {}", run_check(&metadata, &dir, &["cargo", "vet"]));
    eprintln!("HPROBE locked-after: {}", run_check(&metadata, &dir, &["cargo", "vet", "--locked"]));
    let a1: Vec<_> = files.keys().map(|k| fs::read_to_string(dir.join(k)).unwrap()).collect();
    eprintln!("HPROBE unlocked again: {}", run_check(&metadata, &dir, &["cargo", "vet"]));
    let a2: Vec<_> = files.keys().map(|k| fs::read_to_string(dir.join(k)).unwrap()).collect();
    eprintln!("HPROBE second unlocked check byte-identical: {}", a1 == a2);
    eprintln!("HPROBE imports.lock:\n{}", fs::read_to_string(dir.join("imports.lock")).unwrap());
}
