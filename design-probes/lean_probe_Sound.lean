import Probe.Basic
namespace Probe

/-- `Walk edges a p b`: following the dst list `p` from `a` ends in `b` along edges. -/
inductive Walk (edges : List Edge) : Nat → List Nat → Nat → Prop
  | nil (a) : Walk edges a [] a
  | snoc {a p b c l} : Walk edges a p b → (⟨b, c, l⟩ : Edge) ∈ edges → Walk edges a (p ++ [c]) c

def QInv (edges : List Edge) (src : Nat) (q : List QNode) : Prop :=
  ∀ n ∈ q, Walk edges src n.path n.ver

theorem popMin_rest_subset {q : List QNode} {n rest} (h : popMin q = some (n, rest)) :
    ∀ m ∈ rest, m ∈ q := by
  induction q generalizing n rest with
  | nil => simp [popMin] at h
  | cons x xs ih =>
    simp only [popMin] at h
    split at h
    · simp at h; simp [h.2]
    · rename_i m r hm
      split at h
      · simp at h; intro y hy; simp [← h.2] at hy; simp [hy]
      · simp at h
        intro y hy
        rw [← h.2] at hy
        simp at hy
        rcases hy with rfl | hy
        · simp
        · have := ih hm y hy; simp [this]

theorem search_sound (edges : List Edge) (src target : Nat) :
    ∀ fuel q visited, QInv edges src q →
    ∀ l p, search edges target fuel q visited = some (l, p) → Walk edges src p target := by
  intro fuel
  induction fuel with
  | zero => intro q v _ l p h; simp [search] at h
  | succ fuel ih =>
    intro q visited hq l p h
    simp only [search] at h
    split at h
    · simp at h
    · rename_i n rest hpop
      have hn : Walk edges src n.path n.ver := hq n (popMin_mem hpop)
      have hrest : QInv edges src rest := fun m hm => hq m (popMin_rest_subset hpop m hm)
      split at h
      · exact ih rest visited hrest l p h
      · split at h
        · rename_i heq
          simp at h
          rw [← h.2, ← heq]; exact hn
        · apply ih _ _ _ l p h
          intro m hm
          simp at hm
          rcases hm with hm | ⟨e, ⟨he, hsrc, _⟩, rfl⟩
          · exact hrest m hm
          · simp
            have : e = ⟨n.ver, e.dst, e.lvl⟩ := by cases e; simp_all
            exact Walk.snoc hn (this ▸ he)
end Probe
