use super::*;
use crate::resolver::Conclusion;

fn concl(c: &Conclusion) -> &'static str {
    match c {
        Conclusion::Success(_) => "SUCCESS",
        Conclusion::FailForVet(_) => "FAILVET",
        Conclusion::FailForViolationConflict(_) => "VIOLATION",
    }
}

// C15: criteria-map target undefined locally
#[test]
fn probe2_c15_criteria_map_target() {
    let _enter = TEST_RUNTIME.enter();
    let mock = MockMetadata::simple();
    let metadata = mock.metadata();
    let (mut config, audits, imports) = builtin_files_full_audited(&metadata);
    let foreign = AuditsFile {
        criteria: [("fuzzed".to_owned(), criteria("fuzzed"))].into_iter().collect(),
        wildcard_audits: SortedMap::new(),
        audits: SortedMap::new(),
        trusted: SortedMap::new(),
    };
    config.imports.insert(
        FOREIGN.to_owned(),
        crate::format::RemoteImport {
            url: vec![FOREIGN_URL.to_owned()],
            criteria_map: [("fuzzed".to_string().into(), vec!["no-such-local".to_string().into()])]
                .into_iter()
                .collect(),
            ..Default::default()
        },
    );
    let cfg = mock_cfg(&metadata);
    let mut network = Network::new_mock();
    network.mock_serve_toml(FOREIGN_URL, &foreign);
    // validate alone
    let st = Store::mock(config.clone(), audits.clone(), imports.clone());
    eprintln!("PROBE2 c15 critmap validate ok: {}", st.validate(mock_today(), false).is_ok());
    let r = std::panic::catch_unwind(std::panic::AssertUnwindSafe(|| {
        Store::mock_online(&cfg, config, audits, imports, &network, true).map(|_| ())
    }));
    match r {
        Ok(Ok(())) => eprintln!("PROBE2 c15 critmap: OK"),
        Ok(Err(e)) => eprintln!("PROBE2 c15 critmap: diagnostic {e}"),
        Err(_) => eprintln!("PROBE2 c15 critmap: PANIC"),
    }
}

// C15: imports.lock audit naming undefined criterion
#[test]
fn probe2_c15_imports_lock_criteria() {
    let _enter = TEST_RUNTIME.enter();
    let mock = MockMetadata::simple();
    let metadata = mock.metadata();
    let (mut config, mut audits, mut imports) = builtin_files_full_audited(&metadata);
    audits.audits.remove("third-party2");
    imports.audits.insert(
        FOREIGN.to_owned(),
        AuditsFile {
            criteria: SortedMap::new(),
            wildcard_audits: SortedMap::new(),
            audits: [(
                "third-party2".to_owned(),
                vec![full_audit(ver(DEFAULT_VER), "ghost-criteria")],
            )]
            .into_iter()
            .collect(),
            trusted: SortedMap::new(),
        },
    );
    config.imports.insert(
        FOREIGN.to_owned(),
        crate::format::RemoteImport {
            url: vec![FOREIGN_URL.to_owned()],
            ..Default::default()
        },
    );
    let store = Store::mock(config, audits, imports);
    eprintln!("PROBE2 c15 lock validate ok: {}", store.validate(mock_today(), true).is_ok());
    let r = std::panic::catch_unwind(std::panic::AssertUnwindSafe(|| {
        let report = crate::resolver::resolve(&metadata, None, &store);
        concl(&report.conclusion)
    }));
    eprintln!("PROBE2 c15 lock resolve: {:?}", r.map_err(|_| "PANIC"));
}

// C17: dedup of equal diffs for two versions with different missing criteria
#[test]
fn probe2_c17_dedup() {
    let _enter = TEST_RUNTIME.enter();
    // root (workspace) -> dep 'thirdp' v2 (normal); root dev-dep -> 'thirdp' v1
    let mock = MockMetadata::new(vec![
        MockPackage {
            name: "root-package",
            is_workspace: true,
            is_first_party: true,
            deps: vec![dep_ver("thirdp", 2)],
            dev_deps: vec![dep_ver("thirdp", 1)],
            ..Default::default()
        },
        MockPackage { name: "thirdp", version: ver(1), ..Default::default() },
        MockPackage { name: "thirdp", version: ver(2), ..Default::default() },
    ]);
    let metadata = mock.metadata();
    let (mut config, mut audits, imports) = builtin_files_no_exemptions(&metadata);
    config.exemptions.clear();
    // delta 1 -> 2 for safe-to-deploy exists, so v1 is target-reachable from v2
    audits.audits.insert(
        "thirdp".to_owned(),
        vec![delta_audit(ver(1), ver(2), SAFE_TO_DEPLOY)],
    );
    let store = Store::mock(config.clone(), audits.clone(), imports.clone());
    let report = crate::resolver::resolve(&metadata, None, &store);
    eprintln!("PROBE2 c17 before: {}", concl(&report.conclusion));
    let (human, json) = get_reports(&metadata, report, &store, None);
    eprintln!("PROBE2 c17 human:\n{human}");
    let v: serde_json::Value = serde_json::from_str(&json).unwrap();
    let sugg = &v["suggest"]["suggestions"];
    eprintln!("PROBE2 c17 suggestions: {}", serde_json::to_string(sugg).unwrap());
    // apply every suggestion
    let mut audits2 = audits.clone();
    for s in sugg.as_array().unwrap() {
        let crit: Vec<String> = s["suggested_criteria"].as_array().unwrap().iter().map(|c| c.as_str().unwrap().to_owned()).collect();
        let from = s["suggested_diff"]["from"].as_str().map(|s| VetVersion::parse(s).unwrap());
        let to = VetVersion::parse(s["suggested_diff"]["to"].as_str().unwrap()).unwrap();
        let name = s["name"].as_str().unwrap().to_owned();
        let entry = match from {
            None => full_audit_m(to, crit.iter().map(|s| &s[..]).collect::<Vec<_>>()),
            Some(f) => {
                let mut e = delta_audit(f, to, SAFE_TO_RUN);
                e.criteria = crit.iter().map(|c| c.clone().into()).collect();
                e
            }
        };
        audits2.audits.entry(name).or_default().push(entry);
    }
    let store2 = Store::mock(config, audits2, imports);
    let report2 = crate::resolver::resolve(&metadata, None, &store2);
    eprintln!("PROBE2 c17 after applying all suggestions: {}", concl(&report2.conclusion));
}
