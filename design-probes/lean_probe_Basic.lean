namespace Probe

/-- criteria sets as Nat bitmasks -/
abbrev CSet := Nat
def CSet.has (s : CSet) (i : Nat) : Bool := s.testBit i
def CSet.union (a b : CSet) : CSet := a ||| b
def CSet.single (i : Nat) : CSet := 1 <<< i

theorem has_union (a b : CSet) (i : Nat) : (CSet.union a b).has i = (a.has i || b.has i) := by
  simp [CSet.has, CSet.union]

theorem has_single (i j : Nat) : (CSet.single i).has j = decide (i = j) := by
  simp [CSet.has, CSet.single, Nat.testBit_shiftLeft]
  by_cases h : i = j
  · subst h; simp
  · simp [h]
    intro hle
    have : j - i ≠ 0 := by omega
    cases hji : j - i with
    | zero => omega
    | succ k => simp [Nat.testBit_succ]

structure Edge where
  src : Nat
  dst : Nat
  lvl : Nat
deriving Repr, DecidableEq

structure QNode where
  ver : Nat
  lvl : Nat
  path : List Nat
deriving Repr

/-- pop the element with minimal (lvl, ver) -/
def popMin : List QNode → Option (QNode × List QNode)
  | [] => none
  | x :: xs =>
    match popMin xs with
    | none => some (x, [])
    | some (m, rest) =>
      if x.lvl < m.lvl || (x.lvl = m.lvl && x.ver ≤ m.ver) then some (x, xs) else some (m, x :: rest)

def search (edges : List Edge) (target : Nat) : Nat → List QNode → List Nat → Option (Nat × List Nat)
  | 0, _, _ => none
  | fuel+1, q, visited =>
    match popMin q with
    | none => none
    | some (n, rest) =>
      if visited.contains n.ver then search edges target fuel rest visited
      else if n.ver = target then some (n.lvl, n.path)
      else
        let out := edges.filter (fun e => e.src = n.ver && !(visited.contains e.dst))
        let pushed := out.map (fun e => { ver := e.dst, lvl := max n.lvl e.lvl, path := n.path ++ [e.dst] : QNode })
        search edges target fuel (rest ++ pushed) (n.ver :: visited)

#eval search [⟨0,1,3⟩, ⟨0,2,1⟩, ⟨2,1,1⟩] 1 10 [⟨0,0,[]⟩] []

theorem popMin_mem {q : List QNode} {n rest} (h : popMin q = some (n, rest)) : n ∈ q := by
  induction q generalizing n rest with
  | nil => simp [popMin] at h
  | cons x xs ih =>
    simp only [popMin] at h
    split at h
    · simp at h; simp [h.1]
    · rename_i m r hm
      split at h
      · simp at h; simp [h.1]
      · simp at h
        have := ih hm
        simp [← h.1, this]

end Probe
