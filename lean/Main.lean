import Vet.Model.Wire
import Vet.Model.Commands
import Vet.Model.Report
import Vet.Model.Renew
import Vet.Model.WF
import Vet.Model.Publishers
import Vet.Model.CratePolicies
open Vet Vet.Wire

structure DState where
  world : Option World := none

def exceptLine {α} (r : Except Panic α) (f : α → List Nat) : String :=
  match r with
  | .error e => panicLine e
  | .ok x => "ok " ++ show_ (f x)

def withMapper (w : World) (f : Mapper → String) : String :=
  match Mapper.new w.table with
  | .error e => panicLine e
  | .ok m => f m

def handle (st : DState) (kw : String) (toks : List Nat) : DState × String :=
  match kw with
  | "mapper" =>
    match run (list custom) toks with
    | none => (st, "bad-case")
    | some t => (st, exceptLine (Mapper.new t) (fun m => m.n :: m.implied))
  | "fromlist" =>
    match run (pair (list custom) (list nat)) toks with
    | none => (st, "bad-case")
    | some (t, l) =>
      (st, match Mapper.new t with
        | .error e => panicLine e
        | .ok m => exceptLine (m.fromList l) (fun s => [s]))
  | "minimal" =>
    match run (pair (list custom) nat) toks with
    | none => (st, "bad-case")
    | some (t, s) =>
      (st, match Mapper.new t with
        | .error e => panicLine e
        | .ok m => "ok " ++ show_ (listToks (m.minimal s)))
  | "import" =>
    match run (pair (list custom) (pair importCfg afile)) toks with
    | none => (st, "bad-case")
    | some (t, (cfg, lock)) =>
      -- order of the real command: the offline store is validated (own table, `implies`,
      -- criteria-map targets) before anything is fetched
      let emptyStore : Store := { imports := [], locals := ⟨[], []⟩, trusted := [], publishers := [],
                                  unpublished := [], exemptions := [], policy := [] }
      let mt := cfg.sources.flatMap (fun p => p.cmap.map (·.2))
      if !(validate t emptyStore 0 false [] [] mt).isEmpty then (st, "refused-by-validate") else
      (st, match Mapper.new t with
        | .error e => panicLine e
        | .ok lm =>
          match importOne lm cfg with
          | .error e => panicLine e
          | .ok .refused => "refused"
          | .ok (.ok f) => "ok " ++ show_ (afileToks (updateFreshness f lock)))
  | "aggregate" =>
    match run (list aggSource) toks with
    | none => (st, "bad-case")
    | some srcs =>
      (st, match Agg.aggregate srcs with
        | none => "none"
        | some r => "ok " ++ show_ (aggResultToks r))
  | "registry" =>
    match run (pair (pair (list unpubEntry) (list firstParty)) (list (pair nat optNat))) toks with
    | none => (st, "bad-case")
    | some ((lock, pkgs), pe) =>
      -- order of the real command: go online (unpublished entries) first, then the consistency check
      (st, match Reg.importUnpublished lock pkgs with
        | .refused n => "refused " ++ show_ [n]
        | .ok es =>
          let errs := Reg.checkAuditAs pe pkgs
          if !errs.isEmpty then "audit-as-errors " ++ show_ [errs.length]
          else "ok " ++ show_ (es.length :: es.flatMap (fun e => [e.name, e.version, e.auditedAs, b2n e.fresh])))
  | "suggest" =>
    match run (pair (pair (pair nat optNat) (list nat)) (list sugFailure)) toks with
    | none => (st, "bad-case")
    | some (((target, pubKey), gitVers), fails) =>
      -- `pubKey`: none = not a git revision; some k = optKey of the nearest published version
      let published : Option (Option Nat) := pubKey.map (fun k => if k = 0 then none else some (k - 1))
      -- offline `version_has_sources`: the root, every plain version, and the package's own git revision
      let hasSources : Option Nat → Bool := fun v =>
        match v with
        | none => true
        | some x => !gitVers.contains x || x == target
      (st, match Sug.reachable hasSources fails with
        | none => "ok 0"
        | some (fr, ft) =>
          let cs := Sug.candidates fr (Sug.gitRewrite target published fr ft).1
          "ok " ++ show_ (cs.length :: cs.flatMap (fun c => [optKey c.1, c.2])))
  | "unpack" =>
    match run (pair (pair (list (pair (list nat) upNode)) (pair (list nat) nat))
                    (pair (pair (list upEntry) optNat) (pair bool (list upEntry)))) toks with
    | none => (st, "bad-case")
    | some ((fs, (srcDir, pfx)), ((archive, crash), (retry, archive2))) =>
      let fs1 := Unpack.unpackPackage fs srcDir pfx archive crash
      let ok1 := Unpack.fetchIsOk fs1 srcDir pfx
      let fs2 := if retry then Unpack.fetch fs1 srcDir pfx archive2 else fs1
      let ok2 := Unpack.fetchIsOk fs2 srcDir pfx
      (st, "ok " ++ show_ ([b2n ok1, b2n ok2] ++ fsToks fs2))
  | "auditall" =>
    match run (pair (pair (list nat) (list nat)) (pair (pair nat (pair bool bool)) (list nat))) toks with
    | none => (st, "bad-case")
    | some ((who, crit), ((kind, (importable, hasNotes)), from_)) =>
      let k : Serde.Kind := if kind = 0 then .full 1 else if kind = 1 then .delta 1 2 else .violation 0
      let a : Serde.AuditEntry := ⟨who, crit, k, importable, if hasNotes then some 0 else none, from_⟩
      let x := Serde.toAll a
      (st, "ok " ++ show_ (strOrVecToks x.criteria ++
        [b2n x.who.isSome, b2n x.version.isSome, b2n x.delta.isSome, b2n x.violation.isSome,
         b2n x.importable.isSome, b2n x.notes.isSome, b2n x.aggregatedFrom.isSome]))
  | "policykeys" =>
    match run (list (pair nat (pair nat (list nat)))) toks with
    | none => (st, "bad-case")
    | some entries =>
      -- each entry: name, 0 = unversioned | 1 = versioned with the listed versions
      let p : List (Nat × Serde.PkgPolicy Nat) := entries.map (fun (n, (tag, vs)) =>
        (n, if tag = 0 then .unversioned 0 else .versioned (vs.map (fun v => (v, 0)))))
      let keys := Serde.encPolicy p
      (st, "ok " ++ show_ (keys.length :: keys.flatMap (fun (k, _) =>
        match k with
        | .plain n => [n, 0]
        | .withVersion n v => [n, v + 1])))
  | "renew" =>
    -- renew <mode> <today> <cap> <arg> <crates>; mode 0 = --expiring (arg = ignore-inactive flag),
    -- mode 1 = one crate (arg = its name); answers the end dates per crate
    let entryP : P Renew.Entry := do
      let stop ← nat
      let r ← nat
      pure ⟨stop, match r with | 0 => none | 1 => some false | _ => some true⟩
    let crateP : P Renew.Crate := do
      let n ← nat
      let lp ← optNat
      let es ← list entryP
      pure ⟨n, lp, es⟩
    match run (pair (pair nat nat) (pair (pair nat nat) (list crateP))) toks with
    | none => (st, "bad-case")
    | some ((mode, today), ((cap, arg), t)) =>
      let t' := if mode = 0 then Renew.renewExpiring today cap (arg != 0) t else Renew.renewCrate cap arg t
      (st, "ok " ++ show_ (t'.length :: t'.flatMap (fun c => c.name :: listToks (c.entries.map (·.stop)))))
  | "publishers" =>
    -- the live publisher table after going online (Vet/Model/Publishers.lean)
    let regP : P Pub.RegVersion := do
      let v ← nat
      let u ← optNat
      let d ← nat
      pure ⟨v, u, d⟩
    let crateP : P Pub.CrateFacts := do
      let n ← nat
      let a ← bool
      let b ← bool
      let c ← bool
      let d ← bool
      let e ← bool
      let lv ← list nat
      let reg ← list regP
      pure ⟨n, a, b, c, d, e, lv, reg⟩
    match run (list crateP) toks with
    | none => (st, "bad-case")
    | some cs =>
      let t := Pub.livePublishers cs
      (st, "ok " ++ show_ (t.length :: t.flatMap (fun (n, l) =>
        n :: l.length :: l.flatMap (fun p => [p.version, p.user, p.day, b2n p.fresh]))))
  | "policies" =>
    -- check_crate_policies (Vet/Model/CratePolicies.lean): entries, packages, third-party names
    let entryP : P Pol.Entry := do
      let n ← nat
      let v ← optNat
      let d ← bool
      pure ⟨n, v, d⟩
    let pkgP : P Pol.Pkg := do
      let n ← nat
      let v ← nat
      pure ⟨n, v⟩
    match run (pair (list entryP) (pair (list pkgP) (list nat))) toks with
    | none => (st, "bad-case")
    | some (es, (ps, tp)) =>
      let errs := Pol.checkImpl es ps (fun n => tp.contains n)
      (st, "ok " ++ show_ (errs.length :: errs.flatMap (fun e =>
        match e with
        | .needsVersion n v => [0, n, v + 1]
        | .unused n v => [1, n, optKey v])))
  | "samemeta" =>
    -- consider_as_same (Vet/Model/Registry.lean `considerSame`): registry desc, repo; local desc, repo
    match run (pair (pair optNat optNat) (pair optNat optNat)) toks with
    | none => (st, "bad-case")
    | some ((a, b), (c, d)) => (st, "ok " ++ show_ [b2n (Reg.considerSame ⟨a, b⟩ ⟨c, d⟩)])
  | "auditas" =>
    -- check_audit_as_crates_io with network (Vet/Model/Registry.lean `checkAuditAs`)
    match run (pair (list (pair nat optNat)) (list firstParty)) toks with
    | none => (st, "bad-case")
    | some (pe, pkgs) =>
      let errs := Reg.checkAuditAs pe pkgs
      (st, "ok " ++ show_ (errs.length :: errs.flatMap (fun e =>
        match e with
        | .unusedAuditAs n => [0, n, 0]
        | .needsAuditAs n v => [1, n, v + 1]
        | .shouldntBeAuditAs n v => [2, n, v + 1])))
  | "cmdmode" =>
    -- the mode a command hands to the updater for crate `name` (Vet/Model/Commands.lean)
    match toks with
    | [code, a, b, c, pkg, name] =>
      let cmd : Option Cmd := match code with
        | 0 => some .check
        | 1 => some (.prune (a != 0) (b != 0) (c != 0))
        | 2 => some .regenerateImports
        | 3 => some .regenerateExemptions
        | 4 => some .regenerateUnpublished
        | 5 => some .init
        | 6 => some .importPeer
        | 7 => some (.certify pkg)
        | 8 => some (.trust pkg)
        | _ => none
      match cmd with
      | none => (st, "bad-case")
      | some cmd =>
        let m := cmd.modeOf name
        let sm := match m.search with
          | .preferExemptions => 0
          | .preferFreshImports => 1
          | .regenerateExemptions => 2
        (st, "ok " ++ show_ [sm, b2n m.pruneExemptions, b2n m.pruneNonImportable, b2n m.pruneImports])
    | _ => (st, "bad-case")
  | "world" =>
    match run world toks with
    | none => (st, "bad-case")
    | some w =>
      -- only well-formed stores (strictly increasing table keys, as sorted maps give them)
      if w.store.wf then ({ st with world := some w }, "ok") else (st, "bad-case not-wf")
  | _ =>
    match st.world with
    | none => (st, "bad-case no-world")
    | some w =>
      match kw with
      | "graph" => (st, exceptLine (DepGraph.new w.md w.store.policy) depGraphToks)
      | "reqs" =>
        (st, match DepGraph.new w.md w.store.policy with
          | .error e => panicLine e
          | .ok g => withMapper w (fun m => exceptLine (resolveRequirements g w.store.policy m) listToks))
      | "build" =>
        match toks with
        | [name] =>
          (st, withMapper w (fun m =>
            match build w.store m name with
            | .error e => panicLine e
            | .ok (.graph g) => "graph " ++ show_ (graphToks g)
            | .ok (.conflicts cs) => "conflicts " ++ show_ (cs.length :: cs.flatMap conflictToks)))
        | _ => (st, "bad-case")
      | "search" =>
        match run (pair (pair nat nat) (pair nat mode)) toks with
        | some ((name, ver), (c, md)) =>
          (st, withMapper w (fun m =>
            match build w.store m name with
            | .error e => panicLine e
            | .ok (.conflicts _) => "conflicts"
            | .ok (.graph g) =>
              match search g c ver md with
              | .panic p => panicLine p
              | o => "ok " ++ show_ (outcomeToks o)))
        | none => (st, "bad-case")
      | "validate" =>
        match run (pair (pair nat bool) (pair (pair (list (pair nat (list nat))) (list nat)) (list (list nat)))) toks with
        | none => (st, "bad-case")
        | some ((maxEnd, locked), ((ci, ln), mt)) =>
          let errs := validate w.table w.store maxEnd locked ci ln mt
          (st, if errs.isEmpty then "ok" else "refused " ++ show_ [errs.length,
            (errs.filter (· == .invalidCriteria)).length, (errs.filter (· == .badWildcardEndDate)).length,
            (errs.filter (· == .importsLockOutdated)).length, (errs.filter (· == .invalidCriteriaTable)).length])
      | "update" =>
        match run modeTable toks with
        | none => (st, "bad-case")
        | some mt => (st, exceptLine (getStoreUpdates w mt) updatesToks)
      | "ask" =>
        -- what an entry-adding command pushes: `ask 0 name <audit>` / `ask 1 name <exemption>`;
        -- answers the whole table afterwards (keys in table order, entries in list order)
        match toks with
        | 0 :: name :: rest =>
          match run audit rest with
          | none => (st, "bad-case")
          | some a =>
            let t := (w.store.ask (.audit name a)).locals.audits
            (st, "ok " ++ show_ (t.length :: t.flatMap (fun (n, l) => n :: l.length :: l.flatMap auditFullToks)))
        | 1 :: name :: rest =>
          match run exemption rest with
          | none => (st, "bad-case")
          | some x =>
            let t := (w.store.ask (.exemption name x)).exemptions
            (st, "ok " ++ show_ (t.length :: t.flatMap (fun (n, l) => n :: l.length :: l.flatMap exemptionToks)))
        | _ => (st, "bad-case")
      | "report" =>
        (st, exceptLine (resolve w) (fun r =>
          let enc (ls : List FailLine) : List Nat :=
            ls.length :: ls.flatMap (fun l => [l.name, l.ver] ++ listToks l.missing)
          [b2n r.hasErrors] ++ enc r.jsonFailures ++ enc r.humanFailures))
      | "resolve" =>
        (st, exceptLine (resolve w) (fun r =>
          conclusionToks r.conclusion ++ [r.results.length] ++ r.results.flatMap resultToks))
      | _ => (st, "bad-case unknown-request")

def parseLine (line : String) : Option (String × List Nat) :=
  match (line.trimAscii.toString.splitOn " ").filter (· ≠ "") with
  | [] => none
  | kw :: rest =>
    let nums := rest.map String.toNat?
    if nums.all Option.isSome then some (kw, nums.filterMap id) else none

partial def loop (h : IO.FS.Stream) (out : IO.FS.Stream) (st : DState) : IO Unit := do
  let line ← h.getLine
  if line.isEmpty then return ()
  match parseLine line with
  | none =>
    out.putStrLn "bad-case unparsable"
    out.flush
    loop h out st
  | some (kw, toks) =>
    let (st', ans) := handle st kw toks
    out.putStrLn ans
    out.flush
    loop h out st'

def main : IO Unit := do
  loop (← IO.getStdin) (← IO.getStdout) {}
