/- Helper lemmas for C05 (closure computation of the criteria mapper). -/
import Vet.Spec.Criteria
namespace Vet

/-! ## Bit facts -/

theorem testBit_set (s i j : Nat) :
    (s ||| (1 <<< i)).testBit j = true ↔ (s.testBit j = true ∨ i = j) := by
  simp [Nat.testBit_or, Nat.one_shiftLeft, Nat.testBit_two_pow]

theorem testBit_single (i j : Nat) : (1 <<< i).testBit j = true ↔ i = j := by
  simp [Nat.one_shiftLeft, Nat.testBit_two_pow]

theorem mem_indices (n s i : Nat) : i ∈ CSet.indices n s ↔ i < n ∧ s.testBit i = true := by
  simp [CSet.indices, List.mem_filter, List.mem_range]

/-! ## Abstract reachability over the `direct` bitmask list -/

/-- one step: `j` is a direct successor of `i` (restricted to indices below `n`) -/
def D (n : Nat) (direct : List CSet) (i j : Nat) : Prop :=
  j < n ∧ (direct.getD i 0).testBit j = true

inductive Reach (n : Nat) (direct : List CSet) : Nat → Nat → Prop
  | refl (i : Nat) : Reach n direct i i
  | step {i k j : Nat} : D n direct i k → Reach n direct k j → Reach n direct i j

/-- at least one step -/
def Plus (n : Nat) (direct : List CSet) (i j : Nat) : Prop :=
  ∃ k, D n direct i k ∧ Reach n direct k j

theorem Reach.trans {n direct i j k} (h₁ : Reach n direct i j) (h₂ : Reach n direct j k) :
    Reach n direct i k := by
  induction h₁ with
  | refl _ => exact h₂
  | step hd _ ih => exact .step hd (ih h₂)

theorem Plus.reach {n direct i j} (h : Plus n direct i j) : Reach n direct i j := by
  obtain ⟨k, hd, hr⟩ := h
  exact .step hd hr

theorem Plus.of_D {n direct i j} (h : D n direct i j) : Plus n direct i j :=
  ⟨j, h, .refl j⟩

theorem Plus.head {n direct i k j} (h : D n direct i k) (h₂ : Plus n direct k j) :
    Plus n direct i j :=
  ⟨k, h, h₂.reach⟩

theorem Plus.lt {n direct i j} (h : Plus n direct i j) : j < n := by
  obtain ⟨k, hd, hr⟩ := h
  induction hr generalizing i with
  | refl _ => exact hd.1
  | step hd' _ ih => exact ih hd'

/-! ## Post-condition of the DFS -/

/-- What a successful run of the DFS from `cur` with accumulator `r` guarantees on its
result `r'`. -/
structure Post (n : Nat) (direct : List CSet) (cur : Nat) (r r' : CSet) : Prop where
  mono : ∀ j, r.testBit j = true → r'.testBit j = true
  new : ∀ i, r'.testBit i = true → r.testBit i = false →
    (∀ j, D n direct i j → r'.testBit j = true) ∧ Plus n direct cur i

theorem loop_post {n : Nat} {direct : List CSet} {rec : CSet → Nat → Except Panic CSet} (cur : Nat)
    (ih : ∀ result c r', rec result c = .ok r' →
      Post n direct c result r' ∧ ∀ j, D n direct c j → r'.testBit j = true) :
    ∀ (L : List Nat) (r r' : CSet), (∀ x ∈ L, D n direct cur x) →
      implLoop rec L r = .ok r' →
      Post n direct cur r r' ∧ ∀ x ∈ L, r'.testBit x = true := by
  intro L
  induction L with
  | nil =>
    intro r r' _ h
    simp only [implLoop] at h
    cases h
    refine ⟨⟨fun _ h => h, ?_⟩, by simp⟩
    intro i h1 h2
    simp [h1] at h2
  | cons idx rest ihL =>
    intro r r' hL h
    simp only [implLoop] at h
    have hrest : ∀ x ∈ rest, D n direct cur x := fun x hx => hL x (List.mem_cons_of_mem _ hx)
    have hidx : D n direct cur idx := hL idx (List.mem_cons_self ..)
    split at h
    · next hb =>
      obtain ⟨hp, hin⟩ := ihL r r' hrest h
      refine ⟨hp, ?_⟩
      intro x hx
      rcases List.mem_cons.1 hx with rfl | hx
      · exact hp.mono _ hb
      · exact hin x hx
    · next hb =>
      split at h
      · cases h
      · next r1 hrec =>
        obtain ⟨hp1, hs1⟩ := ih _ _ _ hrec
        obtain ⟨hp2, hin2⟩ := ihL r1 r' hrest h
        have hidx1 : r1.testBit idx = true := hp1.mono idx ((testBit_set ..).2 (Or.inr rfl))
        refine ⟨⟨?_, ?_⟩, ?_⟩
        · intro j hj
          exact hp2.mono j (hp1.mono j ((testBit_set ..).2 (Or.inl hj)))
        · intro i hi hri
          cases h1 : r1.testBit i with
          | false => exact hp2.new i hi h1
          | true =>
            by_cases hii : idx = i
            · subst hii
              exact ⟨fun j hj => hp2.mono j (hs1 j hj), Plus.of_D hidx⟩
            · have : (r ||| 1 <<< idx).testBit i = false := by
                cases h2 : (r ||| 1 <<< idx).testBit i with
                | false => rfl
                | true =>
                  rcases (testBit_set ..).1 h2 with h3 | h3
                  · simp [h3] at hri
                  · exact absurd h3 hii
              obtain ⟨hc, hpl⟩ := hp1.new i h1 this
              exact ⟨fun j hj => hp2.mono j (hc j hj), Plus.head hidx hpl⟩
        · intro x hx
          rcases List.mem_cons.1 hx with rfl | hx
          · exact hp2.mono _ hidx1
          · exact hin2 x hx

theorem rec_post {n : Nat} {direct : List CSet} :
    ∀ (fuel : Nat) (result cur : Nat) (r' : CSet),
      recurseImplies n direct fuel result cur = .ok r' →
      Post n direct cur result r' ∧ ∀ j, D n direct cur j → r'.testBit j = true := by
  intro fuel
  induction fuel with
  | zero =>
    intro result cur r' h
    simp [recurseImplies] at h
  | succ fuel ih =>
    intro result cur r' h
    simp only [recurseImplies] at h
    obtain ⟨hp, hin⟩ := loop_post cur ih _ _ _ (by
      intro x hx
      exact (mem_indices ..).1 hx) h
    exact ⟨hp, fun j hj => hin j ((mem_indices ..).2 hj)⟩

/-- Started from the empty accumulator, the DFS computes exactly the `≥ 1`-step
reachability set of `cur`. -/
theorem rec_zero_spec {n : Nat} {direct : List CSet} {fuel cur : Nat} {r' : CSet}
    (h : recurseImplies n direct fuel 0 cur = .ok r') (j : Nat) :
    r'.testBit j = true ↔ Plus n direct cur j := by
  obtain ⟨hp, hs⟩ := rec_post _ _ _ _ h
  constructor
  · intro hj
    exact (hp.new j hj (by simp)).2
  · rintro ⟨k, hd, hr⟩
    have hk : r'.testBit k = true := hs k hd
    clear hd
    induction hr with
    | refl _ => exact hk
    | step hd' _ ih => exact ih ((hp.new _ hk (by simp)).1 _ hd')

/-! ## Fuel sufficiency -/

/-- number of indices below `n` not yet in `r` -/
def meas (n : Nat) (r : CSet) : Nat := (List.range n).countP (fun i => !r.testBit i)

theorem countP_lt_of {α} {p q : α → Bool} {l : List α} (hpq : ∀ x ∈ l, p x = true → q x = true)
    {a : α} (ha : a ∈ l) (hq : q a = true) (hp : p a = false) :
    l.countP p < l.countP q := by
  induction l with
  | nil => cases ha
  | cons x xs ih =>
    have hmono : xs.countP p ≤ xs.countP q :=
      List.countP_mono_left (fun y hy => hpq y (List.mem_cons_of_mem _ hy))
    rcases List.mem_cons.1 ha with rfl | ha'
    · simp only [List.countP_cons, hq, hp]
      simp
      omega
    · have := ih (fun y hy => hpq y (List.mem_cons_of_mem _ hy)) ha'
      simp only [List.countP_cons]
      have hx := hpq x (List.mem_cons_self ..)
      cases hpx : p x with
      | false => simp; omega
      | true => simp [hx hpx]; omega

theorem meas_mono {n : Nat} {r r' : CSet} (h : ∀ j, r.testBit j = true → r'.testBit j = true) :
    meas n r' ≤ meas n r := by
  apply List.countP_mono_left
  intro x _ hx
  cases hr : r.testBit x with
  | false => rfl
  | true => simp [h x hr] at hx

theorem meas_lt {n : Nat} {r r' : CSet} (h : ∀ j, r.testBit j = true → r'.testBit j = true)
    {a : Nat} (ha : a < n) (har : r.testBit a = false) (har' : r'.testBit a = true) :
    meas n r' < meas n r := by
  apply countP_lt_of (a := a)
  · intro x _ hx
    cases hr : r.testBit x with
    | false => rfl
    | true => simp [h x hr] at hx
  · exact List.mem_range.2 ha
  · simp [har]
  · simp [har']

theorem meas_le (n : Nat) (r : CSet) : meas n r ≤ n := by
  have := List.countP_le_length (p := fun i => !r.testBit i) (l := List.range n)
  simpa [meas] using this

theorem loop_ok {n : Nat} {fuel : Nat} {rec : CSet → Nat → Except Panic CSet}
    (ih : ∀ result c, meas n result < fuel → ∃ r', rec result c = .ok r')
    (hpost : ∀ result c r', rec result c = .ok r' → ∀ j, result.testBit j = true → r'.testBit j = true) :
    ∀ (L : List Nat) (r : CSet), (∀ x ∈ L, x < n) → meas n r ≤ fuel →
      ∃ r', implLoop rec L r = .ok r' := by
  intro L
  induction L with
  | nil =>
    intro r _ _
    exact ⟨r, by simp only [implLoop]⟩
  | cons idx rest ihL =>
    intro r hL hm
    have hrest : ∀ x ∈ rest, x < n := fun x hx => hL x (List.mem_cons_of_mem _ hx)
    have hidx : idx < n := hL idx (List.mem_cons_self ..)
    simp only [implLoop]
    split
    · exact ihL r hrest hm
    · next hb =>
      have hb' : r.testBit idx = false := by simpa using hb
      have hlt : meas n (r ||| 1 <<< idx) < meas n r :=
        meas_lt (fun j hj => (testBit_set ..).2 (Or.inl hj)) hidx hb'
          ((testBit_set ..).2 (Or.inr rfl))
      obtain ⟨r1, hr1⟩ := ih (r ||| 1 <<< idx) idx (by omega)
      rw [hr1]
      have hmono := hpost _ _ _ hr1
      have : meas n r1 ≤ meas n (r ||| 1 <<< idx) := meas_mono hmono
      exact ihL r1 hrest (by omega)

theorem rec_ok {n : Nat} {direct : List CSet} :
    ∀ (fuel : Nat) (result cur : Nat), meas n result < fuel →
      ∃ r', recurseImplies n direct fuel result cur = .ok r' := by
  intro fuel
  induction fuel with
  | zero => intro _ _ h; omega
  | succ fuel ih =>
    intro result cur hm
    simp only [recurseImplies]
    exact loop_ok ih (fun _ _ _ h => (rec_post _ _ _ _ h).1.mono) _ _ (fun x hx => ((mem_indices ..).1 hx).1) (by omega)

end Vet
