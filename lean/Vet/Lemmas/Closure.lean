/- Helper lemmas for C05 (closure computation of the criteria mapper). -/
import Vet.Spec.Criteria
namespace Vet
end Vet
