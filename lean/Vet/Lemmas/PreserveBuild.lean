/- When does `build` succeed without conflict: a characterisation by the records, and its
monotonicity under removing records / narrowing exemptions. -/
import Vet.Lemmas.Build
import Vet.Lemmas.PreserveCrit
import Vet.Model.Update
namespace Vet

/-! ### when the edge loops do not panic -/

theorem auditEdges_ok_iff {m : Mapper} {l : List (Option Nat × Nat × Audit)} :
    (∃ ts, auditEdges m l = .ok ts) ↔
      ∀ x ∈ l, isViolation x.2.2 = false → ∃ c, m.fromList x.2.2.criteria = .ok c := by
  induction l with
  | nil => simp [auditEdges]
  | cons x rest ih =>
    obtain ⟨imp, idx, a⟩ := x
    simp only [List.mem_cons, forall_eq_or_imp]
    rw [← ih]
    cases hk : a.kind with
    | violation mt =>
      simp only [auditEdges, hk, isViolation]
      simp
    | full v =>
      simp only [auditEdges, hk, isViolation]
      cases hc : m.fromList a.criteria with
      | error e => simp
      | ok c =>
        cases hr : auditEdges m rest with
        | error e => simp
        | ok ts => simp
    | delta f t =>
      simp only [auditEdges, hk, isViolation]
      cases hc : m.fromList a.criteria with
      | error e => simp
      | ok c =>
        cases hr : auditEdges m rest with
        | error e => simp
        | ok ts => simp

theorem wildcardEdges_ok_iff {m : Mapper} {pi : Nat} {p : Publisher} {l : List (Option Nat × Nat × Wildcard)} :
    (∃ ts, wildcardEdges m pi p l = .ok ts) ↔
      ∀ x ∈ l, grantApplies x.2.2.user x.2.2.start x.2.2.stop p = true →
        ∃ c, m.fromList x.2.2.criteria = .ok c := by
  induction l with
  | nil => simp [wildcardEdges]
  | cons x rest ih =>
    obtain ⟨imp, idx, w⟩ := x
    simp only [List.mem_cons, forall_eq_or_imp]
    rw [← ih]
    simp only [wildcardEdges]
    by_cases hg : grantApplies w.user w.start w.stop p = true
    · simp only [hg, if_true, forall_const]
      cases hc : m.fromList w.criteria with
      | error e => simp
      | ok c =>
        cases hr : wildcardEdges m pi p rest with
        | error e => simp
        | ok ts => simp
    · simp [hg]

theorem trustedEdges_ok_iff {m : Mapper} {pi : Nat} {p : Publisher} {l : List Trusted} :
    (∃ ts, trustedEdges m pi p l = .ok ts) ↔
      ∀ x ∈ l, grantApplies x.user x.start x.stop p = true → ∃ c, m.fromList x.criteria = .ok c := by
  induction l with
  | nil => simp [trustedEdges]
  | cons w rest ih =>
    simp only [List.mem_cons, forall_eq_or_imp]
    rw [← ih]
    simp only [trustedEdges]
    by_cases hg : grantApplies w.user w.start w.stop p = true
    · simp only [hg, if_true, forall_const]
      cases hc : m.fromList w.criteria with
      | error e => simp
      | ok c =>
        cases hr : trustedEdges m pi p rest with
        | error e => simp
        | ok ts => simp
    · simp [hg]

theorem publisherEdges_ok_iff {m : Mapper} {ws : List (Option Nat × Nat × Wildcard)} {tr : List Trusted}
    {l : List (Publisher × Nat)} :
    (∃ ts, publisherEdges m ws tr l = .ok ts) ↔
      ∀ x ∈ l, (∃ a, wildcardEdges m x.2 x.1 ws = .ok a) ∧ (∃ b, trustedEdges m x.2 x.1 tr = .ok b) := by
  induction l with
  | nil => simp [publisherEdges]
  | cons x rest ih =>
    obtain ⟨p, pi⟩ := x
    simp only [List.mem_cons, forall_eq_or_imp]
    rw [← ih]
    simp only [publisherEdges]
    cases ha : wildcardEdges m pi p ws with
    | error e => simp
    | ok a =>
      cases hb : trustedEdges m pi p tr with
      | error e => simp
      | ok b =>
        cases hr : publisherEdges m ws tr rest with
        | error e => simp
        | ok ts => simp

theorem exemptionEdges_ok_iff {m : Mapper} {l : List (Exemption × Nat)} :
    (∃ ts, exemptionEdges m l = .ok ts) ↔ ∀ x ∈ l, ∃ c, m.fromList x.1.criteria = .ok c := by
  induction l with
  | nil => simp [exemptionEdges]
  | cons x rest ih =>
    obtain ⟨x, i⟩ := x
    simp only [List.mem_cons, forall_eq_or_imp]
    rw [← ih]
    simp only [exemptionEdges]
    cases hc : m.fromList x.criteria with
    | error e => simp
    | ok c =>
      cases hr : exemptionEdges m rest with
      | error e => simp
      | ok ts => simp

/-! ### when the conflict check reports nothing -/

theorem exemptionConflicts_nil_iff {m : Mapper} {vsrc : Option Nat} {viol : Audit}
    {matched : List Nat} {vs : List CSet} {exs : List Exemption} :
    exemptionConflicts m vsrc viol matched vs exs = .ok [] ↔
      ∀ x ∈ exs, ∃ c, m.fromList x.criteria = .ok c ∧ (hits vs c && matched.contains x.version) = false := by
  induction exs with
  | nil => simp [exemptionConflicts]
  | cons x rest ih =>
    simp only [List.mem_cons, forall_eq_or_imp]
    rw [← ih]
    simp only [exemptionConflicts]
    cases hc : m.fromList x.criteria with
    | error e => simp
    | ok c =>
      cases hr : exemptionConflicts m vsrc viol matched vs rest with
      | error e => simp
      | ok cs =>
        by_cases hh : hits vs c = true <;> by_cases hm : x.version ∈ matched <;> simp [hh, hm]

theorem auditConflicts_nil_iff {m : Mapper} {vsrc : Option Nat} {viol : Audit}
    {matched : List Nat} {vs : List CSet} {l : List (Option Nat × Nat × Audit)} :
    auditConflicts m vsrc viol matched vs l = .ok [] ↔
      ∀ x ∈ l, ∃ c, m.fromList x.2.2.criteria = .ok c ∧ (hits vs c && touches matched x.2.2.kind) = false := by
  induction l with
  | nil => simp [auditConflicts]
  | cons x rest ih =>
    obtain ⟨imp, idx, a⟩ := x
    simp only [List.mem_cons, forall_eq_or_imp]
    rw [← ih]
    simp only [auditConflicts]
    cases hc : m.fromList a.criteria with
    | error e => simp
    | ok c =>
      cases hr : auditConflicts m vsrc viol matched vs rest with
      | error e => simp
      | ok cs =>
        by_cases hh : hits vs c = true <;> by_cases hm : touches matched a.kind = true <;> simp [hh, hm]

theorem violationConflicts_nil_iff {m : Mapper} {exs : List Exemption}
    {audits vl : List (Option Nat × Nat × Audit)} :
    violationConflicts m exs audits vl = .ok [] ↔
      ∀ x ∈ vl, ∀ matched, x.2.2.kind = .violation matched →
        ∃ vs, violationSets m x.2.2.criteria = .ok vs ∧
          exemptionConflicts m x.1 x.2.2 matched vs exs = .ok [] ∧
          auditConflicts m x.1 x.2.2 matched vs audits = .ok [] := by
  induction vl with
  | nil => simp [violationConflicts]
  | cons x rest ih =>
    obtain ⟨vsrc, vidx, viol⟩ := x
    simp only [List.mem_cons, forall_eq_or_imp]
    rw [← ih]
    cases hk : viol.kind with
    | full v => simp [violationConflicts, hk]
    | delta f t => simp [violationConflicts, hk]
    | violation mt =>
      cases hvs : violationSets m viol.criteria with
      | error e => simp [violationConflicts, hk, hvs]
      | ok vs =>
        cases h1 : exemptionConflicts m vsrc viol mt vs exs with
        | error e => simp [violationConflicts, hk, hvs, h1]
        | ok c1 =>
          cases h2 : auditConflicts m vsrc viol mt vs audits with
          | error e => simp [violationConflicts, hk, hvs, h1, h2]
          | ok c2 =>
            cases h3 : violationConflicts m exs audits rest with
            | error e => simp [violationConflicts, hk, hvs, h1, h2, h3]
            | ok c3 => simp [violationConflicts, hk, hvs, h1, h2, h3, and_assoc]

/-! ### `build` gives a graph iff nothing panics and nothing conflicts -/

theorem build_graph_iff {s : Store} {m : Mapper} {name : Nat} :
    (∃ g, build s m name = .ok (.graph g)) ↔
      (∃ e1, auditEdges m (allAudits s name) = .ok e1) ∧
      (∃ e2, publisherEdges m (allWildcards s name) (getL name s.trusted)
        (getL name s.publishers).zipIdx = .ok e2) ∧
      (∃ e4, exemptionEdges m (getL name s.exemptions).zipIdx = .ok e4) ∧
      violationConflicts m (getL name s.exemptions) (allAudits s name) (allAudits s name) = .ok [] := by
  constructor
  · rintro ⟨g, h⟩
    obtain ⟨e1, e2, e4, h1, h2, h4, h5, _⟩ := build_graph_inv h
    exact ⟨⟨e1, h1⟩, ⟨e2, h2⟩, ⟨e4, h4⟩, h5⟩
  · rintro ⟨⟨e1, h1⟩, ⟨e2, h2⟩, ⟨e4, h4⟩, h5⟩
    simp only [build, h1, h2, h4, h5]
    exact ⟨_, rfl⟩

/-! ### fewer records, narrower exemptions: still a graph -/

/-- `s'` has, for crate `name`, only records that `s` has (up to freshness flags and positions),
and its exemptions are narrowed versions of exemptions of `s` -/
structure StoreSub (s' s : Store) (m : Mapper) (name : Nat) : Prop where
  audits : ∀ x' ∈ allAudits s' name, ∃ x ∈ allAudits s name,
    x'.2.2.kind = x.2.2.kind ∧ x'.2.2.criteria = x.2.2.criteria
  wild : ∀ x' ∈ allWildcards s' name, ∃ x ∈ allWildcards s name,
    x'.2.2.user = x.2.2.user ∧ x'.2.2.start = x.2.2.start ∧ x'.2.2.stop = x.2.2.stop ∧
      x'.2.2.criteria = x.2.2.criteria
  pubs : ∀ p' ∈ getL name s'.publishers, ∃ p ∈ getL name s.publishers, p'.user = p.user ∧ p'.day = p.day
  trusted : getL name s'.trusted = getL name s.trusted
  ex : ∀ x' ∈ getL name s'.exemptions, ∃ x ∈ getL name s.exemptions, x'.version = x.version ∧
    ∃ cs cs', m.fromList x.criteria = .ok cs ∧ m.fromList x'.criteria = .ok cs' ∧
      ∀ j, cs'.testBit j = true → cs.testBit j = true

theorem hits_mono {vs : List CSet} {c c' : CSet} (hsub : ∀ j, c'.testBit j = true → c.testBit j = true)
    (h : hits vs c = false) : hits vs c' = false := by
  cases h' : hits vs c' with
  | false => rfl
  | true =>
    exfalso
    unfold hits at h h'
    obtain ⟨v, hv, hcv⟩ := List.any_eq_true.1 h'
    have : vs.any (fun v => CSet.containsSet c v) = true :=
      List.any_eq_true.2 ⟨v, hv, pres_containsSet_iff.2 (fun j hj => hsub j (pres_containsSet_iff.1 hcv j hj))⟩
    rw [h] at this
    cases this

theorem grantApplies_congr {u st sp : Nat} {p p' : Publisher} (h1 : p'.user = p.user) (h2 : p'.day = p.day) :
    grantApplies u st sp p' = grantApplies u st sp p := by
  simp only [grantApplies, h1, h2]

theorem isViolation_congr {a a' : Audit} (h : a'.kind = a.kind) : isViolation a' = isViolation a := by
  simp only [isViolation, h]

theorem build_graph_of_sub {s' s : Store} {m : Mapper} {name : Nat} (sub : StoreSub s' s m name)
    (h : ∃ g, build s m name = .ok (.graph g)) : ∃ g', build s' m name = .ok (.graph g') := by
  obtain ⟨h1, h2, h4, h5⟩ := build_graph_iff.1 h
  refine build_graph_iff.2 ⟨?_, ?_, ?_, ?_⟩
  · rw [auditEdges_ok_iff] at h1 ⊢
    intro x' hx' hv
    obtain ⟨x, hx, hk, hc⟩ := sub.audits x' hx'
    rw [hc]
    exact h1 x hx (by rw [← isViolation_congr hk]; exact hv)
  · rw [publisherEdges_ok_iff] at h2 ⊢
    intro y' hy'
    obtain ⟨p, hp, hu, hd⟩ := sub.pubs y'.1 (List.fst_mem_of_mem_zipIdx hy')
    obtain ⟨j, hj⟩ := List.mem_iff_getElem?.1 hp
    obtain ⟨ha, hb⟩ := h2 (p, j) (List.mk_mem_zipIdx_iff_getElem?.2 hj)
    constructor
    · rw [wildcardEdges_ok_iff] at ha ⊢
      intro x' hx' hg
      obtain ⟨x, hx, e1, e2, e3, e4⟩ := sub.wild x' hx'
      rw [e4]
      apply ha x hx
      rw [← e1, ← e2, ← e3, ← grantApplies_congr hu hd]
      exact hg
    · rw [trustedEdges_ok_iff] at hb ⊢
      intro x hx hg
      rw [sub.trusted] at hx
      apply hb x hx
      rw [← grantApplies_congr hu hd]
      exact hg
  · rw [exemptionEdges_ok_iff]
    intro y' hy'
    obtain ⟨x, _, _, cs, cs', _, hcs', _⟩ := sub.ex y'.1 (List.fst_mem_of_mem_zipIdx hy')
    exact ⟨cs', hcs'⟩
  · rw [violationConflicts_nil_iff] at h5 ⊢
    intro v' hv' matched hk'
    obtain ⟨v, hv, hk, hc⟩ := sub.audits v' hv'
    obtain ⟨vs, hvs, hex, hau⟩ := h5 v hv matched (by rw [← hk]; exact hk')
    refine ⟨vs, by rw [hc]; exact hvs, ?_, ?_⟩
    · rw [exemptionConflicts_nil_iff] at hex ⊢
      intro x' hx'
      obtain ⟨x, hx, hver, cs, cs', hcs, hcs', hsub⟩ := sub.ex x' hx'
      obtain ⟨c, hc1, hc2⟩ := hex x hx
      rw [hcs] at hc1
      cases hc1
      refine ⟨cs', hcs', ?_⟩
      rw [hver]
      rw [Bool.and_eq_false_iff] at hc2 ⊢
      rcases hc2 with hc2 | hc2
      · exact Or.inl (hits_mono hsub hc2)
      · exact Or.inr hc2
    · rw [auditConflicts_nil_iff] at hau ⊢
      intro a' ha'
      obtain ⟨a, ha, hka, hca⟩ := sub.audits a' ha'
      rw [hka, hca]
      exact hau a ha

end Vet
