/- Helper lemmas for "updates preserve success" (C09 / C10).  The development is split over
Vet/Lemmas/Preserve*.lean; this file collects it.

* PreserveList     — `pick`/`keepIdx`/`applyTable`/`assoc?`
* PreserveReq      — the required-entries map only grows; provenance of recorded bits
* PreserveCrit     — minimal lists generate; certifying edges closed under implication
* PreserveSearch   — walks are mode-independent (non-regenerating modes); `search` never panics
* PreserveBuild    — `build` yields a graph iff nothing panics/conflicts; monotone in the records
* PreserveStore    — the shape of `getStoreUpdates`, the store after `applyLocked`
* PreserveExempt   — the exemption table under an update
* PreserveRequired — `allRequired`/`requiredEntries`, soundness of recorded entries
* PreserveEdge     — required records survive; the new store is a sub-store
* PreserveResolve  — assembly
-/
import Vet.Props.Resolve
import Vet.Props.C05
import Vet.Model.Apply
import Vet.Lemmas.PreserveResolve
namespace Vet
end Vet
