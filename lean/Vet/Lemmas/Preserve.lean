/- Helper lemmas for "updates preserve success". -/
import Vet.Props.Resolve
import Vet.Props.C05
import Vet.Model.Apply
namespace Vet
end Vet
