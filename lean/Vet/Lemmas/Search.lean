/- Helper lemmas for the path search: `popBest`, `expand`, and the ghost invariant. -/
import Vet.Spec.Walk
namespace Vet

/-! ### `popBest` -/

theorem popBest_eq_none {q : List QNode} (h : popBest q = none) : q = [] := by
  cases q with
  | nil => rfl
  | cons x xs =>
    simp only [popBest] at h
    split at h
    · simp at h
    · split at h <;> simp at h

theorem popBest_perm {q : List QNode} {m : QNode} {rest : List QNode}
    (h : popBest q = some (m, rest)) : q.Perm (m :: rest) := by
  induction q generalizing m rest with
  | nil => simp [popBest] at h
  | cons x xs ih =>
    simp only [popBest] at h
    split at h
    · rename_i hnone
      have hxs := popBest_eq_none hnone
      simp only [Option.some.injEq, Prod.mk.injEq] at h
      obtain ⟨rfl, rfl⟩ := h
      subst hxs
      exact List.Perm.refl _
    · rename_i m' r hm
      split at h
      · simp only [Option.some.injEq, Prod.mk.injEq] at h
        obtain ⟨rfl, rfl⟩ := h
        exact ((ih hm).cons x).trans (List.Perm.swap _ _ _)
      · simp only [Option.some.injEq, Prod.mk.injEq] at h
        obtain ⟨rfl, rfl⟩ := h
        exact List.Perm.refl _

theorem popBest_mem_iff {q : List QNode} {m : QNode} {rest : List QNode}
    (h : popBest q = some (m, rest)) (x : QNode) : x ∈ q ↔ x = m ∨ x ∈ rest := by
  rw [(popBest_perm h).mem_iff, List.mem_cons]

theorem popBest_mem {q : List QNode} {m : QNode} {rest : List QNode}
    (h : popBest q = some (m, rest)) : m ∈ q :=
  (popBest_mem_iff h m).2 (Or.inl rfl)

theorem popBest_rest_subset {q : List QNode} {m : QNode} {rest : List QNode}
    (h : popBest q = some (m, rest)) : ∀ x ∈ rest, x ∈ q :=
  fun x hx => (popBest_mem_iff h x).2 (Or.inr hx)

theorem popBest_length {q : List QNode} {m : QNode} {rest : List QNode}
    (h : popBest q = some (m, rest)) : rest.length + 1 = q.length := by
  rw [(popBest_perm h).length_eq, List.length_cons]

theorem QNode.before_true_le {a b : QNode} (h : a.before b = true) : a.caveat ≤ b.caveat := by
  simp only [QNode.before, Bool.or_eq_true, Bool.and_eq_true, decide_eq_true_eq, beq_iff_eq] at h
  omega

theorem QNode.before_false_le {a b : QNode} (h : ¬ a.before b = true) : b.caveat ≤ a.caveat := by
  simp only [QNode.before, Bool.or_eq_true, Bool.and_eq_true, decide_eq_true_eq, beq_iff_eq,
    not_or, not_and] at h
  omega

theorem popBest_min {q : List QNode} {m : QNode} {rest : List QNode}
    (h : popBest q = some (m, rest)) : ∀ x ∈ q, m.caveat ≤ x.caveat := by
  induction q generalizing m rest with
  | nil => simp [popBest] at h
  | cons x xs ih =>
    simp only [popBest] at h
    split at h
    · rename_i hnone
      have hxs := popBest_eq_none hnone
      simp only [Option.some.injEq, Prod.mk.injEq] at h
      obtain ⟨rfl, rfl⟩ := h
      subst hxs
      intro y hy
      simp only [List.mem_singleton] at hy
      subst hy
      exact Nat.le_refl _
    · rename_i m' r hm
      have ihm := ih hm
      split at h
      · rename_i hb
        simp only [Option.some.injEq, Prod.mk.injEq] at h
        obtain ⟨rfl, rfl⟩ := h
        intro y hy
        rcases List.mem_cons.1 hy with rfl | hy
        · exact QNode.before_true_le hb
        · exact ihm y hy
      · rename_i hb
        simp only [Option.some.injEq, Prod.mk.injEq] at h
        obtain ⟨rfl, rfl⟩ := h
        have hle := QNode.before_false_le hb
        intro y hy
        rcases List.mem_cons.1 hy with rfl | hy
        · exact Nat.le_refl _
        · exact Nat.le_trans hle (ihm y hy)

/-! ### `expand` -/

theorem mem_expand {adj : Option Nat → List Edge} {c : Nat} {mode : Mode}
    {vis : List (Option Nat)} {n m : QNode} :
    m ∈ expand adj c mode vis n ↔
      (∃ e ∈ adj n.ver, usable mode c e = true ∧ e.dst ∉ vis ∧
        m = { ver := e.dst, originVer := n.ver, path := n.path ++ [e.origin],
              caveat := max n.caveat (edgeCaveat mode e) }) ∨
      (mode = .regenerateExemptions ∧ ∃ v, n.ver = some v ∧
        m = { ver := none, originVer := n.ver, path := n.path ++ [.freshExemption v],
              caveat := max n.caveat 8 }) := by
  unfold expand
  rw [List.mem_append]
  constructor
  · rintro (h | h)
    · left
      obtain ⟨e, he, rfl⟩ := List.mem_map.1 h
      obtain ⟨he1, he2⟩ := List.mem_filter.1 he
      simp only [Bool.and_eq_true, Bool.not_eq_true', List.contains_eq_mem,
        decide_eq_false_iff_not] at he2
      exact ⟨e, he1, he2.1, he2.2, rfl⟩
    · right
      split at h
      · rename_i hmode
        split at h
        · rename_i v hv
          exact ⟨hmode, v, hv, List.mem_singleton.1 h⟩
        · simp at h
      · simp at h
  · rintro (⟨e, he1, hu, hd, rfl⟩ | ⟨hmode, v, hv, rfl⟩)
    · left
      refine List.mem_map.2 ⟨e, List.mem_filter.2 ⟨he1, ?_⟩, rfl⟩
      simp only [Bool.and_eq_true, Bool.not_eq_true', List.contains_eq_mem,
        decide_eq_false_iff_not]
      exact ⟨hu, hd⟩
    · right
      rw [if_pos hmode]
      split
      · rename_i v' hv'
        have : v' = v := by rw [hv] at hv'; exact (Option.some.inj hv').symm
        subst this
        exact List.mem_singleton.2 rfl
      · rename_i hnone
        rw [hv] at hnone
        cases hnone

theorem expand_walk {adj : Option Nat → List Edge} {c : Nat} {mode : Mode} {src : Option Nat}
    {vis : List (Option Nat)} {n m : QNode}
    (hn : Walk adj mode c src n.path n.caveat n.ver) (hm : m ∈ expand adj c mode vis n) :
    Walk adj mode c src m.path m.caveat m.ver := by
  rcases mem_expand.1 hm with ⟨e, he, hu, _, rfl⟩ | ⟨hmode, v, hv, rfl⟩
  · exact Walk.snoc hn (Step.edge he hu)
  · refine Walk.snoc hn ?_
    rw [hv]
    exact Step.fresh hmode

/-! ### the ghost invariant -/

/-- Dijkstra-style invariant for the bottleneck order.  `d` records the optimal level of every
visited version. -/
structure Inv (adj : Option Nat → List Edge) (mode : Mode) (c : Nat) (src tgt : Option Nat)
    (q : List QNode) (vis : List (Option Nat)) (d : Option Nat → Nat) : Prop where
  qwalk : ∀ n ∈ q, Walk adj mode c src n.path n.caveat n.ver
  opt : ∀ u ∈ vis, (∃ p, Walk adj mode c src p (d u) u) ∧
    ∀ p l, Walk adj mode c src p l u → d u ≤ l
  closed : ∀ u ∈ vis, ∀ o k v, Step adj mode c u o k v →
    v ∈ vis ∨ ∃ n ∈ q, n.ver = v ∧ n.caveat ≤ max (d u) k
  start : src ∈ vis ∨ ∃ n ∈ q, n.ver = src ∧ n.caveat = 0
  tgt : tgt ∉ vis

theorem Inv.init (adj : Option Nat → List Edge) (mode : Mode) (c : Nat) (src tgt : Option Nat) :
    Inv adj mode c src tgt (initQueue src) [] (fun _ => 0) where
  qwalk := by
    intro n hn
    simp only [initQueue, List.mem_singleton] at hn
    subst hn
    exact Walk.nil src
  opt := by intro u hu; cases hu
  closed := by intro u hu; cases hu
  start := Or.inr ⟨_, List.mem_singleton.2 rfl, rfl, rfl⟩
  tgt := by simp

/-- a walk ending outside `vis` crosses the frontier somewhere -/
theorem Inv.frontier {adj : Option Nat → List Edge} {mode : Mode} {c : Nat} {src tgt : Option Nat}
    {q : List QNode} {vis : List (Option Nat)} {d : Option Nat → Nat}
    (inv : Inv adj mode c src tgt q vis d) {p : List Origin} {l : Nat} {b : Option Nat}
    (w : Walk adj mode c src p l b) : b ∉ vis → ∃ n ∈ q, n.caveat ≤ l := by
  induction w with
  | nil =>
    intro hb
    rcases inv.start with h | ⟨n, hn, _, h0⟩
    · exact absurd h hb
    · exact ⟨n, hn, by omega⟩
  | @snoc b d' p l k o w' hs ih =>
    intro hd
    by_cases hb : b ∈ vis
    · rcases inv.closed b hb o k d' hs with h | ⟨n, hn, _, hl⟩
      · exact absurd h hd
      · refine ⟨n, hn, ?_⟩
        have := (inv.opt b hb).2 p l w'
        omega
    · obtain ⟨n, hn, hl⟩ := ih hb
      exact ⟨n, hn, by omega⟩

/-- the popped node, if unvisited, carries the optimal level for its version -/
theorem Inv.popped_opt {adj : Option Nat → List Edge} {mode : Mode} {c : Nat} {src tgt : Option Nat}
    {q : List QNode} {vis : List (Option Nat)} {d : Option Nat → Nat}
    (inv : Inv adj mode c src tgt q vis d) {n : QNode} {rest : List QNode}
    (hpop : popBest q = some (n, rest)) (hnv : n.ver ∉ vis) :
    ∀ p' l', Walk adj mode c src p' l' n.ver → n.caveat ≤ l' := by
  intro p' l' w
  obtain ⟨m, hm, hl⟩ := inv.frontier w hnv
  have := popBest_min hpop m hm
  omega

theorem Inv.discard {adj : Option Nat → List Edge} {mode : Mode} {c : Nat} {src tgt : Option Nat}
    {q : List QNode} {vis : List (Option Nat)} {d : Option Nat → Nat}
    (inv : Inv adj mode c src tgt q vis d) {n : QNode} {rest : List QNode}
    (hpop : popBest q = some (n, rest)) (hv : n.ver ∈ vis) :
    Inv adj mode c src tgt rest vis d where
  qwalk := fun m hm => inv.qwalk m (popBest_rest_subset hpop m hm)
  opt := inv.opt
  closed := by
    intro u hu o k v hs
    rcases inv.closed u hu o k v hs with h1 | ⟨m, hm, hmv, hl⟩
    · exact Or.inl h1
    · rcases (popBest_mem_iff hpop m).1 hm with rfl | hm'
      · exact Or.inl (hmv ▸ hv)
      · exact Or.inr ⟨m, hm', hmv, hl⟩
  start := by
    rcases inv.start with h1 | ⟨m, hm, hmv, hl⟩
    · exact Or.inl h1
    · rcases (popBest_mem_iff hpop m).1 hm with rfl | hm'
      · exact Or.inl (hmv ▸ hv)
      · exact Or.inr ⟨m, hm', hmv, hl⟩
  tgt := inv.tgt

theorem Inv.expand {adj : Option Nat → List Edge} {mode : Mode} {c : Nat} {src tgt : Option Nat}
    {q : List QNode} {vis : List (Option Nat)} {d : Option Nat → Nat}
    (inv : Inv adj mode c src tgt q vis d) {n : QNode} {rest : List QNode}
    (hpop : popBest q = some (n, rest)) (hnv : n.ver ∉ vis) (hnt : ¬ n.ver = tgt) :
    Inv adj mode c src tgt (rest ++ Vet.expand adj c mode (n.ver :: vis) n) (n.ver :: vis)
      (fun v => if v = n.ver then n.caveat else d v) where
  qwalk := by
    intro m hm
    rcases List.mem_append.1 hm with hm | hm
    · exact inv.qwalk m (popBest_rest_subset hpop m hm)
    · exact expand_walk (inv.qwalk n (popBest_mem hpop)) hm
  opt := by
    intro u hu
    rcases List.mem_cons.1 hu with rfl | hu
    · simp only [if_true]
      exact ⟨⟨_, inv.qwalk n (popBest_mem hpop)⟩, inv.popped_opt hpop hnv⟩
    · have hne : u ≠ n.ver := fun h => hnv (h ▸ hu)
      simp only [if_neg hne]
      exact inv.opt u hu
  closed := by
    intro u hu o k v hs
    rcases List.mem_cons.1 hu with rfl | hu
    · simp only [if_true]
      by_cases hd : v ∈ n.ver :: vis
      · exact Or.inl hd
      · right
        generalize hgen : n.ver = u at hs
        cases hs with
        | @edge _ e he hus =>
          subst hgen
          exact ⟨_, List.mem_append_right _ (mem_expand.2 (Or.inl ⟨e, he, hus, hd, rfl⟩)),
            rfl, Nat.le_refl _⟩
        | @fresh v' hmode =>
          exact ⟨_, List.mem_append_right _ (mem_expand.2 (Or.inr ⟨hmode, v', hgen, rfl⟩)),
            rfl, Nat.le_refl _⟩
    · have hne : u ≠ n.ver := fun h => hnv (h ▸ hu)
      simp only [if_neg hne]
      rcases inv.closed u hu o k v hs with h1 | ⟨m, hm, hmv, hl⟩
      · exact Or.inl (List.mem_cons_of_mem _ h1)
      · rcases (popBest_mem_iff hpop m).1 hm with rfl | hm'
        · exact Or.inl (hmv ▸ List.mem_cons_self)
        · exact Or.inr ⟨m, List.mem_append_left _ hm', hmv, hl⟩
  start := by
    rcases inv.start with h1 | ⟨m, hm, hmv, hl⟩
    · exact Or.inl (List.mem_cons_of_mem _ h1)
    · rcases (popBest_mem_iff hpop m).1 hm with rfl | hm'
      · exact Or.inl (hmv ▸ List.mem_cons_self)
      · exact Or.inr ⟨m, List.mem_append_left _ hm', hmv, hl⟩
  tgt := by
    intro h
    rcases List.mem_cons.1 h with h | h
    · exact hnt h.symm
    · exact inv.tgt h

/-! ### the loop -/

theorem searchLoop_found {adj : Option Nat → List Edge} {mode : Mode} {c : Nat}
    {src tgt : Option Nat} (fuel : Nat) :
    ∀ (q : List QNode) (vis : List (Option Nat)) (d : Option Nat → Nat),
      Inv adj mode c src tgt q vis d →
      ∀ p, searchLoop adj c tgt mode fuel q vis = .found p →
        ∃ l, Walk adj mode c src p l tgt ∧
          ∀ p' l', Walk adj mode c src p' l' tgt → l ≤ l' := by
  induction fuel with
  | zero => intro q vis d _ p h; simp [searchLoop] at h
  | succ fuel ih =>
    intro q vis d inv p h
    simp only [searchLoop] at h
    split at h
    · cases h
    · rename_i n rest hpop
      split at h
      · rename_i hv
        have hv' : n.ver ∈ vis := by simpa using hv
        exact ih rest vis d (inv.discard hpop hv') p h
      · rename_i hv
        have hv' : n.ver ∉ vis := by simpa using hv
        split at h
        · rename_i heq
          simp only [SearchResult.found.injEq] at h
          subst h
          refine ⟨n.caveat, heq ▸ inv.qwalk n (popBest_mem hpop), ?_⟩
          intro p' l' w
          exact inv.popped_opt hpop hv' p' l' (heq ▸ w)
        · rename_i hne
          exact ih _ _ _ (inv.expand hpop hv' hne) p h

theorem searchLoop_notFound {adj : Option Nat → List Edge} {mode : Mode} {c : Nat}
    {src tgt : Option Nat} (fuel : Nat) :
    ∀ (q : List QNode) (vis : List (Option Nat)) (d : Option Nat → Nat),
      Inv adj mode c src tgt q vis d →
      ∀ vis', searchLoop adj c tgt mode fuel q vis = .notFound vis' →
        ∃ d', Inv adj mode c src tgt [] vis' d' := by
  induction fuel with
  | zero => intro q vis d _ p h; simp [searchLoop] at h
  | succ fuel ih =>
    intro q vis d inv vis' h
    simp only [searchLoop] at h
    split at h
    · rename_i hnone
      simp only [SearchResult.notFound.injEq] at h
      subst h
      exact ⟨d, popBest_eq_none hnone ▸ inv⟩
    · rename_i n rest hpop
      split at h
      · rename_i hv
        have hv' : n.ver ∈ vis := by simpa using hv
        exact ih rest vis d (inv.discard hpop hv') vis' h
      · rename_i hv
        have hv' : n.ver ∉ vis := by simpa using hv
        split at h
        · cases h
        · rename_i hne
          exact ih _ _ _ (inv.expand hpop hv' hne) vis' h

/-- with an empty queue the visited set is exactly the reachable set -/
theorem Inv.reachable_iff {adj : Option Nat → List Edge} {mode : Mode} {c : Nat}
    {src tgt : Option Nat} {vis : List (Option Nat)} {d : Option Nat → Nat}
    (inv : Inv adj mode c src tgt [] vis d) (v : Option Nat) :
    v ∈ vis ↔ ∃ p l, Walk adj mode c src p l v := by
  constructor
  · intro hv
    obtain ⟨⟨p, w⟩, _⟩ := inv.opt v hv
    exact ⟨p, _, w⟩
  · rintro ⟨p, l, w⟩
    apply Classical.byContradiction
    intro hv
    obtain ⟨n, hn, _⟩ := inv.frontier w hv
    cases hn

end Vet
