/- The required-entries map: `addEntry` / `addPath` / `requiredForPkg(s)` only ever add keys and
bits, and every bit recorded comes from an origin on a chosen path. -/
import Vet.Model.Update
import Vet.Lemmas.ResolveLoop
namespace Vet

/-! ### `addEntry` -/

theorem get?_addEntry (r : Required) (e : ReqEntry) (c : Nat) (e' : ReqEntry) :
    (addEntry r e c).get? e' =
      if e = e' then some ((r.get? e).getD 0 ||| (1 <<< c)) else r.get? e' := by
  induction r with
  | nil =>
    simp only [addEntry, Required.get?]
    by_cases h : e = e' <;> simp [h]
  | cons x xs ih =>
    obtain ⟨e0, s0⟩ := x
    simp only [addEntry]
    by_cases h0 : e0 = e
    · subst h0
      simp only [if_true, Required.get?]
      by_cases h : e0 = e' <;> simp [h]
    · simp only [h0, if_false, Required.get?]
      by_cases h1 : e0 = e'
      · subst h1
        simp [Ne.symm h0]
      · simp only [h1, if_false, ih]

/-- `r'` has every key and bit of `r` -/
def Required.le (r r' : Required) : Prop :=
  ∀ e s, r.get? e = some s → ∃ s', r'.get? e = some s' ∧ ∀ c, s.testBit c = true → s'.testBit c = true

theorem Required.le_refl (r : Required) : r.le r := fun _ s h => ⟨s, h, fun _ hc => hc⟩

theorem Required.le_trans {a b c : Required} (h1 : a.le b) (h2 : b.le c) : a.le c := by
  intro e s hs
  obtain ⟨s', hs', h'⟩ := h1 e s hs
  obtain ⟨s'', hs'', h''⟩ := h2 e s' hs'
  exact ⟨s'', hs'', fun c hc => h'' c (h' c hc)⟩

theorem addEntry_le (r : Required) (e : ReqEntry) (c : Nat) : r.le (addEntry r e c) := by
  intro e' s hs
  rw [get?_addEntry]
  by_cases h : e = e'
  · subst h
    refine ⟨_, if_pos rfl, ?_⟩
    intro c' hc'
    rw [hs]
    simp [Nat.testBit_or, hc']
  · exact ⟨s, by rw [if_neg h]; exact hs, fun _ hc => hc⟩

theorem addEntry_has (r : Required) (e : ReqEntry) (c : Nat) :
    ∃ s, (addEntry r e c).get? e = some s ∧ s.testBit c = true := by
  rw [get?_addEntry, if_pos rfl]
  exact ⟨_, rfl, by simp⟩

/-- `ReqProv S r`: every key of `r` has a bit set, and every set bit `c` of key `e` satisfies `S e c` -/
def ReqProv (S : ReqEntry → Nat → Prop) (r : Required) : Prop :=
  ∀ e s, r.get? e = some s → (∃ c, s.testBit c = true) ∧ ∀ c, s.testBit c = true → S e c

theorem ReqProv.nil (S : ReqEntry → Nat → Prop) : ReqProv S [] := by
  intro e s h
  cases h

theorem ReqProv.mono {S S' : ReqEntry → Nat → Prop} {r : Required} (h : ReqProv S r)
    (hs : ∀ e c, S e c → S' e c) : ReqProv S' r := by
  intro e s he
  obtain ⟨h1, h2⟩ := h e s he
  exact ⟨h1, fun c hc => hs e c (h2 c hc)⟩

theorem ReqProv.addEntry {S : ReqEntry → Nat → Prop} {r : Required} (h : ReqProv S r) {e : ReqEntry} {c : Nat}
    (hs : S e c) : ReqProv S (addEntry r e c) := by
  intro e' s he
  rw [get?_addEntry] at he
  by_cases heq : e = e'
  · subst heq
    rw [if_pos rfl] at he
    cases he
    refine ⟨⟨c, by simp⟩, ?_⟩
    intro c' hc'
    rw [testBit_or_single, Bool.or_eq_true, decide_eq_true_eq] at hc'
    rcases hc' with hc' | rfl
    · cases hg : r.get? e with
      | none => rw [hg] at hc'; simp at hc'
      | some s0 =>
        rw [hg] at hc'
        exact (h e s0 hg).2 c' hc'
    · exact hs
  · rw [if_neg heq] at he
    exact h e' s he

/-! ### `addPath` -/

theorem foldl_addEntry_le (r : Required) (es : List ReqEntry) (c : Nat) :
    r.le (es.foldl (fun r e => addEntry r e c) r) := by
  induction es generalizing r with
  | nil => exact Required.le_refl r
  | cons e es ih => exact Required.le_trans (addEntry_le r e c) (ih _)

theorem foldl_addEntry_has (r : Required) (es : List ReqEntry) (c : Nat) :
    ∀ e ∈ es, ∃ s, (es.foldl (fun r e => addEntry r e c) r).get? e = some s ∧ s.testBit c = true := by
  induction es generalizing r with
  | nil => intro e he; cases he
  | cons e0 es ih =>
    intro e he
    rcases List.mem_cons.1 he with rfl | he
    · obtain ⟨s, hs, hc⟩ := addEntry_has r e c
      obtain ⟨s', hs', h'⟩ := foldl_addEntry_le (addEntry r e c) es c e s hs
      exact ⟨s', hs', h' c hc⟩
    · exact ih _ e he

theorem foldl_addEntry_prov {S : ReqEntry → Nat → Prop} (r : Required) (es : List ReqEntry) (c : Nat)
    (h : ReqProv S r) (hs : ∀ e ∈ es, S e c) : ReqProv S (es.foldl (fun r e => addEntry r e c) r) := by
  induction es generalizing r with
  | nil => exact h
  | cons e es ih =>
    exact ih _ (h.addEntry (hs e List.mem_cons_self)) (fun e' he' => hs e' (List.mem_cons_of_mem _ he'))

theorem addPath_le (r : Required) (path : List Origin) (c : Nat) : r.le (addPath r path c) := by
  unfold addPath
  induction path generalizing r with
  | nil => exact Required.le_refl r
  | cons o os ih => exact Required.le_trans (foldl_addEntry_le r _ c) (ih _)

theorem addPath_has (r : Required) (path : List Origin) (c : Nat) :
    ∀ o ∈ path, ∀ e ∈ originEntries o, ∃ s, (addPath r path c).get? e = some s ∧ s.testBit c = true := by
  unfold addPath
  induction path generalizing r with
  | nil => intro o ho; cases ho
  | cons o0 os ih =>
    intro o ho e he
    rcases List.mem_cons.1 ho with rfl | ho
    · obtain ⟨s, hs, hc⟩ := foldl_addEntry_has r (originEntries o) c e he
      obtain ⟨s', hs', h'⟩ := addPath_le _ os c e s hs
      exact ⟨s', hs', h' c hc⟩
    · exact ih _ o ho e he

theorem addPath_prov {S : ReqEntry → Nat → Prop} (r : Required) (path : List Origin) (c : Nat)
    (h : ReqProv S r) (hs : ∀ o ∈ path, ∀ e ∈ originEntries o, S e c) : ReqProv S (addPath r path c) := by
  unfold addPath
  induction path generalizing r with
  | nil => exact h
  | cons o os ih =>
    exact ih _ (foldl_addEntry_prov r _ c h (hs o List.mem_cons_self))
      (fun o' ho' => hs o' (List.mem_cons_of_mem _ ho'))

/-! ### `requiredForPkg` -/

theorem requiredForPkg_spec {g : Graph} {m : Mapper} {ver : Nat} {mode : Mode}
    {S : ReqEntry → Nat → Prop} (cs : List Nat) (r r' : Required)
    (h : requiredForPkg g m ver mode cs r = .ok (some r')) (hp : ReqProv S r)
    (hS : ∀ c ∈ cs, ∀ path, search g c ver mode = .ok path → ∀ o ∈ path, ∀ e ∈ originEntries o, S e c) :
    r.le r' ∧ ReqProv S r' ∧
    ∀ c ∈ cs, ∃ path, search g c ver mode = .ok path ∧
      ∀ o ∈ path, ∀ e ∈ originEntries o, ∃ s, r'.get? e = some s ∧ s.testBit c = true := by
  induction cs generalizing r with
  | nil =>
    simp only [requiredForPkg, Except.ok.injEq, Option.some.injEq] at h
    subst h
    exact ⟨Required.le_refl r, hp, fun c hc => by cases hc⟩
  | cons c cs ih =>
    simp only [requiredForPkg] at h
    split at h
    · cases h
    · cases h
    · rename_i path hpath
      have hp' : ReqProv S (addPath r path c) :=
        addPath_prov r path c hp (hS c List.mem_cons_self path hpath)
      obtain ⟨hle, hprov, hall⟩ := ih _ h hp' (fun c' hc' => hS c' (List.mem_cons_of_mem _ hc'))
      refine ⟨Required.le_trans (addPath_le r path c) hle, hprov, ?_⟩
      intro c' hc'
      rcases List.mem_cons.1 hc' with rfl | hc'
      · refine ⟨path, hpath, ?_⟩
        intro o ho e he
        obtain ⟨s, hs, hb⟩ := addPath_has r path c' o ho e he
        obtain ⟨s', hs', h'⟩ := hle e s hs
        exact ⟨s', hs', h' c' hb⟩
      · exact hall c' hc'

/-- when every search succeeds the result is not `none` -/
theorem requiredForPkg_some {g : Graph} {m : Mapper} {ver : Nat} {mode : Mode} (cs : List Nat) (r : Required)
    (ro : Option Required) (h : requiredForPkg g m ver mode cs r = .ok ro)
    (hok : ∀ c ∈ cs, ∃ path, search g c ver mode = .ok path) : ∃ r', ro = some r' := by
  induction cs generalizing r with
  | nil =>
    simp only [requiredForPkg, Except.ok.injEq] at h
    exact ⟨r, h.symm⟩
  | cons c cs ih =>
    obtain ⟨path, hpath⟩ := hok c List.mem_cons_self
    simp only [requiredForPkg, hpath] at h
    exact ih _ h (fun c' hc' => hok c' (List.mem_cons_of_mem _ hc'))

/-! ### `requiredForPkgs` -/

theorem requiredForPkgs_spec {g : Graph} {m : Mapper} {mode : Mode}
    {S : ReqEntry → Nat → Prop} (pkgs : List (Nat × CSet)) (r r' : Required)
    (h : requiredForPkgs g m mode pkgs r = .ok (some r')) (hp : ReqProv S r)
    (hS : ∀ ver req, (ver, req) ∈ pkgs → ∀ c ∈ m.minimal req, ∀ path, search g c ver mode = .ok path →
      ∀ o ∈ path, ∀ e ∈ originEntries o, S e c) :
    r.le r' ∧ ReqProv S r' ∧
    ∀ ver req, (ver, req) ∈ pkgs → ∀ c ∈ m.minimal req, ∃ path, search g c ver mode = .ok path ∧
      ∀ o ∈ path, ∀ e ∈ originEntries o, ∃ s, r'.get? e = some s ∧ s.testBit c = true := by
  induction pkgs generalizing r with
  | nil =>
    simp only [requiredForPkgs, Except.ok.injEq, Option.some.injEq] at h
    subst h
    exact ⟨Required.le_refl r, hp, fun _ _ hc => by cases hc⟩
  | cons x rest ih =>
    obtain ⟨ver0, req0⟩ := x
    simp only [requiredForPkgs] at h
    split at h
    · cases h
    · cases h
    · rename_i r1 h1
      obtain ⟨hle1, hp1, hall1⟩ := requiredForPkg_spec _ r r1 h1 hp
        (fun c hc => hS ver0 req0 List.mem_cons_self c hc)
      obtain ⟨hle, hprov, hall⟩ := ih r1 h hp1
        (fun ver req hm => hS ver req (List.mem_cons_of_mem _ hm))
      refine ⟨Required.le_trans hle1 hle, hprov, ?_⟩
      intro ver req hm c hc
      rcases List.mem_cons.1 hm with heq | hm
      · cases heq
        obtain ⟨path, hpath, hent⟩ := hall1 c hc
        refine ⟨path, hpath, ?_⟩
        intro o ho e he
        obtain ⟨s, hs, hb⟩ := hent o ho e he
        obtain ⟨s', hs', h'⟩ := hle e s hs
        exact ⟨s', hs', h' c hb⟩
      · exact hall ver req hm c hc

theorem requiredForPkgs_some {g : Graph} {m : Mapper} {mode : Mode} (pkgs : List (Nat × CSet)) (r : Required)
    (ro : Option Required) (h : requiredForPkgs g m mode pkgs r = .ok ro)
    (hok : ∀ ver req, (ver, req) ∈ pkgs → ∀ c ∈ m.minimal req, ∃ path, search g c ver mode = .ok path) :
    ∃ r', ro = some r' := by
  induction pkgs generalizing r with
  | nil =>
    simp only [requiredForPkgs, Except.ok.injEq] at h
    exact ⟨r, h.symm⟩
  | cons x rest ih =>
    obtain ⟨ver0, req0⟩ := x
    simp only [requiredForPkgs] at h
    split at h
    · cases h
    · rename_i h1
      obtain ⟨r', hr'⟩ := requiredForPkg_some _ r _ h1 (hok ver0 req0 List.mem_cons_self)
      cases hr'
    · rename_i r1 h1
      exact ih r1 h (fun ver req hm => hok ver req (List.mem_cons_of_mem _ hm))

/-- the source of a recorded bit: a chosen path of some package and minimal criterion -/
def PathSrc (g : Graph) (m : Mapper) (mode : Mode) (pkgs : List (Nat × CSet)) (e : ReqEntry) (c : Nat) : Prop :=
  ∃ ver req, (ver, req) ∈ pkgs ∧ c ∈ m.minimal req ∧
    ∃ path, search g c ver mode = .ok path ∧ ∃ o ∈ path, e ∈ originEntries o

theorem requiredForPkgs_prov {g : Graph} {m : Mapper} {mode : Mode} (pkgs : List (Nat × CSet)) (r : Required)
    (h : requiredForPkgs g m mode pkgs [] = .ok (some r)) : ReqProv (PathSrc g m mode pkgs) r :=
  (requiredForPkgs_spec pkgs [] r h (ReqProv.nil _)
    (fun ver req hm _ hc path hpath o ho _ he => ⟨ver, req, hm, hc, path, hpath, o, ho, he⟩)).2.1

end Vet
