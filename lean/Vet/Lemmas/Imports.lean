/- Helper lemmas for the import pipeline. -/
import Vet.Spec.Import
import Vet.Props.C05
namespace Vet


theorem sanitizeAudits_append (n : Nat) (l₁ l₂ : List (Bool × Audit)) :
    sanitizeAudits n (l₁ ++ l₂) = sanitizeAudits n l₁ ++ sanitizeAudits n l₂ := by
  simp [sanitizeAudits, List.filterMap_append]

theorem sanitizeAudits_cons_false (n : Nat) (l : List (Bool × Audit)) (x : Audit) :
    sanitizeAudits n ((false, x) :: l) = sanitizeAudits n l := by
  simp [sanitizeAudits]

theorem sanitizeAudits_cons_unknown (n : Nat) (l : List (Bool × Audit)) (x : Audit) (b : Bool)
    (hx : ∀ c ∈ x.criteria, n ≤ c) :
    sanitizeAudits n ((b, x) :: l) = sanitizeAudits n l := by
  have : x.criteria.filter (fun i => decide (i < n)) = [] := by
    rw [List.filter_eq_nil_iff]; intro c hc; have := hx c hc; simp; omega
  cases b
  · simp [sanitizeAudits]
  · simp [sanitizeAudits, this, if_pos hx]

theorem sanitizeWildcards_append (n : Nat) (l₁ l₂ : List (Bool × Wildcard)) :
    sanitizeWildcards n (l₁ ++ l₂) = sanitizeWildcards n l₁ ++ sanitizeWildcards n l₂ := by
  simp [sanitizeWildcards, List.filterMap_append]

theorem sanitizeWildcards_cons_false (n : Nat) (l : List (Bool × Wildcard)) (x : Wildcard) :
    sanitizeWildcards n ((false, x) :: l) = sanitizeWildcards n l := by
  simp [sanitizeWildcards]

theorem markFirst_clear {α β : Type} (same isFresh : α → Bool) (clear : α → α) (g : α → β)
    (hg : ∀ x, g (clear x) = g x) (l : List α) :
    (markFirst same isFresh clear l).map g = l.map g := by
  induction l with
  | nil => rfl
  | cons x xs ih =>
    simp only [markFirst]
    split
    · simp [hg]
    · simp [ih]

theorem foldl_markFirst_clear {α β : Type} (same : α → α → Bool) (isFresh : α → Bool) (clear : α → α) (g : α → β)
    (hg : ∀ x, g (clear x) = g x) (es : List α) (l : List α) :
    (es.foldl (fun l e => markFirst (fun x => same x e) isFresh clear l) l).map g = l.map g := by
  induction es generalizing l with
  | nil => rfl
  | cons e es ih => simp only [List.foldl_cons]; rw [ih, markFirst_clear _ _ _ _ hg]

theorem markTable_clear {α β : Type} (same : α → α → Bool) (isFresh : α → Bool) (clear : α → α) (g : α → β)
    (hg : ∀ x, g (clear x) = g x) (live lock : List (Nat × List α)) :
    (markTable same isFresh clear live lock).map (fun e => (e.1, e.2.map g)) = live.map (fun e => (e.1, e.2.map g)) := by
  simp only [markTable, List.map_map]
  apply List.map_congr_left
  intro e _
  simp only [Function.comp]
  rw [foldl_markFirst_clear _ _ _ _ hg]



/-! ## association lists -/

theorem assoc?_none_of {β : Type} (k : Nat) (t : List (Nat × β)) (h : ∀ e ∈ t, e.1 ≠ k) :
    assoc? k t = none := by
  induction t with
  | nil => rfl
  | cons e rest ih =>
    obtain ⟨k', v⟩ := e
    simp only [assoc?]
    have : k' ≠ k := h (k', v) (List.mem_cons_self ..)
    rw [if_neg this]
    exact ih (fun e he => h e (List.mem_cons_of_mem _ he))

theorem assoc?_some_mem {β : Type} (k : Nat) (t : List (Nat × β)) (v : β) (h : assoc? k t = some v) :
    (k, v) ∈ t := by
  induction t with
  | nil => simp [assoc?] at h
  | cons e rest ih =>
    obtain ⟨k', v'⟩ := e
    simp only [assoc?] at h
    split at h
    · next hk => cases h; subst hk; exact List.mem_cons_self ..
    · exact List.mem_cons_of_mem _ (ih h)

theorem assoc?_of_mem_nodup {β : Type} (k : Nat) (t : List (Nat × β)) (v : β)
    (hnd : (t.map (·.1)).Nodup) (h : (k, v) ∈ t) : assoc? k t = some v := by
  induction t with
  | nil => cases h
  | cons e rest ih =>
    obtain ⟨k', v'⟩ := e
    simp only [List.map_cons, List.nodup_cons] at hnd
    simp only [assoc?]
    rcases List.mem_cons.1 h with h | h
    · cases h; simp
    · have : k' ≠ k := by
        intro hk; subst hk
        exact hnd.1 (List.mem_map.2 ⟨(k', v), h, rfl⟩)
      rw [if_neg this]
      exact ih hnd.2 h

theorem getL_nil_of {β : Type} (k : Nat) (t : List (Nat × List β)) (h : ∀ e ∈ t, e.1 ≠ k) :
    getL k t = [] := by
  simp [getL, assoc?_none_of k t h]

theorem mem_getL {β : Type} (k : Nat) (t : List (Nat × List β)) (x : β) (h : x ∈ getL k t) :
    ∃ l, (k, l) ∈ t ∧ x ∈ l ∧ getL k t = l := by
  unfold getL at h ⊢
  cases hh : assoc? k t with
  | none => rw [hh] at h; simp at h
  | some l => rw [hh] at h; exact ⟨l, assoc?_some_mem k t l hh, by simpa using h, rfl⟩

theorem getL_of_mem_nodup {β : Type} (k : Nat) (t : List (Nat × List β)) (l : List β)
    (hnd : (t.map (·.1)).Nodup) (h : (k, l) ∈ t) : getL k t = l := by
  simp [getL, assoc?_of_mem_nodup k t l hnd h]

/-! ## `mapTable` -/

theorem mapTable_keys {α β : Type} (F : List α → Except Panic (List β)) (t : List (Nat × List α))
    (t' : List (Nat × List β)) (h : mapTable F t = .ok t') : t'.map (·.1) = t.map (·.1) := by
  induction t generalizing t' with
  | nil => simp only [mapTable] at h; cases h; rfl
  | cons e rest ih =>
    obtain ⟨n, l⟩ := e
    simp only [mapTable] at h
    split at h
    · cases h
    · split at h
      · cases h
      · next r hr => cases h; simp [ih r hr]

theorem mapTable_mem {α β : Type} (F : List α → Except Panic (List β)) (t : List (Nat × List α))
    (t' : List (Nat × List β)) (h : mapTable F t = .ok t') (n : Nat) (l' : List β) (hm : (n, l') ∈ t') :
    ∃ l, (n, l) ∈ t ∧ F l = .ok l' := by
  induction t generalizing t' with
  | nil => simp only [mapTable] at h; cases h; cases hm
  | cons e rest ih =>
    obtain ⟨n₀, l₀⟩ := e
    simp only [mapTable] at h
    split at h
    · cases h
    · next l₀' hl₀ =>
      split at h
      · cases h
      · next r hr =>
        cases h
        rcases List.mem_cons.1 hm with hm | hm
        · cases hm; exact ⟨l₀, List.mem_cons_self .., hl₀⟩
        · obtain ⟨l, hl, hF⟩ := ih r hr hm
          exact ⟨l, List.mem_cons_of_mem _ hl, hF⟩

/-! ## `localizeAudits` / `localizeWildcards` -/

theorem localizeAudits_mem (lm fm : Mapper) (mapping : List CSet) (l l' : List Audit)
    (h : localizeAudits lm fm mapping l = .ok l') (a' : Audit) (ha : a' ∈ l') :
    ∃ a c, a ∈ l ∧ makeLocal lm fm mapping a.criteria = .ok c ∧
      a' = { a with criteria := c, fresh := true } := by
  induction l generalizing l' with
  | nil => simp only [localizeAudits] at h; cases h; cases ha
  | cons a₀ rest ih =>
    simp only [localizeAudits] at h
    split at h
    · cases h
    · next c hc =>
      split at h
      · cases h
      · next r hr =>
        cases h
        rcases List.mem_cons.1 ha with ha | ha
        · exact ⟨a₀, c, List.mem_cons_self .., hc, ha⟩
        · obtain ⟨a, c', hm, hc', he⟩ := ih r hr ha
          exact ⟨a, c', List.mem_cons_of_mem _ hm, hc', he⟩

theorem localizeWildcards_mem (lm fm : Mapper) (mapping : List CSet) (l l' : List Wildcard)
    (h : localizeWildcards lm fm mapping l = .ok l') (a' : Wildcard) (ha : a' ∈ l') :
    ∃ a c, a ∈ l ∧ makeLocal lm fm mapping a.criteria = .ok c ∧
      a' = { a with criteria := c, fresh := true } := by
  induction l generalizing l' with
  | nil => simp only [localizeWildcards] at h; cases h; cases ha
  | cons a₀ rest ih =>
    simp only [localizeWildcards] at h
    split at h
    · cases h
    · next c hc =>
      split at h
      · cases h
      · next r hr =>
        cases h
        rcases List.mem_cons.1 ha with ha | ha
        · exact ⟨a₀, c, List.mem_cons_self .., hc, ha⟩
        · obtain ⟨a, c', hm, hc', he⟩ := ih r hr ha
          exact ⟨a, c', List.mem_cons_of_mem _ hm, hc', he⟩

/-! ## sanitising -/

theorem mem_sanitizeAudits (n : Nat) (l : List (Bool × Audit)) (a : Audit) (h : a ∈ sanitizeAudits n l) :
    ∃ raw, (true, raw) ∈ l ∧
      a = { raw with criteria := raw.criteria.filter (fun i => decide (i < n)) } := by
  simp only [sanitizeAudits, List.mem_filterMap] at h
  obtain ⟨⟨ok, raw⟩, hm, hf⟩ := h
  cases ok
  · simp at hf
  · simp only [Bool.not_true] at hf
    split at hf
    · simp at hf
    · split at hf
      · cases hf
      · cases hf; exact ⟨raw, hm, rfl⟩

theorem mem_sanitizeWildcards (n : Nat) (l : List (Bool × Wildcard)) (a : Wildcard)
    (h : a ∈ sanitizeWildcards n l) :
    ∃ raw, (true, raw) ∈ l ∧
      a = { raw with criteria := raw.criteria.filter (fun i => decide (i < n)) } := by
  simp only [sanitizeWildcards, List.mem_filterMap] at h
  obtain ⟨⟨ok, raw⟩, hm, hf⟩ := h
  cases ok
  · simp at hf
  · simp only [Bool.not_true] at hf
    split at hf
    · simp at hf
    · split at hf
      · cases hf
      · cases hf; exact ⟨raw, hm, rfl⟩

/-! ## inversion of `importSource` -/

def preAudits (n : Nat) (exclude : List Nat) (p : PeerFile) : List (Nat × List Audit) :=
  ((p.audits.map (fun (name, l) =>
      (name, (sanitizeAudits n l).filter (·.importable)))).filter (fun e => !e.2.isEmpty)).filter
    (fun e => !exclude.contains e.1)

def preWild (n : Nat) (exclude : List Nat) (p : PeerFile) : List (Nat × List Wildcard) :=
  ((p.wildcards.map (fun (name, l) => (name, sanitizeWildcards n l))).filter
    (fun e => !e.2.isEmpty)).filter (fun e => !exclude.contains e.1)

theorem importSource_inv (lm : Mapper) (exclude : List Nat) (p : PeerFile) (f : AFile)
    (h : importSource lm exclude p = .ok f) :
    ∃ fm mapping, Mapper.new (sanitizeTable p.table) = .ok fm ∧
      foreignToLocal lm p.cmap (List.range fm.n) = .ok mapping ∧
      mapTable (localizeAudits lm fm mapping) (preAudits fm.n exclude p) = .ok f.audits ∧
      mapTable (localizeWildcards lm fm mapping) (preWild fm.n exclude p) = .ok f.wildcards := by
  simp only [importSource] at h
  split at h
  · cases h
  · next fm hfm =>
    split at h
    · cases h
    · next mapping hmap =>
      split at h
      · cases h
      · next a ha =>
        split at h
        · cases h
        · next w hw =>
          cases h
          have hn : fm.n = (sanitizeTable p.table).n := (new_ok hfm).2.2.2.1
          refine ⟨fm, mapping, hfm, hmap, ?_, ?_⟩
          · simp only [preAudits, hn]; exact ha
          · simp only [preWild, hn]; exact hw

theorem mem_preAudits (n : Nat) (exclude : List Nat) (p : PeerFile) (name : Nat) (l : List Audit)
    (h : (name, l) ∈ preAudits n exclude p) :
    name ∉ exclude ∧ ∃ rl, (name, rl) ∈ p.audits ∧ l = (sanitizeAudits n rl).filter (·.importable) := by
  simp only [preAudits, List.mem_filter, List.mem_map] at h
  obtain ⟨⟨⟨⟨nm, rl⟩, hm, he⟩, _⟩, hex⟩ := h
  cases he
  refine ⟨?_, rl, hm, rfl⟩
  simpa using hex

theorem mem_preWild (n : Nat) (exclude : List Nat) (p : PeerFile) (name : Nat) (l : List Wildcard)
    (h : (name, l) ∈ preWild n exclude p) :
    name ∉ exclude ∧ ∃ rl, (name, rl) ∈ p.wildcards ∧ l = sanitizeWildcards n rl := by
  simp only [preWild, List.mem_filter, List.mem_map] at h
  obtain ⟨⟨⟨⟨nm, rl⟩, hm, he⟩, _⟩, hex⟩ := h
  cases he
  refine ⟨?_, rl, hm, rfl⟩
  simpa using hex

end Vet
