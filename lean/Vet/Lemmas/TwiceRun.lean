/- The two check-mode runs: what the first run records for a crate, and the key step — every entry
the second run records stands for records that are not fresh. -/
import Vet.Lemmas.TwiceWalk
namespace Vet

/-- `update_facts` with the two defining equations kept -/
theorem update_facts2 {w : World} {modeOf : Nat → UpdateMode} {u : Updates}
    (hnd : (w.store.exemptions.map (·.1)).Nodup)
    (hmode : ∀ n, (modeOf n).search ≠ .regenerateExemptions)
    (hu : getStoreUpdates w modeOf = .ok u) :
    ∃ dg m reqs required ex0,
      DepGraph.new w.md w.store.policy = .ok dg ∧ Mapper.new w.table = .ok m ∧
      resolveRequirements dg w.store.policy m = .ok reqs ∧
      allRequired dg m reqs w.store modeOf (dg.nodes.map (·.name)) [] = .ok required ∧
      exemptionTable m modeOf (reqOfLookup (fun n => assoc? n required)) w.store.exemptions = .ok ex0 ∧
      ReqFacts dg m reqs w.store modeOf required ∧
      u = updatesOf w.store modeOf (fun n => assoc? n required) ex0 ∧
      (∀ name, ExOK m w.store modeOf (fun n => assoc? n required) ex0 name) ∧
      (∀ name, AllExSound m w.store (fun n => assoc? n required) name) := by
  obtain ⟨dg, m, reqs, required, ex0, hdg, hm, hreq, hall, hex0, hueq⟩ := getStoreUpdates_shape hu
  have facts := allRequired_facts hall
  have hnofresh : withFresh m required ex0 = ex0 := by
    apply withFresh_eq
    intro x hx r hr v
    have := facts.mem x hx
    rw [hr] at this
    exact (requiredEntries_sound (hmode x.1) this).2 v
  rw [hnofresh] at hueq
  refine ⟨dg, m, reqs, required, ex0, hdg, hm, hreq, hall, hex0, facts, hueq, ?_, ?_⟩
  · intro name
    exact exemptionTable_getL_nodup hex0 hnd name
  · intro name x idx original hx horig r hr su hg c hc
    replace hr : (assoc? name required).getD (some []) = some r := hr
    cases hl : assoc? name required with
    | none =>
      rw [hl] at hr
      simp only [Option.getD_none, Option.some.injEq] at hr
      subst hr
      cases hg
    | some ro =>
      rw [hl] at hr
      simp only [Option.getD_some] at hr
      subst hr
      obtain ⟨x', cs, hx', hcs, hbit⟩ :=
        (requiredEntries_sound (hmode name) (facts.ok name _ hl)).1 idx su c hg hc
      cases pres_zipIdx_unique hx hx'
      rw [horig] at hcs
      cases hcs
      exact hbit

/-- the names with an entry in the required table are the names of the graph's packages -/
theorem lookup_isSome_iff {dg : DepGraph} {m : Mapper} {reqs : List CSet} {s : Store}
    {modeOf : Nat → UpdateMode} {required : List (Nat × Option Required)}
    (h : allRequired dg m reqs s modeOf (dg.nodes.map (·.name)) [] = .ok required) (n : Nat) :
    (assoc? n required).isSome = true ↔ n ∈ dg.nodes.map (·.name) := by
  obtain ⟨_, _, _, h4, h5⟩ := allRequired_spec _ _ _ h
  constructor
  · intro hs
    by_cases hn : n ∈ dg.nodes.map (·.name)
    · exact hn
    · rw [h5 n hn rfl] at hs
      cases hs
  · intro hn
    obtain ⟨ro, hro⟩ := h4 n hn
    rw [hro]
    rfl

theorem name_of_pkgsOf {dg : DepGraph} {reqs : List CSet} {name : Nat} (h : pkgsOf dg reqs name ≠ []) :
    name ∈ dg.nodes.map (·.name) := by
  obtain ⟨⟨ver, req⟩, hmem⟩ := List.exists_mem_of_ne_nil _ h
  obtain ⟨i, p, hp, _, hn, _, _⟩ := mem_pkgsOf.1 hmem
  exact List.mem_map.2 ⟨p, List.mem_of_getElem? hp, hn⟩

/-- first run, one crate: something is recorded, and for a crate with third-party packages it is
the result of the path searches on the crate's (conflict-free) graph -/
theorem run1_name {w : World} {r : Report} (hr : resolve w = .ok r) {a b f : List Nat}
    (hs : r.conclusion = .success a b f) {modeOf : Nat → UpdateMode}
    (hmode : ∀ n, (modeOf n).search ≠ .regenerateExemptions)
    {required : List (Nat × Option Required)}
    (facts : ReqFacts r.graph r.mapper r.requirements w.store modeOf required) (name : Nat) :
    ∃ r₁, reqOfLookup (fun n => assoc? n required) name = some r₁ ∧
      (pkgsOf r.graph r.requirements name ≠ [] →
        ∃ g₁, build w.store r.mapper name = .ok (.graph g₁) ∧
          requiredForPkgs g₁ r.mapper (modeOf name).search (pkgsOf r.graph r.requirements name) [] =
            .ok (some r₁)) := by
  obtain ⟨acc, v⟩ := resolve_view hr
  have hs' := hs
  rw [v.conclusion] at hs'
  obtain ⟨hv, -, -, -, -⟩ := concl_success hs'
  -- a crate with third-party packages has a graph
  have hgraph : pkgsOf r.graph r.requirements name ≠ [] →
      ∃ g, build w.store r.mapper name = .ok (.graph g) := by
    intro hne
    obtain ⟨⟨ver, req⟩, hmem⟩ := List.exists_mem_of_ne_nil _ hne
    obtain ⟨i, p, hp, _, hn, htp, _⟩ := mem_pkgsOf.1 hmem
    obtain ⟨g, hb, -⟩ := v.graph_of_no_violation hv (v.item_of_node hp) htp
    exact ⟨g, hn ▸ hb⟩
  unfold reqOfLookup
  cases hl : assoc? name required with
  | none =>
    refine ⟨[], (by show (assoc? name required).getD (some []) = _; rw [hl]; rfl), ?_⟩
    intro hne
    obtain ⟨ro, hro⟩ := facts.names name (name_of_pkgsOf hne)
    rw [hl] at hro
    cases hro
  | some ro =>
    have hre := facts.ok _ _ hl
    rcases requiredEntries_cases hre with ⟨hnil, rfl⟩ | ⟨hne, ⟨cs, hcs, _⟩ | ⟨g, hb, hrp⟩⟩
    · exact ⟨[], (by show (assoc? name required).getD (some []) = _; rw [hl]; rfl), fun hne => absurd hnil hne⟩
    · obtain ⟨g, hg⟩ := hgraph hne
      rw [hg] at hcs
      cases hcs
    · obtain ⟨rr, rfl⟩ := requiredForPkgs_some _ _ _ hrp (by
        intro ver req hmem c hc
        obtain ⟨i', p', hp', hq', hn', htp', hv'⟩ := mem_pkgsOf.1 hmem
        obtain ⟨⟨hcn, hcb⟩, _⟩ := (mem_minimal ..).1 hc
        have hch := C01_sound w r hr a b f hs i' p' hp' htp' c
          ⟨hcn, by simpa [List.getD, hq'] using hcb⟩
        rw [hn', hv'] at hch
        exact search_ok_of_chain hb (hmode _) hch)
      exact ⟨rr, (by show (assoc? name required).getD (some []) = _; rw [hl]; rfl), fun _ => ⟨g, hb, hrp⟩⟩

/-- second run, one crate (key step): every entry recorded stands for records none of which the
relocked store flags fresh -/
theorem run2_stale {tb : Table} {m : Mapper} (hm : Mapper.new tb = .ok m)
    {s : Store} {M : Nat → UpdateMode} {lk : Nat → Option (Option Required)}
    {ex : List (Nat × List Exemption)} {name : Nat} {r₁ : Required}
    (hreq : reqOfLookup lk name = some r₁)
    (hex : ExOK m s M lk ex name) (hsound : AllExSound m s lk name)
    {dg : DepGraph} {reqs : List CSet}
    (h1 : pkgsOf dg reqs name ≠ [] → ∃ g₁, build s m name = .ok (.graph g₁) ∧
      requiredForPkgs g₁ m .preferExemptions (pkgsOf dg reqs name) [] = .ok (some r₁))
    (hls : LocalStale s name) {r₂ : Required}
    (h2 : requiredEntries dg m reqs (relocked s M lk ex) name .preferExemptions = .ok (some r₂)) :
    ∀ e b, (e, b) ∈ r₂ → entryFresh (relocked s M lk ex) name e = false := by
  intro e b hmem
  rcases requiredEntries_cases h2 with ⟨_, hr⟩ | ⟨hne, ⟨cs, _, hr⟩ | ⟨g₂, hb₂, hrp₂⟩⟩
  · cases hr
    cases hmem
  · cases hr
  · obtain ⟨g₁, hb₁, hrp₁⟩ := h1 hne
    obtain ⟨su, hsu⟩ := pres_get?_of_mem hmem
    obtain ⟨⟨c, hc⟩, hall⟩ := requiredForPkgs_prov _ r₂ hrp₂ e su hsu
    obtain ⟨ver, req, hpk, hcmin, path₂, hpath₂, o, ho, heo⟩ := hall c hc
    -- the first run's path for the same package and criterion
    obtain ⟨path₁, hpath₁, hent₁⟩ :=
      (requiredForPkgs_spec (S := fun _ _ => True) _ [] r₁ hrp₁ (ReqProv.nil _)
        (fun _ _ _ _ _ _ _ _ _ _ _ => trivial)).2.2 ver req hpk c hcmin
    obtain ⟨l₁, w₁, _⟩ := search_ok hpath₁
    obtain ⟨p', l', w', hl'⟩ := walk_transfer hm hreq hex hsound hb₁ hb₂ w₁ hent₁
    -- minimax in the second run
    obtain ⟨l₂, w₂, hmin⟩ := search_ok hpath₂
    have hl₂ : l₂ ≤ 3 := Nat.le_trans (hmin p' l' w') (hl' hls)
    obtain ⟨a', e', he', ho', _, hlev⟩ := walk_steps_le (by decide) w₂ o ho
    obtain ⟨t, ht, _, rfl⟩ := mem_backward he'
    have := stale_of_level hb₂ ht t.src (Nat.le_trans hlev hl₂)
    exact this e (by rw [← ho'] at heo; exact heo)

end Vet
