/- `resolveRequirements` returns one criteria set per node; the list `resolve` iterates over. -/
import Vet.Model.Resolve
namespace Vet

theorem setAt_length (l : List CSet) (i : Nat) (f : CSet → CSet) : (setAt l i f).length = l.length := by
  simp [setAt]

theorem pushDeps_length {g : DepGraph} {m : Mapper} {pol : Option PolicyEntry} {dflt : CSet}
    (ds : List Nat) (req req' : List CSet) (h : pushDeps g m pol dflt ds req = .ok req') :
    req'.length = req.length := by
  induction ds generalizing req with
  | nil =>
    simp only [pushDeps, Except.ok.injEq] at h
    rw [h]
  | cons d ds ih =>
    unfold pushDeps at h
    simp only at h
    split at h
    · split at h
      · cases h
      · rw [ih _ h, setAt_length]
    · rw [ih _ h, setAt_length]

theorem devLoop_length {g : DepGraph} {pol : Policy} {m : Mapper}
    (ps : List PkgNode) (req req' : List CSet) (h : devLoop g pol m ps req = .ok req') :
    req'.length = req.length := by
  induction ps generalizing req with
  | nil =>
    simp only [devLoop, Except.ok.injEq] at h
    rw [h]
  | cons p ps ih =>
    unfold devLoop at h
    split at h
    · exact ih _ h
    · simp only at h
      split at h
      · cases h
      · split at h
        · cases h
        · rename_i req1 hp
          rw [ih _ h, pushDeps_length _ _ _ hp]

theorem topoLoop_length {g : DepGraph} {pol : Policy} {m : Mapper}
    (is : List Nat) (req req' : List CSet) (h : topoLoop g pol m is req = .ok req') :
    req'.length = req.length := by
  induction is generalizing req with
  | nil =>
    simp only [topoLoop, Except.ok.injEq] at h
    rw [h]
  | cons i is ih =>
    unfold topoLoop at h
    simp only at h
    split at h
    · cases h
    · rename_i req1 hown
      have h1 : req1.length = req.length := by
        split at hown
        · split at hown
          · cases hown
          · cases hown
            exact setAt_length _ _ _
        · split at hown
          · split at hown
            · cases hown
            · cases hown
              exact setAt_length _ _ _
          · cases hown
            rfl
      split at h
      · cases h
      · rename_i req2 hp
        rw [ih _ h, pushDeps_length _ _ _ hp, h1]

theorem resolveRequirements_length {g : DepGraph} {pol : Policy} {m : Mapper} {req : List CSet}
    (h : resolveRequirements g pol m = .ok req) : req.length = g.nodes.length := by
  unfold resolveRequirements at h
  split at h
  · cases h
  · rename_i req0 hd
    rw [topoLoop_length _ _ _ h, devLoop_length _ _ _ hd, List.length_replicate]

/-! ### the work list -/

theorem mem_items {α β : Type} {nodes : List α} {req : List β} {i : Nat} {p : α} {q : β} :
    (i, p, q) ∈ (List.range nodes.length).zip (nodes.zip req) ↔
      nodes[i]? = some p ∧ req[i]? = some q := by
  rw [List.mem_iff_getElem?]
  constructor
  · rintro ⟨k, hk⟩
    rw [List.getElem?_zip_eq_some] at hk
    obtain ⟨h1, h2⟩ := hk
    rw [List.getElem?_zip_eq_some] at h2
    obtain ⟨hlt, hki⟩ := List.getElem?_eq_some_iff.1 h1
    simp only [List.getElem_range] at hki
    subst hki
    exact h2
  · rintro ⟨h1, h2⟩
    refine ⟨i, ?_⟩
    rw [List.getElem?_zip_eq_some]
    refine ⟨?_, ?_⟩
    · obtain ⟨hlt, _⟩ := List.getElem?_eq_some_iff.1 h1
      simp [hlt]
    · rw [List.getElem?_zip_eq_some]
      exact ⟨h1, h2⟩

theorem items_fst {α β : Type} {nodes : List α} {req : List β} (hlen : req.length = nodes.length) :
    ((List.range nodes.length).zip (nodes.zip req)).map (·.1) = List.range nodes.length := by
  apply List.map_fst_zip
  simp [hlen]

theorem flatMap_fst_sublist {β γ : Type} (l : List (Nat × β)) (f : Nat × β → List (Nat × γ))
    (hf : ∀ x, f x = [] ∨ ∃ y, f x = [(x.1, y)]) :
    ((l.flatMap f).map (·.1)).Sublist (l.map (·.1)) := by
  induction l with
  | nil => simp
  | cons x xs ih =>
    rw [List.flatMap_cons, List.map_append, List.map_cons]
    rcases hf x with h | ⟨y, h⟩
    · rw [h]
      exact List.Sublist.cons _ ih
    · rw [h]
      exact List.Sublist.cons_cons _ ih

end Vet
