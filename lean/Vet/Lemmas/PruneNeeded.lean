/- Helper lemmas for C12 (prune half): an exemption that survives `prune` is needed.

* walks: the level of a walk bounds the level of each of its steps; an exemption step has
  level 6 in prune mode; `search` returns a minimax walk
* the exemption table of the update: where an entry `(n, xs)` of `u.exemptions` comes from
* one narrowed exemption in prune mode
-/
import Vet.Lemmas.Preserve
import Vet.Lemmas.UpdateKeep
import Vet.Props.Search
namespace Vet

/-! ### walk levels -/

/-- every origin on a walk is the origin of a step whose level is at most the walk's level -/
theorem Walk.step_of_mem {adj : Option Nat → List Edge} {mode : Mode} {c : Nat} {a b : Option Nat}
    {p : List Origin} {l : Nat} (w : Walk adj mode c a p l b) {o : Origin} (ho : o ∈ p) :
    ∃ a' k b', Step adj mode c a' o k b' ∧ k ≤ l := by
  induction w with
  | nil => cases ho
  | snoc _ st ih =>
    rcases List.mem_append.1 ho with h | h
    · obtain ⟨a', k', b', hs, hk⟩ := ih h
      exact ⟨a', k', b', hs, Nat.le_trans hk (Nat.le_max_left _ _)⟩
    · rw [List.mem_singleton] at h
      subst h
      exact ⟨_, _, _, st, Nat.le_max_right _ _⟩

/-- in prune mode a step over an exemption has caveat level 6 -/
theorem Step.exemption_level {adj : Option Nat → List Edge} {c : Nat} {a b : Option Nat} {i k : Nat}
    (st : Step adj .preferFreshImports c a (.exemption i) k b) : k = 6 := by
  generalize ho : Origin.exemption i = o at st
  cases st with
  | @edge _ e he hu =>
    unfold edgeCaveat
    rw [← ho]
    simp
  | fresh h => cases h

/-- a walk through an exemption has level at least 6 in prune mode -/
theorem Walk.exemption_level {adj : Option Nat → List Edge} {c : Nat} {a b : Option Nat}
    {p : List Origin} {l : Nat} (w : Walk adj .preferFreshImports c a p l b) {i : Nat}
    (ho : Origin.exemption i ∈ p) : 6 ≤ l := by
  obtain ⟨a', k, b', st, hk⟩ := w.step_of_mem ho
  rw [st.exemption_level] at hk
  exact hk

/-- the path `search` returns is a minimax walk to the root -/
theorem search_ok_minimax {g : Graph} {c v : Nat} {mode : Mode} {path : List Origin}
    (h : search g c v mode = .ok path) :
    ∃ l, Walk g.backward mode c (some v) path l none ∧
      ∀ p' l', Walk g.backward mode c (some v) p' l' none → l ≤ l' := by
  unfold search at h
  split at h
  · rename_i p hp
    cases h
    exact search_minimax g.backward c (some v) none mode (searchFuel g) path
      (by simpa only [searchForPath, initQueue, if_true] using hp)
  · cases h
  · split at h
    · cases h
    · split at h <;> cases h

/-! ### the exemption table of the update -/

theorem addFresh_nil (t : List (Nat × List Exemption)) (n : Nat) : addFresh t n [] = t := by
  unfold addFresh
  rfl

/-- fresh exemptions of another crate do not touch the entries of `n` -/
theorem mem_addFresh_of_ne {t : List (Nat × List Exemption)} {n n' : Nat} {l xs : List Exemption}
    (hne : n' ≠ n) (h : (n, xs) ∈ addFresh t n' l) : (n, xs) ∈ t := by
  induction t with
  | nil =>
    unfold addFresh at h
    split at h
    · exact h
    · simp only [List.mem_singleton, Prod.mk.injEq] at h
      exact absurd h.1.symm hne
  | cons y rest ih =>
    obtain ⟨n0, l0⟩ := y
    unfold addFresh at h
    split at h
    · exact h
    · simp only at h
      split at h
      · rename_i h0
        rcases List.mem_cons.1 h with h | h
        · simp only [Prod.mk.injEq] at h
          exact absurd (h0.symm.trans h.1.symm) hne
        · exact List.mem_cons_of_mem _ h
      · rcases List.mem_cons.1 h with h | h
        · rw [h]
          exact List.mem_cons_self
        · exact List.mem_cons_of_mem _ (ih h)

/-- when crate `n` records no fresh exemption, its entries of the final table are entries of the
narrowed table -/
theorem mem_withFresh {m : Mapper} {required : List (Nat × Option Required)}
    {ex0 : List (Nat × List Exemption)} {n : Nat} {xs : List Exemption}
    (hno : ∀ x ∈ required, x.1 = n → ∀ r, x.2 = some r → freshExemptions m r = [])
    (h : (n, xs) ∈ withFresh m required ex0) : (n, xs) ∈ ex0 := by
  unfold withFresh at h
  induction required generalizing ex0 with
  | nil => exact h
  | cons x rest ih =>
    obtain ⟨n', ro⟩ := x
    rw [List.foldl_cons] at h
    have hrest := fun y hy => hno y (List.mem_cons_of_mem _ hy)
    have h' := ih hrest h
    cases ro with
    | none => exact h'
    | some r =>
      replace h' : (n, xs) ∈ addFresh ex0 n' (freshExemptions m r) := h'
      by_cases hn : n' = n
      · rw [hno (n', some r) List.mem_cons_self hn r rfl, addFresh_nil] at h'
        exact h'
      · exact mem_addFresh_of_ne hn h'

/-- an entry of the narrowed table is the update of an entry of the old table -/
theorem exemptionTable_mem {m : Mapper} {modeOf : Nat → UpdateMode} {reqOf : Nat → Option Required}
    {t ex0 : List (Nat × List Exemption)} (h : exemptionTable m modeOf reqOf t = .ok ex0)
    {n : Nat} {xs : List Exemption} (hm : (n, xs) ∈ ex0) :
    ∃ xs0, (n, xs0) ∈ t ∧
      updateExemptions m (modeOf n).pruneExemptions (reqOf n) xs0.zipIdx = .ok xs := by
  induction t generalizing ex0 with
  | nil =>
    simp only [exemptionTable, Except.ok.injEq] at h
    subst h
    cases hm
  | cons y rest ih =>
    obtain ⟨n0, l0⟩ := y
    simp only [exemptionTable] at h
    split at h
    · cases h
    · rename_i l hl
      split at h
      · cases h
      · rename_i t' ht'
        cases h
        have hrest : (n, xs) ∈ t' → ∃ xs0, (n, xs0) ∈ (n0, l0) :: rest ∧
            updateExemptions m (modeOf n).pruneExemptions (reqOf n) xs0.zipIdx = .ok xs := by
          intro hm'
          obtain ⟨xs0, h1, h2⟩ := ih ht' hm'
          exact ⟨xs0, List.mem_cons_of_mem _ h1, h2⟩
        split at hm
        · exact hrest hm
        · rcases List.mem_cons.1 hm with heq | hm
          · cases heq
            exact ⟨l0, List.mem_cons_self, hl⟩
          · exact hrest hm

/-! ### one exemption in prune mode -/

/-- what `updateExemption` with pruning on leaves of exemption `x₀`: always the version of `x₀`,
and — when the useful criteria are criteria of `x₀` — exactly their minimal list -/
theorem updateExemption_prune_mem {m : Mapper} {req : Option Required} {idx : Nat} {x₀ x : Exemption}
    {l' : List Exemption} (h : updateExemption m true req idx x₀ = .ok l') (hx : x ∈ l') :
    ∃ original, m.fromList x₀.criteria = .ok original ∧ x.version = x₀.version ∧
      (CSet.containsSet original (usefulSet true req idx original) = true →
        x.criteria = m.minimal (usefulSet true req idx original)) := by
  cases ho : m.fromList x₀.criteria with
  | error e =>
    unfold updateExemption at h
    rw [ho] at h
    cases h
  | ok original =>
    refine ⟨original, rfl, ?_⟩
    rw [updateExemption_eq ho] at h
    split at h
    · cases h
      cases hx
    · split at h
      · rename_i hsplit
        cases h
        constructor
        · simp only [List.mem_cons, List.not_mem_nil, or_false] at hx
          rcases hx with rfl | rfl <;> rfl
        · intro hcon
          rw [hcon] at hsplit
          simp at hsplit
      · cases h
        rw [List.mem_singleton] at hx
        subst hx
        exact ⟨rfl, fun _ => rfl⟩

/-- with pruning on, the useful criteria are the recorded ones -/
theorem usefulSet_prune_some (r : Required) (idx : Nat) (original : CSet) :
    usefulSet true (some r) idx original = (r.get? (.exemption idx)).getD 0 := by
  unfold usefulSet
  rfl

end Vet
