/- `resolve` does not panic on a store whose criteria references are all defined. -/
import Vet.Lemmas.Validate
namespace Vet

/-! ### `resolveRequirements` -/

/-- every criteria list reachable through `Policy.get` only names defined criteria -/
def PolOK (n : Nat) (pol : Policy) : Prop :=
  ∀ name ver e, pol.get name ver = some e →
    (∀ l, e.criteria = some l → ∀ c ∈ l, c < n) ∧ (∀ l, e.devCriteria = some l → ∀ c ∈ l, c < n) ∧
    (∀ d ∈ e.depCriteria, ∀ c ∈ d.2, c < n)

theorem polOK_of_count {t : Table} {s : Store} {locked : Bool} {mt : List (List Nat)}
    (h : invalidCriteriaCount t s locked mt = 0) : PolOK t.n s.policy := by
  intro name ver e hg
  exact (policyEntryBad_eq_zero_iff t.n e).1 (policyBad_zero_get (invalidCriteriaCount_eq_zero h).2.1 hg)

theorem pushDeps_ok (g : DepGraph) (m : Mapper) (pe : Option PolicyEntry)
    (hpe : ∀ e, pe = some e → ∀ d ∈ e.depCriteria, ∀ c ∈ d.2, c < m.n) (dflt : CSet)
    (ds : List Nat) (req : List CSet) : ∃ r, pushDeps g m pe dflt ds req = .ok r := by
  induction ds generalizing req with
  | nil => exact ⟨req, rfl⟩
  | cons d ds ih =>
    simp only [pushDeps]
    split
    · rename_i l hl
      cases pe with
      | none => simp at hl
      | some e =>
        simp only [Option.bind_some] at hl
        have hmem := assoc?_mem_of_some hl
        obtain ⟨c, hc⟩ := fromList_ok_of m l (hpe e rfl _ hmem)
        simp only [hc]
        exact ih _
    · exact ih _

theorem devLoop_ok (g : DepGraph) (pol : Policy) (m : Mapper) (hn : 2 ≤ m.n) (hpol : PolOK m.n pol)
    (ps : List PkgNode) (req : List CSet) : ∃ r, devLoop g pol m ps req = .ok r := by
  induction ps generalizing req with
  | nil => exact ⟨req, rfl⟩
  | cons p ps ih =>
    simp only [devLoop]
    split
    · exact ih _
    · have hcd : ∃ c, critOrDefault m ((pol.get p.name p.ver).bind (·.devCriteria)) 0 = .ok c := by
        unfold critOrDefault
        split
        · rename_i l hl
          cases hg : pol.get p.name p.ver with
          | none => simp [hg] at hl
          | some e =>
            simp only [hg, Option.bind_some] at hl
            exact fromList_ok_of m l ((hpol _ _ e hg).2.1 l hl)
        · exact fromList_ok_of m [0] (by intro i hi; simp at hi; omega)
      obtain ⟨c, hc⟩ := hcd
      simp only [hc]
      obtain ⟨r, hr⟩ := pushDeps_ok g m (pol.get p.name p.ver)
        (fun e he => (hpol _ _ e he).2.2) c p.devDeps req
      simp only [hr]
      exact ih _

theorem topoLoop_ok (g : DepGraph) (pol : Policy) (m : Mapper) (hn : 2 ≤ m.n) (hpol : PolOK m.n pol)
    (is : List Nat) (req : List CSet) : ∃ r, topoLoop g pol m is req = .ok r := by
  induction is generalizing req with
  | nil => exact ⟨req, rfl⟩
  | cons i is ih =>
    rw [topoLoop_cons]
    have hown : ∃ r, ownStep g pol m i req = .ok r := by
      unfold ownStep
      split
      · rename_i l hl
        cases hg : g.policyOf pol i with
        | none => simp [hg] at hl
        | some e =>
          simp only [hg, Option.bind_some] at hl
          obtain ⟨c, hc⟩ := fromList_ok_of m l ((hpol _ _ e hg).1 l hl)
          simp only [hc]
          exact ⟨_, rfl⟩
      · split
        · obtain ⟨c, hc⟩ := fromList_ok_of m [1] (by intro i hi; simp at hi; omega)
          simp only [hc]
          exact ⟨_, rfl⟩
        · exact ⟨_, rfl⟩
    obtain ⟨r1, hr1⟩ := hown
    simp only [hr1]
    obtain ⟨r2, hr2⟩ := pushDeps_ok g m (g.policyOf pol i)
      (fun e he => (hpol _ _ e he).2.2) (r1.getD i 0) (g.node i).normalBuildDeps r1
    simp only [hr2]
    exact ih _

theorem resolveRequirements_ok (g : DepGraph) (pol : Policy) (m : Mapper) (hn : 2 ≤ m.n)
    (hpol : PolOK m.n pol) : ∃ r, resolveRequirements g pol m = .ok r := by
  unfold resolveRequirements
  obtain ⟨r, hr⟩ := devLoop_ok g pol m hn hpol g.nodes (List.replicate g.nodes.length 0)
  simp only [hr]
  exact topoLoop_ok g pol m hn hpol _ _

/-! ### `build` -/

theorem mem_getL_of {β : Type} {k : Nat} {t : List (Nat × List β)} {a : β} (h : a ∈ getL k t) :
    ∃ l, (k, l) ∈ t ∧ a ∈ l := by
  unfold getL at h
  cases hk : assoc? k t with
  | none => simp [hk] at h
  | some l =>
    simp only [hk, Option.getD_some] at h
    exact ⟨l, assoc?_mem_of_some hk, h⟩

theorem mem_allAudits {s : Store} {name : Nat} {x : Option Nat × Nat × Audit} (h : x ∈ allAudits s name) :
    x.2.2 ∈ getL name s.locals.audits ∨ ∃ f ∈ s.imports, x.2.2 ∈ getL name f.audits := by
  obtain ⟨imp, j, a⟩ := x
  cases imp with
  | none => exact .inl (mem_of_zipIdx (mem_allAudits_none.1 h))
  | some ii =>
    obtain ⟨f, hf, ha⟩ := mem_allAudits_some.1 h
    exact .inr ⟨f, mem_of_zipIdx hf, mem_of_zipIdx ha⟩

theorem mem_allWildcards {s : Store} {name : Nat} {x : Option Nat × Nat × Wildcard}
    (h : x ∈ allWildcards s name) :
    x.2.2 ∈ getL name s.locals.wildcards ∨ ∃ f ∈ s.imports, x.2.2 ∈ getL name f.wildcards := by
  obtain ⟨imp, j, a⟩ := x
  cases imp with
  | none => exact .inl (mem_of_zipIdx (mem_allWildcards_none.1 h))
  | some ii =>
    obtain ⟨f, hf, ha⟩ := mem_allWildcards_some.1 h
    exact .inr ⟨f, mem_of_zipIdx hf, mem_of_zipIdx ha⟩

/-- every criteria list `build s m name` evaluates only names defined criteria -/
structure RefsOK (n : Nat) (s : Store) (name : Nat) : Prop where
  audits : ∀ x ∈ allAudits s name, ∀ c ∈ x.2.2.criteria, c < n
  wild : ∀ x ∈ allWildcards s name, ∀ c ∈ x.2.2.criteria, c < n
  trusted : ∀ x ∈ getL name s.trusted, ∀ c ∈ x.criteria, c < n
  ex : ∀ x ∈ getL name s.exemptions, ∀ c ∈ x.criteria, c < n

theorem refsOK_of_valid {t : Table} {s : Store} (hv : AllRefsValid t s) (name : Nat) : RefsOK t.n s name := by
  obtain ⟨hc, himp⟩ := hv
  obtain ⟨hex, _, _, hla, hlw, htr, _, _⟩ := invalidCriteriaCount_eq_zero hc
  refine ⟨?_, ?_, ?_, ?_⟩
  · intro x hx
    rcases mem_allAudits hx with h | ⟨f, hf, h⟩
    · obtain ⟨l, hl, ha⟩ := mem_getL_of h
      exact hla _ hl _ ha
    · obtain ⟨l, hl, ha⟩ := mem_getL_of h
      exact (himp f hf).1 _ hl _ ha
  · intro x hx
    rcases mem_allWildcards hx with h | ⟨f, hf, h⟩
    · obtain ⟨l, hl, ha⟩ := mem_getL_of h
      exact hlw _ hl _ ha
    · obtain ⟨l, hl, ha⟩ := mem_getL_of h
      exact (himp f hf).2 _ hl _ ha
  · intro x hx
    obtain ⟨l, hl, ha⟩ := mem_getL_of hx
    exact htr _ hl _ ha
  · intro x hx
    obtain ⟨l, hl, ha⟩ := mem_getL_of hx
    exact hex _ hl _ ha

theorem violationSets_ok (m : Mapper) (l : List Nat) (h : ∀ c ∈ l, c < m.n) :
    ∃ vs, violationSets m l = .ok vs := by
  induction l with
  | nil => exact ⟨[], rfl⟩
  | cons c rest ih =>
    obtain ⟨s, hs⟩ := fromList_ok_of m [c] (by intro i hi; simp at hi; rw [hi]; exact h c List.mem_cons_self)
    obtain ⟨ss, hss⟩ := ih (fun c hc => h c (List.mem_cons_of_mem _ hc))
    exact ⟨s :: ss, by simp only [violationSets, hs, hss]⟩

theorem exemptionConflicts_ok (m : Mapper) (vsrc : Option Nat) (viol : Audit) (matched : List Nat)
    (vs : List CSet) (exs : List Exemption) (h : ∀ x ∈ exs, ∀ c ∈ x.criteria, c < m.n) :
    ∃ cs, exemptionConflicts m vsrc viol matched vs exs = .ok cs := by
  induction exs with
  | nil => exact ⟨[], rfl⟩
  | cons x rest ih =>
    obtain ⟨c, hc⟩ := fromList_ok_of m x.criteria (h x List.mem_cons_self)
    obtain ⟨cs, hcs⟩ := ih (fun y hy => h y (List.mem_cons_of_mem _ hy))
    simp only [exemptionConflicts, hc, hcs]
    split <;> exact ⟨_, rfl⟩

theorem auditConflicts_ok (m : Mapper) (vsrc : Option Nat) (viol : Audit) (matched : List Nat)
    (vs : List CSet) (l : List (Option Nat × Nat × Audit)) (h : ∀ x ∈ l, ∀ c ∈ x.2.2.criteria, c < m.n) :
    ∃ cs, auditConflicts m vsrc viol matched vs l = .ok cs := by
  induction l with
  | nil => exact ⟨[], rfl⟩
  | cons x rest ih =>
    obtain ⟨imp, idx, a⟩ := x
    obtain ⟨c, hc⟩ := fromList_ok_of m a.criteria (h _ List.mem_cons_self)
    obtain ⟨cs, hcs⟩ := ih (fun y hy => h y (List.mem_cons_of_mem _ hy))
    simp only [auditConflicts, hc, hcs]
    split <;> exact ⟨_, rfl⟩

theorem violationConflicts_ok (m : Mapper) (exs : List Exemption) (audits vl : List (Option Nat × Nat × Audit))
    (hex : ∀ x ∈ exs, ∀ c ∈ x.criteria, c < m.n) (ha : ∀ x ∈ audits, ∀ c ∈ x.2.2.criteria, c < m.n)
    (hvl : ∀ x ∈ vl, ∀ c ∈ x.2.2.criteria, c < m.n) :
    ∃ cs, violationConflicts m exs audits vl = .ok cs := by
  induction vl with
  | nil => exact ⟨[], rfl⟩
  | cons x rest ih =>
    obtain ⟨vsrc, vidx, viol⟩ := x
    obtain ⟨c3, h3⟩ := ih (fun y hy => hvl y (List.mem_cons_of_mem _ hy))
    cases hk : viol.kind with
    | full v => exact ⟨c3, by simp only [violationConflicts, hk, h3]⟩
    | delta f t => exact ⟨c3, by simp only [violationConflicts, hk, h3]⟩
    | violation mt =>
      obtain ⟨vs, hvs⟩ := violationSets_ok m viol.criteria (hvl _ List.mem_cons_self)
      obtain ⟨c1, h1⟩ := exemptionConflicts_ok m vsrc viol mt vs exs hex
      obtain ⟨c2, h2⟩ := auditConflicts_ok m vsrc viol mt vs audits ha
      exact ⟨c1 ++ c2 ++ c3, by simp only [violationConflicts, hk, hvs, h1, h2, h3]⟩

theorem build_ok {s : Store} {m : Mapper} {name : Nat} (h : RefsOK m.n s name) :
    ∃ r, build s m name = .ok r := by
  obtain ⟨e1, h1⟩ := (auditEdges_ok_iff (m := m) (l := allAudits s name)).2
    (fun x hx _ => fromList_ok_of m _ (h.audits x hx))
  obtain ⟨e2, h2⟩ := (publisherEdges_ok_iff (m := m) (ws := allWildcards s name) (tr := getL name s.trusted)
      (l := (getL name s.publishers).zipIdx)).2
    (fun x _ => ⟨wildcardEdges_ok_iff.2 (fun y hy _ => fromList_ok_of m _ (h.wild y hy)),
      trustedEdges_ok_iff.2 (fun y hy _ => fromList_ok_of m _ (h.trusted y hy))⟩)
  obtain ⟨e4, h4⟩ := (exemptionEdges_ok_iff (m := m) (l := (getL name s.exemptions).zipIdx)).2
    (fun x hx => fromList_ok_of m _ (h.ex x.1 (mem_of_zipIdx (j := x.2) hx)))
  obtain ⟨cs, h5⟩ := violationConflicts_ok m (getL name s.exemptions) (allAudits s name) (allAudits s name)
    h.ex h.audits h.audits
  simp only [build, h1, h2, h4, h5]
  cases cs with
  | nil => exact ⟨_, rfl⟩
  | cons c cs => exact ⟨_, rfl⟩

/-! ### `resolveLoop` and `resolve` -/

theorem resolveLoop_ok {s : Store} {m : Mapper} (hb : ∀ name, ∃ r, build s m name = .ok r)
    (l : List (Nat × PkgNode × CSet)) (acc : Acc) : ∃ acc', resolveLoop s m l acc = .ok acc' := by
  induction l generalizing acc with
  | nil => exact ⟨acc, rfl⟩
  | cons x rest ih =>
    obtain ⟨idx, p, req⟩ := x
    unfold resolveLoop
    cases htp : p.thirdParty with
    | false =>
      simp only [Bool.not_false, if_true]
      exact ih _
    | true =>
      obtain ⟨r, hr⟩ := hb p.name
      cases r with
      | conflicts cs =>
        simp only [Bool.not_true, Bool.false_eq_true, if_false, hr]
        exact ih _
      | graph g =>
        simp only [Bool.not_true, Bool.false_eq_true, if_false, hr, firstPanic_searchAll]
        exact ih _

theorem resolve_ok_of_valid {w : World} (hwf : w.md.WF) {m : Mapper} (hm : Mapper.new w.table = .ok m)
    (hv : AllRefsValid w.table w.store) : ∃ r, resolve w = .ok r := by
  obtain ⟨g, hg⟩ : ∃ g, DepGraph.new w.md w.store.policy = .ok g := by
    obtain ⟨s1, s2, _, _, hg, _⟩ := Topo.new_run w.md w.store.policy hwf
    exact ⟨_, hg⟩
  have hn : m.n = w.table.n := (new_ok hm).2.2.2.1
  have hn2 : 2 ≤ m.n := by rw [hn]; unfold Table.n; omega
  obtain ⟨req, hreq⟩ := resolveRequirements_ok g w.store.policy m hn2 (hn ▸ polOK_of_count hv.1)
  obtain ⟨acc, hacc⟩ := resolveLoop_ok (s := w.store) (m := m)
    (fun name => build_ok (hn ▸ refsOK_of_valid hv name))
    ((List.range g.nodes.length).zip (g.nodes.zip req)) {}
  unfold resolve
  simp only [hg, hm, hreq, hacc]
  exact ⟨_, rfl⟩

end Vet
