/- Semantics of `foreignToLocal` / `makeLocal` against the declarative `mapF` / `Justified`. -/
import Vet.Lemmas.Imports
namespace Vet

theorem foldl_or_testBit {ι : Type} (g : ι → Nat) (l : List ι) (a c : Nat) :
    (l.foldl (fun acc i => acc ||| g i) a).testBit c = true ↔
      a.testBit c = true ∨ ∃ i ∈ l, (g i).testBit c = true := by
  induction l generalizing a with
  | nil => simp
  | cons x xs ih =>
    simp only [List.foldl_cons]
    rw [ih, Nat.testBit_or, Bool.or_eq_true]
    constructor
    · rintro ((h | h) | ⟨i, hi, h⟩)
      · exact Or.inl h
      · exact Or.inr ⟨x, List.mem_cons_self .., h⟩
      · exact Or.inr ⟨i, List.mem_cons_of_mem _ hi, h⟩
    · rintro (h | ⟨i, hi, h⟩)
      · exact Or.inl (Or.inl h)
      · rcases List.mem_cons.1 hi with rfl | hi
        · exact Or.inl (Or.inr h)
        · exact Or.inr ⟨i, hi, h⟩

theorem foreignToLocal_get (lm : Mapper) (cmap : List (Nat × List Nat)) (l : List Nat)
    (mapping : List CSet) (h : foreignToLocal lm cmap l = .ok mapping) (i : Nat) (hi : i < l.length) :
    mapF lm cmap l[i] = .ok (mapping.getD i 0) := by
  induction l generalizing mapping i with
  | nil => cases hi
  | cons f rest ih =>
    simp only [foreignToLocal] at h
    split at h
    · cases h
    · next s hs =>
      split at h
      · cases h
      · next ss hss =>
        cases h
        cases i with
        | zero =>
          simp only [List.getElem_cons_zero, List.getD_cons_zero, mapF]
          cases hc : assoc? f cmap <;> simp only [hc] at hs ⊢ <;> exact hs
        | succ i =>
          simp only [List.getElem_cons_succ, List.getD_cons_succ]
          exact ih ss hss i (by simpa using hi)

theorem foreignToLocal_range (lm : Mapper) (cmap : List (Nat × List Nat)) (n : Nat)
    (mapping : List CSet) (h : foreignToLocal lm cmap (List.range n) = .ok mapping) (f : Nat) (hf : f < n) :
    mapF lm cmap f = .ok (mapping.getD f 0) := by
  have := foreignToLocal_get lm cmap _ mapping h f (by simpa using hf)
  simpa using this

/-- a set closed under implication whose bits are all defined is denoted by its own index list -/
theorem fromList_indices_of_closed (t : Table) (m : Mapper) (h : Mapper.new t = .ok m) (U : CSet)
    (hcl : t.Closed U) (hlt : ∀ j, U.testBit j = true → j < m.n) :
    m.fromList (CSet.indices m.n U) = .ok U := by
  obtain ⟨s', hs'⟩ := fromList_ok_of m (CSet.indices m.n U) (fun i hi => ((mem_indices ..).1 hi).1)
  rw [hs']
  congr 1
  apply eq_of_testBit_iff
  intro j
  rw [C05_fromList_spec t m h _ s' hs' j]
  constructor
  · rintro ⟨i, hi, hij⟩
    exact hcl i j ((mem_indices ..).1 hi).2 hij
  · intro hj
    exact ⟨j, (mem_indices ..).2 ⟨hlt j hj, hj⟩, .refl _⟩

theorem fromList_closed_lt (t : Table) (m : Mapper) (h : Mapper.new t = .ok m)
    (l : List Nat) (s : CSet) (hs : m.fromList l = .ok s) :
    t.Closed s ∧ ∀ j, s.testBit j = true → j < m.n := by
  refine ⟨C05_fromList_closed t m h l s hs, ?_⟩
  intro j hj
  obtain ⟨_, _, hwf, hn, _⟩ := new_ok h
  obtain ⟨i, hi, hij⟩ := (C05_fromList_spec t m h l s hs j).1 hj
  exact hn ▸ Implies.lt hwf hij (hn ▸ fromList_ok_lt m l s hs i hi)

theorem mapF_closed_lt (t : Table) (m : Mapper) (h : Mapper.new t = .ok m)
    (cmap : List (Nat × List Nat)) (f : Nat) (s : CSet) (hs : mapF m cmap f = .ok s) :
    t.Closed s ∧ ∀ j, s.testBit j = true → j < m.n := by
  simp only [mapF] at hs
  split at hs
  · exact fromList_closed_lt t m h _ s hs
  · split at hs
    · exact fromList_closed_lt t m h _ s hs
    · split at hs
      · exact fromList_closed_lt t m h _ s hs
      · cases hs
        exact ⟨fun i j hi _ => by simp at hi, fun j hj => by simp at hj⟩

theorem makeLocal_spec (lt : Table) (lm : Mapper) (hlm : Mapper.new lt = .ok lm) (fm : Mapper)
    (cmap : List (Nat × List Nat)) (mapping : List CSet)
    (hmap : foreignToLocal lm cmap (List.range fm.n) = .ok mapping)
    (L c : List Nat) (h : makeLocal lm fm mapping L = .ok c) :
    ∃ s, lm.fromList c = .ok s ∧ ∀ j, s.testBit j = true ↔ Justified lm fm cmap L j := by
  simp only [makeLocal] at h
  split at h
  · cases h
  · next fs hfs =>
    cases h
    have hU : ∀ j, ((CSet.indices fm.n fs).foldl (fun acc i => acc ||| mapping.getD i 0) 0).testBit j = true ↔
        ∃ f, f < fm.n ∧ fs.testBit f = true ∧ (mapping.getD f 0).testBit j = true := by
      intro j
      rw [foldl_or_testBit (fun i => mapping.getD i 0)]
      simp only [Nat.zero_testBit, Bool.false_eq_true, false_or, mem_indices]
      constructor
      · rintro ⟨i, ⟨h1, h2⟩, h3⟩; exact ⟨i, h1, h2, h3⟩
      · rintro ⟨i, h1, h2, h3⟩; exact ⟨i, ⟨h1, h2⟩, h3⟩
    generalize (CSet.indices fm.n fs).foldl (fun acc i => acc ||| mapping.getD i 0) 0 = U at hU
    have hcl : lt.Closed U := by
      intro i j hi hij
      obtain ⟨f, hf, hb, hm⟩ := (hU i).1 hi
      have := (mapF_closed_lt lt lm hlm cmap f _ (foreignToLocal_range lm cmap fm.n mapping hmap f hf)).1
      exact (hU j).2 ⟨f, hf, hb, this i j hm hij⟩
    have hlt : ∀ j, U.testBit j = true → j < lm.n := by
      intro j hj
      obtain ⟨f, hf, hb, hm⟩ := (hU j).1 hj
      exact (mapF_closed_lt lt lm hlm cmap f _ (foreignToLocal_range lm cmap fm.n mapping hmap f hf)).2 j hm
    refine ⟨U, C05_minimal_denotes lt lm hlm _ U (fromList_indices_of_closed lt lm hlm U hcl hlt), ?_⟩
    intro j
    rw [hU j]
    constructor
    · rintro ⟨f, hf, hb, hm⟩
      exact ⟨fs, f, _, hfs, hf, hb, foreignToLocal_range lm cmap fm.n mapping hmap f hf, hm⟩
    · rintro ⟨fs', f, s, hfs', hf, hb, hmf, hm⟩
      rw [hfs] at hfs'; cases hfs'
      rw [foreignToLocal_range lm cmap fm.n mapping hmap f hf] at hmf; cases hmf
      exact ⟨f, hf, hb, hm⟩

end Vet
