/- The exemption table under two check-mode updates: the first writes every exemption in normal
form (minimal list of a non-empty closed set), the second leaves normal forms alone. -/
import Vet.Lemmas.TwiceRun
namespace Vet

/-- an exemption as a check-mode update writes it -/
def NormalEx (m : Mapper) (x : Exemption) : Prop :=
  ∃ orig, m.fromList x.criteria = .ok orig ∧ orig ≠ 0 ∧ m.minimal orig = x.criteria

theorem usefulSet_noprune {req : Option Required} {idx : Nat} {original : CSet}
    (H : ExSound req idx original) : usefulSet false req idx original = original := by
  apply Nat.eq_of_testBit_eq
  intro j
  cases ho : original.testBit j with
  | true =>
    unfold usefulSet
    simp [Nat.testBit_or, ho]
  | false =>
    cases hu : (usefulSet false req idx original).testBit j with
    | false => rfl
    | true =>
      rw [usefulSet_sub H j hu] at ho
      cases ho

/-- one exemption under a check-mode (non-pruning) update -/
theorem updateExemption_check {m : Mapper} {req : Option Required} {idx : Nat} {x : Exemption}
    {original : CSet} (ho : m.fromList x.criteria = .ok original) (H : ExSound req idx original) :
    updateExemption m false req idx x =
      if original = 0 then .ok [] else .ok [⟨x.version, m.minimal original, x.suggest⟩] := by
  rw [updateExemption_eq ho, usefulSet_noprune H]
  have hcon : CSet.containsSet original original = true := pres_containsSet_iff.2 (fun _ h => h)
  by_cases hz : original = 0
  · rw [if_pos hz, if_pos hz]
  · rw [if_neg hz, if_neg hz, hcon]
    simp

theorem updateExemption_normal {tb : Table} {m : Mapper} (hm : Mapper.new tb = .ok m)
    {req : Option Required} {idx : Nat} {x : Exemption} {original : CSet}
    (ho : m.fromList x.criteria = .ok original) (H : ExSound req idx original)
    {l : List Exemption} (h : updateExemption m false req idx x = .ok l) : ∀ x' ∈ l, NormalEx m x' := by
  rw [updateExemption_check ho H] at h
  by_cases hz : original = 0
  · rw [if_pos hz] at h
    cases h
    intro x' hx'
    cases hx'
  · rw [if_neg hz] at h
    cases h
    intro x' hx'
    rw [List.mem_singleton] at hx'
    subst hx'
    exact ⟨original, C05_minimal_denotes tb m hm _ original ho, hz, rfl⟩

theorem updateExemption_fix {m : Mapper} {req : Option Required} {idx : Nat} {x : Exemption}
    (hn : NormalEx m x) (H : ∀ orig, m.fromList x.criteria = .ok orig → ExSound req idx orig) :
    updateExemption m false req idx x = .ok [x] := by
  obtain ⟨orig, ho, hz, hmin⟩ := hn
  rw [updateExemption_check ho (H orig ho), if_neg hz, hmin]

theorem updateExemptions_fix {m : Mapper} {prune : Bool} {req : Option Required}
    (L : List (Exemption × Nat))
    (h : ∀ y ∈ L, updateExemption m prune req y.2 y.1 = .ok [y.1]) :
    updateExemptions m prune req L = .ok (L.map (·.1)) := by
  induction L with
  | nil => rfl
  | cons y rest ih =>
    obtain ⟨x, i⟩ := y
    have h0 := h (x, i) List.mem_cons_self
    simp only at h0
    simp only [updateExemptions, h0, ih (fun y hy => h y (List.mem_cons_of_mem _ hy))]
    rfl

theorem exemptionTable_fix {m : Mapper} {modeOf : Nat → UpdateMode} {reqOf : Nat → Option Required}
    (t : List (Nat × List Exemption))
    (h : ∀ y ∈ t, y.2 ≠ [] ∧
      updateExemptions m (modeOf y.1).pruneExemptions (reqOf y.1) y.2.zipIdx = .ok y.2) :
    exemptionTable m modeOf reqOf t = .ok t := by
  induction t with
  | nil => rfl
  | cons y rest ih =>
    obtain ⟨n, xs⟩ := y
    obtain ⟨hne, hup⟩ := h (n, xs) List.mem_cons_self
    simp only at hne hup
    simp only [exemptionTable, hup, ih (fun y hy => h y (List.mem_cons_of_mem _ hy))]
    have : xs.isEmpty = false := by
      cases xs with
      | nil => exact absurd rfl hne
      | cons _ _ => rfl
    rw [this]
    rfl

/-- rows of the table a (successful) exemption-table update writes: non-empty, from an old row -/
theorem exemptionTable_rows {m : Mapper} {modeOf : Nat → UpdateMode} {reqOf : Nat → Option Required}
    (old : List (Nat × List Exemption)) {t : List (Nat × List Exemption)}
    (h : exemptionTable m modeOf reqOf old = .ok t) :
    (∀ y ∈ t, y.2 ≠ []) ∧ (t.map (·.1)).Sublist (old.map (·.1)) := by
  induction old generalizing t with
  | nil =>
    simp only [exemptionTable] at h
    cases h
    exact ⟨fun y hy => (nomatch hy), List.Sublist.refl _⟩
  | cons p rest ih =>
    obtain ⟨n0, xs0⟩ := p
    simp only [exemptionTable] at h
    split at h
    · cases h
    · rename_i l hl
      split at h
      · cases h
      · rename_i t' ht'
        cases h
        obtain ⟨ih1, ih2⟩ := ih ht'
        split
        · exact ⟨ih1, List.Sublist.cons _ ih2⟩
        · rename_i hemp
          constructor
          · intro y hy
            rcases List.mem_cons.1 hy with rfl | hy
            · intro hnil
              simp only at hnil
              rw [hnil] at hemp
              exact hemp rfl
            · exact ih1 y hy
          · simp only [List.map_cons]
            exact List.Sublist.cons_cons _ ih2

end Vet
