/- Assembling "regenerate exemptions never leaves missing audits": after the update every
third-party package has a certifying chain for every required criterion. -/
import Vet.Lemmas.RegenEdge
namespace Vet

/-- without a violation failure every third-party crate has a conflict-free audit graph -/
theorem graph_of_no_violation_failure {w : World} {r : Report} (hr : resolve w = .ok r)
    (hnoconf : ∀ vs, r.conclusion ≠ .failViolation vs)
    {i : Nat} {p : PkgNode} (hp : r.graph.nodes[i]? = some p) (htp : p.thirdParty = true) :
    ∃ g, build w.store r.mapper p.name = .ok (.graph g) := by
  obtain ⟨acc, v⟩ := resolve_view hr
  have hv : acc.violations = [] := by
    cases hv : acc.violations with
    | nil => rfl
    | cons x xs =>
      exfalso
      obtain ⟨vs, hvs⟩ := concl_failViolation.2 (show acc.violations ≠ [] by rw [hv]; simp)
      exact hnoconf vs (v.conclusion.trans hvs)
  obtain ⟨g, hb, -⟩ := v.graph_of_no_violation hv (v.item_of_node hp) htp
  exact ⟨g, hb⟩

/-- the exemptions written for a crate cover every criterion for which the required map says an
exemption or a fresh exemption was used -/
theorem exCover_of_update {t : Table} {m : Mapper} (hm : Mapper.new t = .ok m) {s : Store}
    {modeOf : Nat → UpdateMode} {required : List (Nat × Option Required)}
    {ex0 : List (Nat × List Exemption)} {name : Nat} {rr : Required}
    (hex : updateExemptions m (modeOf name).pruneExemptions (some rr) (getL name s.exemptions).zipIdx =
      .ok (getL name ex0))
    (hmem : (name, some rr) ∈ required) {c : Nat} (hcn : c < m.n) :
    ExCover m s name rr (withFresh m required ex0) c := by
  constructor
  · intro x i cs su hx hcs hsu hbit
    obtain ⟨l', hl', hall⟩ := (updateExemptions_members hex).2 (x, i) hx
    obtain ⟨l'', hl'', x', hx', hver, hrest⟩ :=
      updateExemption_regen hm (prune := (modeOf name).pruneExemptions) hcs hsu hbit hcn
    rw [hl'] at hl''
    cases hl''
    exact ⟨x', mem_withFresh_of_mem required (hall x' hx'), hver, hrest⟩
  · intro v su hsu hbit
    obtain ⟨cs', hcs', hsup, _⟩ := fromList_minimal hm su
    exact ⟨_, mem_withFresh_of_fresh required hmem (mem_freshExemptions hsu), rfl, cs', hcs',
      hsup c hcn hbit⟩

/-- after regenerating, a third-party package has a certifying chain for every required criterion -/
theorem regen_node_chain {w : World} {modeOf : Nat → UpdateMode} {u : Updates}
    (hnd : (w.store.exemptions.map (·.1)).Nodup)
    (hmode : ∀ n, (modeOf n).search = .regenerateExemptions)
    (hu : getStoreUpdates w modeOf = .ok u)
    {r : Report} (hr : resolve w = .ok r) (hnoconf : ∀ vs, r.conclusion ≠ .failViolation vs)
    {i : Nat} {p : PkgNode} (hp : r.graph.nodes[i]? = some p) (htp : p.thirdParty = true)
    {c : Nat} (hc : r.required i c) :
    CertChain (applyLocked w.store u) r.mapper p.name c p.ver := by
  obtain ⟨dg, m, reqs, required, ex0, hdg, hm, hreq, hall, hex0, rfl⟩ := getStoreUpdates_shape hu
  have facts := allRequired_facts hall
  obtain ⟨hdg', hm', hreq'⟩ := resolve_parts hr
  rw [hdg'] at hdg
  cases hdg
  rw [hm'] at hm
  cases hm
  rw [hreq'] at hreq
  cases hreq
  obtain ⟨g, hb⟩ := graph_of_no_violation_failure hr hnoconf hp htp
  obtain ⟨acc, v⟩ := resolve_view hr
  -- the required entries of this crate
  have hname : p.name ∈ r.graph.nodes.map (·.name) :=
    List.mem_map.2 ⟨p, List.mem_of_getElem? hp, rfl⟩
  obtain ⟨ro, hl⟩ := facts.names _ hname
  have hre := facts.ok _ _ hl
  have hreqi : r.requirements[i]? = some (r.requirements.getD i 0) := by
    obtain ⟨hlt, _⟩ := List.getElem?_eq_some_iff.1 hp
    have hlt' : i < r.requirements.length := by rw [v.hlen]; exact hlt
    simp [List.getD, hlt']
  have hpk : (p.ver, r.requirements.getD i 0) ∈ pkgsOf r.graph r.requirements p.name :=
    mem_pkgsOf.2 ⟨i, p, hp, hreqi, rfl, htp, rfl⟩
  have hrp : requiredForPkgs g r.mapper .regenerateExemptions (pkgsOf r.graph r.requirements p.name) [] =
      .ok ro := by
    rw [hmode] at hre
    rcases requiredEntries_cases hre with ⟨hnil, _⟩ | ⟨_, ⟨cs, hcs, _⟩ | ⟨g', hg', hrp⟩⟩
    · rw [hnil] at hpk
      cases hpk
    · rw [hb] at hcs
      cases hcs
    · rw [hb] at hg'
      cases hg'
      exact hrp
  obtain ⟨rr, rfl⟩ := requiredForPkgs_some _ _ _ hrp
    (fun ver _ _ c _ => search_regenerate_total g c ver)
  have hreqOf : reqOfLookup (fun n => assoc? n required) p.name = some rr := by
    show (assoc? p.name required).getD (some []) = some rr
    rw [hl]
    rfl
  -- a minimal criterion implying `c`, and its chosen path
  obtain ⟨c', hc'min, himp⟩ := minimal_implies hm' (r.requirements.getD i 0) hc.1 hc.2
  have hc'n : c' < r.mapper.n := ((mem_minimal ..).1 hc'min).1.1
  obtain ⟨path, hpath, hent⟩ :=
    (requiredForPkgs_spec (S := fun _ _ => True) _ [] rr hrp (ReqProv.nil _)
      (fun _ _ _ _ _ _ _ _ _ _ _ => trivial)).2.2 p.ver _ hpk c' hc'min
  obtain ⟨l, wk⟩ := search_ok_walk hpath
  -- the exemptions written for this crate
  have hex := exemptionTable_getL_nodup hex0 hnd p.name
  rw [hreqOf] at hex
  have hcov := exCover_of_update hm' (s := w.store) hex (assoc?_mem hl) hc'n
  have hcp : ∃ p', CertPath (applyLocked w.store (updatesOf w.store modeOf (fun n => assoc? n required)
      (withFresh r.mapper required ex0))) r.mapper p.name c' none p' (some p.ver) := by
    rcases regen_walk_certPath (modeOf := modeOf) hb hreqOf hcov wk hent with h | h
    · exact h
    · exact h
  obtain ⟨p', cp⟩ := hcp
  exact ⟨p', cp.implies hm' himp hc.1⟩

/-- the report of the updated world shares graph, mapper and requirements with the old one -/
theorem resolve_applyLocked_parts {w : World} {u : Updates} {r r' : Report} (hr : resolve w = .ok r)
    (hr' : resolve (w.applyLocked u) = .ok r') :
    r'.graph = r.graph ∧ r'.mapper = r.mapper ∧ r'.requirements = r.requirements := by
  obtain ⟨hdg, hm, hreq⟩ := resolve_parts hr
  obtain ⟨hdg', hm', hreq'⟩ := resolve_parts hr'
  have h1 : DepGraph.new w.md w.store.policy = .ok r'.graph := hdg'
  have h2 : Mapper.new w.table = .ok r'.mapper := hm'
  have h3 : resolveRequirements r'.graph w.store.policy r'.mapper = .ok r'.requirements := hreq'
  rw [hdg] at h1
  have eg : r'.graph = r.graph := (Except.ok.inj h1).symm
  rw [hm] at h2
  have em : r'.mapper = r.mapper := (Except.ok.inj h2).symm
  rw [eg, em, hreq] at h3
  exact ⟨eg, em, (Except.ok.inj h3).symm⟩

/-- after regenerating, the next run never fails for missing audits -/
theorem regen_no_failVet {w : World} {modeOf : Nat → UpdateMode} {u : Updates}
    (hnd : (w.store.exemptions.map (·.1)).Nodup)
    (hmode : ∀ n, (modeOf n).search = .regenerateExemptions)
    (hu : getStoreUpdates w modeOf = .ok u)
    {r : Report} (hr : resolve w = .ok r) (hnoconf : ∀ vs, r.conclusion ≠ .failViolation vs)
    {r' : Report} (hr' : resolve (w.applyLocked u) = .ok r') :
    ∀ fs, r'.conclusion ≠ .failVet fs := by
  intro fs hfs
  obtain ⟨eg, em, eq⟩ := resolve_applyLocked_parts hr hr'
  obtain ⟨acc', v'⟩ := resolve_view hr'
  have hfs' := hfs
  rw [v'.conclusion] at hfs'
  obtain ⟨hv, hfeq⟩ := concl_failVet hfs'
  cases hf : acc'.failures with
  | nil =>
    rw [concl_success_of hv hf] at hfs'
    cases hfs'
  | cons y ys =>
    obtain ⟨i, bits⟩ := y
    have hmem : (i, bits) ∈ fs := by
      rw [hfeq, hf]
      exact List.mem_cons_self
    obtain ⟨p, hp, htp, hne, hbits⟩ :=
      (C02_failures_exact (w.applyLocked u) r' hr' fs hfs i bits).1 hmem
    obtain ⟨c, hbit⟩ := Nat.exists_testBit_of_ne_zero hne
    obtain ⟨hreqc, hno⟩ := (hbits c).1 hbit
    apply hno
    rw [eg] at hp
    have hc : r.required i c := by
      unfold Report.required at hreqc ⊢
      rw [em, eq] at hreqc
      exact hreqc
    rw [em]
    exact regen_node_chain hnd hmode hu hr hnoconf hp htp hc

end Vet
