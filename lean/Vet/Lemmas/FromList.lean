/- `criteria_from_list` denotes the union of the per-criterion sets. -/
import Vet.Spec.Criteria
namespace Vet

instance {ε α : Type} [DecidableEq ε] [DecidableEq α] : DecidableEq (Except ε α) := fun a b =>
  match a, b with
  | .ok x, .ok y => if h : x = y then isTrue (by rw [h]) else isFalse (by intro e; cases e; exact h rfl)
  | .error x, .error y => if h : x = y then isTrue (by rw [h]) else isFalse (by intro e; cases e; exact h rfl)
  | .ok _, .error _ => isFalse (by intro e; cases e)
  | .error _, .ok _ => isFalse (by intro e; cases e)

theorem fromList_ok_lt (m : Mapper) (l : List Nat) (s : CSet) (h : m.fromList l = .ok s) :
    ∀ i ∈ l, i < m.n := by
  induction l generalizing s with
  | nil => simp
  | cons a rest ih =>
    simp only [Mapper.fromList] at h
    split at h
    · simp at h
    · rename_i hlt
      split at h
      · simp at h
      · rename_i s' hs'
        intro i hi
        simp at hi
        rcases hi with rfl | hi
        · omega
        · exact ih s' hs' i hi

theorem fromList_testBit (m : Mapper) (l : List Nat) (s : CSet) (h : m.fromList l = .ok s) (j : Nat) :
    s.testBit j = true ↔ ∃ i ∈ l, (m.implied.getD i 0).testBit j = true := by
  induction l generalizing s with
  | nil =>
    simp only [Mapper.fromList] at h
    cases h
    simp
  | cons a rest ih =>
    simp only [Mapper.fromList] at h
    split at h
    · simp at h
    · split at h
      · simp at h
      · rename_i s' hs'
        cases h
        simp only [Nat.testBit_or, Bool.or_eq_true, List.mem_cons, exists_eq_or_imp]
        rw [ih s' hs']

end Vet
