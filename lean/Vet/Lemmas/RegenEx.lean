/- The exemption table after `regenerate exemptions`: an exemption used on a chosen path (whether
or not it carries the criterion) is rewritten so that it does, and every `FreshExemption` entry
becomes a new exemption of the crate. -/
import Vet.Lemmas.PreserveResolve
import Vet.Lemmas.UpdateReq
namespace Vet

/-! ### `CSet.clear` -/

theorem clear_foldl_testBit (o : CSet) (l : List Nat) (acc : CSet) (j : Nat) :
    (l.foldl (fun acc i => if o.testBit i then acc else acc ||| (1 <<< i)) acc).testBit j = true ↔
      (acc.testBit j = true ∨ (j ∈ l ∧ o.testBit j = false)) := by
  induction l generalizing acc with
  | nil => simp
  | cons i rest ih =>
    rw [List.foldl_cons, ih]
    by_cases hi : o.testBit i = true
    · rw [if_pos hi]
      constructor
      · rintro (h | ⟨h1, h2⟩)
        · exact Or.inl h
        · exact Or.inr ⟨List.mem_cons_of_mem _ h1, h2⟩
      · rintro (h | ⟨h1, h2⟩)
        · exact Or.inl h
        · rcases List.mem_cons.1 h1 with rfl | h1
          · rw [hi] at h2; cases h2
          · exact Or.inr ⟨h1, h2⟩
    · rw [if_neg hi, testBit_set]
      constructor
      · rintro ((h | rfl) | ⟨h1, h2⟩)
        · exact Or.inl h
        · exact Or.inr ⟨List.mem_cons_self, by simpa using hi⟩
        · exact Or.inr ⟨List.mem_cons_of_mem _ h1, h2⟩
      · rintro (h | ⟨h1, h2⟩)
        · exact Or.inl (Or.inl h)
        · rcases List.mem_cons.1 h1 with rfl | h1
          · exact Or.inl (Or.inr rfl)
          · exact Or.inr ⟨h1, h2⟩

theorem clear_testBit (n : Nat) (s o : CSet) (j : Nat) :
    (CSet.clear n s o).testBit j = true ↔ (j < n ∧ s.testBit j = true ∧ o.testBit j = false) := by
  unfold CSet.clear
  rw [clear_foldl_testBit, mem_indices]
  simp [and_assoc]

/-! ### one exemption used on a chosen path -/

/-- whatever criteria the exemption had: if entry `idx` was recorded for criterion `c`, one of the
entries written for it denotes a set containing `c` -/
theorem updateExemption_regen {t : Table} {m : Mapper} (hm : Mapper.new t = .ok m) {prune : Bool}
    {r : Required} {idx : Nat} {x : Exemption} {original su : CSet}
    (ho : m.fromList x.criteria = .ok original)
    (hg : r.get? (.exemption idx) = some su) {c : Nat} (hc : su.testBit c = true) (hcn : c < m.n) :
    ∃ l', updateExemption m prune (some r) idx x = .ok l' ∧
      ∃ x' ∈ l', x'.version = x.version ∧ ∃ cs', m.fromList x'.criteria = .ok cs' ∧
        cs'.testBit c = true := by
  rw [updateExemption_eq ho]
  have hu := usefulSet_has (prune := prune) (original := original) hg hc
  have hz : usefulSet prune (some r) idx original ≠ 0 := by
    intro hz
    rw [hz] at hu
    simp at hu
  rw [if_neg hz]
  split
  · by_cases hoc : original.testBit c = true
    · obtain ⟨cs', hcs', hsup, _⟩ := fromList_minimal hm original
      exact ⟨_, rfl, _, List.mem_cons_of_mem _ List.mem_cons_self, rfl, cs', hcs', hsup c hcn hoc⟩
    · obtain ⟨cs', hcs', hsup, _⟩ :=
        fromList_minimal hm (CSet.clear m.n (usefulSet prune (some r) idx original) original)
      refine ⟨_, rfl, _, List.mem_cons_self, rfl, cs', hcs', hsup c hcn ?_⟩
      exact (clear_testBit ..).2 ⟨hcn, hu, by simpa using hoc⟩
  · obtain ⟨cs', hcs', hsup, _⟩ := fromList_minimal hm (usefulSet prune (some r) idx original)
    exact ⟨_, rfl, _, List.mem_singleton.2 rfl, rfl, cs', hcs', hsup c hcn hu⟩

/-! ### `addFresh` / `withFresh` -/

theorem addFresh_of_nonempty {t : List (Nat × List Exemption)} {n : Nat} {l : List Exemption}
    (hl : ¬ l.isEmpty = true) :
    addFresh t n l = match t with
      | [] => [(n, l)]
      | (n', l') :: rest => if n' = n then (n', l' ++ l) :: rest else (n', l') :: addFresh rest n l := by
  rw [addFresh.eq_def, if_neg hl]
  cases t with
  | nil => rfl
  | cons y rest => rfl

theorem getL_cons_ne {β : Type} {n k : Nat} {v : List β} (tl : List (Nat × List β)) (hn : ¬ k = n) :
    getL n ((k, v) :: tl) = getL n tl := by
  simp [getL, assoc?, hn]

theorem getL_cons_eq {β : Type} {n : Nat} {v : List β} (tl : List (Nat × List β)) :
    getL n ((n, v) :: tl) = v := by
  simp [getL, assoc?]

theorem getL_addFresh (t : List (Nat × List Exemption)) (n' : Nat) (l : List Exemption) (n : Nat) :
    getL n (addFresh t n' l) = if n' = n then getL n t ++ l else getL n t := by
  by_cases hl : l.isEmpty = true
  · rw [addFresh.eq_def, if_pos hl, List.isEmpty_iff.1 hl]
    simp
  · induction t with
    | nil =>
      rw [addFresh_of_nonempty hl]
      by_cases hn : n' = n
      · subst hn
        rw [if_pos rfl, getL_cons_eq]
        simp [getL, assoc?]
      · rw [if_neg hn, getL_cons_ne _ hn]
    | cons y rest ih =>
      obtain ⟨k, v⟩ := y
      rw [addFresh_of_nonempty hl]
      by_cases hk : k = n'
      · subst hk
        simp only [if_true]
        by_cases hn : k = n
        · subst hn
          rw [if_pos rfl, getL_cons_eq, getL_cons_eq]
        · rw [if_neg hn, getL_cons_ne _ hn, getL_cons_ne _ hn]
      · simp only [hk, if_false]
        by_cases hn : k = n
        · subst hn
          rw [getL_cons_eq, getL_cons_eq, if_neg (fun e => hk e.symm)]
        · rw [getL_cons_ne _ hn, getL_cons_ne _ hn]
          exact ih

theorem mem_getL_addFresh_of_mem {t : List (Nat × List Exemption)} {n' n : Nat} {l : List Exemption}
    {x : Exemption} (h : x ∈ getL n t) : x ∈ getL n (addFresh t n' l) := by
  rw [getL_addFresh]
  split
  · exact List.mem_append.2 (Or.inl h)
  · exact h

theorem mem_withFresh_of_mem {m : Mapper} (required : List (Nat × Option Required))
    {ex0 : List (Nat × List Exemption)} {n : Nat} {x : Exemption} (h : x ∈ getL n ex0) :
    x ∈ getL n (withFresh m required ex0) := by
  unfold withFresh
  induction required generalizing ex0 with
  | nil => exact h
  | cons y rest ih =>
    obtain ⟨k, ro⟩ := y
    rw [List.foldl_cons]
    apply ih
    cases ro with
    | none => exact h
    | some r => exact mem_getL_addFresh_of_mem h

theorem mem_withFresh_of_fresh {m : Mapper} (required : List (Nat × Option Required))
    {ex0 : List (Nat × List Exemption)} {n : Nat} {r : Required} (hr : (n, some r) ∈ required)
    {x : Exemption} (h : x ∈ freshExemptions m r) :
    x ∈ getL n (withFresh m required ex0) := by
  induction required generalizing ex0 with
  | nil => cases hr
  | cons y rest ih =>
    rcases List.mem_cons.1 hr with heq | hr
    · subst heq
      have : withFresh m ((n, some r) :: rest) ex0 = withFresh m rest (addFresh ex0 n (freshExemptions m r)) :=
        rfl
      rw [this]
      apply mem_withFresh_of_mem
      rw [getL_addFresh, if_pos rfl]
      exact List.mem_append.2 (Or.inr h)
    · have : withFresh m (y :: rest) ex0 = withFresh m rest
          (match y.2 with
            | some r => addFresh ex0 y.1 (freshExemptions m r)
            | none => ex0) := rfl
      rw [this]
      exact ih hr

theorem mem_freshExemptions {m : Mapper} {r : Required} {v : Nat} {su : CSet}
    (h : r.get? (.freshExemption v) = some su) : ⟨v, m.minimal su, true⟩ ∈ freshExemptions m r := by
  unfold freshExemptions
  rw [List.mem_filterMap]
  exact ⟨(.freshExemption v, su), get?_mem h, rfl⟩

end Vet
