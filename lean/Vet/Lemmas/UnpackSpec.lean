/- Effect of `unpackIn` / `unpackEntries` on a link-free tree. -/
import Vet.Lemmas.Unpack
namespace Vet.Unpack

/-- no link at any non-empty path comparable with `srcDir` -/
def NL (fs : FS) (srcDir : Path) : Prop :=
  ∀ q, q ≠ [] → (q <+: srcDir ∨ srcDir <+: q) → NotSym (lookup fs q)

theorem notSym_none : NotSym none := fun _ h => by cases h
theorem notSym_dir : NotSym (some Node.dir) := fun _ h => by cases h
theorem notSym_file (c : Nat) : NotSym (some (Node.file c)) := fun _ h => by cases h

theorem relOf_of_hasPrefix (pfx : Nat) (e : Entry) (h : hasPrefix pfx e = true) :
    ∃ tl, relOf e = pfx :: tl := by
  unfold hasPrefix at h
  split at h
  · rename_i n rest heq
    have : n = pfx := by simpa using h
    subst this
    refine ⟨relOf ⟨rest, e.kind⟩, ?_⟩
    simp only [relOf, heq, List.filterMap_cons]
  · cases h

theorem dropLast_getLastD (l : Path) (h : l ≠ []) : l.dropLast ++ [l.getLastD 0] = l := by
  rw [List.getLastD_eq_getLast?, List.getLast?_eq_some_getLast h]
  simp [List.dropLast_concat_getLast]

theorem prefix_dropLast_cons {pfx : Nat} {tl pre : Path} (hpre : pre ≠ [])
    (h : pre <+: (pfx :: tl).dropLast) : ∃ t, pre = pfx :: t := by
  have h2 : pre <+: pfx :: tl := h.trans (List.dropLast_prefix _)
  rcases List.prefix_cons_iff.mp h2 with h3 | ⟨t, ht, _⟩
  · exact absurd h3 hpre
  · exact ⟨t, ht⟩

theorem dir_prefix (srcDir : Path) (pfx : Nat) (t : Path) :
    srcDir ++ [pfx] <+: srcDir ++ pfx :: t := by
  have : srcDir ++ pfx :: t = (srcDir ++ [pfx]) ++ t := by simp
  rw [this]; exact List.prefix_append _ _

theorem NL_mkdirs {s : FS} {srcDir : Path} (h : NL s srcDir) (base path : Path) :
    NL (mkdirs s base path) srcDir := by
  intro q hq hc
  rcases mkdirs_lookup s base path q with h1 | ⟨h1, _⟩
  · rw [h1]; exact h q hq hc
  · rw [h1]; exact notSym_dir

theorem canon_of_NL {s : FS} {srcDir : Path} (h : NL s srcDir) (x r : Path)
    (hc : canon s 64 [] (srcDir ++ x) = some r) : r = srcDir ++ x := by
  have := canon_nolink s 64 [] (srcDir ++ x) r (by
    intro pre hpre hpr
    simp only [List.nil_append]
    exact h pre hpre (List.prefix_or_prefix_of_prefix hpr (List.prefix_append _ _))) hc
  simpa using this

/-- without `..` components, dropping the `.root` components leaves exactly the normal ones -/
theorem filter_root_eq_map_relOf (path : List Comp) (kind : EntryKind)
    (h : path.any (fun c => c == .parent) = false) :
    path.filter (fun c => c != .root) = (relOf ⟨path, kind⟩).map Comp.normal := by
  induction path with
  | nil => rfl
  | cons c rest ih =>
    rw [List.any_cons, Bool.or_eq_false_iff] at h
    have ih := ih h.2
    cases c with
    | normal n =>
      have : relOf ⟨.normal n :: rest, kind⟩ = n :: relOf ⟨rest, kind⟩ := by
        simp only [relOf, List.filterMap_cons]
      rw [this, List.map_cons, ← ih]
      rfl
    | parent => exact absurd h.1 (by decide)
    | root =>
      have : relOf ⟨.root :: rest, kind⟩ = relOf ⟨rest, kind⟩ := by
        simp only [relOf, List.filterMap_cons]
      rw [this, ← ih]
      rfl

/-- the key fact behind the fix: an entry that would land on the completion marker and is not
skipped by `unpackIn` (no `..`) is the archive's own marker entry, which `unpackEntries` skips -/
theorem isMarkerEntry_of_relOf (pfx : Nat) (e : Entry) (hpar : e.path.any (fun c => c == .parent) = false)
    (hrel : relOf e = [pfx, 0]) : isMarkerEntry pfx e = true := by
  obtain ⟨path, kind⟩ := e
  unfold isMarkerEntry
  rw [filter_root_eq_map_relOf path kind hpar, hrel]
  simp only [List.map_cons, List.map_nil, beq_self_eq_true]

/-- what one processed entry does: every path keeps its node, or gets a fresh directory, or is
the entry's own path and gets a file; the last two only inside the crate directory, and the last
never at the completion marker -/
def StepRel (srcDir : Path) (pfx : Nat) (es : List Entry) (s s' : FS) : Prop :=
  ∀ q, lookup s' q = lookup s q ∨
    ((srcDir ++ [pfx]) <+: q ∧
      ((lookup s' q = some .dir ∧ lookup s q = none) ∨
       (∃ e ∈ es, q = srcDir ++ relOf e ∧ relOf e ≠ [pfx, 0] ∧ ∃ c, lookup s' q = some (.file c))))

theorem StepRel.refl (srcDir : Path) (pfx : Nat) (es : List Entry) (s : FS) :
    StepRel srcDir pfx es s s := fun _ => Or.inl rfl

theorem StepRel.mono {srcDir : Path} {pfx : Nat} {es es' : List Entry} {s s' : FS}
    (h : StepRel srcDir pfx es s s') (hsub : ∀ e ∈ es, e ∈ es') : StepRel srcDir pfx es' s s' := by
  intro q
  rcases h q with h1 | ⟨hd, h2 | ⟨e, he, h3⟩⟩
  · exact Or.inl h1
  · exact Or.inr ⟨hd, Or.inl h2⟩
  · exact Or.inr ⟨hd, Or.inr ⟨e, hsub e he, h3⟩⟩

theorem StepRel.trans {srcDir : Path} {pfx : Nat} {es : List Entry} {a b c : FS}
    (h1 : StepRel srcDir pfx es a b) (h2 : StepRel srcDir pfx es b c) : StepRel srcDir pfx es a c := by
  intro q
  rcases h2 q with e2 | ⟨hd, ⟨e2, n2⟩ | hf⟩
  · rw [e2]; exact h1 q
  · rcases h1 q with e1 | ⟨_, ⟨e1, _⟩ | ⟨_, _, _, _, _, e1⟩⟩
    · exact Or.inr ⟨hd, Or.inl ⟨e2, e1 ▸ n2⟩⟩
    · rw [e1] at n2; cases n2
    · rw [e1] at n2; cases n2
  · exact Or.inr ⟨hd, Or.inr hf⟩

theorem StepRel.NL {srcDir : Path} {pfx : Nat} {es : List Entry} {a b : FS}
    (h : StepRel srcDir pfx es a b) (hn : NL a srcDir) : NL b srcDir := by
  intro q hq hc
  rcases h q with e | ⟨_, ⟨e, _⟩ | ⟨_, _, _, _, _, e⟩⟩
  · rw [e]; exact hn q hq hc
  · rw [e]; exact notSym_dir
  · rw [e]; exact notSym_file _

theorem StepRel.outside {srcDir : Path} {pfx : Nat} {es : List Entry} {a b : FS}
    (h : StepRel srcDir pfx es a b) (q : Path) (hq : ¬ (srcDir ++ [pfx]) <+: q) :
    lookup b q = lookup a q := by
  rcases h q with e | ⟨hd, _⟩
  · exact e
  · exact absurd hd hq

theorem StepRel.present {srcDir : Path} {pfx : Nat} {es : List Entry} {a b : FS}
    (h : StepRel srcDir pfx es a b) (q : Path) (hq : lookup a q ≠ none) : lookup b q ≠ none := by
  rcases h q with e | ⟨_, ⟨e, _⟩ | ⟨_, _, _, _, _, e⟩⟩
  · rw [e]; exact hq
  · rw [e]; simp
  · rw [e]; simp

theorem finish_spec (s1 : FS) (srcDir : Path) (pfx : Nat) (e : Entry) (s' : FS)
    (hNL : NL s1 srcDir) (tl : Path) (hrel : relOf e = pfx :: tl)
    (hk : ∀ t, e.kind ≠ .symlink t) (h : finish s1 srcDir e = .ok s') :
    ∀ q, lookup s' q = lookup s1 q ∨
      (q = srcDir ++ relOf e ∧
        ((lookup s' q = some .dir ∧ lookup s1 q = none) ∨ ∃ c, lookup s' q = some (.file c))) := by
  unfold finish at h
  split at h
  · rename_i cp cd hcp hcd
    split at h
    · cases h
    · have hcp' := canon_of_NL hNL _ _ hcp
      have htarget : cp ++ [(relOf e).getLastD 0] = srcDir ++ relOf e := by
        rw [hcp', List.append_assoc, dropLast_getLastD _ (by simp [hrel])]
      rw [htarget] at h
      unfold writeNode at h
      intro q
      cases hkind : e.kind with
      | symlink t => exact absurd hkind (hk t)
      | file c =>
        rw [hkind] at h
        have hfile : s' = set s1 (srcDir ++ relOf e) (.file c) := by
          cases hl : lookup s1 (srcDir ++ relOf e) with
          | none => rw [hl] at h; injection h with h; exact h.symm
          | some n =>
            rw [hl] at h
            cases n with
            | dir => cases h
            | file c' => injection h with h; exact h.symm
            | symlink l => injection h with h; exact h.symm
        subst hfile
        simp only [lookup_set]
        by_cases hq : q = srcDir ++ relOf e
        · right; exact ⟨hq, Or.inr ⟨c, by simp [hq]⟩⟩
        · left; simp [hq]
      | dir =>
        rw [hkind] at h
        cases hl : lookup s1 (srcDir ++ relOf e) with
        | some n =>
          rw [hl] at h
          cases n with
          | dir => injection h with h; subst h; left; rfl
          | file c' => cases h
          | symlink l =>
            simp only at h
            split at h
            · injection h with h; subst h; left; rfl
            · cases h
        | none =>
          rw [hl] at h
          injection h with h
          subst h
          simp only [lookup_set]
          by_cases hq : q = srcDir ++ relOf e
          · right; exact ⟨hq, Or.inl ⟨by simp [hq], hq ▸ hl⟩⟩
          · left; simp [hq]
  · cases h

theorem unpackIn_spec (s : FS) (srcDir : Path) (pfx : Nat) (e : Entry) (s' : FS)
    (hNL : NL s srcDir) (hp : hasPrefix pfx e = true) (hm : isMarkerEntry pfx e = false)
    (hk : ∀ t, e.kind ≠ .symlink t)
    (h : unpackIn s srcDir e = .ok s') : StepRel srcDir pfx [e] s s' := by
  rw [unpackIn_eq] at h
  split at h
  · injection h with h; subst h; exact StepRel.refl _ _ _ _
  · rename_i hpar
    have hnm : relOf e ≠ [pfx, 0] := by
      intro hrel
      rw [isMarkerEntry_of_relOf pfx e (Bool.eq_false_iff.mpr hpar) hrel] at hm
      cases hm
    split at h
    · injection h with h; subst h; exact StepRel.refl _ _ _ _
    · obtain ⟨tl, hrel⟩ := relOf_of_hasPrefix pfx e hp
      have hf := finish_spec _ srcDir pfx e s' (NL_mkdirs hNL srcDir _) tl hrel hk h
      intro q
      have hdirq : q = srcDir ++ relOf e → (srcDir ++ [pfx]) <+: q := by
        intro hq; rw [hq, hrel]; exact dir_prefix _ _ _
      rcases hf q with e1 | ⟨hq, ⟨e1, n1⟩ | ⟨c, e1⟩⟩
      · rcases mkdirs_lookup s srcDir (relOf e).dropLast q with e0 | ⟨e0, n0, pre, hpre, hpr, hq⟩
        · left; rw [e1, e0]
        · right
          rw [hrel] at hpr
          obtain ⟨t, ht⟩ := prefix_dropLast_cons hpre hpr
          refine ⟨?_, Or.inl ⟨by rw [e1, e0], n0⟩⟩
          rw [hq, ht]; exact dir_prefix _ _ _
      · rcases mkdirs_lookup s srcDir (relOf e).dropLast q with e0 | ⟨e0, _⟩
        · exact Or.inr ⟨hdirq hq, Or.inl ⟨e1, by rw [← e0]; exact n1⟩⟩
        · rw [e0] at n1; cases n1
      · exact Or.inr ⟨hdirq hq, Or.inr ⟨e, by simp, hq, hnm, c, e1⟩⟩

theorem unpackEntries_spec (s : FS) (srcDir : Path) (pfx : Nat) (es : List Entry) (k : Nat)
    (hNL : NL s srcDir) (hk : ∀ e ∈ es, ∀ t, e.kind ≠ .symlink t) :
    StepRel srcDir pfx es s (unpackEntries s srcDir pfx es k).1 := by
  induction es generalizing s k with
  | nil => exact StepRel.refl _ _ _ _
  | cons e rest ih =>
    cases k with
    | zero => exact StepRel.refl _ _ _ _
    | succ k =>
      simp only [unpackEntries]
      split
      · exact StepRel.refl _ _ _ _
      · rename_i hp
        have hp' : hasPrefix pfx e = true := by simpa using hp
        split
        · -- the archive's own marker entry: skipped, the tree is unchanged
          exact (ih s k hNL (fun e he => hk e (by simp [he]))).mono (by intro x hx; simp [hx])
        · rename_i hm
          have hm' : isMarkerEntry pfx e = false := by simpa using hm
          split
          · exact StepRel.refl _ _ _ _
          · rename_i s' hs'
            have h1 := unpackIn_spec s srcDir pfx e s' hNL hp' hm' (hk e (by simp)) hs'
            have h2 := ih s' k (h1.NL hNL) (fun e he => hk e (by simp [he]))
            exact (h1.mono (by intro x hx; simp at hx; simp [hx])).trans
              (h2.mono (by intro x hx; simp [hx]))

end Vet.Unpack
