/- The store the second unlocked run sees (`relock`), table by table, for an update in the
`updatesOf` form. -/
import Vet.Lemmas.TwiceList
namespace Vet

section relocked
variable (s : Store) (M : Nat → UpdateMode) (lk : Nat → Option (Option Required))
  (ex : List (Nat × List Exemption))

def sfA : Audit → Bool → Audit := fun a b => { a with fresh := b }
def sfW : Wildcard → Bool → Wildcard := fun a b => { a with fresh := b }
def sfP : Publisher → Bool → Publisher := fun a b => { a with fresh := b }
def sfU : Unpub → Bool → Unpub := fun a b => { a with fresh := b }

/-- import file `ii` after relocking -/
def relockFile (f : AFile) (ii : Nat) : AFile :=
  { audits := f.audits.map (fun x => (x.1, refreshRow sfA (keepAudit s M lk ii x.1) x.2)),
    wildcards := f.wildcards.map (fun x => (x.1, refreshRow sfW (keepWild s M lk ii x.1) x.2)) }

/-- the relocked store, explicitly -/
def relocked : Store :=
  { s with
    imports := s.imports.zipIdx.map (fun y => relockFile s M lk y.1 y.2),
    publishers := s.publishers.map (fun x => (x.1, refreshRow sfP (keepPub s M lk x.1) x.2)),
    unpublished := s.unpublished.map (fun x => (x.1, refreshRow sfU (keepUnpub M lk x.1) x.2)),
    exemptions := ex }

theorem relockL_updatesOf : relockL s (updatesOf s M lk ex) = relocked s M lk ex := by
  unfold relockL relocked updatesOf
  simp only
  congr 1
  · rw [zip_zipIdx_map, List.map_map]
    apply List.map_congr_left
    rintro ⟨f, ii⟩ _
    simp only [Function.comp, relockFile]
    rw [relockTable_keep, relockTable_keep]
    rfl
  · rw [relockTable_keep]
    rfl
  · rw [relockTable_keep]
    rfl

theorem mem_relocked_imports {f' : AFile} {ii : Nat} :
    (f', ii) ∈ (relocked s M lk ex).imports.zipIdx ↔
      ∃ f, (f, ii) ∈ s.imports.zipIdx ∧ f' = relockFile s M lk f ii := by
  unfold relocked
  simp only
  rw [mem_zipIdx_map_zipIdx]

theorem getL_relockFile_audits (name : Nat) (f : AFile) (ii : Nat) :
    getL name (relockFile s M lk f ii).audits = refreshRow sfA (keepAudit s M lk ii name) (getL name f.audits) := by
  unfold relockFile
  exact getL_refreshTable name f.audits (keepAudit s M lk ii) sfA

theorem getL_relockFile_wildcards (name : Nat) (f : AFile) (ii : Nat) :
    getL name (relockFile s M lk f ii).wildcards =
      refreshRow sfW (keepWild s M lk ii name) (getL name f.wildcards) := by
  unfold relockFile
  exact getL_refreshTable name f.wildcards (keepWild s M lk ii) sfW

theorem getL_relocked_publishers (name : Nat) :
    getL name (relocked s M lk ex).publishers = refreshRow sfP (keepPub s M lk name) (getL name s.publishers) := by
  unfold relocked
  exact getL_refreshTable name s.publishers (keepPub s M lk) sfP

theorem getL_relocked_unpublished (name : Nat) :
    getL name (relocked s M lk ex).unpublished = refreshRow sfU (keepUnpub M lk name) (getL name s.unpublished) := by
  unfold relocked
  exact getL_refreshTable name s.unpublished (keepUnpub M lk) sfU

/-! ### per-crate record lists of the relocked store -/

theorem relocked_audits_some {name ii j : Nat} {a' : Audit} :
    (some ii, j, a') ∈ allAudits (relocked s M lk ex) name ↔
      ∃ a, (some ii, j, a) ∈ allAudits s name ∧ a' = sfA a (!keepAudit s M lk ii name j a) := by
  rw [mem_allAudits_some]
  constructor
  · rintro ⟨f', hf', ha'⟩
    obtain ⟨f, hf, rfl⟩ := (mem_relocked_imports s M lk ex).1 hf'
    rw [getL_relockFile_audits, mem_zipIdx_refreshRow] at ha'
    obtain ⟨a, ha, rfl⟩ := ha'
    exact ⟨a, mem_allAudits_some.2 ⟨f, hf, ha⟩, rfl⟩
  · rintro ⟨a, ha, rfl⟩
    obtain ⟨f, hf, ha⟩ := mem_allAudits_some.1 ha
    refine ⟨_, (mem_relocked_imports s M lk ex).2 ⟨f, hf, rfl⟩, ?_⟩
    rw [getL_relockFile_audits, mem_zipIdx_refreshRow]
    exact ⟨a, ha, rfl⟩

theorem relocked_audits_none {name j : Nat} {a : Audit} :
    (none, j, a) ∈ allAudits (relocked s M lk ex) name ↔ (none, j, a) ∈ allAudits s name := by
  rw [mem_allAudits_none, mem_allAudits_none]
  rfl

theorem relocked_wildcards_some {name ii j : Nat} {a' : Wildcard} :
    (some ii, j, a') ∈ allWildcards (relocked s M lk ex) name ↔
      ∃ a, (some ii, j, a) ∈ allWildcards s name ∧ a' = sfW a (!keepWild s M lk ii name j a) := by
  rw [mem_allWildcards_some]
  constructor
  · rintro ⟨f', hf', ha'⟩
    obtain ⟨f, hf, rfl⟩ := (mem_relocked_imports s M lk ex).1 hf'
    rw [getL_relockFile_wildcards, mem_zipIdx_refreshRow] at ha'
    obtain ⟨a, ha, rfl⟩ := ha'
    exact ⟨a, mem_allWildcards_some.2 ⟨f, hf, ha⟩, rfl⟩
  · rintro ⟨a, ha, rfl⟩
    obtain ⟨f, hf, ha⟩ := mem_allWildcards_some.1 ha
    refine ⟨_, (mem_relocked_imports s M lk ex).2 ⟨f, hf, rfl⟩, ?_⟩
    rw [getL_relockFile_wildcards, mem_zipIdx_refreshRow]
    exact ⟨a, ha, rfl⟩

theorem relocked_wildcards_none {name j : Nat} {a : Wildcard} :
    (none, j, a) ∈ allWildcards (relocked s M lk ex) name ↔ (none, j, a) ∈ allWildcards s name := by
  rw [mem_allWildcards_none, mem_allWildcards_none]
  rfl

theorem relocked_publishers {name pi : Nat} {p' : Publisher} :
    (p', pi) ∈ (getL name (relocked s M lk ex).publishers).zipIdx ↔
      ∃ p, (p, pi) ∈ (getL name s.publishers).zipIdx ∧ p' = sfP p (!keepPub s M lk name pi p) := by
  rw [getL_relocked_publishers, mem_zipIdx_refreshRow]

theorem relocked_unpublished {name i : Nat} {u' : Unpub} :
    (u', i) ∈ (getL name (relocked s M lk ex).unpublished).zipIdx ↔
      ∃ u, (u, i) ∈ (getL name s.unpublished).zipIdx ∧ u' = sfU u (!keepUnpub M lk name i u) := by
  rw [getL_relocked_unpublished, mem_zipIdx_refreshRow]

end relocked

end Vet
