/- Assembly of "check twice": the second check-mode update equals the first. -/
import Vet.Lemmas.TwiceKeep
namespace Vet

theorem localStale_of {s : Store} (hla : ∀ x ∈ s.locals.audits, ∀ a ∈ x.2, a.fresh = false)
    (hlw : ∀ x ∈ s.locals.wildcards, ∀ a ∈ x.2, a.fresh = false) (name : Nat) : LocalStale s name := by
  constructor
  · intro j a h
    obtain ⟨v, hv, hav⟩ := getL_mem (mem_of_zipIdx (mem_allAudits_none.1 h))
    exact hla _ hv a hav
  · intro j a h
    obtain ⟨v, hv, hav⟩ := getL_mem (mem_of_zipIdx (mem_allWildcards_none.1 h))
    exact hlw _ hv a hav

theorem has_of_mem {r : Required} {e : ReqEntry} {b : CSet} (h : (e, b) ∈ r) : r.has e = true := by
  obtain ⟨s, hs⟩ := pres_get?_of_mem h
  exact pres_has_of_get? hs

theorem mem_of_has {r : Required} {e : ReqEntry} (h : r.has e = true) : ∃ b, (e, b) ∈ r := by
  unfold Required.has at h
  cases hg : r.get? e with
  | none => rw [hg] at h; cases h
  | some b => exact ⟨b, get?_mem hg⟩

/-- the exemption rows the first check-mode run writes are in normal form -/
theorem run1_normal {tb : Table} {m : Mapper} (hm : Mapper.new tb = .ok m) {s : Store}
    {M : Nat → UpdateMode} (hM : ∀ n, (M n).pruneExemptions = false)
    {lk : Nat → Option (Option Required)} {ex : List (Nat × List Exemption)}
    (hnd : (s.exemptions.map (·.1)).Nodup)
    (hex : exemptionTable m M (reqOfLookup lk) s.exemptions = .ok ex)
    (hsound : ∀ name, AllExSound m s lk name) :
    ∀ y ∈ ex, ∀ x' ∈ y.2, NormalEx m x' := by
  rintro ⟨n, xs'⟩ hy x' hx'
  obtain ⟨xs, hxs, hupd⟩ := exemptionTable_mem _ hex n xs' hy
  have hget : getL n s.exemptions = xs := getL_of_nodup hnd hxs
  obtain ⟨⟨x, i⟩, hxi, l', hl', hx'l⟩ := (updateExemptions_members hupd).1 x' hx'
  rw [hM n] at hl'
  obtain ⟨original, ho, _⟩ := updateExemption_ok hl'
  exact updateExemption_normal hm ho (hsound n x i original (by rw [hget]; exact hxi) ho) hl' x' hx'l

section core
variable {w : World} {m : Mapper} {dg : DepGraph} {reqs : List CSet}
  {required₁ required₂ : List (Nat × Option Required)} {ex₁ : List (Nat × List Exemption)}

local notation "CM" => (fun _ : Nat => checkMode)
local notation "lk1" => (fun n => assoc? n required₁)
local notation "lk2" => (fun n => assoc? n required₂)

/-- the per-name facts of the second run -/
theorem name2_of (hm : Mapper.new w.table = .ok m)
    (hall₁ : allRequired dg m reqs w.store CM (dg.nodes.map (·.name)) [] = .ok required₁)
    (hall₂ : allRequired dg m reqs (relocked w.store CM lk1 ex₁) CM (dg.nodes.map (·.name)) [] = .ok required₂)
    (hexok₁ : ∀ name, ExOK m w.store CM lk1 ex₁ name)
    (hsound₁ : ∀ name, AllExSound m w.store lk1 name)
    (hrun1 : ∀ name, ∃ r₁, reqOfLookup lk1 name = some r₁ ∧
      (pkgsOf dg reqs name ≠ [] → ∃ g₁, build w.store m name = .ok (.graph g₁) ∧
        requiredForPkgs g₁ m .preferExemptions (pkgsOf dg reqs name) [] = .ok (some r₁)))
    (hls : ∀ name, LocalStale w.store name) (n : Nat) :
    Name2 (relocked w.store CM lk1 ex₁) CM lk1 lk2 n := by
  have facts₂ := allRequired_facts hall₂
  have hstale : ∀ r₂, reqOfLookup lk2 n = some r₂ → ∀ e b, (e, b) ∈ r₂ →
      entryFresh (relocked w.store CM lk1 ex₁) n e = false := by
    intro r₂ hr₂ e b hmem
    replace hr₂ : (assoc? n required₂).getD (some []) = some r₂ := hr₂
    cases hl : assoc? n required₂ with
    | none =>
      rw [hl] at hr₂
      simp only [Option.getD_none, Option.some.injEq] at hr₂
      subst hr₂
      cases hmem
    | some ro =>
      rw [hl] at hr₂
      simp only [Option.getD_some] at hr₂
      subst hr₂
      obtain ⟨r₁, hreq₁, h1⟩ := hrun1 n
      exact run2_stale hm hreq₁ (hexok₁ n) (hsound₁ n) h1 (hls n) (facts₂.ok n _ hl) e b hmem
  refine ⟨?_, ?_, ?_⟩
  · cases hr : reqOfLookup lk2 n with
    | none => rfl
    | some r₂ => exact shouldPrune_false_of_stale rfl (hstale r₂ hr)
  · intro r₂ hr₂ e hh
    obtain ⟨b, hb⟩ := mem_of_has hh
    exact hstale r₂ hr₂ e b hb
  · rw [Bool.eq_iff_iff]
    exact (lookup_isSome_iff hall₂ n).trans (lookup_isSome_iff hall₁ n).symm

end core

/-- C13 (check twice), on the mirror definition `relockL`, for stores whose tables have unique
keys and whose local records carry no freshness flag -/
theorem check_twice_core (w : World) (u : Updates)
    (hnd : (w.store.exemptions.map (·.1)).Nodup)
    (hla : ∀ x ∈ w.store.locals.audits, ∀ a ∈ x.2, a.fresh = false)
    (hlw : ∀ x ∈ w.store.locals.wildcards, ∀ a ∈ x.2, a.fresh = false)
    (hndi : ∀ f ∈ w.store.imports, (f.audits.map (·.1)).Nodup ∧ (f.wildcards.map (·.1)).Nodup)
    (hndp : (w.store.publishers.map (·.1)).Nodup)
    (hndu : (w.store.unpublished.map (·.1)).Nodup)
    (hu : getStoreUpdates w (fun _ => checkMode) = .ok u)
    (r : Report) (hr : resolve w = .ok r) (a b f : List Nat) (hs : r.conclusion = .success a b f)
    (u₂ : Updates)
    (hu₂ : getStoreUpdates { w with store := relockL w.store u } (fun _ => checkMode) = .ok u₂) :
    u₂.imports = u.imports ∧ u₂.publishers = u.publishers ∧ u₂.unpublished = u.unpublished ∧
    u₂.audits = u.audits ∧ u₂.exemptions = u.exemptions := by
  have hmode : ∀ n : Nat, ((fun _ : Nat => checkMode) n).search ≠ .regenerateExemptions := fun _ => by
    show checkMode.search ≠ .regenerateExemptions
    decide
  obtain ⟨dg, m, reqs, required₁, ex₁, hdg, hm, hreq, hall₁, hex₁, facts₁, rfl, hexok₁, hsound₁⟩ :=
    update_facts2 hnd hmode hu
  rw [relockL_updatesOf] at hu₂
  have hnd₂ : (({ w with store := relocked w.store (fun _ => checkMode) (fun n => assoc? n required₁) ex₁ } :
      World).store.exemptions.map (·.1)).Nodup :=
    List.Nodup.sublist (exemptionTable_rows _ hex₁).2 hnd
  obtain ⟨dg', m', reqs', required₂, ex₂, hdg', hm', hreq', hall₂, hex₂, facts₂, rfl, hexok₂, hsound₂⟩ :=
    update_facts2 hnd₂ hmode hu₂
  cases (hdg.symm.trans hdg' : Except.ok dg = Except.ok dg')
  cases (hm.symm.trans hm' : Except.ok m = Except.ok m')
  cases (hreq.symm.trans hreq' : Except.ok reqs = Except.ok reqs')
  obtain ⟨hdgr, hmr, hreqr⟩ := resolve_parts hr
  cases (hdg.symm.trans hdgr : Except.ok dg = Except.ok r.graph)
  cases (hm.symm.trans hmr : Except.ok m = Except.ok r.mapper)
  cases (hreq.symm.trans hreqr : Except.ok reqs = Except.ok r.requirements)
  have hrun1 := run1_name hr hs hmode facts₁
  have hN := name2_of hm hall₁ hall₂ hexok₁ hsound₁ hrun1 (localStale_of hla hlw)
  refine ⟨?_, ?_, ?_, ?_, ?_⟩
  · -- imports
    show (relocked w.store _ _ ex₁).imports.zipIdx.map _ = w.store.imports.zipIdx.map _
    unfold relocked
    simp only
    rw [zipIdx_map_zipIdx, List.map_map]
    apply List.map_congr_left
    rintro ⟨fl, ii⟩ hfl
    have hflmem : fl ∈ w.store.imports := mem_of_zipIdx hfl
    simp only [Function.comp]
    refine Prod.ext ?_ ?_
    · simp only [relockFile]
      apply keepTable_twice
      rintro ⟨n, l⟩ hx i a hia
      apply keepAudit_twice (hN n)
      have hget : getL n fl.audits = l := getL_of_nodup (hndi fl hflmem).1 hx
      have hmem : (some ii, i, a) ∈ allAudits w.store n :=
        mem_allAudits_some.2 ⟨fl, hfl, by rw [hget]; exact List.mk_mem_zipIdx_iff_getElem?.2 hia⟩
      rw [entryFresh_audit ((relocked_audits_some w.store _ _ ex₁).2 ⟨a, hmem, rfl⟩)]
      rfl
    · simp only [relockFile]
      apply keepTable_twice
      rintro ⟨n, l⟩ hx i a hia
      apply keepWild_twice (hN n)
      have hget : getL n fl.wildcards = l := getL_of_nodup (hndi fl hflmem).2 hx
      have hmem : (some ii, i, a) ∈ allWildcards w.store n :=
        mem_allWildcards_some.2 ⟨fl, hfl, by rw [hget]; exact List.mk_mem_zipIdx_iff_getElem?.2 hia⟩
      rw [entryFresh_wildcard ((relocked_wildcards_some w.store _ _ ex₁).2 ⟨a, hmem, rfl⟩)]
      rfl
  · -- publishers
    show (relocked w.store _ _ ex₁).publishers.map _ = w.store.publishers.map _
    unfold relocked
    simp only
    apply keepTable_twice
    rintro ⟨n, l⟩ hx i a hia
    apply keepPub_twice (hN n)
    have hget : getL n w.store.publishers = l := getL_of_nodup hndp hx
    have hmem : (a, i) ∈ (getL n w.store.publishers).zipIdx := by
      rw [hget]; exact List.mk_mem_zipIdx_iff_getElem?.2 hia
    rw [entryFresh_publisher ((relocked_publishers w.store _ _ ex₁).2 ⟨a, hmem, rfl⟩)]
    rfl
  · -- unpublished
    show (relocked w.store _ _ ex₁).unpublished.map _ = w.store.unpublished.map _
    unfold relocked
    simp only
    apply keepTable_twice
    rintro ⟨n, l⟩ hx i a hia
    apply keepUnpub_twice (hN n) rfl
    have hget : getL n w.store.unpublished = l := getL_of_nodup hndu hx
    have hmem : (a, i) ∈ (getL n w.store.unpublished).zipIdx := by
      rw [hget]; exact List.mk_mem_zipIdx_iff_getElem?.2 hia
    rw [entryFresh_unpublished ((relocked_unpublished w.store _ _ ex₁).2 ⟨a, hmem, rfl⟩)]
    rfl
  · -- local audits
    show w.store.locals.audits.map _ = w.store.locals.audits.map _
    apply List.map_congr_left
    rintro ⟨n, l⟩ _
    simp only
    congr 1
    apply keepIdx_congr
    intro i a _
    rw [keepLocal_noprune _ rfl, keepLocal_noprune _ rfl]
  · -- exemptions
    show ex₂ = ex₁
    have hnormal := run1_normal hm (fun _ => rfl) hnd hex₁ hsound₁
    have hrows := (exemptionTable_rows _ hex₁).1
    have hfix : exemptionTable r.mapper (fun _ => checkMode)
        (reqOfLookup (fun n => assoc? n required₂)) ex₁ = .ok ex₁ := by
      apply exemptionTable_fix
      rintro ⟨n, xs⟩ hy
      refine ⟨hrows _ hy, ?_⟩
      have hget : getL n ex₁ = xs := getL_of_nodup hnd₂ hy
      have := updateExemptions_fix (m := r.mapper) (prune := false)
        (req := reqOfLookup (fun n => assoc? n required₂) n) xs.zipIdx (by
          rintro ⟨x, i⟩ hxi
          apply updateExemption_fix (hnormal _ hy x (mem_of_zipIdx hxi))
          intro orig ho
          exact hsound₂ n x i orig (by
            show (x, i) ∈ (getL n ex₁).zipIdx
            rw [hget]; exact hxi) ho)
      rw [List.zipIdx_map_fst] at this
      exact this
    have hex₂' : exemptionTable r.mapper (fun _ => checkMode)
        (reqOfLookup (fun n => assoc? n required₂)) ex₁ = .ok ex₂ := hex₂
    rw [hfix] at hex₂'
    cases hex₂'
    rfl

end Vet
