/- Helper lemmas for suggestions. -/
import Vet.Model.Suggest
import Vet.Props.Search
import Vet.Lemmas.PreserveSearch
namespace Vet

open Vet.Sug

/-! ### `reachable` -/

theorem reachable_fold_mem (rest : List Failure) (acc : List (Option Nat) × List (Option Nat)) :
    (∀ v, v ∈ (rest.foldl (fun (acc : List (Option Nat) × List (Option Nat)) g =>
        (acc.1.filter (fun v => g.fromRoot.contains v), acc.2.filter (fun v => g.fromTarget.contains v)))
        acc).1 → v ∈ acc.1 ∧ ∀ G ∈ rest, v ∈ G.fromRoot) ∧
    (∀ v, v ∈ (rest.foldl (fun (acc : List (Option Nat) × List (Option Nat)) g =>
        (acc.1.filter (fun v => g.fromRoot.contains v), acc.2.filter (fun v => g.fromTarget.contains v)))
        acc).2 → v ∈ acc.2 ∧ ∀ G ∈ rest, v ∈ G.fromTarget) := by
  induction rest generalizing acc with
  | nil =>
    refine ⟨fun v hv => ⟨hv, ?_⟩, fun v hv => ⟨hv, ?_⟩⟩ <;> intro G hG <;> cases hG
  | cons g rest ih =>
    simp only [List.foldl_cons]
    obtain ⟨ih1, ih2⟩ := ih (acc.1.filter (fun v => g.fromRoot.contains v),
      acc.2.filter (fun v => g.fromTarget.contains v))
    constructor
    · intro v hv
      obtain ⟨h1, h2⟩ := ih1 v hv
      obtain ⟨h3, h4⟩ := List.mem_filter.1 h1
      refine ⟨h3, ?_⟩
      intro G hG
      rcases List.mem_cons.1 hG with rfl | hG
      · exact List.contains_iff_mem.1 h4
      · exact h2 G hG
    · intro v hv
      obtain ⟨h1, h2⟩ := ih2 v hv
      obtain ⟨h3, h4⟩ := List.mem_filter.1 h1
      refine ⟨h3, ?_⟩
      intro G hG
      rcases List.mem_cons.1 hG with rfl | hG
      · exact List.contains_iff_mem.1 h4
      · exact h2 G hG

theorem reachable_mem {hasSources : Option Nat → Bool} {fails : List Failure}
    {fr ft : List (Option Nat)} (h : reachable hasSources fails = some (fr, ft)) :
    (∀ v ∈ fr, ∀ F ∈ fails, v ∈ F.fromRoot) ∧ (∀ v ∈ ft, ∀ F ∈ fails, v ∈ F.fromTarget) := by
  cases fails with
  | nil => cases h
  | cons F₀ rest =>
    simp only [reachable, Option.some.injEq] at h
    obtain ⟨h1, h2⟩ := reachable_fold_mem rest (F₀.fromRoot.filter hasSources, F₀.fromTarget.filter hasSources)
    rw [h] at h1 h2
    constructor
    · intro v hv F hF
      obtain ⟨ha, hb⟩ := h1 v hv
      rcases List.mem_cons.1 hF with rfl | hF
      · exact (List.mem_filter.1 ha).1
      · exact hb F hF
    · intro v hv F hF
      obtain ⟨ha, hb⟩ := h2 v hv
      rcases List.mem_cons.1 hF with rfl | hF
      · exact (List.mem_filter.1 ha).1
      · exact hb F hF

theorem reachable_ne_nil {hasSources : Option Nat → Bool} {fails : List Failure} (hne : fails ≠ []) :
    ∃ fr ft, reachable hasSources fails = some (fr, ft) := by
  cases fails with
  | nil => exact absurd rfl hne
  | cons F rest => exact ⟨_, _, rfl⟩

/-! ### `closestBelow` / `closestAbove` -/

theorem pickFold_mem (f : Option Nat → Option Nat → Bool) (l : List (Option Nat))
    (init : Option (Option Nat)) (x : Option Nat)
    (h : l.foldl (fun best v =>
      match best with
      | none => some v
      | some b => if f b v then some v else some b) init = some x) :
    init = some x ∨ x ∈ l := by
  induction l generalizing init with
  | nil => exact Or.inl h
  | cons v l ih =>
    simp only [List.foldl_cons] at h
    rcases ih _ h with h' | h'
    · cases init with
      | none =>
        simp only [Option.some.injEq] at h'
        exact Or.inr (h' ▸ List.mem_cons_self)
      | some b =>
        simp only at h'
        split at h'
        · simp only [Option.some.injEq] at h'
          exact Or.inr (h' ▸ List.mem_cons_self)
        · exact Or.inl h'
    · exact Or.inr (List.mem_cons_of_mem _ h')

theorem closestBelow_mem {l : List (Option Nat)} {d x : Option Nat}
    (h : closestBelow l d = some x) : x ∈ l := by
  unfold closestBelow at h
  rcases pickFold_mem (fun b v => optLt b v) _ _ _ h with h' | h'
  · cases h'
  · exact (List.mem_filter.1 h').1

theorem closestAbove_mem {l : List (Option Nat)} {d x : Option Nat}
    (h : closestAbove l d = some x) : x ∈ l := by
  unfold closestAbove at h
  rcases pickFold_mem (fun b v => optLt v b) _ _ _ h with h' | h'
  · cases h'
  · exact (List.mem_filter.1 h').1

/-! ### `candidates` -/

theorem candidates_mem {fr ft : List (Option Nat)} {c : Option Nat × Nat}
    (hc : c ∈ candidates fr ft) : c.1 ∈ fr ∧ some c.2 ∈ ft := by
  unfold candidates at hc
  obtain ⟨d, hd, hcd⟩ := List.mem_flatMap.1 hc
  cases d with
  | none => cases hcd
  | some t =>
    simp only at hcd
    obtain ⟨x, hx, rfl⟩ := List.mem_map.1 hcd
    refine ⟨?_, hd⟩
    rcases List.mem_append.1 hx with hx | hx
    · exact closestBelow_mem (Option.mem_toList.1 hx)
    · exact closestAbove_mem (Option.mem_toList.1 hx)

/-! ### `gitRewrite` -/

theorem gitRewrite_mem {target : Nat} {published : Option (Option Nat)}
    {fr ft ft' : List (Option Nat)} {extra : Option (Option Nat × Nat)}
    (hg : gitRewrite target published fr ft = (ft', extra)) {x : Option Nat} (hx : x ∈ ft') :
    x ∈ ft ∨ (published = some x ∧ extra = some (x, target)) := by
  unfold gitRewrite at hg
  split at hg
  · cases hg; exact Or.inl hx
  · rename_i pv
    split at hg
    · cases hg; exact Or.inl hx
    · simp only at hg
      split at hg
      · cases hg; exact Or.inl (List.mem_filter.1 hx).1
      · cases hg
        rcases List.mem_append.1 hx with hx | hx
        · exact Or.inl (List.mem_filter.1 hx).1
        · rw [List.mem_singleton] at hx
          subst hx
          exact Or.inr ⟨rfl, rfl⟩

/-! ### `pickMin` -/

theorem pickMin_mem {cost : Option Nat × Nat → Nat} {l : List (Option Nat × Nat)}
    {c : Option Nat × Nat} (h : pickMin cost l = some c) : c ∈ l := by
  induction l generalizing c with
  | nil => cases h
  | cons x xs ih =>
    unfold pickMin at h
    split at h
    · cases h; exact List.mem_cons_self
    · rename_i m hm
      split at h
      · cases h; exact List.mem_cons_of_mem _ (ih hm)
      · cases h; exact List.mem_cons_self

/-! ### walks in a bigger graph -/

theorem Step.mono {adj adj' : Option Nat → List Edge} (hsub : ∀ a e, e ∈ adj a → e ∈ adj' a)
    {mode : Mode} {c : Nat} {a b : Option Nat} {o : Origin} {k : Nat}
    (st : Step adj mode c a o k b) : Step adj' mode c a o k b := by
  cases st with
  | edge he hu => exact Step.edge (hsub _ _ he) hu
  | fresh h => exact Step.fresh h

theorem Walk.mono {adj adj' : Option Nat → List Edge} (hsub : ∀ a e, e ∈ adj a → e ∈ adj' a)
    {mode : Mode} {c : Nat} {a b : Option Nat} {p : List Origin} {l : Nat}
    (w : Walk adj mode c a p l b) : Walk adj' mode c a p l b := by
  induction w with
  | nil => exact Walk.nil _
  | snoc _ st ih => exact Walk.snoc ih (st.mono hsub)

theorem Walk.append {adj : Option Nat → List Edge} {mode : Mode} {c : Nat} {a b d : Option Nat}
    {p q : List Origin} {l k : Nat} (w₁ : Walk adj mode c a p l b) (w₂ : Walk adj mode c b q k d) :
    ∃ l', Walk adj mode c a (p ++ q) l' d := by
  induction w₂ with
  | nil => exact ⟨l, by rw [List.append_nil]; exact w₁⟩
  | snoc _ st ih =>
    obtain ⟨l', w'⟩ := ih
    exact ⟨_, by rw [← List.append_assoc]; exact Walk.snoc w' st⟩

theorem backward_append_sub (g : Graph) (extra : List Triple) (a : Option Nat) (e : Edge)
    (h : e ∈ g.backward a) : e ∈ (Graph.mk (g.edges ++ extra)).backward a := by
  unfold Graph.backward at h ⊢
  obtain ⟨t, ht, rfl⟩ := List.mem_map.1 h
  obtain ⟨ht1, ht2⟩ := List.mem_filter.1 ht
  exact List.mem_map.2 ⟨t, List.mem_filter.2 ⟨List.mem_append_left _ ht1, ht2⟩, rfl⟩

theorem search_fail_sets {g : Graph} {c v : Nat} {r t : List (Option Nat)}
    (h : search g c v .preferExemptions = .fail r t) :
    (∀ x, x ∈ r → ∃ p l, Walk g.forward .preferExemptions c none p l x) ∧
    (∀ x, x ∈ t → ∃ p l, Walk g.backward .preferExemptions c (some v) p l x) := by
  unfold search at h
  split at h
  · cases h
  · cases h
  · rename_i vis hnf
    simp only [reduceCtorEq, if_false] at h
    split at h
    · rename_i vis' hnf'
      cases h
      have hb := search_complete g.backward c (some v) none .preferExemptions (searchFuel g) t
        (by simpa only [searchForPath, initQueue, if_true] using hnf)
      have hf := search_complete g.forward c none (some v) .preferExemptions (searchFuel g) r
        (by simpa only [searchForPath, initQueue, Bool.false_eq_true, if_false] using hnf')
      exact ⟨fun x hx => (hf.1 x).1 hx, fun x hx => (hb.1 x).1 hx⟩
    · cases h
    · cases h

/-! ### `dedup` -/

theorem sameSuggestion_refl (x : Item) : sameSuggestion x x = true := by
  simp [sameSuggestion]

theorem sameSuggestion_trans {x y z : Item} (h1 : sameSuggestion x y = true)
    (h2 : sameSuggestion y z = true) : sameSuggestion x z = true := by
  simp only [sameSuggestion, Bool.and_eq_true, decide_eq_true_eq] at *
  obtain ⟨⟨⟨a1, a2⟩, a3⟩, a4⟩ := h1
  obtain ⟨⟨⟨b1, b2⟩, b3⟩, b4⟩ := h2
  exact ⟨⟨⟨a1.trans b1, a2.trans b2⟩, a3.trans b3⟩, a4.trans b4⟩

theorem dedupFrom_twin (l : List Item) (prev : Item) :
    ∀ x ∈ prev :: l, ∃ y ∈ dedupFrom prev l, sameSuggestion y x = true := by
  induction l generalizing prev with
  | nil =>
    intro x hx
    rw [List.mem_singleton] at hx
    subst hx
    exact ⟨x, by simp [dedupFrom], sameSuggestion_refl x⟩
  | cons y rest ih =>
    intro x hx
    unfold dedupFrom
    split
    · rename_i hs
      rcases List.mem_cons.1 hx with rfl | hx
      · exact ih x x List.mem_cons_self
      · rcases List.mem_cons.1 hx with rfl | hx
        · obtain ⟨z, hz, hzp⟩ := ih prev prev List.mem_cons_self
          exact ⟨z, hz, sameSuggestion_trans hzp hs⟩
        · exact ih prev x (List.mem_cons_of_mem _ hx)
    · rcases List.mem_cons.1 hx with rfl | hx
      · exact ⟨x, List.mem_cons_self, sameSuggestion_refl x⟩
      · obtain ⟨z, hz, hzx⟩ := ih y x hx
        exact ⟨z, List.mem_cons_of_mem _ hz, hzx⟩

end Vet
