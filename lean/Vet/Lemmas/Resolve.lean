/- Helper lemmas for `resolve` / `resolve_audits`. -/
import Vet.Props.Search
import Vet.Props.Build
import Vet.Model.Resolve
import Vet.Lemmas.ResolveBridge
import Vet.Lemmas.ResolveLoop
import Vet.Lemmas.ResolveReq
namespace Vet

/-! ### one third-party package whose graph was built and whose searches did not panic -/

theorem contrib_firstParty {s : Store} {m : Mapper} {x : Nat × PkgNode × CSet}
    (htp : x.2.1.thirdParty = false) : contrib s m x = { results := [.firstParty] } := by
  simp [contrib, htp]

theorem contrib_conflicts {s : Store} {m : Mapper} {x : Nat × PkgNode × CSet} {cs : List Conflict}
    (htp : x.2.1.thirdParty = true) (hb : build s m x.2.1.name = .ok (.conflicts cs)) :
    contrib s m x = { violations := [(x.1, cs)], results := [.conflict cs] } := by
  simp [contrib, htp, hb]

theorem contrib_graph {s : Store} {m : Mapper} {x : Nat × PkgNode × CSet} {g : Graph}
    (htp : x.2.1.thirdParty = true) (hb : build s m x.2.1.name = .ok (.graph g)) :
    contrib s m x =
      { failures := if (classOf m g x.2.1 x.2.2).2.2 != 0 then [(x.1, (classOf m g x.2.1 x.2.2).2.2)] else [],
        fully := if !(classOf m g x.2.1 x.2.2).1 then [x.1] else [],
        withEx := if (classOf m g x.2.1 x.2.2).1 && (classOf m g x.2.1 x.2.2).2.1 then [x.1] else [],
        partially := if (classOf m g x.2.1 x.2.2).1 && !(classOf m g x.2.1 x.2.2).2.1 then [x.1] else [],
        results := [.searched (searchAll m g x.2.1.ver)] } := by
  simp [contrib, htp, hb]

/-- under `firstPanic = none` every search below `m.n` is `.ok` or `.fail` -/
theorem search_ok_or_fail {m : Mapper} {g : Graph} {ver c : Nat}
    (hfp : firstPanic (searchAll m g ver) = none) (hc : c < m.n) :
    (∃ path, search g c ver .preferExemptions = .ok path) ∨
    (∃ r t, search g c ver .preferExemptions = .fail r t) := by
  rcases search_cases g c ver with h | h | ⟨e, h⟩
  · exact Or.inl h
  · exact Or.inr h
  · exact absurd h (firstPanic_none hfp _ (searchAll_mem hc) e)

/-- the failure bits are exactly the required criteria without a chain -/
theorem classOf_failures_testBit {s : Store} {m : Mapper} {p : PkgNode} {g : Graph} (req : CSet)
    (hb : build s m p.name = .ok (.graph g)) (hfp : firstPanic (searchAll m g p.ver) = none) (c : Nat) :
    (classOf m g p req).2.2.testBit c = true ↔
      ((c < m.n ∧ req.testBit c = true) ∧ ¬ CertChain s m p.name c p.ver) := by
  unfold classOf
  rw [classify_failures, mem_indices_rl]
  constructor
  · rintro ⟨⟨hc, hr⟩, hno⟩
    refine ⟨⟨hc, hr⟩, ?_⟩
    rw [searchAll_getD hc] at hno
    rcases search_ok_or_fail hfp hc with ⟨path, h⟩ | ⟨r, t, h⟩
    · exact absurd h (hno path)
    · exact search_fail_no_chain hb h
  · rintro ⟨⟨hc, hr⟩, hno⟩
    refine ⟨⟨hc, hr⟩, ?_⟩
    rw [searchAll_getD hc]
    intro path h
    exact hno ⟨_, search_ok_certPath hb h⟩

theorem classOf_failures_zero {s : Store} {m : Mapper} {p : PkgNode} {g : Graph} (req : CSet)
    (hb : build s m p.name = .ok (.graph g)) (hfp : firstPanic (searchAll m g p.ver) = none) :
    (classOf m g p req).2.2 = 0 ↔
      ∀ c, c < m.n → req.testBit c = true → CertChain s m p.name c p.ver := by
  constructor
  · intro h0 c hc hr
    by_cases hch : CertChain s m p.name c p.ver
    · exact hch
    · have := (classOf_failures_testBit req hb hfp c).2 ⟨⟨hc, hr⟩, hch⟩
      rw [h0] at this
      simp at this
  · intro hall
    apply Nat.eq_of_testBit_eq
    intro c
    rw [Nat.zero_testBit]
    cases hbit : (classOf m g p req).2.2.testBit c with
    | false => rfl
    | true =>
      obtain ⟨⟨hc, hr⟩, hno⟩ := (classOf_failures_testBit req hb hfp c).1 hbit
      exact absurd (hall c hc hr) hno

/-- with no failure, every required search is `.ok` -/
theorem classOf_zero_ok {m : Mapper} {p : PkgNode} {g : Graph} {req : CSet}
    (h0 : (classOf m g p req).2.2 = 0) {c : Nat} (hc : c < m.n) (hr : req.testBit c = true) :
    ∃ path, search g c p.ver .preferExemptions = .ok path := by
  cases hs : search g c p.ver .preferExemptions with
  | ok path => exact ⟨path, rfl⟩
  | _ =>
    exfalso
    have : (classOf m g p req).2.2.testBit c = true := by
      unfold classOf
      rw [classify_failures, mem_indices_rl, searchAll_getD hc, hs]
      exact ⟨⟨hc, hr⟩, fun path hh => by cases hh⟩
    rw [h0] at this
    simp at this

theorem classOf_needed {m : Mapper} {p : PkgNode} {g : Graph} {req : CSet} :
    (classOf m g p req).1 = true ↔
      ∃ c, (c < m.n ∧ req.testBit c = true) ∧ ∃ path, search g c p.ver .preferExemptions = .ok path ∧
        path.any Origin.isExemption = true := by
  unfold classOf
  rw [classify_needed]
  constructor
  · rintro ⟨c, hc, path, hp, he⟩
    rw [mem_indices_rl] at hc
    rw [searchAll_getD hc.1] at hp
    exact ⟨c, hc, path, hp, he⟩
  · rintro ⟨c, hc, path, hp, he⟩
    refine ⟨c, mem_indices_rl.2 hc, path, ?_, he⟩
    rw [searchAll_getD hc.1]
    exact hp

/-! ### unfolding `resolve` -/

/-- the work list of `resolve` -/
def Report.items (r : Report) : List (Nat × PkgNode × CSet) :=
  (List.range r.graph.nodes.length).zip (r.graph.nodes.zip r.requirements)

def concl (acc : Acc) : Conclusion :=
  if !acc.violations.isEmpty then .failViolation acc.violations
  else if !acc.failures.isEmpty then .failVet acc.failures
  else .success acc.withEx acc.partially acc.fully

theorem resolve_ok {w : World} {r : Report} (h : resolve w = .ok r) :
    ∃ acc, resolveRequirements r.graph w.store.policy r.mapper = .ok r.requirements ∧
      resolveLoop w.store r.mapper r.items {} = .ok acc ∧
      r.results = acc.results ∧ r.conclusion = concl acc := by
  unfold resolve at h
  split at h
  · cases h
  · split at h
    · cases h
    · split at h
      · cases h
      · rename_i hreq
        split at h
        · cases h
        · rename_i acc hl
          simp only [Except.ok.injEq] at h
          subst h
          exact ⟨acc, hreq, hl, rfl, rfl⟩

/-- everything the property theorems need to know about a successful `resolve` -/
structure View (w : World) (r : Report) (acc : Acc) : Prop where
  hlen : r.requirements.length = r.graph.nodes.length
  noPanic : ∀ x ∈ r.items, noPanic w.store r.mapper x
  violations : acc.violations = r.items.flatMap (fun x => (contrib w.store r.mapper x).violations)
  failures : acc.failures = r.items.flatMap (fun x => (contrib w.store r.mapper x).failures)
  withEx : acc.withEx = r.items.flatMap (fun x => (contrib w.store r.mapper x).withEx)
  partially : acc.partially = r.items.flatMap (fun x => (contrib w.store r.mapper x).partially)
  fully : acc.fully = r.items.flatMap (fun x => (contrib w.store r.mapper x).fully)
  results : r.results = r.items.flatMap (fun x => (contrib w.store r.mapper x).results)
  conclusion : r.conclusion = concl acc

theorem resolve_view {w : World} {r : Report} (h : resolve w = .ok r) : ∃ acc, View w r acc := by
  obtain ⟨acc, hreq, hl, hres, hc⟩ := resolve_ok h
  obtain ⟨h0, h1, h2, h3, h4, h5, h6⟩ := resolveLoop_spec _ _ _ hl
  simp only [List.nil_append] at h1 h2 h3 h4 h5 h6
  exact ⟨acc, resolveRequirements_length hreq, h0, h1, h2, h3, h4, h5, hres.trans h6, hc⟩

namespace View
variable {w : World} {r : Report} {acc : Acc}

theorem mem_items (_v : View w r acc) {i : Nat} {p : PkgNode} {q : CSet} :
    (i, p, q) ∈ r.items ↔ r.graph.nodes[i]? = some p ∧ r.requirements[i]? = some q :=
  Vet.mem_items

/-- node `i` is on the work list with its requirement -/
theorem item_of_node (v : View w r acc) {i : Nat} {p : PkgNode} (hp : r.graph.nodes[i]? = some p) :
    (i, p, r.requirements.getD i 0) ∈ r.items := by
  rw [v.mem_items]
  refine ⟨hp, ?_⟩
  obtain ⟨hlt, _⟩ := List.getElem?_eq_some_iff.1 hp
  have hlt' : i < r.requirements.length := by rw [v.hlen]; exact hlt
  simp [List.getD, hlt']

/-- an item with index `i` is node `i` with its requirement -/
theorem item_eq (v : View w r acc) {x : Nat × PkgNode × CSet} (hx : x ∈ r.items) :
    r.graph.nodes[x.1]? = some x.2.1 ∧ x.2.2 = r.requirements.getD x.1 0 := by
  obtain ⟨i, p, q⟩ := x
  obtain ⟨h1, h2⟩ := v.mem_items.1 hx
  refine ⟨h1, ?_⟩
  simp [List.getD, h2]

theorem item_unique (v : View w r acc) {x : Nat × PkgNode × CSet} (hx : x ∈ r.items)
    {p : PkgNode} (hp : r.graph.nodes[x.1]? = some p) : x = (x.1, p, r.requirements.getD x.1 0) := by
  obtain ⟨h1, h2⟩ := v.item_eq hx
  rw [h1] at hp
  cases hp
  obtain ⟨i, p, q⟩ := x
  simp only at h2
  rw [h2]

end View

/-! ### reading the conclusion -/

theorem concl_success {acc : Acc} {a b f : List Nat} (h : concl acc = .success a b f) :
    acc.violations = [] ∧ acc.failures = [] ∧ a = acc.withEx ∧ b = acc.partially ∧ f = acc.fully := by
  unfold concl at h
  cases hv : acc.violations with
  | cons x xs => simp [hv] at h
  | nil =>
    cases hf : acc.failures with
    | cons y ys => simp [hv, hf] at h
    | nil =>
      simp only [hv, hf, List.isEmpty_nil, Bool.not_true, Bool.false_eq_true, if_false,
        Conclusion.success.injEq] at h
      exact ⟨rfl, rfl, h.1.symm, h.2.1.symm, h.2.2.symm⟩

theorem concl_failVet {acc : Acc} {fs : List (Nat × CSet)} (h : concl acc = .failVet fs) :
    acc.violations = [] ∧ fs = acc.failures := by
  unfold concl at h
  cases hv : acc.violations with
  | cons x xs => simp [hv] at h
  | nil =>
    cases hf : acc.failures with
    | cons y ys =>
      simp only [hv, hf, List.isEmpty_nil, List.isEmpty_cons, Bool.not_true, Bool.not_false,
        Bool.false_eq_true, if_false, if_true, Conclusion.failVet.injEq] at h
      exact ⟨rfl, h.symm⟩
    | nil => simp [hv, hf] at h

theorem concl_failViolation {acc : Acc} :
    (∃ vs, concl acc = .failViolation vs) ↔ acc.violations ≠ [] := by
  unfold concl
  cases hv : acc.violations with
  | cons x xs => simp
  | nil =>
    cases hf : acc.failures with
    | cons y ys => simp
    | nil => simp

theorem concl_success_of {acc : Acc} (hv : acc.violations = []) (hf : acc.failures = []) :
    concl acc = .success acc.withEx acc.partially acc.fully := by
  simp [concl, hv, hf]

/-! ### consequences of "no violation" -/

/-- without violations every third-party item has a graph and panic-free searches -/
theorem View.graph_of_no_violation {w : World} {r : Report} {acc : Acc} (v : View w r acc)
    (hv : acc.violations = []) {x : Nat × PkgNode × CSet} (hx : x ∈ r.items)
    (htp : x.2.1.thirdParty = true) :
    ∃ g, build w.store r.mapper x.2.1.name = .ok (.graph g) ∧
      firstPanic (searchAll r.mapper g x.2.1.ver) = none := by
  rcases v.noPanic x hx htp with ⟨cs, hb⟩ | h
  · exfalso
    have hmem : (x.1, cs) ∈ acc.violations := by
      rw [v.violations, List.mem_flatMap]
      exact ⟨x, hx, by rw [contrib_conflicts htp hb]; exact List.mem_singleton.2 rfl⟩
    rw [hv] at hmem
    cases hmem
  · exact h

/-- membership in one of the accumulated lists comes from exactly one item -/
theorem mem_flatMap_contrib {α : Type} {l : List (Nat × PkgNode × CSet)} {f : Nat × PkgNode × CSet → List α}
    {y : α} (h : y ∈ l.flatMap f) : ∃ x ∈ l, y ∈ f x := List.mem_flatMap.1 h

/-! ### membership in the contribution of one item -/

theorem mem_contrib_violations {s : Store} {m : Mapper} {x : Nat × PkgNode × CSet}
    {y : Nat × List Conflict} (h : y ∈ (contrib s m x).violations) :
    x.2.1.thirdParty = true ∧ ∃ cs, build s m x.2.1.name = .ok (.conflicts cs) ∧ y = (x.1, cs) := by
  cases htp : x.2.1.thirdParty with
  | false => rw [contrib_firstParty htp] at h; cases h
  | true =>
    refine ⟨rfl, ?_⟩
    cases hb : build s m x.2.1.name with
    | error e => simp [contrib, htp, hb] at h
    | ok br =>
      cases br with
      | conflicts cs =>
        rw [contrib_conflicts htp hb] at h
        exact ⟨cs, rfl, List.mem_singleton.1 h⟩
      | graph g => rw [contrib_graph htp hb] at h; cases h

theorem mem_contrib_failures {s : Store} {m : Mapper} {x : Nat × PkgNode × CSet}
    {y : Nat × CSet} (h : y ∈ (contrib s m x).failures) :
    x.2.1.thirdParty = true ∧ ∃ g, build s m x.2.1.name = .ok (.graph g) ∧
      y = (x.1, (classOf m g x.2.1 x.2.2).2.2) ∧ (classOf m g x.2.1 x.2.2).2.2 ≠ 0 := by
  cases htp : x.2.1.thirdParty with
  | false => rw [contrib_firstParty htp] at h; cases h
  | true =>
    refine ⟨rfl, ?_⟩
    cases hb : build s m x.2.1.name with
    | error e => simp [contrib, htp, hb] at h
    | ok br =>
      cases br with
      | conflicts cs => rw [contrib_conflicts htp hb] at h; cases h
      | graph g =>
        rw [contrib_graph htp hb] at h
        simp only at h
        split at h
        · rename_i hne
          exact ⟨g, rfl, List.mem_singleton.1 h, by simpa using hne⟩
        · cases h

/-- the three class lists of one item: at most the item's own index, third-party packages with
a graph only, and which list is decided by `needed` / `direct` -/
theorem contrib_classes {s : Store} {m : Mapper} (x : Nat × PkgNode × CSet) :
    (x.2.1.thirdParty = false ∧ (contrib s m x).withEx = [] ∧ (contrib s m x).partially = [] ∧
      (contrib s m x).fully = []) ∨
    (x.2.1.thirdParty = true ∧ (∀ g, build s m x.2.1.name ≠ .ok (.graph g)) ∧
      (contrib s m x).withEx = [] ∧ (contrib s m x).partially = [] ∧ (contrib s m x).fully = []) ∨
    (x.2.1.thirdParty = true ∧ ∃ g, build s m x.2.1.name = .ok (.graph g) ∧
      (((classOf m g x.2.1 x.2.2).1 = false ∧ (contrib s m x).withEx = [] ∧
          (contrib s m x).partially = [] ∧ (contrib s m x).fully = [x.1]) ∨
       ((classOf m g x.2.1 x.2.2).1 = true ∧ (contrib s m x).withEx = [x.1] ∧
          (contrib s m x).partially = [] ∧ (contrib s m x).fully = []) ∨
       ((classOf m g x.2.1 x.2.2).1 = true ∧ (contrib s m x).withEx = [] ∧
          (contrib s m x).partially = [x.1] ∧ (contrib s m x).fully = []))) := by
  cases htp : x.2.1.thirdParty with
  | false => left; rw [contrib_firstParty htp]; exact ⟨rfl, rfl, rfl, rfl⟩
  | true =>
    right
    cases hb : build s m x.2.1.name with
    | error e => left; simp [contrib, htp, hb]
    | ok br =>
      cases br with
      | conflicts cs => left; rw [contrib_conflicts htp hb]; simp
      | graph g =>
        right
        refine ⟨rfl, g, rfl, ?_⟩
        rw [contrib_graph htp hb]
        cases (classOf m g x.2.1 x.2.2).1 <;> cases (classOf m g x.2.1 x.2.2).2.1 <;> simp

theorem contrib_withEx_idx {s : Store} {m : Mapper} (x : Nat × PkgNode × CSet) :
    ∀ j ∈ (contrib s m x).withEx, j = x.1 := by
  intro j hj
  rcases contrib_classes (s := s) (m := m) x with ⟨_, h, _, _⟩ | ⟨_, _, h, _, _⟩ |
    ⟨_, g, _, ⟨_, h, _, _⟩ | ⟨_, h, _, _⟩ | ⟨_, h, _, _⟩⟩ <;> rw [h] at hj <;> simp_all

theorem contrib_partially_idx {s : Store} {m : Mapper} (x : Nat × PkgNode × CSet) :
    ∀ j ∈ (contrib s m x).partially, j = x.1 := by
  intro j hj
  rcases contrib_classes (s := s) (m := m) x with ⟨_, _, h, _⟩ | ⟨_, _, _, h, _⟩ |
    ⟨_, g, _, ⟨_, _, h, _⟩ | ⟨_, _, h, _⟩ | ⟨_, _, h, _⟩⟩ <;> rw [h] at hj <;> simp_all

theorem contrib_fully_idx {s : Store} {m : Mapper} (x : Nat × PkgNode × CSet) :
    ∀ j ∈ (contrib s m x).fully, j = x.1 := by
  intro j hj
  rcases contrib_classes (s := s) (m := m) x with ⟨_, _, _, h⟩ | ⟨_, _, _, _, h⟩ |
    ⟨_, g, _, ⟨_, _, _, h⟩ | ⟨_, _, _, h⟩ | ⟨_, _, _, h⟩⟩ <;> rw [h] at hj <;> simp_all

/-- a list built from per-item index lists contains `i` iff node `i`'s own item contributes it -/
theorem View.mem_class_iff {w : World} {r : Report} {acc : Acc} (v : View w r acc)
    (fld : Acc → List Nat) (hfld : ∀ x, ∀ j ∈ fld (contrib w.store r.mapper x), j = x.1)
    {i : Nat} {p : PkgNode} (hp : r.graph.nodes[i]? = some p) :
    i ∈ r.items.flatMap (fun x => fld (contrib w.store r.mapper x)) ↔
      i ∈ fld (contrib w.store r.mapper (i, p, r.requirements.getD i 0)) := by
  constructor
  · intro h
    obtain ⟨x, hx, hi⟩ := List.mem_flatMap.1 h
    have hxi := hfld x i hi
    subst hxi
    rw [v.item_unique hx hp] at hi
    exact hi
  · intro h
    exact List.mem_flatMap.2 ⟨_, v.item_of_node hp, h⟩

theorem contrib_failures_shape {s : Store} {m : Mapper} (x : Nat × PkgNode × CSet) :
    (contrib s m x).failures = [] ∨ ∃ y, (contrib s m x).failures = [(x.1, y)] := by
  cases htp : x.2.1.thirdParty with
  | false => left; rw [contrib_firstParty htp]
  | true =>
    cases hb : build s m x.2.1.name with
    | error e => left; simp [contrib, htp, hb]
    | ok br =>
      cases br with
      | conflicts cs => left; rw [contrib_conflicts htp hb]
      | graph g =>
        rw [contrib_graph htp hb]
        simp only
        split
        · exact Or.inr ⟨_, rfl⟩
        · exact Or.inl rfl

/-- without failures, the failure set of every third-party item is empty -/
theorem View.failures_zero {w : World} {r : Report} {acc : Acc} (v : View w r acc)
    (hf : acc.failures = []) {x : Nat × PkgNode × CSet} (hx : x ∈ r.items)
    (htp : x.2.1.thirdParty = true) {g : Graph} (hb : build w.store r.mapper x.2.1.name = .ok (.graph g)) :
    (classOf r.mapper g x.2.1 x.2.2).2.2 = 0 := by
  apply Classical.byContradiction
  intro hne
  have hmem : (x.1, (classOf r.mapper g x.2.1 x.2.2).2.2) ∈ acc.failures := by
    rw [v.failures, List.mem_flatMap]
    refine ⟨_, hx, ?_⟩
    rw [contrib_graph htp hb]
    simp [hne]
  rw [hf] at hmem
  cases hmem

theorem View.fully_item {w : World} {r : Report} {acc : Acc} (v : View w r acc)
    (hv : acc.violations = []) {x : Nat × PkgNode × CSet} (hx : x ∈ r.items) {j : Nat}
    (hj : j ∈ (contrib w.store r.mapper x).fully) :
    x.2.1.thirdParty = true ∧ ∃ g, build w.store r.mapper x.2.1.name = .ok (.graph g) ∧
      firstPanic (searchAll r.mapper g x.2.1.ver) = none ∧ (classOf r.mapper g x.2.1 x.2.2).1 = false := by
  rcases contrib_classes (s := w.store) (m := r.mapper) x with ⟨_, _, _, h⟩ | ⟨_, _, _, _, h⟩ |
    ⟨htp, g, hb, ⟨hcl, _, _, _⟩ | ⟨_, _, _, h⟩ | ⟨_, _, _, h⟩⟩
  · rw [h] at hj; cases hj
  · rw [h] at hj; cases hj
  · obtain ⟨g', hb', hfp⟩ := v.graph_of_no_violation hv hx htp
    rw [hb] at hb'
    cases hb'
    exact ⟨htp, g, hb, hfp, hcl⟩
  · rw [h] at hj; cases hj
  · rw [h] at hj; cases hj

/-! ### the `results` column -/

/-- the result recorded for one item -/
def resOf (s : Store) (m : Mapper) (x : Nat × PkgNode × CSet) : PkgResult :=
  if !x.2.1.thirdParty then .firstParty
  else
    match build s m x.2.1.name with
    | .error _ => .firstParty
    | .ok (.conflicts cs) => .conflict cs
    | .ok (.graph g) => .searched (searchAll m g x.2.1.ver)

theorem contrib_results {s : Store} {m : Mapper} {x : Nat × PkgNode × CSet} (hx : noPanic s m x) :
    (contrib s m x).results = [resOf s m x] := by
  cases htp : x.2.1.thirdParty with
  | false => simp [contrib, resOf, htp]
  | true =>
    rcases hx htp with ⟨cs, hb⟩ | ⟨g, hb, _⟩
    · simp [contrib, resOf, htp, hb]
    · simp [contrib, resOf, htp, hb]

theorem resOf_searched {s : Store} {m : Mapper} {x : Nat × PkgNode × CSet} {results : List SearchOutcome}
    (h : resOf s m x = .searched results) :
    ∃ g, build s m x.2.1.name = .ok (.graph g) ∧ results = searchAll m g x.2.1.ver := by
  unfold resOf at h
  split at h
  · cases h
  · split at h
    · cases h
    · cases h
    · rename_i g hb
      cases h
      exact ⟨g, hb, rfl⟩

theorem flatMap_singleton_eq_map {α β : Type} (l : List α) (f : α → List β) (g : α → β)
    (h : ∀ x ∈ l, f x = [g x]) : l.flatMap f = l.map g := by
  induction l with
  | nil => rfl
  | cons x xs ih =>
    rw [List.flatMap_cons, List.map_cons, h x List.mem_cons_self,
      ih (fun y hy => h y (List.mem_cons_of_mem _ hy))]
    rfl

theorem View.results_eq {w : World} {r : Report} {acc : Acc} (v : View w r acc) :
    r.results = r.items.map (resOf w.store r.mapper) := by
  rw [v.results]
  exact flatMap_singleton_eq_map _ _ _ (fun x hx => contrib_results (v.noPanic x hx))

theorem View.items_getElem? {w : World} {r : Report} {acc : Acc} (v : View w r acc)
    {i : Nat} {p : PkgNode} (hp : r.graph.nodes[i]? = some p) :
    r.items[i]? = some (i, p, r.requirements.getD i 0) := by
  unfold Report.items
  obtain ⟨hlt, _⟩ := List.getElem?_eq_some_iff.1 hp
  have hlt' : i < r.requirements.length := by rw [v.hlen]; exact hlt
  rw [List.getElem?_zip_eq_some]
  refine ⟨by simp [hlt], ?_⟩
  rw [List.getElem?_zip_eq_some]
  exact ⟨hp, by simp [List.getD, hlt']⟩

/-- a `.searched` entry in the results column is the search vector of that node's graph -/
theorem View.searched {w : World} {r : Report} {acc : Acc} (v : View w r acc)
    {i : Nat} {p : PkgNode} (hp : r.graph.nodes[i]? = some p) {results : List SearchOutcome}
    (hr : r.results[i]? = some (.searched results)) :
    ∃ g, build w.store r.mapper p.name = .ok (.graph g) ∧ results = searchAll r.mapper g p.ver := by
  rw [v.results_eq, List.getElem?_map, v.items_getElem? hp] at hr
  simp only [Option.map_some, Option.some.injEq] at hr
  exact resOf_searched hr

end Vet
