/- `classify`, `firstPanic`, and `resolveLoop` as "accumulator ++ per-package contribution". -/
import Vet.Model.Resolve
namespace Vet

/-! ### `firstPanic` -/

theorem firstPanic_none {l : List SearchOutcome} (h : firstPanic l = none) :
    ∀ x ∈ l, ∀ e, x ≠ .panic e := by
  induction l with
  | nil => intro x hx; cases hx
  | cons y ys ih =>
    intro x hx e
    cases y with
    | panic p => simp [firstPanic] at h
    | ok p =>
      simp only [firstPanic] at h
      rcases List.mem_cons.1 hx with rfl | hx
      · intro hh; cases hh
      · exact ih h x hx e
    | fail r t =>
      simp only [firstPanic] at h
      rcases List.mem_cons.1 hx with rfl | hx
      · intro hh; cases hh
      · exact ih h x hx e

/-! ### `classify` -/

/-- the loop body of `classify` -/
def classifyStep (results : List SearchOutcome) (acc : Bool × Bool × CSet) (c : Nat) :
    Bool × Bool × CSet :=
  match results.getD c (.panic .other) with
  | .ok path =>
    (acc.1 || path.any Origin.isExemption,
     acc.2.1 || path.all (fun o => o.isExemption || o.isUnpublished),
     acc.2.2)
  | _ => (acc.1, acc.2.1, acc.2.2 ||| (1 <<< c))

theorem classify_eq (results : List SearchOutcome) (required : List Nat) :
    classify results required = required.foldl (classifyStep results) (false, false, 0) := rfl

theorem testBit_or_single (a c j : Nat) :
    (a ||| (1 <<< c)).testBit j = (a.testBit j || decide (c = j)) := by
  rw [Nat.testBit_or, Nat.testBit_shiftLeft]
  by_cases h : c = j
  · subst h; simp
  · by_cases h2 : c ≤ j
    · have : j - c ≠ 0 := by omega
      obtain ⟨k, hk⟩ := Nat.exists_eq_succ_of_ne_zero this
      simp [h, h2, hk, Nat.testBit_succ]
    · simp [h, h2]

theorem classify_fold_needed (results : List SearchOutcome) (required : List Nat)
    (acc : Bool × Bool × CSet) :
    (required.foldl (classifyStep results) acc).1 = true ↔
      acc.1 = true ∨ ∃ c ∈ required, ∃ path, results.getD c (.panic .other) = .ok path ∧
        path.any Origin.isExemption = true := by
  induction required generalizing acc with
  | nil => simp
  | cons c cs ih =>
    rw [List.foldl_cons, ih]
    unfold classifyStep
    constructor
    · rintro (h | ⟨c', hc', path, hp, he⟩)
      · split at h
        · rename_i path hp
          simp only [Bool.or_eq_true] at h
          rcases h with h | h
          · exact Or.inl h
          · exact Or.inr ⟨c, List.mem_cons_self, path, hp, h⟩
        · exact Or.inl h
      · exact Or.inr ⟨c', List.mem_cons_of_mem _ hc', path, hp, he⟩
    · rintro (h | ⟨c', hc', path, hp, he⟩)
      · left
        split <;> simp [h]
      · rcases List.mem_cons.1 hc' with rfl | hc'
        · left
          rw [hp]
          simp [he]
        · exact Or.inr ⟨c', hc', path, hp, he⟩

theorem classify_fold_failures (results : List SearchOutcome) (required : List Nat)
    (acc : Bool × Bool × CSet) (j : Nat) :
    (required.foldl (classifyStep results) acc).2.2.testBit j = true ↔
      acc.2.2.testBit j = true ∨
        (j ∈ required ∧ ∀ path, results.getD j (.panic .other) ≠ .ok path) := by
  induction required generalizing acc with
  | nil => simp
  | cons c cs ih =>
    rw [List.foldl_cons, ih]
    unfold classifyStep
    constructor
    · rintro (h | ⟨hj, hn⟩)
      · split at h
        · exact Or.inl h
        · rename_i hno
          simp only [testBit_or_single, Bool.or_eq_true, decide_eq_true_eq] at h
          rcases h with h | rfl
          · exact Or.inl h
          · exact Or.inr ⟨List.mem_cons_self, fun path hp => hno path hp⟩
      · exact Or.inr ⟨List.mem_cons_of_mem _ hj, hn⟩
    · rintro (h | ⟨hj, hn⟩)
      · left
        split
        · exact h
        · simp [h]
      · rcases List.mem_cons.1 hj with rfl | hj
        · left
          split
          · rename_i path hp
            exact absurd hp (hn path)
          · simp
        · exact Or.inr ⟨hj, hn⟩

theorem classify_needed (results : List SearchOutcome) (required : List Nat) :
    (classify results required).1 = true ↔
      ∃ c ∈ required, ∃ path, results.getD c (.panic .other) = .ok path ∧
        path.any Origin.isExemption = true := by
  rw [classify_eq, classify_fold_needed]
  simp

theorem classify_failures (results : List SearchOutcome) (required : List Nat) (j : Nat) :
    (classify results required).2.2.testBit j = true ↔
      (j ∈ required ∧ ∀ path, results.getD j (.panic .other) ≠ .ok path) := by
  rw [classify_eq, classify_fold_failures]
  simp

theorem mem_indices_rl {n : Nat} {s : CSet} {c : Nat} :
    c ∈ CSet.indices n s ↔ c < n ∧ s.testBit c = true := by
  simp [CSet.indices]

/-! ### `resolveLoop` -/

/-- the searches run for one package -/
def searchAll (m : Mapper) (g : Graph) (ver : Nat) : List SearchOutcome :=
  (List.range m.n).map (fun c => search g c ver .preferExemptions)

theorem searchAll_getElem? {m : Mapper} {g : Graph} {ver c : Nat} {o : SearchOutcome}
    (h : (searchAll m g ver)[c]? = some o) : c < m.n ∧ o = search g c ver .preferExemptions := by
  unfold searchAll at h
  rw [List.getElem?_map] at h
  cases hr : (List.range m.n)[c]? with
  | none => rw [hr] at h; cases h
  | some c' =>
    rw [hr] at h
    obtain ⟨hlt, rfl⟩ := List.getElem?_eq_some_iff.1 hr
    simp only [List.length_range] at hlt
    simp only [List.getElem_range, Option.map_some, Option.some.injEq] at h
    exact ⟨hlt, h.symm⟩

theorem searchAll_getD {m : Mapper} {g : Graph} {ver c : Nat} (hc : c < m.n) :
    (searchAll m g ver).getD c (.panic .other) = search g c ver .preferExemptions := by
  unfold searchAll
  simp [List.getD, hc]

theorem searchAll_mem {m : Mapper} {g : Graph} {ver c : Nat} (hc : c < m.n) :
    search g c ver .preferExemptions ∈ searchAll m g ver :=
  List.mem_map.2 ⟨c, List.mem_range.2 hc, rfl⟩

/-- the classification of one third-party package with graph `g` -/
def classOf (m : Mapper) (g : Graph) (p : PkgNode) (req : CSet) : Bool × Bool × CSet :=
  classify (searchAll m g p.ver) (CSet.indices m.n req)

/-- what one package adds to the accumulator (when nothing panics) -/
def contrib (s : Store) (m : Mapper) (x : Nat × PkgNode × CSet) : Acc :=
  if !x.2.1.thirdParty then { results := [.firstParty] }
  else
    match build s m x.2.1.name with
    | .error _ => {}
    | .ok (.conflicts cs) => { violations := [(x.1, cs)], results := [.conflict cs] }
    | .ok (.graph g) =>
      let cl := classOf m g x.2.1 x.2.2
      { failures := if cl.2.2 != 0 then [(x.1, cl.2.2)] else [],
        fully := if !cl.1 then [x.1] else [],
        withEx := if cl.1 && cl.2.1 then [x.1] else [],
        partially := if cl.1 && !cl.2.1 then [x.1] else [],
        results := [.searched (searchAll m g x.2.1.ver)] }

/-- a third-party package is processed without panic -/
def noPanic (s : Store) (m : Mapper) (x : Nat × PkgNode × CSet) : Prop :=
  x.2.1.thirdParty = true →
    (∃ cs, build s m x.2.1.name = .ok (.conflicts cs)) ∨
    (∃ g, build s m x.2.1.name = .ok (.graph g) ∧ firstPanic (searchAll m g x.2.1.ver) = none)

def Acc.app (a b : Acc) : Acc :=
  { violations := a.violations ++ b.violations, failures := a.failures ++ b.failures,
    withEx := a.withEx ++ b.withEx, partially := a.partially ++ b.partially,
    fully := a.fully ++ b.fully, results := a.results ++ b.results }

/-- the accumulator update of the `.graph` branch, as written in the model -/
def stepAcc (acc : Acc) (idx : Nat) (results : List SearchOutcome) (cl : Bool × Bool × CSet) : Acc :=
  let acc := if cl.2.2 != 0 then { acc with failures := acc.failures ++ [(idx, cl.2.2)] } else acc
  let acc :=
    if !cl.1 then { acc with fully := acc.fully ++ [idx] }
    else if cl.2.1 then { acc with withEx := acc.withEx ++ [idx] }
    else { acc with partially := acc.partially ++ [idx] }
  { acc with results := acc.results ++ [.searched results] }

theorem stepAcc_eq (acc : Acc) (idx : Nat) (results : List SearchOutcome) (cl : Bool × Bool × CSet) :
    acc.app { failures := if cl.2.2 != 0 then [(idx, cl.2.2)] else [],
              fully := if !cl.1 then [idx] else [],
              withEx := if cl.1 && cl.2.1 then [idx] else [],
              partially := if cl.1 && !cl.2.1 then [idx] else [],
              results := [.searched results] } = stepAcc acc idx results cl := by
  obtain ⟨needed, direct, f⟩ := cl
  cases needed <;> cases direct <;> by_cases hf : f = 0 <;> simp [Acc.app, stepAcc, hf]

theorem resolveLoop_cons_ok {s : Store} {m : Mapper} {x : Nat × PkgNode × CSet}
    {rest : List (Nat × PkgNode × CSet)} {acc acc' : Acc}
    (h : resolveLoop s m (x :: rest) acc = .ok acc') :
    noPanic s m x ∧ resolveLoop s m rest (acc.app (contrib s m x)) = .ok acc' := by
  obtain ⟨idx, p, req⟩ := x
  unfold resolveLoop at h
  unfold noPanic contrib
  cases htp : p.thirdParty with
  | false =>
    simp only [htp, Bool.not_false, if_true] at h ⊢
    refine ⟨by simp, ?_⟩
    simpa [Acc.app] using h
  | true =>
    simp only [htp, Bool.not_true, Bool.false_eq_true, if_false] at h ⊢
    cases hb : build s m p.name with
    | error e => rw [hb] at h; cases h
    | ok br =>
      cases br with
      | conflicts cs =>
        simp only [hb] at h ⊢
        refine ⟨fun _ => Or.inl ⟨cs, rfl⟩, ?_⟩
        simpa [Acc.app] using h
      | graph g =>
        simp only [hb] at h ⊢
        simp only [classOf, searchAll]
        cases hfp : firstPanic ((List.range m.n).map (fun c => search g c p.ver .preferExemptions)) with
        | some e => simp only [hfp] at h; cases h
        | none =>
          simp only [hfp] at h
          refine ⟨fun _ => Or.inr ⟨g, rfl, hfp⟩, ?_⟩
          rw [← h]
          congr 1
          exact stepAcc_eq acc idx _ _

/-- the flattened contributions of a list of packages -/
theorem resolveLoop_spec {s : Store} {m : Mapper} (l : List (Nat × PkgNode × CSet)) (acc acc' : Acc)
    (h : resolveLoop s m l acc = .ok acc') :
    (∀ x ∈ l, noPanic s m x) ∧
    acc'.violations = acc.violations ++ l.flatMap (fun x => (contrib s m x).violations) ∧
    acc'.failures = acc.failures ++ l.flatMap (fun x => (contrib s m x).failures) ∧
    acc'.withEx = acc.withEx ++ l.flatMap (fun x => (contrib s m x).withEx) ∧
    acc'.partially = acc.partially ++ l.flatMap (fun x => (contrib s m x).partially) ∧
    acc'.fully = acc.fully ++ l.flatMap (fun x => (contrib s m x).fully) ∧
    acc'.results = acc.results ++ l.flatMap (fun x => (contrib s m x).results) := by
  induction l generalizing acc with
  | nil =>
    simp only [resolveLoop, Except.ok.injEq] at h
    subst h
    simp
  | cons x rest ih =>
    obtain ⟨hx, h'⟩ := resolveLoop_cons_ok h
    obtain ⟨h0, h1, h2, h3, h4, h5, h6⟩ := ih _ h'
    refine ⟨?_, ?_, ?_, ?_, ?_, ?_, ?_⟩
    · intro y hy
      rcases List.mem_cons.1 hy with rfl | hy
      · exact hx
      · exact h0 y hy
    all_goals simp only [List.flatMap_cons, ← List.append_assoc]
    · exact h1
    · exact h2
    · exact h3
    · exact h4
    · exact h5
    · exact h6

end Vet
