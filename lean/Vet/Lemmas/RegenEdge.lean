/- From a chosen path of the `RegenerateExemptions` search to a certifying chain of the store
after the update: ordinary edges are kept records, exemption edges and the `FreshExemption`
pseudo-edge become exemptions written by the update. -/
import Vet.Lemmas.RegenEx
namespace Vet

/-! ### kept records (every mode) -/

/-- `edge_kept` for every record kind but exemptions; no assumption on the search mode -/
theorem edge_kept_nonex (s : Store) (modeOf : Nat → UpdateMode) (lookup : Nat → Option (Option Required))
    (ex : List (Nat × List Exemption)) (name : Nat) {m : Mapper} {r : Required}
    (hreq : reqOfLookup lookup name = some r)
    {c : Nat} {a b : Option Nat} {o : Origin} (he : CertEdge s m name c a o b)
    (hno : o.isExemption = false)
    (hent : ∀ e ∈ originEntries o, ∃ su, r.get? e = some su ∧ su.testBit c = true) :
    ∃ o', CertEdge (applyLocked s (updatesOf s modeOf lookup ex)) m name c a o' b := by
  have hhas : ∀ e ∈ originEntries o, r.has e = true := fun e he' => by
    obtain ⟨su, hsu, _⟩ := hent e he'
    exact pres_has_of_get? hsu
  cases he with
  | @full imp idx a v cs hmem hk hcs hbit =>
    cases imp with
    | none =>
      have hkeep := keepLocal_of_has (modeOf := modeOf) (a := a) hreq
        (hhas (.localAudit idx) (by simp [auditOrigin, originEntries]))
      obtain ⟨j', hj'⟩ := new_audits_kept_local s modeOf lookup ex name hmem hkeep
      exact ⟨_, CertEdge.full hj' hk hcs hbit⟩
    | some ii =>
      have hkeep := keepAudit_of_has (s := s) (modeOf := modeOf) (a := a) hreq (isViolation_full hk)
        (hhas (.audit ii idx) (by simp [auditOrigin, originEntries]))
      obtain ⟨j', hj'⟩ := new_audits_kept_import s modeOf lookup ex name hmem hkeep
      exact ⟨_, CertEdge.full hj' hk hcs hbit⟩
  | @delta imp idx a f to cs hmem hk hcs hbit =>
    cases imp with
    | none =>
      have hkeep := keepLocal_of_has (modeOf := modeOf) (a := a) hreq
        (hhas (.localAudit idx) (by simp [auditOrigin, originEntries]))
      obtain ⟨j', hj'⟩ := new_audits_kept_local s modeOf lookup ex name hmem hkeep
      exact ⟨_, CertEdge.delta hj' hk hcs hbit⟩
    | some ii =>
      have hkeep := keepAudit_of_has (s := s) (modeOf := modeOf) (a := a) hreq (isViolation_delta hk)
        (hhas (.audit ii idx) (by simp [auditOrigin, originEntries]))
      obtain ⟨j', hj'⟩ := new_audits_kept_import s modeOf lookup ex name hmem hkeep
      exact ⟨_, CertEdge.delta hj' hk hcs hbit⟩
  | @wildcard imp idx pi w p cs hw hp hga hcs hbit =>
    have hpk := keepPub_of_has (s := s) (modeOf := modeOf) (a := p) hreq
      (hhas (.publisher pi) (by cases imp <;> simp [originEntries]))
    obtain ⟨pj, hpj⟩ := new_publishers_kept s modeOf lookup ex name hp hpk
    cases imp with
    | none =>
      have hw' := new_wildcards_kept_local s modeOf lookup ex name hw
      exact ⟨_, CertEdge.wildcard (p := { p with fresh := false }) hw' hpj hga hcs hbit⟩
    | some ii =>
      have hkeep := keepWild_of_has (s := s) (modeOf := modeOf) (a := w) hreq
        (hhas (.wildcard ii idx) (by simp [originEntries]))
      obtain ⟨j', hj'⟩ := new_wildcards_kept_import s modeOf lookup ex name hw hkeep
      exact ⟨_, CertEdge.wildcard (w := { w with fresh := false }) (p := { p with fresh := false })
        hj' hpj hga hcs hbit⟩
  | @trusted pi tr p cs ht hp hga hcs hbit =>
    have hpk := keepPub_of_has (s := s) (modeOf := modeOf) (a := p) hreq
      (hhas (.publisher pi) (by simp [originEntries]))
    obtain ⟨pj, hpj⟩ := new_publishers_kept s modeOf lookup ex name hp hpk
    exact ⟨_, CertEdge.trusted (p := { p with fresh := false }) ht hpj hga hcs hbit⟩
  | @unpublished i u hmem hlt =>
    have hkeep := keepUnpub_of_has (modeOf := modeOf) (a := u) hreq
      (hhas (.unpublished i) (by simp [originEntries]))
    obtain ⟨j', hj'⟩ := new_unpublished_kept s modeOf lookup ex name hmem hkeep
    exact ⟨_, CertEdge.unpublished (u := { u with fresh := false }) hj' hlt⟩
  | @exemption i x cs hmem hcs hbit => cases hno

/-! ### exemption edges of the built graph -/

theorem build_exemption_edge {s : Store} {m : Mapper} {name : Nat} {g : Graph}
    (h : build s m name = .ok (.graph g)) {t : Triple} (ht : t ∈ g.edges) {i : Nat}
    (ho : t.origin = .exemption i) :
    ∃ x cs, (x, i) ∈ (getL name s.exemptions).zipIdx ∧ m.fromList x.criteria = .ok cs ∧
      t.src = none ∧ t.dst = some x.version := by
  obtain ⟨e1, e2, e4, h1, h2, h4, _, hg⟩ := build_graph_inv h
  rw [hg, List.mem_append, List.mem_append, List.mem_append] at ht
  rcases ht with ((ht | ht) | ht) | ht
  · rw [auditEdges_mem h1] at ht
    obtain ⟨imp, idx, a, cs, _, _, hr⟩ := ht
    rcases hr with ⟨v, _, rfl⟩ | ⟨f, to, _, rfl⟩ <;> cases imp <;> cases ho
  · rw [publisherEdges_mem h2] at ht
    obtain ⟨p, pi, _, hr⟩ := ht
    rcases hr with ⟨imp, idx, w, cs, _, _, _, rfl⟩ | ⟨e, cs, _, _, _, rfl⟩ <;> cases ho
  · rw [unpubEdges_mem] at ht
    obtain ⟨u, i, _, rfl⟩ := ht
    cases ho
  · rw [exemptionEdges_mem h4] at ht
    obtain ⟨x, j, cs, hmem, hcs, rfl⟩ := ht
    cases ho
    exact ⟨x, cs, hmem, hcs, rfl, rfl⟩

theorem isExemption_iff {o : Origin} : o.isExemption = true ↔ ∃ i, o = .exemption i := by
  cases o <;> simp [Origin.isExemption]

/-! ### the chosen walk, re-certified in the new store -/

/-- the exemptions the update writes for crate `name` cover criterion `c` wherever the required
map says an exemption (old or fresh) was used for `c` -/
structure ExCover (m : Mapper) (s : Store) (name : Nat) (r : Required) (ex : List (Nat × List Exemption))
    (c : Nat) : Prop where
  old : ∀ x i cs su, (x, i) ∈ (getL name s.exemptions).zipIdx → m.fromList x.criteria = .ok cs →
    r.get? (.exemption i) = some su → su.testBit c = true →
    ∃ x' ∈ getL name ex, x'.version = x.version ∧ ∃ cs', m.fromList x'.criteria = .ok cs' ∧
      cs'.testBit c = true
  fresh : ∀ v su, r.get? (.freshExemption v) = some su → su.testBit c = true →
    ∃ x' ∈ getL name ex, x'.version = v ∧ ∃ cs', m.fromList x'.criteria = .ok cs' ∧
      cs'.testBit c = true

theorem new_exemption_edge (s : Store) (modeOf : Nat → UpdateMode) (lookup : Nat → Option (Option Required))
    (ex : List (Nat × List Exemption)) (name : Nat) {m : Mapper} {c v : Nat}
    (h : ∃ x' ∈ getL name ex, x'.version = v ∧ ∃ cs', m.fromList x'.criteria = .ok cs' ∧
      cs'.testBit c = true) :
    ∃ o', CertEdge (applyLocked s (updatesOf s modeOf lookup ex)) m name c none o' (some v) := by
  obtain ⟨x', hx', hver, cs', hcs', hbit⟩ := h
  have hx'mem : x' ∈ getL name (applyLocked s (updatesOf s modeOf lookup ex)).exemptions := hx'
  obtain ⟨j, hj⟩ := exists_zipIdx_of_mem hx'mem
  rw [← hver]
  exact ⟨_, CertEdge.exemption hj hcs' hbit⟩

theorem regen_walk_certPath {s : Store} {modeOf : Nat → UpdateMode} {lookup : Nat → Option (Option Required)}
    {ex : List (Nat × List Exemption)} {name : Nat} {m : Mapper} {g : Graph} {r : Required}
    (hb : build s m name = .ok (.graph g)) (hreq : reqOfLookup lookup name = some r) {c : Nat}
    (hcov : ExCover m s name r ex c)
    {a b : Option Nat} {p : List Origin} {l : Nat}
    (w : Walk g.backward .regenerateExemptions c a p l b)
    (hent : ∀ o ∈ p, ∀ e ∈ originEntries o, ∃ su, r.get? e = some su ∧ su.testBit c = true) :
    (∃ p', CertPath (applyLocked s (updatesOf s modeOf lookup ex)) m name c b p' a) ∨
    (∃ p', CertPath (applyLocked s (updatesOf s modeOf lookup ex)) m name c none p' a) := by
  induction w with
  | nil => exact Or.inl ⟨[], CertPath.nil _⟩
  | @snoc b d p l k o w' st ih =>
    have hent' : ∀ o ∈ p, ∀ e ∈ originEntries o, ∃ su, r.get? e = some su ∧ su.testBit c = true :=
      fun o' ho' => hent o' (List.mem_append.2 (Or.inl ho'))
    have hento := hent o (List.mem_append.2 (Or.inr (List.mem_singleton.2 rfl)))
    rcases ih hent' with ⟨p', cp⟩ | h
    · cases st with
      | @edge _ e he hu =>
        obtain ⟨t, ht, rfl, rfl⟩ := mem_backward he
        cases hex : t.origin.isExemption with
        | false =>
          have hbit : t.crit.testBit c = true := by
            simpa [usable, hex] using hu
          have hedge := build_sound s m name g hb t ht c hbit
          obtain ⟨o', he'⟩ := edge_kept_nonex s modeOf lookup ex name hreq hedge hex hento
          exact Or.inl ⟨_, CertPath.cons he' cp⟩
        | true =>
          obtain ⟨i, hi⟩ := isExemption_iff.1 hex
          obtain ⟨x, cs, hx, hcs, hsrc, hdst⟩ := build_exemption_edge hb ht hi
          obtain ⟨su, hsu, hsubit⟩ := hento (.exemption i) (by
            show ReqEntry.exemption i ∈ originEntries t.origin
            rw [hi]
            simp [originEntries])
          obtain ⟨o', he'⟩ := new_exemption_edge s modeOf lookup ex name
            (hcov.old x i cs su hx hcs hsu hsubit)
          rw [hdst] at cp
          exact Or.inr ⟨_, CertPath.cons he' cp⟩
      | @fresh v _ =>
        obtain ⟨su, hsu, hsubit⟩ := hento (.freshExemption v) (by simp [originEntries])
        obtain ⟨o', he'⟩ := new_exemption_edge s modeOf lookup ex name (hcov.fresh v su hsu hsubit)
        exact Or.inr ⟨_, CertPath.cons he' cp⟩
    · exact Or.inr h

end Vet
