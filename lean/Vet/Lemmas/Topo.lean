/- Helper lemmas for `DepGraph::new`. -/
import Vet.Spec.Demand
namespace Vet
end Vet
