/- Helper lemmas for `DepGraph::new`: the abstract post-order DFS (`visitNode`, `visitChildren`,
`visitAll`, `visitDev`) over an arbitrary child function `nb`. -/
import Vet.Spec.Demand
namespace Vet
namespace Topo

/-! ### Fuel measure -/

/-- number of nodes of the universe `U` not yet visited -/
def unvisited (U vis : List Nat) : Nat := U.countP (fun u => !vis.contains u)

theorem unvisited_mono {U vis vis' : List Nat} (h : ∀ x ∈ vis, x ∈ vis') :
    unvisited U vis' ≤ unvisited U vis := by
  unfold unvisited
  apply List.countP_mono_left
  intro x _ hx
  simp at hx ⊢
  exact fun hm => hx (h x hm)

theorem unvisited_cons_lt {U vis : List Nat} {n : Nat} (hn : n ∈ U) (hv : n ∉ vis) :
    unvisited U (n :: vis) < unvisited U vis := by
  unfold unvisited
  induction U with
  | nil => simp at hn
  | cons u us ih =>
    simp only [List.countP_cons]
    have hle : us.countP (fun x => !(n :: vis).contains x) ≤ us.countP (fun x => !vis.contains x) :=
      unvisited_mono (U := us) (fun x hx => List.mem_cons_of_mem _ hx)
    by_cases hu : u = n
    · subst hu
      simp [hv]
      simp at hle
      omega
    · have hn' : n ∈ us := by
        simp at hn; rcases hn with h | h
        · exact absurd h.symm hu
        · exact h
      have ih' := ih hn'
      by_cases hc : u ∈ vis
      · simp [hc] at ih' ⊢; omega
      · simp [hc, hu] at ih' ⊢; omega

theorem unvisited_le (U vis : List Nat) : unvisited U vis ≤ U.length := by
  unfold unvisited
  exact List.countP_le_length

/-! ### Unfolding lemmas -/

theorem visitNode_zero (nb : Nat → List Nat) (st : VisitState) (idx : Nat) :
    visitNode nb 0 st idx = .error .outOfFuel := rfl

theorem visitNode_succ (nb : Nat → List Nat) (fuel : Nat) (st : VisitState) (idx : Nat) :
    visitNode nb (fuel + 1) st idx =
      if st.visited.contains idx then .ok st
      else
        match visitChildren (visitNode nb fuel) idx (nb idx)
            { st with visited := idx :: st.visited } with
        | .error e => .error e
        | .ok s => .ok { s with topo := s.topo ++ [idx] } := rfl

theorem visitChildren_nil (rec : VisitState → Nat → Except Panic VisitState) (parent : Nat)
    (s : VisitState) : visitChildren rec parent [] s = .ok s := rfl

theorem visitChildren_cons (rec : VisitState → Nat → Except Panic VisitState) (parent c : Nat)
    (cs : List Nat) (s : VisitState) :
    visitChildren rec parent (c :: cs) s =
      match rec s c with
      | .error e => .error e
      | .ok s' => visitChildren rec parent cs { s' with redges := s'.redges ++ [(c, parent)] } := rfl

/-! ### Contract 1: termination, visited/redges bookkeeping (no acyclicity needed) -/

/-- What a (sequence of) visit(s) guarantees about `visited` and `redges`.
`par`/`cs`: the loop's own `(c, par)` insertions for `c ∈ cs`. -/
structure Ext (nb : Nat → List Nat) (n : Nat) (par : Nat) (cs : List Nat)
    (st st' : VisitState) : Prop where
  mono : ∀ x ∈ st.visited, x ∈ st'.visited
  rmono : ∀ e ∈ st.redges, e ∈ st'.redges
  /-- every node visited during the call is finished: all its edges are recorded -/
  fin : ∀ x ∈ st'.visited, x ∉ st.visited → ∀ c ∈ nb x, (c, x) ∈ st'.redges
  lt : ∀ x ∈ st'.visited, x ∈ st.visited ∨ x < n
  snd : ∀ e ∈ st'.redges, e ∈ st.redges ∨ (e.2 ∈ st'.visited ∧ e.1 ∈ nb e.2) ∨ (e.2 = par ∧ e.1 ∈ cs)

variable {nb : Nat → List Nat} {n : Nat}

theorem Ext.refl (par : Nat) (st : VisitState) : Ext nb n par [] st st :=
  ⟨fun _ h => h, fun _ h => h, fun _ h h' => absurd h h', fun _ h => Or.inl h, fun _ h => Or.inl h⟩

theorem Ext.trans {par : Nat} {cs1 cs2 : List Nat} {a b c : VisitState}
    (h1 : Ext nb n par cs1 a b) (h2 : Ext nb n par cs2 b c) : Ext nb n par (cs1 ++ cs2) a c := by
  refine ⟨fun x hx => h2.mono x (h1.mono x hx), fun e he => h2.rmono e (h1.rmono e he), ?_, ?_, ?_⟩
  · intro x hx hxa d hd
    by_cases hb : x ∈ b.visited
    · exact h2.rmono _ (h1.fin x hb hxa d hd)
    · exact h2.fin x hx hb d hd
  · intro x hx
    rcases h2.lt x hx with h | h
    · exact h1.lt x h
    · exact Or.inr h
  · intro e he
    rcases h2.snd e he with h | h | h
    · rcases h1.snd e h with h | h | h
      · exact Or.inl h
      · exact Or.inr (Or.inl ⟨h2.mono _ h.1, h.2⟩)
      · exact Or.inr (Or.inr ⟨h.1, List.mem_append_left _ h.2⟩)
    · exact Or.inr (Or.inl h)
    · exact Or.inr (Or.inr ⟨h.1, List.mem_append_right _ h.2⟩)

theorem Ext.reparent {par par' : Nat} {a b : VisitState} (h : Ext nb n par [] a b) :
    Ext nb n par' [] a b := by
  refine ⟨h.mono, h.rmono, h.fin, h.lt, ?_⟩
  intro e he
  rcases h.snd e he with h | h | h
  · exact Or.inl h
  · exact Or.inr (Or.inl h)
  · exact absurd h.2 (List.not_mem_nil)

/-- recording one `(c, par)` edge -/
theorem Ext.push (par c : Nat) (s : VisitState) :
    Ext nb n par [c] s { s with redges := s.redges ++ [(c, par)] } := by
  refine ⟨fun _ h => h, fun e h => List.mem_append_left _ h, fun x h h' => absurd h h',
    fun _ h => Or.inl h, ?_⟩
  intro e he
  simp only [List.mem_append, List.mem_singleton] at he
  rcases he with h | h
  · exact Or.inl h
  · subst h; exact Or.inr (Or.inr ⟨rfl, by simp⟩)

def Contract1 (nb : Nat → List Nat) (n fuel : Nat) : Prop :=
  ∀ st idx, idx < n → unvisited (List.range n) st.visited < fuel →
    ∃ st', visitNode nb fuel st idx = .ok st' ∧ Ext nb n 0 [] st st' ∧ idx ∈ st'.visited

theorem children1 {fuel : Nat} (H : Contract1 nb n fuel) (parent : Nat) :
    ∀ (cs : List Nat) (st : VisitState), (∀ c ∈ cs, c < n) →
      unvisited (List.range n) st.visited < fuel →
      ∃ st', visitChildren (visitNode nb fuel) parent cs st = .ok st' ∧
        Ext nb n parent cs st st' ∧ (∀ c ∈ cs, (c, parent) ∈ st'.redges) ∧
        (∀ c ∈ cs, c ∈ st'.visited) := by
  intro cs
  induction cs with
  | nil =>
    intro st _ _
    exact ⟨st, rfl, Ext.refl _ _, by simp, by simp⟩
  | cons c cs ih =>
    intro st hlt hf
    obtain ⟨s1, hs1, hext1, hc1⟩ := H st c (hlt c (by simp)) hf
    have hf1 : unvisited (List.range n) s1.visited < fuel :=
      Nat.lt_of_le_of_lt (unvisited_mono hext1.mono) hf
    obtain ⟨s2, hs2, hext2, hr2, hv2⟩ :=
      ih { s1 with redges := s1.redges ++ [(c, parent)] } (fun c' h => hlt c' (by simp [h])) hf1
    refine ⟨s2, ?_, ?_, ?_, ?_⟩
    · rw [visitChildren_cons, hs1]; exact hs2
    · have := (hext1.reparent (par' := parent)).trans ((Ext.push parent c s1).trans hext2)
      simpa using this
    · intro c' hc'
      simp only [List.mem_cons] at hc'
      rcases hc' with rfl | hc'
      · exact hext2.rmono _ (by simp)
      · exact hr2 c' hc'
    · intro c' hc'
      simp only [List.mem_cons] at hc'
      rcases hc' with rfl | hc'
      · exact hext2.mono _ hc1
      · exact hv2 c' hc'

theorem contract1 (hU : ∀ a b, b ∈ nb a → b < n) : ∀ fuel, Contract1 nb n fuel := by
  intro fuel
  induction fuel with
  | zero => intro st idx _ hf; exact absurd hf (Nat.not_lt_zero _)
  | succ fuel ih =>
    intro st idx hidx hf
    rw [visitNode_succ]
    split
    · rename_i hvis
      exact ⟨st, rfl, Ext.refl _ _, by simpa using hvis⟩
    · rename_i hvis
      have hvis' : idx ∉ st.visited := by simpa using hvis
      have hf0 : unvisited (List.range n) (idx :: st.visited) < fuel := by
        have := unvisited_cons_lt (U := List.range n) (by simpa using hidx) hvis'
        omega
      obtain ⟨s1, hs1, hext, hr, _⟩ := children1 ih idx (nb idx)
        { st with visited := idx :: st.visited } (fun c hc => hU idx c hc) hf0
      rw [hs1]
      refine ⟨_, rfl, ⟨?_, ?_, ?_, ?_, ?_⟩, ?_⟩
      · intro x hx; exact hext.mono x (List.mem_cons_of_mem _ hx)
      · exact hext.rmono
      · intro x hx hxs d hd
        by_cases hxi : x = idx
        · subst hxi; exact hr d hd
        · exact hext.fin x hx (by simp [hxi, hxs]) d hd
      · intro x hx
        rcases hext.lt x hx with h | h
        · simp only [List.mem_cons] at h
          rcases h with rfl | h
          · exact Or.inr hidx
          · exact Or.inl h
        · exact Or.inr h
      · intro e he
        rcases hext.snd e he with h | h | h
        · exact Or.inl h
        · exact Or.inr (Or.inl h)
        · refine Or.inr (Or.inl ⟨?_, ?_⟩)
          · rw [h.1]; exact hext.mono idx (by simp)
          · rw [h.1]; exact h.2
      · exact hext.mono idx (by simp)

theorem visitAll_total {fuel : Nat} (H : Contract1 nb n fuel) :
    ∀ (rs : List Nat) (st : VisitState), (∀ r ∈ rs, r < n) →
      unvisited (List.range n) st.visited < fuel →
      ∃ st', visitAll nb fuel rs st = .ok st' ∧ Ext nb n 0 [] st st' ∧
        ∀ r ∈ rs, r ∈ st'.visited := by
  intro rs
  induction rs with
  | nil => intro st _ _; exact ⟨st, rfl, Ext.refl _ _, by simp⟩
  | cons r rs ih =>
    intro st hlt hf
    obtain ⟨s1, hs1, hext1, hr1⟩ := H st r (hlt r (by simp)) hf
    have hf1 : unvisited (List.range n) s1.visited < fuel :=
      Nat.lt_of_le_of_lt (unvisited_mono hext1.mono) hf
    obtain ⟨s2, hs2, hext2, hv2⟩ := ih s1 (fun r' h => hlt r' (by simp [h])) hf1
    refine ⟨s2, ?_, by simpa using hext1.trans hext2, ?_⟩
    · simp only [visitAll, hs1]; exact hs2
    · intro r' hr'
      simp only [List.mem_cons] at hr'
      rcases hr' with rfl | hr'
      · exact hext2.mono _ hr1
      · exact hv2 r' hr'

theorem visitDev_total {fuel : Nat} (H : Contract1 nb n fuel) (dev : Nat → List Nat)
    (hD : ∀ a b, b ∈ dev a → b < n) :
    ∀ (ms : List Nat) (st : VisitState),
      unvisited (List.range n) st.visited < fuel →
      ∃ st', visitDev nb dev fuel ms st = .ok st' ∧ (∀ x ∈ st.visited, x ∈ st'.visited) ∧
        (∀ x ∈ st'.visited, x ∈ st.visited ∨ x < n) := by
  intro ms
  induction ms with
  | nil => intro st _; exact ⟨st, rfl, fun _ h => h, fun _ h => Or.inl h⟩
  | cons m ms ih =>
    intro st hf
    obtain ⟨s1, hs1, hext1, _, _⟩ := children1 H m (dev m) st (fun c hc => hD m c hc) hf
    have hf1 : unvisited (List.range n) s1.visited < fuel :=
      Nat.lt_of_le_of_lt (unvisited_mono hext1.mono) hf
    obtain ⟨s2, hs2, hm2, hl2⟩ := ih s1 hf1
    refine ⟨s2, ?_, fun x hx => hm2 x (hext1.mono x hx), ?_⟩
    · simp only [visitDev, hs1]; exact hs2
    · intro x hx
      rcases hl2 x hx with h | h
      · exact hext1.lt x h
      · exact Or.inr h

/-! ### Contract 2: the post-order is topological (uses a rank decreasing along `nb`) -/

/-- every child of a listed node is listed before it -/
def Ordered (nb : Nat → List Nat) (l : List Nat) : Prop :=
  ∀ pre i post, l = pre ++ i :: post → ∀ d ∈ nb i, d ∈ pre

theorem Ordered.nil : Ordered nb [] := by
  intro pre i post h; simp at h

theorem Ordered.snoc {l : List Nat} {x : Nat} (h : Ordered nb l) (hx : ∀ c ∈ nb x, c ∈ l) :
    Ordered nb (l ++ [x]) := by
  intro pre i post heq d hd
  rcases List.eq_nil_or_concat post with rfl | ⟨post', y, rfl⟩
  · obtain ⟨h1, h2⟩ := List.append_inj' heq (by simp)
    cases h2; subst h1; exact hx d hd
  · have h' : l ++ [x] = (pre ++ i :: post') ++ [y] := by simp [heq]
    obtain ⟨h1, _⟩ := List.append_inj' h' (by simp)
    exact h pre i post' h1 d hd

/-- invariant relating `visited`, `topo` and the ghost stack `S` -/
structure Inv (nb : Nat → List Nat) (S : List Nat) (st : VisitState) : Prop where
  nodup : st.topo.Nodup
  ord : Ordered nb st.topo
  split : ∀ x, x ∈ st.visited ↔ (x ∈ st.topo ∨ x ∈ S)
  disj : ∀ x ∈ st.topo, x ∉ S

theorem Inv.redges {S : List Nat} {st : VisitState} (h : Inv nb S st) (r : List (Nat × Nat)) :
    Inv nb S { st with redges := r } := ⟨h.nodup, h.ord, h.split, h.disj⟩

def Contract2 (nb : Nat → List Nat) (rank : Nat → Nat) (fuel : Nat) : Prop :=
  ∀ st idx S st', Inv nb S st → (∀ s ∈ S, rank idx < rank s) →
    visitNode nb fuel st idx = .ok st' →
    Inv nb S st' ∧ idx ∈ st'.topo ∧ ∀ x ∈ st.topo, x ∈ st'.topo

theorem children2 {rank : Nat → Nat} {fuel : Nat} (H : Contract2 nb rank fuel) (parent : Nat) :
    ∀ (cs : List Nat) (st : VisitState) (S : List Nat) (st' : VisitState), Inv nb S st →
      (∀ c ∈ cs, ∀ s ∈ S, rank c < rank s) →
      visitChildren (visitNode nb fuel) parent cs st = .ok st' →
      Inv nb S st' ∧ (∀ c ∈ cs, c ∈ st'.topo) ∧ ∀ x ∈ st.topo, x ∈ st'.topo := by
  intro cs
  induction cs with
  | nil =>
    intro st S st' inv _ h
    rw [visitChildren_nil] at h
    cases h
    exact ⟨inv, by simp, fun _ h => h⟩
  | cons c cs ih =>
    intro st S st' inv hR h
    rw [visitChildren_cons] at h
    split at h
    · cases h
    · rename_i s1 hs1
      obtain ⟨inv1, hc1, hm1⟩ := H st c S s1 inv (hR c (by simp)) hs1
      obtain ⟨inv2, hc2, hm2⟩ := ih _ S st' (inv1.redges _)
        (fun c' h => hR c' (by simp [h])) h
      refine ⟨inv2, ?_, fun x hx => hm2 x (hm1 x hx)⟩
      intro c' hc'
      simp only [List.mem_cons] at hc'
      rcases hc' with rfl | hc'
      · exact hm2 _ hc1
      · exact hc2 c' hc'

theorem contract2 (rank : Nat → Nat) (hrank : ∀ a b, b ∈ nb a → rank b < rank a) :
    ∀ fuel, Contract2 nb rank fuel := by
  intro fuel
  induction fuel with
  | zero => intro st idx S st' _ _ h; rw [visitNode_zero] at h; cases h
  | succ fuel ih =>
    intro st idx S st' inv hS h
    have hnS : idx ∉ S := fun hm => Nat.lt_irrefl _ (hS idx hm)
    rw [visitNode_succ] at h
    split at h
    · rename_i hvis
      cases h
      have hvis' : idx ∈ st.visited := by simpa using hvis
      refine ⟨inv, ?_, fun _ h => h⟩
      rcases (inv.split idx).1 hvis' with h | h
      · exact h
      · exact absurd h hnS
    · rename_i hvis
      have hvis' : idx ∉ st.visited := by simpa using hvis
      have inv0 : Inv nb (idx :: S) { st with visited := idx :: st.visited } := by
        refine ⟨inv.nodup, inv.ord, ?_, ?_⟩
        · intro x
          have := inv.split x
          simp only [List.mem_cons]
          rw [this]
          constructor
          · rintro (h | h | h)
            · exact Or.inr (Or.inl h)
            · exact Or.inl h
            · exact Or.inr (Or.inr h)
          · rintro (h | h | h)
            · exact Or.inr (Or.inl h)
            · exact Or.inl h
            · exact Or.inr (Or.inr h)
        · intro x hx
          simp only [List.mem_cons, not_or]
          refine ⟨?_, inv.disj x hx⟩
          rintro rfl
          exact hvis' ((inv.split x).2 (Or.inl hx))
      split at h
      · cases h
      · rename_i s1 hs1
        cases h
        obtain ⟨inv1, hmem, hm1⟩ := children2 ih idx (nb idx) _ (idx :: S) s1 inv0
          (fun c hc s hs => by
            simp only [List.mem_cons] at hs
            rcases hs with rfl | hs
            · exact hrank _ _ hc
            · exact Nat.lt_trans (hrank _ _ hc) (hS s hs)) hs1
        have hn1 : idx ∉ s1.topo := fun h => inv1.disj idx h (by simp)
        refine ⟨⟨?_, ?_, ?_, ?_⟩, by simp, ?_⟩
        · show (s1.topo ++ [idx]).Nodup
          rw [List.nodup_append]
          refine ⟨inv1.nodup, by simp, ?_⟩
          intro a ha b hb
          simp only [List.mem_singleton] at hb
          subst hb
          rintro rfl
          exact hn1 ha
        · exact inv1.ord.snoc hmem
        · intro x
          have := inv1.split x
          show x ∈ s1.visited ↔ (x ∈ s1.topo ++ [idx] ∨ x ∈ S)
          rw [this]
          simp only [List.mem_append, List.mem_singleton]
          simp only [List.mem_cons]
          constructor
          · rintro (h | h | h)
            · exact Or.inl (Or.inl h)
            · exact Or.inl (Or.inr h)
            · exact Or.inr h
          · rintro ((h | h) | h)
            · exact Or.inl h
            · exact Or.inr (Or.inl h)
            · exact Or.inr (Or.inr h)
        · intro x hx
          have hx' : x ∈ s1.topo ++ [idx] := hx
          simp only [List.mem_append, List.mem_singleton] at hx'
          rcases hx' with hx' | rfl
          · have := inv1.disj x hx'
            simp only [List.mem_cons, not_or] at this
            exact this.2
          · exact hnS
        · intro x hx
          show x ∈ s1.topo ++ [idx]
          exact List.mem_append_left _ (hm1 x hx)

theorem visitAll_inv {rank : Nat → Nat} {fuel : Nat} (H : Contract2 nb rank fuel) :
    ∀ (rs : List Nat) (st st' : VisitState), Inv nb [] st →
      visitAll nb fuel rs st = .ok st' →
      Inv nb [] st' ∧ (∀ r ∈ rs, r ∈ st'.topo) ∧ ∀ x ∈ st.topo, x ∈ st'.topo := by
  intro rs
  induction rs with
  | nil =>
    intro st st' inv h
    simp only [visitAll] at h
    cases h
    exact ⟨inv, by simp, fun _ h => h⟩
  | cons r rs ih =>
    intro st st' inv h
    simp only [visitAll] at h
    split at h
    · cases h
    · rename_i s1 hs1
      obtain ⟨inv1, hr1, hm1⟩ := H st r [] s1 inv (by simp) hs1
      obtain ⟨inv2, hr2, hm2⟩ := ih s1 st' inv1 h
      refine ⟨inv2, ?_, fun x hx => hm2 x (hm1 x hx)⟩
      intro r' hr'
      simp only [List.mem_cons] at hr'
      rcases hr' with rfl | hr'
      · exact hm2 _ hr1
      · exact hr2 r' hr'

theorem visitDev_inv {rank : Nat → Nat} {fuel : Nat} (H : Contract2 nb rank fuel)
    (dev : Nat → List Nat) :
    ∀ (ms : List Nat) (st st' : VisitState), Inv nb [] st →
      visitDev nb dev fuel ms st = .ok st' →
      Inv nb [] st' ∧ (∀ m ∈ ms, ∀ d ∈ dev m, d ∈ st'.topo) ∧ ∀ x ∈ st.topo, x ∈ st'.topo := by
  intro ms
  induction ms with
  | nil =>
    intro st st' inv h
    simp only [visitDev] at h
    cases h
    exact ⟨inv, by simp, fun _ h => h⟩
  | cons m ms ih =>
    intro st st' inv h
    simp only [visitDev] at h
    split at h
    · cases h
    · rename_i s1 hs1
      obtain ⟨inv1, hr1, hm1⟩ := children2 H m (dev m) st [] s1 inv (by simp) hs1
      obtain ⟨inv2, hr2, hm2⟩ := ih s1 st' inv1 h
      refine ⟨inv2, ?_, fun x hx => hm2 x (hm1 x hx)⟩
      intro m' hm' d hd
      simp only [List.mem_cons] at hm'
      rcases hm' with rfl | hm'
      · exact hm2 _ (hr1 d hd)
      · exact hr2 m' hm' d hd

end Topo
end Vet
