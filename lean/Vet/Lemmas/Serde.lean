/- Helper lemmas for the serde model. -/
import Vet.Model.Serde
namespace Vet.Serde

/-! ### string_or_vec -/

theorem decStrs_map_str (l : List Nat) : decStrs (l.map .str) = some l := by
  induction l with
  | nil => rfl
  | cons a l ih => simp only [List.map_cons, decStrs, ih, Option.map_some]

theorem decStrOrVec_encStrOrVec (l : List Nat) : decStrOrVec (encStrOrVec l) = some l := by
  match l with
  | [] => rfl
  | [_] => rfl
  | a :: b :: l => exact decStrs_map_str (a :: b :: l)

theorem encStrOrVec_inj {l₁ l₂ : List Nat} (h : encStrOrVec l₁ = encStrOrVec l₂) : l₁ = l₂ := by
  have h' := congrArg decStrOrVec h
  rw [decStrOrVec_encStrOrVec, decStrOrVec_encStrOrVec] at h'
  exact Option.some.inj h'

/-! ### policy keys -/

section Policy
variable {E : Type}

theorem encPolicy_nil : encPolicy ([] : List (Nat × PkgPolicy E)) = [] := rfl

theorem encPolicy_cons_unversioned (n : Nat) (e : E) (q : List (Nat × PkgPolicy E)) :
    encPolicy ((n, .unversioned e) :: q) = (.plain n, e) :: encPolicy q := by
  simp only [encPolicy, List.flatMap_cons, List.cons_append, List.nil_append]

theorem encPolicy_cons_versioned (n : Nat) (vs : List (Nat × E)) (q : List (Nat × PkgPolicy E)) :
    encPolicy ((n, .versioned vs) :: q)
      = vs.map (fun (v, e) => (Key.withVersion n v, e)) ++ encPolicy q := by
  simp only [encPolicy, List.flatMap_cons]

theorem insertPlain_new (n : Nat) (e : E) (acc : List (Nat × PkgPolicy E))
    (h : ∀ x ∈ acc, x.1 ≠ n) : insertPlain n e acc = some (acc ++ [(n, .unversioned e)]) := by
  unfold insertPlain
  have : acc.any (fun x => x.1 == n) = false := by
    rw [List.any_eq_false]
    intro x hx
    simpa using h x hx
  simp only [this, Bool.false_eq_true, if_false]

theorem insertVer_new (n v : Nat) (e : E) (acc : List (Nat × PkgPolicy E))
    (h : ∀ x ∈ acc, x.1 ≠ n) :
    insertVer n v e acc = some (acc ++ [(n, .versioned [(v, e)])]) := by
  induction acc with
  | nil => rfl
  | cons x acc ih =>
    obtain ⟨n', pp⟩ := x
    have hne : n' ≠ n := h (n', pp) (List.mem_cons_self)
    have ih' := ih (fun x hx => h x (List.mem_cons_of_mem _ hx))
    simp only [insertVer, hne, if_false, ih', Option.map_some, List.cons_append]

theorem insertVer_ext (n v : Nat) (e : E) (acc tl : List (Nat × PkgPolicy E)) (done : List (Nat × E))
    (h : ∀ x ∈ acc, x.1 ≠ n) :
    insertVer n v e (acc ++ (n, .versioned done) :: tl)
      = some (acc ++ (n, .versioned (done ++ [(v, e)])) :: tl) := by
  induction acc with
  | nil => simp only [List.nil_append, insertVer, if_true]
  | cons x acc ih =>
    obtain ⟨n', pp⟩ := x
    have hne : n' ≠ n := h (n', pp) (List.mem_cons_self)
    have ih' := ih (fun x hx => h x (List.mem_cons_of_mem _ hx))
    simp only [List.cons_append, insertVer, hne, if_false, ih', Option.map_some]

theorem decPolicy_versioned_run (n : Nat) (vs : List (Nat × E)) (rest : List (Key × E))
    (acc : List (Nat × PkgPolicy E)) (done : List (Nat × E)) (h : ∀ x ∈ acc, x.1 ≠ n) :
    decPolicy (vs.map (fun (v, e) => (Key.withVersion n v, e)) ++ rest)
        (acc ++ [(n, .versioned done)])
      = decPolicy rest (acc ++ [(n, .versioned (done ++ vs))]) := by
  induction vs generalizing done with
  | nil => simp only [List.map_nil, List.nil_append, List.append_nil]
  | cons ve vs ih =>
    obtain ⟨v, e⟩ := ve
    simp only [List.map_cons, List.cons_append, decPolicy, insertVer_ext n v e acc [] done h]
    rw [ih (done ++ [(v, e)])]
    simp only [List.append_assoc, List.cons_append, List.nil_append]

theorem decPolicy_encPolicy_acc (q acc : List (Nat × PkgPolicy E))
    (hnd : ((acc ++ q).map (·.1)).Nodup)
    (hne : ∀ n vs, (n, PkgPolicy.versioned vs) ∈ q → vs ≠ []) :
    decPolicy (encPolicy q) acc = some (acc ++ q) := by
  induction q generalizing acc with
  | nil => simp only [encPolicy_nil, decPolicy, List.append_nil]
  | cons x q ih =>
    obtain ⟨n, pp⟩ := x
    have hacc : ∀ x ∈ acc, x.1 ≠ n := by
      intro x hx hxn
      rw [List.map_append, List.nodup_append] at hnd
      exact hnd.2.2 x.1 (List.mem_map_of_mem hx) n (by simp) hxn
    have hnd' : (((acc ++ [(n, pp)]) ++ q).map (·.1)).Nodup := by
      rw [List.append_assoc]; exact hnd
    have hne' : ∀ n vs, (n, PkgPolicy.versioned vs) ∈ q → vs ≠ [] :=
      fun n vs h => hne n vs (List.mem_cons_of_mem _ h)
    have ih' := ih (acc ++ [(n, pp)]) hnd' hne'
    rw [List.append_assoc] at ih'
    cases pp with
    | unversioned e =>
      rw [encPolicy_cons_unversioned]
      simp only [decPolicy, insertPlain_new n e acc hacc]
      exact ih'
    | versioned vs =>
      cases vs with
      | nil => exact absurd rfl (hne n [] List.mem_cons_self)
      | cons ve vs =>
        obtain ⟨v, e⟩ := ve
        rw [encPolicy_cons_versioned]
        simp only [List.map_cons, List.cons_append, decPolicy, insertVer_new n v e acc hacc]
        rw [decPolicy_versioned_run n vs _ acc [(v, e)] hacc]
        exact ih'

end Policy

/-! ### tidy -/

theorem mem_insertSortedNat {x y : Nat} {l : List Nat} :
    y ∈ insertSortedNat x l ↔ y = x ∨ y ∈ l := by
  induction l with
  | nil => simp [insertSortedNat]
  | cons a l ih =>
    simp only [insertSortedNat]
    split
    · simp
    · simp only [List.mem_cons, ih]
      constructor
      · rintro (h | h | h) <;> simp [h]
      · rintro (h | h | h) <;> simp [h]

theorem pairwise_insertSortedNat {x : Nat} {l : List Nat} (h : l.Pairwise (· ≤ ·)) :
    (insertSortedNat x l).Pairwise (· ≤ ·) := by
  induction l with
  | nil => simp [insertSortedNat]
  | cons a l ih =>
    rw [List.pairwise_cons] at h
    simp only [insertSortedNat]
    split
    · rename_i hxa
      refine List.pairwise_cons.2 ⟨?_, List.pairwise_cons.2 h⟩
      intro b hb
      rcases List.mem_cons.1 hb with rfl | hb
      · exact hxa
      · exact Nat.le_trans hxa (h.1 b hb)
    · rename_i hxa
      refine List.pairwise_cons.2 ⟨?_, ih h.2⟩
      intro b hb
      rcases mem_insertSortedNat.1 hb with rfl | hb
      · omega
      · exact h.1 b hb

theorem count_insertSortedNat (x y : Nat) (l : List Nat) :
    (insertSortedNat x l).count y = (x :: l).count y := by
  induction l with
  | nil => rfl
  | cons a l ih =>
    simp only [insertSortedNat]
    split
    · rfl
    · simp only [List.count_cons] at ih ⊢
      rw [ih]; omega

theorem insertSortedNat_ne_nil (x : Nat) (l : List Nat) : insertSortedNat x l ≠ [] := by
  cases l with
  | nil => simp [insertSortedNat]
  | cons a l => simp only [insertSortedNat]; split <;> simp

theorem insertSortedNat_of_le {x : Nat} {l : List Nat} (h : ∀ y ∈ l, x ≤ y) :
    insertSortedNat x l = x :: l := by
  cases l with
  | nil => rfl
  | cons a l => simp only [insertSortedNat, h a List.mem_cons_self, if_true]

theorem sortNat_nil : sortNat [] = [] := rfl

theorem sortNat_cons (a : Nat) (l : List Nat) : sortNat (a :: l) = insertSortedNat a (sortNat l) := rfl

theorem sortNat_pairwise (l : List Nat) : (sortNat l).Pairwise (· ≤ ·) := by
  induction l with
  | nil => exact List.Pairwise.nil
  | cons a l ih => rw [sortNat_cons]; exact pairwise_insertSortedNat ih

theorem count_sortNat (l : List Nat) (y : Nat) : (sortNat l).count y = l.count y := by
  induction l with
  | nil => rfl
  | cons a l ih => rw [sortNat_cons, count_insertSortedNat, List.count_cons, List.count_cons, ih]

theorem sortNat_eq_nil {l : List Nat} : sortNat l = [] ↔ l = [] := by
  cases l with
  | nil => simp [sortNat_nil]
  | cons a l => simp [sortNat_cons, insertSortedNat_ne_nil]

theorem sortNat_of_pairwise {l : List Nat} (h : l.Pairwise (· ≤ ·)) : sortNat l = l := by
  induction l with
  | nil => rfl
  | cons a l ih =>
    rw [List.pairwise_cons] at h
    rw [sortNat_cons, ih h.2, insertSortedNat_of_le h.1]

theorem sortNat_sortNat (l : List Nat) : sortNat (sortNat l) = sortNat l :=
  sortNat_of_pairwise (sortNat_pairwise l)

theorem tidy_nil : tidy [] = [] := rfl

theorem tidy_cons (k : Nat) (l : List Nat) (t : List (Nat × List Nat)) :
    tidy ((k, l) :: t) = if l = [] then tidy t else (k, sortNat l) :: tidy t := by
  by_cases hl : l = []
  · subst hl
    simp [tidy, sortNat_nil]
  · have : sortNat l ≠ [] := fun h => hl (sortNat_eq_nil.1 h)
    simp [tidy, hl, this]

theorem mem_tidy {t : List (Nat × List Nat)} {e : Nat × List Nat} :
    e ∈ tidy t ↔ ∃ l, (e.1, l) ∈ t ∧ l ≠ [] ∧ e.2 = sortNat l := by
  induction t with
  | nil => simp [tidy_nil]
  | cons x t ih =>
    obtain ⟨k, l⟩ := x
    obtain ⟨ek, el⟩ := e
    rw [tidy_cons]
    by_cases hl : l = []
    · subst hl
      simp only [if_true, ih, List.mem_cons, Prod.mk.injEq]
      constructor
      · rintro ⟨l, h1, h2, h3⟩; exact ⟨l, Or.inr h1, h2, h3⟩
      · rintro ⟨l, (⟨_, rfl⟩ | h1), h2, h3⟩
        · exact absurd rfl h2
        · exact ⟨l, h1, h2, h3⟩
    · simp only [hl, if_false, List.mem_cons, ih, Prod.mk.injEq]
      constructor
      · rintro (⟨rfl, rfl⟩ | ⟨l', h1, h2, h3⟩)
        · exact ⟨l, Or.inl ⟨rfl, rfl⟩, hl, rfl⟩
        · exact ⟨l', Or.inr h1, h2, h3⟩
      · rintro ⟨l', (⟨rfl, rfl⟩ | h1), h2, h3⟩
        · exact Or.inl ⟨rfl, h3⟩
        · exact Or.inr ⟨l', h1, h2, h3⟩

theorem tidy_tidy (t : List (Nat × List Nat)) : tidy (tidy t) = tidy t := by
  induction t with
  | nil => rfl
  | cons x t ih =>
    obtain ⟨k, l⟩ := x
    rw [tidy_cons]
    by_cases hl : l = []
    · simp only [hl, if_true, ih]
    · have : sortNat l ≠ [] := fun h => hl (sortNat_eq_nil.1 h)
      simp only [hl, if_false]
      rw [tidy_cons, if_neg this, sortNat_sortNat, ih]

end Vet.Serde
