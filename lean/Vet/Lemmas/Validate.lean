/- Helper lemmas for `Store::validate` and the no-panic theorem. -/
import Vet.Model.Validate
import Vet.Model.Imports
import Vet.Props.C04
import Vet.Props.C03
import Vet.Lemmas.PreserveSearch
import Vet.Lemmas.MapperSpec
import Vet.Lemmas.PreserveBuild
import Vet.Lemmas.PreserveResolve
namespace Vet

/-! ### sums of naturals -/

theorem sum_eq_zero_iff (l : List Nat) : l.sum = 0 ↔ ∀ x ∈ l, x = 0 := by
  induction l with
  | nil => simp
  | cons a rest ih =>
    simp only [List.sum_cons, List.mem_cons, forall_eq_or_imp, ← ih]
    omega

theorem map_sum_eq_zero_iff {α : Type} (l : List α) (f : α → Nat) :
    (l.map f).sum = 0 ↔ ∀ x ∈ l, f x = 0 := by
  rw [sum_eq_zero_iff]
  simp only [List.mem_map, forall_exists_index, and_imp, forall_apply_eq_imp_iff₂]

theorem le_sum_of_mem {l : List Nat} {x : Nat} (h : x ∈ l) : x ≤ l.sum := by
  induction l with
  | nil => cases h
  | cons a rest ih =>
    simp only [List.sum_cons]
    rcases List.mem_cons.1 h with rfl | h
    · omega
    · have := ih h
      omega

theorem le_map_sum_of_mem {α : Type} {l : List α} (f : α → Nat) {x : α} (h : x ∈ l) :
    f x ≤ (l.map f).sum :=
  le_sum_of_mem (List.mem_map.2 ⟨x, h, rfl⟩)

/-! ### `badRefs` -/

theorem badRefs_eq_zero_iff (n : Nat) (l : List Nat) : badRefs n l = 0 ↔ ∀ c ∈ l, c < n := by
  unfold badRefs
  rw [List.length_eq_zero_iff, List.filter_eq_nil_iff]
  constructor
  · intro h c hc
    have := h c hc
    simp only [decide_eq_true_eq] at this
    omega
  · intro h c hc
    have := h c hc
    simp only [decide_eq_true_eq]
    omega

theorem badRefs_pos {n : Nat} {l : List Nat} {c : Nat} (hc : c ∈ l) (hbad : n ≤ c) :
    0 < badRefs n l := by
  apply Nat.pos_of_ne_zero
  intro h
  have := (badRefs_eq_zero_iff n l).1 h c hc
  omega

/-- the nested count used for exemptions, audits and wildcard audits -/
theorem nested_eq_zero_iff {α : Type} (n : Nat) (t : List (Nat × List α)) (crit : α → List Nat) :
    (t.map (fun e => (e.2.map (fun x => badRefs n (crit x))).sum)).sum = 0 ↔
      ∀ e ∈ t, ∀ x ∈ e.2, ∀ c ∈ crit x, c < n := by
  rw [map_sum_eq_zero_iff]
  constructor
  · intro h e he x hx
    exact (badRefs_eq_zero_iff n _).1 ((map_sum_eq_zero_iff _ _).1 (h e he) x hx)
  · intro h e he
    exact (map_sum_eq_zero_iff _ _).2 (fun x hx => (badRefs_eq_zero_iff n _).2 (h e he x hx))

theorem nested_pos {α : Type} {n : Nat} {t : List (Nat × List α)} (crit : α → List Nat)
    {e : Nat × List α} (he : e ∈ t) {x : α} (hx : x ∈ e.2) {c : Nat} (hc : c ∈ crit x) (hbad : n ≤ c) :
    0 < (t.map (fun e => (e.2.map (fun x => badRefs n (crit x))).sum)).sum := by
  apply Nat.pos_of_ne_zero
  intro h
  have := (nested_eq_zero_iff n t crit).1 h e he x hx c hc
  omega

/-! ### the policy part -/

theorem policyEntryBad_eq_zero_iff (n : Nat) (e : PolicyEntry) :
    policyEntryBad n e = 0 ↔
      (∀ l, e.criteria = some l → ∀ c ∈ l, c < n) ∧ (∀ l, e.devCriteria = some l → ∀ c ∈ l, c < n) ∧
      (∀ d ∈ e.depCriteria, ∀ c ∈ d.2, c < n) := by
  unfold policyEntryBad
  have h3 := map_sum_eq_zero_iff e.depCriteria (fun d => badRefs n d.2)
  have h1 : badRefs n (e.criteria.getD []) = 0 ↔ ∀ l, e.criteria = some l → ∀ c ∈ l, c < n := by
    rw [badRefs_eq_zero_iff]
    cases e.criteria with
    | none => simp
    | some l => simp
  have h2 : badRefs n (e.devCriteria.getD []) = 0 ↔ ∀ l, e.devCriteria = some l → ∀ c ∈ l, c < n := by
    rw [badRefs_eq_zero_iff]
    cases e.devCriteria with
    | none => simp
    | some l => simp
  rw [← h1, ← h2]
  have h3' : (∀ d ∈ e.depCriteria, ∀ c ∈ d.2, c < n) ↔ ∀ d ∈ e.depCriteria, badRefs n d.2 = 0 := by
    constructor
    · intro h d hd
      exact (badRefs_eq_zero_iff n _).2 (h d hd)
    · intro h d hd
      exact (badRefs_eq_zero_iff n _).1 (h d hd)
  rw [h3', ← h3]
  omega

/-- where `Policy.get` finds its entry -/
theorem policy_get_mem {p : Policy} {name ver : Nat} {e : PolicyEntry} (h : p.get name ver = some e) :
    (name, PkgPolicy.unversioned e) ∈ p ∨ ∃ vs, (name, PkgPolicy.versioned vs) ∈ p ∧ (ver, e) ∈ vs := by
  unfold Policy.get at h
  split at h
  · cases h
  · rename_i e' he'
    cases h
    exact .inl (assoc?_mem_of_some he')
  · rename_i vs hvs
    exact .inr ⟨vs, assoc?_mem_of_some hvs, assoc?_mem_of_some h⟩

theorem policyBad_zero_get {n : Nat} {p : Policy} (h : policyBad n p = 0) {name ver : Nat} {e : PolicyEntry}
    (hg : p.get name ver = some e) : policyEntryBad n e = 0 := by
  unfold policyBad at h
  rw [map_sum_eq_zero_iff] at h
  rcases policy_get_mem hg with hm | ⟨vs, hm, hv⟩
  · exact h _ hm
  · have := h _ hm
    simp only at this
    rw [map_sum_eq_zero_iff] at this
    exact this _ hv

/-! ### `invalidCriteriaCount` -/

theorem afileBad_eq_zero_iff (n : Nat) (f : AFile) : afileBad n f = 0 ↔ f.RefsValid n := by
  unfold afileBad AFile.RefsValid
  have h1 := nested_eq_zero_iff n f.audits (fun x : Audit => x.criteria)
  have h2 := nested_eq_zero_iff n f.wildcards (fun x : Wildcard => x.criteria)
  rw [← h1, ← h2]
  omega

theorem afileBad_ge (n : Nat) (f : AFile) :
    (f.audits.map (fun e => (e.2.map (fun a => badRefs n a.criteria)).sum)).sum ≤ afileBad n f ∧
    (f.wildcards.map (fun e => (e.2.map (fun a => badRefs n a.criteria)).sum)).sum ≤ afileBad n f := by
  unfold afileBad
  omega

theorem invalidCriteriaCount_eq_zero {t : Table} {s : Store} {locked : Bool} {mt : List (List Nat)}
    (h : invalidCriteriaCount t s locked mt = 0) :
    (∀ e ∈ s.exemptions, ∀ x ∈ e.2, ∀ c ∈ x.criteria, c < t.n) ∧
    policyBad t.n s.policy = 0 ∧
    (∀ c ∈ t, ∀ i ∈ c.implies, i < t.n) ∧
    (∀ e ∈ s.locals.audits, ∀ a ∈ e.2, ∀ c ∈ a.criteria, c < t.n) ∧
    (∀ e ∈ s.locals.wildcards, ∀ a ∈ e.2, ∀ c ∈ a.criteria, c < t.n) ∧
    (∀ e ∈ s.trusted, ∀ x ∈ e.2, ∀ c ∈ x.criteria, c < t.n) ∧
    (∀ l ∈ mt, ∀ c ∈ l, c < t.n) ∧
    (locked = true → ∀ f ∈ s.imports, f.RefsValid t.n) := by
  unfold invalidCriteriaCount at h
  simp only at h
  have h1 := nested_eq_zero_iff t.n s.exemptions (fun x : Exemption => x.criteria)
  have h4 := nested_eq_zero_iff t.n s.locals.audits (fun x : Audit => x.criteria)
  have h5 := nested_eq_zero_iff t.n s.locals.wildcards (fun x : Wildcard => x.criteria)
  have h6 := nested_eq_zero_iff t.n s.trusted (fun x : Trusted => x.criteria)
  have h3 := map_sum_eq_zero_iff t (fun c => badRefs t.n c.implies)
  have h7 := map_sum_eq_zero_iff mt (badRefs t.n)
  refine ⟨h1.1 (by omega), by omega, ?_, h4.1 (by omega), h5.1 (by omega), h6.1 (by omega), ?_, ?_⟩
  · intro c hc
    exact (badRefs_eq_zero_iff _ _).1 (h3.1 (by omega) c hc)
  · intro l hl
    exact (badRefs_eq_zero_iff _ _).1 (h7.1 (by omega) l hl)
  · intro hl f hf
    subst hl
    simp only [if_true] at h
    have h8 := map_sum_eq_zero_iff s.imports (afileBad t.n)
    exact (afileBad_eq_zero_iff _ _).1 (h8.1 (by omega) f hf)

/-- the count of an unlocked load without map targets is below every other count -/
theorem invalidCriteriaCount_base_le (t : Table) (s : Store) (locked : Bool) (mt : List (List Nat)) :
    invalidCriteriaCount t s false [] ≤ invalidCriteriaCount t s locked mt := by
  unfold invalidCriteriaCount
  simp only [List.map_nil, List.sum_nil, Bool.false_eq_true, if_false]
  omega

/-! ### `validate` -/

theorem validate_nil_iff {t : Table} {s : Store} {maxEnd : Nat} {locked : Bool}
    {ci : List (Nat × List Nat)} {ln : List Nat} {mt : List (List Nat)} :
    validate t s maxEnd locked ci ln mt = [] ↔
      checkTable t = true ∧
      invalidCriteriaCount t s locked mt = 0 ∧ lateWildcards maxEnd s = 0 ∧
      (locked && importsLockOutdated ci ln s.imports) = false := by
  unfold validate
  simp only [List.append_eq_nil_iff, List.replicate_eq_nil_iff, and_assoc]
  cases (locked && importsLockOutdated ci ln s.imports) <;> cases checkTable t <;> simp

theorem validate_ne_nil_of_count {t : Table} {s : Store} {maxEnd : Nat} {locked : Bool}
    {ci : List (Nat × List Nat)} {ln : List Nat} {mt : List (List Nat)}
    (h : 0 < invalidCriteriaCount t s locked mt) :
    validate t s maxEnd locked ci ln mt ≠ [] := by
  intro hv
  have := (validate_nil_iff.1 hv).2.1
  omega

theorem invalidCriteria_mem_of_count {t : Table} {s : Store} {maxEnd : Nat} {locked : Bool}
    {ci : List (Nat × List Nat)} {ln : List Nat} {mt : List (List Nat)}
    (h : 0 < invalidCriteriaCount t s locked mt) :
    ValidateError.invalidCriteria ∈ validate t s maxEnd locked ci ln mt := by
  unfold validate
  apply List.mem_append_left
  apply List.mem_append_left
  apply List.mem_append_right
  exact List.mem_replicate.2 ⟨by omega, rfl⟩

theorem lateWildcards_eq_zero_iff (maxEnd : Nat) (s : Store) :
    lateWildcards maxEnd s = 0 ↔ ∀ e ∈ s.locals.wildcards, ∀ w ∈ e.2, w.stop ≤ maxEnd := by
  unfold lateWildcards
  rw [map_sum_eq_zero_iff]
  constructor
  · intro h e he w hw
    have := h e he
    rw [List.length_eq_zero_iff, List.filter_eq_nil_iff] at this
    have := this w hw
    simp only [decide_eq_true_eq] at this
    omega
  · intro h e he
    rw [List.length_eq_zero_iff, List.filter_eq_nil_iff]
    intro w hw
    have := h e he w hw
    simp only [decide_eq_true_eq]
    omega

/-- each part of the count is below the count -/
theorem invalidCriteriaCount_ge (t : Table) (s : Store) (locked : Bool) (mt : List (List Nat)) :
    (s.exemptions.map (fun e => (e.2.map (fun x => badRefs t.n x.criteria)).sum)).sum
      ≤ invalidCriteriaCount t s locked mt ∧
    (t.map (fun c => badRefs t.n c.implies)).sum ≤ invalidCriteriaCount t s locked mt ∧
    (s.locals.audits.map (fun e => (e.2.map (fun a => badRefs t.n a.criteria)).sum)).sum
      ≤ invalidCriteriaCount t s locked mt ∧
    (s.trusted.map (fun e => (e.2.map (fun x => badRefs t.n x.criteria)).sum)).sum
      ≤ invalidCriteriaCount t s locked mt ∧
    (mt.map (badRefs t.n)).sum ≤ invalidCriteriaCount t s locked mt ∧
    (locked = true → (s.imports.map (afileBad t.n)).sum ≤ invalidCriteriaCount t s locked mt) := by
  unfold invalidCriteriaCount
  refine ⟨by simp only; omega, by simp only; omega, by simp only; omega, by simp only; omega,
    by simp only; omega, ?_⟩
  intro hl
  subst hl
  simp only [if_true]
  omega

theorem lateWildcards_mem_of_pos {t : Table} {s : Store} {maxEnd : Nat} {locked : Bool}
    {ci : List (Nat × List Nat)} {ln : List Nat} {mt : List (List Nat)}
    (h : 0 < lateWildcards maxEnd s) :
    ValidateError.badWildcardEndDate ∈ validate t s maxEnd locked ci ln mt := by
  unfold validate
  apply List.mem_append_left
  apply List.mem_append_right
  exact List.mem_replicate.2 ⟨by omega, rfl⟩

end Vet
