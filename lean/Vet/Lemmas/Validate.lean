/- Helper lemmas for `Store::validate` and the no-panic theorem. -/
import Vet.Model.Validate
import Vet.Model.Imports
import Vet.Props.C04
import Vet.Props.C03
import Vet.Lemmas.PreserveSearch
namespace Vet
end Vet
