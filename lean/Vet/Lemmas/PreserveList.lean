/- List utilities for "updates preserve success": `pick`/`keepIdx`, `applyTable`, `assoc?`. -/
import Vet.Model.Apply
namespace Vet

/-! ### `zipIdx` membership -/

theorem exists_zipIdx_of_mem {α : Type} {l : List α} {x : α} (h : x ∈ l) : ∃ j, (x, j) ∈ l.zipIdx := by
  obtain ⟨j, hj⟩ := List.mem_iff_getElem?.1 h
  exact ⟨j, List.mk_mem_zipIdx_iff_getElem?.2 hj⟩

theorem mem_of_zipIdx {α : Type} {l : List α} {x : α} {j : Nat} (h : (x, j) ∈ l.zipIdx) : x ∈ l :=
  List.fst_mem_of_mem_zipIdx h

/-- `(g x, i)` is in the indexed mapped-with-index list iff `(x, i)` is in the indexed list -/
theorem mem_zipIdx_map_zipIdx {α β : Type} {l : List α} {g : α × Nat → β} {y : β} {i : Nat} :
    (y, i) ∈ (l.zipIdx.map g).zipIdx ↔ ∃ x, (x, i) ∈ l.zipIdx ∧ y = g (x, i) := by
  rw [List.mk_mem_zipIdx_iff_getElem?, List.getElem?_map, List.getElem?_zipIdx]
  constructor
  · intro h
    cases hx : l[i]? with
    | none => rw [hx] at h; cases h
    | some x =>
      rw [hx] at h
      simp only [Option.map_some, Nat.zero_add, Option.some.injEq] at h
      exact ⟨x, List.mk_mem_zipIdx_iff_getElem?.2 hx, h.symm⟩
  · rintro ⟨x, hx, rfl⟩
    rw [List.mk_mem_zipIdx_iff_getElem?.1 hx]
    simp

theorem getD_map_zipIdx {α β : Type} {l : List α} {g : α × Nat → β} {x : α} {i : Nat} (d : β)
    (h : (x, i) ∈ l.zipIdx) : (l.zipIdx.map g).getD i d = g (x, i) := by
  have := List.mk_mem_zipIdx_iff_getElem?.1 h
  simp [List.getD, List.getElem?_map, List.getElem?_zipIdx, this]

/-! ### `pick` of `keepIdx` is a filter -/

theorem pick_map_snd {α : Type} (l : List α) (L : List (α × Nat))
    (h : ∀ x ∈ L, l[x.2]? = some x.1) : pick l (L.map (·.2)) = L.map (·.1) := by
  induction L with
  | nil => rfl
  | cons x xs ih =>
    have hx := h x List.mem_cons_self
    have := ih (fun y hy => h y (List.mem_cons_of_mem _ hy))
    simp only [pick, List.map_cons, List.filterMap_cons, hx] at this ⊢
    rw [this]

theorem pick_keepIdx {α : Type} (l : List α) (f : Nat → α → Bool) :
    pick l (keepIdx l f) = (l.zipIdx.filter (fun x => f x.2 x.1)).map (·.1) := by
  unfold keepIdx
  apply pick_map_snd
  intro x hx
  exact List.mem_zipIdx_iff_getElem?.1 (List.mem_filter.1 hx).1

theorem pick_nil {α : Type} (idx : List Nat) : pick ([] : List α) idx = [] := by
  induction idx with
  | nil => rfl
  | cons i is ih => simp [pick]

/-! ### `assoc?` under a key-preserving map -/

theorem assoc?_map {β γ : Type} (k : Nat) (t : List (Nat × β)) (F : Nat → β → γ) :
    assoc? k (t.map (fun x => (x.1, F x.1 x.2))) = (assoc? k t).map (F k) := by
  induction t with
  | nil => rfl
  | cons x xs ih =>
    obtain ⟨n, v⟩ := x
    simp only [List.map_cons, assoc?]
    by_cases h : n = k
    · subst h; simp
    · simp [h, ih]

theorem assoc?_none_of_not_mem {β : Type} {k : Nat} {t : List (Nat × β)} (h : k ∉ t.map (·.1)) :
    assoc? k t = none := by
  induction t with
  | nil => rfl
  | cons x xs ih =>
    obtain ⟨n, v⟩ := x
    simp only [List.map_cons, List.mem_cons, not_or] at h
    simp only [assoc?]
    rw [if_neg (fun e => h.1 e.symm)]
    exact ih h.2

theorem assoc?_mem_of_some {β : Type} {k : Nat} {t : List (Nat × β)} {v : β} (h : assoc? k t = some v) :
    (k, v) ∈ t := by
  induction t with
  | nil => cases h
  | cons x xs ih =>
    obtain ⟨n, v'⟩ := x
    simp only [assoc?] at h
    split at h
    · rename_i hn
      cases h
      subst hn
      exact List.mem_cons_self
    · exact List.mem_cons_of_mem _ (ih h)

/-! ### the per-name slice of an updated table -/

theorem getL_applyTable_gen {α : Type} (name : Nat) (t : List (Nat × List α)) (kept : List (Nat × List Nat))
    (clear : α → α) :
    getL name (applyTable t kept clear) = (pick (getL name t) ((assoc? name kept).getD [])).map clear := by
  unfold getL applyTable
  induction t with
  | nil => simp [assoc?, pick_nil]
  | cons x xs ih =>
    obtain ⟨n, l⟩ := x
    simp only [List.map_cons, assoc?]
    by_cases h : n = name
    · subst h; simp
    · simp only [h, if_false]
      exact ih

/-- the per-name slice after filtering a table by a keep predicate and clearing flags -/
theorem getL_applyTable {α : Type} (name : Nat) (t : List (Nat × List α)) (F : Nat → Nat → α → Bool)
    (clear : α → α) :
    getL name (applyTable t (t.map (fun x => (x.1, keepIdx x.2 (F x.1)))) clear) =
      (((getL name t).zipIdx.filter (fun x => F name x.2 x.1)).map (·.1)).map clear := by
  rw [getL_applyTable_gen, assoc?_map name t (fun n l => keepIdx l (F n))]
  unfold getL
  cases h : assoc? name t with
  | none => simp [pick_nil]
  | some l => simp [pick_keepIdx]

theorem mem_getL_applyTable {α : Type} {name : Nat} {t : List (Nat × List α)} {F : Nat → Nat → α → Bool}
    {clear : α → α} {y : α} :
    y ∈ getL name (applyTable t (t.map (fun x => (x.1, keepIdx x.2 (F x.1)))) clear) ↔
      ∃ x i, (x, i) ∈ (getL name t).zipIdx ∧ F name i x = true ∧ y = clear x := by
  rw [getL_applyTable]
  simp only [List.mem_map, List.mem_filter]
  constructor
  · rintro ⟨x, ⟨⟨x', i⟩, ⟨hm, hf⟩, rfl⟩, rfl⟩
    exact ⟨x', i, hm, hf, rfl⟩
  · rintro ⟨x, i, hm, hf, rfl⟩
    exact ⟨x, ⟨(x, i), ⟨hm, hf⟩, rfl⟩, rfl⟩

end Vet
