/- Helper lemmas for `do_aggregate_audits`. -/
import Vet.Model.Aggregate
namespace Vet.Agg

/-! ## Tables -/

/-- local copy of `entriesOf` (defined in `Vet.Props.C16`; equal by `rfl`) -/
def ent (k : Nat) (t : List (Nat × List Entry)) : List Entry :=
  (t.filter (fun e => e.1 == k)).flatMap (·.2)

theorem ent_nil (k : Nat) : ent k [] = [] := rfl

theorem ent_cons (k k' : Nat) (v : List Entry) (t : List (Nat × List Entry)) :
    ent k ((k', v) :: t) = if k' = k then v ++ ent k t else ent k t := by
  unfold ent
  by_cases h : k' = k <;> simp [h]

/-- membership form, valid for any table -/
theorem mem_ent_extendKey (e : Entry) (k k' : Nat) (v : List Entry) (t : List (Nat × List Entry)) :
    e ∈ ent k (extendKey k' v t) ↔ e ∈ ent k t ∨ (k = k' ∧ e ∈ v) := by
  induction t with
  | nil =>
    simp only [extendKey, ent_cons, ent_nil]
    grind
  | cons p t ih =>
    obtain ⟨k0, v0⟩ := p
    simp only [extendKey]
    split
    · simp only [ent_cons]; grind
    · split
      · simp only [ent_cons]; grind
      · simp only [ent_cons]; grind

/-- strictly increasing keys -/
def Sorted (t : List (Nat × List Entry)) : Prop := t.Pairwise (fun a b => a.1 < b.1)

theorem ent_eq_nil_of_lt (k : Nat) (t : List (Nat × List Entry)) (h : ∀ p ∈ t, k < p.1) :
    ent k t = [] := by
  induction t with
  | nil => rfl
  | cons p t ih =>
    obtain ⟨k0, v0⟩ := p
    have h0 : k < k0 := h (k0, v0) (by simp)
    have : ¬ k0 = k := by omega
    rw [ent_cons, if_neg this]
    exact ih (fun p hp => h p (by simp [hp]))

theorem keys_extendKey (k : Nat) (v : List Entry) (t : List (Nat × List Entry)) :
    ∀ p ∈ extendKey k v t, p.1 = k ∨ ∃ q ∈ t, q.1 = p.1 := by
  induction t with
  | nil => simp [extendKey]
  | cons q t ih =>
    obtain ⟨k0, v0⟩ := q
    intro p hp
    simp only [extendKey] at hp
    split at hp
    · grind
    · split at hp
      · grind
      · rcases List.mem_cons.1 hp with rfl | hp
        · exact Or.inr ⟨(k0, v0), by simp, rfl⟩
        · rcases ih p hp with h | ⟨q, hq, h⟩
          · exact Or.inl h
          · exact Or.inr ⟨q, by simp [hq], h⟩

theorem sorted_extendKey (k : Nat) (v : List Entry) (t : List (Nat × List Entry)) (h : Sorted t) :
    Sorted (extendKey k v t) := by
  induction t with
  | nil => simp [extendKey, Sorted]
  | cons q t ih =>
    obtain ⟨k0, v0⟩ := q
    unfold Sorted at h ih ⊢
    rw [List.pairwise_cons] at h
    simp only [extendKey]
    split
    · rw [List.pairwise_cons, List.pairwise_cons]
      refine ⟨?_, h⟩
      intro p hp
      rcases List.mem_cons.1 hp with rfl | hp
      · assumption
      · have := h.1 p hp; simp only at this ⊢; omega
    · split
      · rw [List.pairwise_cons]
        exact ⟨fun p hp => h.1 p hp, h.2⟩
      · rw [List.pairwise_cons]
        refine ⟨?_, ih h.2⟩
        intro p hp
        rcases keys_extendKey k v t p hp with hk | ⟨q, hq, hk⟩
        · simp only; omega
        · have := h.1 q hq; simp only at this ⊢; omega

/-- order form, for tables with strictly increasing keys -/
theorem ent_extendKey_sorted (k k' : Nat) (v : List Entry) (t : List (Nat × List Entry))
    (h : Sorted t) :
    ent k (extendKey k' v t) = if k = k' then ent k t ++ v else ent k t := by
  induction t with
  | nil =>
    simp only [extendKey, ent_cons, ent_nil]
    grind
  | cons q t ih =>
    obtain ⟨k0, v0⟩ := q
    unfold Sorted at h ih
    rw [List.pairwise_cons] at h
    simp only [extendKey]
    split
    · rename_i hlt
      by_cases hk : k = k'
      · subst hk
        have hnil : ent k ((k0, v0) :: t) = [] := by
          apply ent_eq_nil_of_lt
          intro p hp
          rcases List.mem_cons.1 hp with rfl | hp
          · exact hlt
          · have := h.1 p hp; simp only at this; omega
        rw [ent_cons (k' := k) (v := v), hnil]; simp
      · rw [ent_cons (k' := k') (v := v), if_neg (Ne.symm hk), if_neg hk]
    · split
      · rename_i _ heq
        subst heq
        by_cases hk : k = k'
        · subst hk
          have hnil : ent k t = [] := by
            apply ent_eq_nil_of_lt
            intro p hp
            exact h.1 p hp
          simp [ent_cons, hnil]
        · simp [ent_cons, Ne.symm hk, hk]
      · rw [ent_cons, ent_cons, ih h.2]
        grind


/-! ## Folding a source's table into the accumulator -/

/-- the shape of the three table folds in `addSource` -/
def foldTbl (F : List Entry → List Entry) (tbl acc : List (Nat × List Entry)) :
    List (Nat × List Entry) :=
  tbl.foldl (fun t p => extendKey p.1 (F p.2) t) acc

theorem mem_ent_foldTbl (F : List Entry → List Entry) (e : Entry) (k : Nat)
    (tbl acc : List (Nat × List Entry)) :
    e ∈ ent k (foldTbl F tbl acc) ↔ e ∈ ent k acc ∨ ∃ l, (k, l) ∈ tbl ∧ e ∈ F l := by
  unfold foldTbl
  induction tbl generalizing acc with
  | nil => simp
  | cons p tbl ih =>
    obtain ⟨k0, v0⟩ := p
    rw [List.foldl_cons, ih, mem_ent_extendKey]
    constructor
    · rintro ((h | ⟨rfl, h⟩) | ⟨l, hl, h⟩)
      · exact Or.inl h
      · exact Or.inr ⟨v0, by simp, h⟩
      · exact Or.inr ⟨l, by simp [hl], h⟩
    · rintro (h | ⟨l, hl, h⟩)
      · exact Or.inl (Or.inl h)
      · rcases List.mem_cons.1 hl with heq | hl
        · cases heq; exact Or.inl (Or.inr ⟨rfl, h⟩)
        · exact Or.inr ⟨l, hl, h⟩

theorem mem_ent_iff (e : Entry) (k : Nat) (t : List (Nat × List Entry)) :
    e ∈ ent k t ↔ ∃ l, (k, l) ∈ t ∧ e ∈ l := by
  induction t with
  | nil => simp [ent_nil]
  | cons p t ih =>
    obtain ⟨k0, v0⟩ := p
    rw [ent_cons]
    by_cases hk : k0 = k
    · subst hk
      rw [if_pos rfl, List.mem_append, ih]
      constructor
      · rintro (h | ⟨l, hl, h⟩)
        · exact ⟨v0, by simp, h⟩
        · exact ⟨l, by simp [hl], h⟩
      · rintro ⟨l, hl, h⟩
        rcases List.mem_cons.1 hl with heq | hl
        · cases heq; exact Or.inl h
        · exact Or.inr ⟨l, hl, h⟩
    · rw [if_neg hk, ih]
      constructor
      · rintro ⟨l, hl, h⟩; exact ⟨l, by simp [hl], h⟩
      · rintro ⟨l, hl, h⟩
        rcases List.mem_cons.1 hl with heq | hl
        · cases heq; exact absurd rfl hk
        · exact ⟨l, hl, h⟩

theorem sorted_foldTbl (F : List Entry → List Entry) (tbl acc : List (Nat × List Entry))
    (h : Sorted acc) : Sorted (foldTbl F tbl acc) := by
  unfold foldTbl
  induction tbl generalizing acc with
  | nil => exact h
  | cons p tbl ih => exact ih _ (sorted_extendKey _ _ _ h)

theorem ent_foldTbl_sorted (F : List Entry → List Entry) (k : Nat)
    (tbl acc : List (Nat × List Entry)) (h : Sorted acc) :
    ent k (foldTbl F tbl acc) =
      ent k acc ++ (tbl.filter (fun p => p.1 == k)).flatMap (fun p => F p.2) := by
  unfold foldTbl
  induction tbl generalizing acc with
  | nil => simp
  | cons p tbl ih =>
    obtain ⟨k0, v0⟩ := p
    rw [List.foldl_cons, ih _ (sorted_extendKey _ _ _ h), ent_extendKey_sorted _ _ _ _ h]
    by_cases hk : k = k0
    · subst hk; simp
    · have : ¬ k0 = k := fun h => hk h.symm
      simp [hk, this]

theorem flatMap_filter_map (p : Entry → Bool) (g : Entry → Entry) (k : Nat)
    (tbl : List (Nat × List Entry)) :
    (tbl.filter (fun q => q.1 == k)).flatMap (fun q => (q.2.filter p).map g) =
      ((ent k tbl).filter p).map g := by
  unfold ent
  generalize tbl.filter (fun q => q.1 == k) = l
  induction l with
  | nil => rfl
  | cons a l ih => simp [List.flatMap_cons, ih]

theorem flatMap_map (g : Entry → Entry) (k : Nat) (tbl : List (Nat × List Entry)) :
    (tbl.filter (fun q => q.1 == k)).flatMap (fun q => q.2.map g) = (ent k tbl).map g := by
  unfold ent
  generalize tbl.filter (fun q => q.1 == k) = l
  induction l with
  | nil => rfl
  | cons a l ih => simp [List.flatMap_cons, ih]

/-! ## `addSource` projections -/

theorem addSource_audits (r : Result) (s : Source) :
    (addSource r s).audits =
      foldTbl (fun l => (l.filter (·.importable)).map (tag s.url)) s.audits r.audits := rfl

theorem addSource_wildcards (r : Result) (s : Source) :
    (addSource r s).wildcards = foldTbl (fun l => l.map (tag s.url)) s.wildcards r.wildcards := rfl

theorem addSource_trusted (r : Result) (s : Source) :
    (addSource r s).trusted = foldTbl (fun l => l.map (tag s.url)) s.trusted r.trusted := rfl

theorem addSource_crit (r : Result) (s : Source) :
    ((addSource r s).criteria, (addSource r s).errors) =
      s.criteria.foldl (fun acc c => addCrit s.url c acc) (r.criteria, r.errors) := rfl

/-! ## Lifting through the fold over the sources -/

theorem mem_audits_foldl (srcs : List Source) (r : Result) (k : Nat) (e : Entry) :
    e ∈ ent k (srcs.foldl addSource r).audits ↔
      e ∈ ent k r.audits ∨
        ∃ s ∈ srcs, ∃ e₀ ∈ ent k s.audits, e₀.importable = true ∧ e = tag s.url e₀ := by
  induction srcs generalizing r with
  | nil => simp
  | cons s srcs ih =>
    rw [List.foldl_cons, ih, addSource_audits, mem_ent_foldTbl]
    have key : (∃ l, (k, l) ∈ s.audits ∧ e ∈ (l.filter (·.importable)).map (tag s.url)) ↔
        ∃ e₀ ∈ ent k s.audits, e₀.importable = true ∧ e = tag s.url e₀ := by
      constructor
      · rintro ⟨l, hl, h⟩
        rcases List.mem_map.1 h with ⟨e₀, h₀, rfl⟩
        rw [List.mem_filter] at h₀
        exact ⟨e₀, (mem_ent_iff _ _ _).2 ⟨l, hl, h₀.1⟩, h₀.2, rfl⟩
      · rintro ⟨e₀, h₀, hi, rfl⟩
        rcases (mem_ent_iff _ _ _).1 h₀ with ⟨l, hl, h⟩
        exact ⟨l, hl, List.mem_map.2 ⟨e₀, List.mem_filter.2 ⟨h, hi⟩, rfl⟩⟩
    rw [key]
    simp only [List.mem_cons, exists_eq_or_imp, or_assoc]

theorem mem_wildcards_foldl (srcs : List Source) (r : Result) (k : Nat) (e : Entry) :
    e ∈ ent k (srcs.foldl addSource r).wildcards ↔
      e ∈ ent k r.wildcards ∨ ∃ s ∈ srcs, ∃ e₀ ∈ ent k s.wildcards, e = tag s.url e₀ := by
  induction srcs generalizing r with
  | nil => simp
  | cons s srcs ih =>
    rw [List.foldl_cons, ih, addSource_wildcards, mem_ent_foldTbl]
    have key : (∃ l, (k, l) ∈ s.wildcards ∧ e ∈ l.map (tag s.url)) ↔
        ∃ e₀ ∈ ent k s.wildcards, e = tag s.url e₀ := by
      constructor
      · rintro ⟨l, hl, h⟩
        rcases List.mem_map.1 h with ⟨e₀, h₀, rfl⟩
        exact ⟨e₀, (mem_ent_iff _ _ _).2 ⟨l, hl, h₀⟩, rfl⟩
      · rintro ⟨e₀, h₀, rfl⟩
        rcases (mem_ent_iff _ _ _).1 h₀ with ⟨l, hl, h⟩
        exact ⟨l, hl, List.mem_map.2 ⟨e₀, h, rfl⟩⟩
    rw [key]
    simp only [List.mem_cons, exists_eq_or_imp, or_assoc]

theorem mem_trusted_foldl (srcs : List Source) (r : Result) (k : Nat) (e : Entry) :
    e ∈ ent k (srcs.foldl addSource r).trusted ↔
      e ∈ ent k r.trusted ∨ ∃ s ∈ srcs, ∃ e₀ ∈ ent k s.trusted, e = tag s.url e₀ := by
  induction srcs generalizing r with
  | nil => simp
  | cons s srcs ih =>
    rw [List.foldl_cons, ih, addSource_trusted, mem_ent_foldTbl]
    have key : (∃ l, (k, l) ∈ s.trusted ∧ e ∈ l.map (tag s.url)) ↔
        ∃ e₀ ∈ ent k s.trusted, e = tag s.url e₀ := by
      constructor
      · rintro ⟨l, hl, h⟩
        rcases List.mem_map.1 h with ⟨e₀, h₀, rfl⟩
        exact ⟨e₀, (mem_ent_iff _ _ _).2 ⟨l, hl, h₀⟩, rfl⟩
      · rintro ⟨e₀, h₀, rfl⟩
        rcases (mem_ent_iff _ _ _).1 h₀ with ⟨l, hl, h⟩
        exact ⟨l, hl, List.mem_map.2 ⟨e₀, h, rfl⟩⟩
    rw [key]
    simp only [List.mem_cons, exists_eq_or_imp, or_assoc]

theorem aggregate_eq_some (srcs : List Source) (r : Result) :
    aggregate srcs = some r ↔
      r = srcs.foldl addSource ⟨[], [], [], [], 0⟩ ∧ r.errors = 0 := by
  unfold aggregate
  simp only
  split
  · rename_i h0
    constructor
    · intro h; cases h; exact ⟨rfl, h0⟩
    · rintro ⟨h, _⟩; rw [h]
  · rename_i h0
    constructor
    · intro h; cases h
    · rintro ⟨h, h1⟩; subst h; exact absurd h1 h0

/-- audits order, starting from a sorted accumulator, any list of sources -/
theorem sorted_audits_foldl (srcs : List Source) (r : Result) (h : Sorted r.audits) :
    Sorted (srcs.foldl addSource r).audits := by
  induction srcs generalizing r with
  | nil => exact h
  | cons s srcs ih =>
    rw [List.foldl_cons]
    apply ih
    rw [addSource_audits]
    exact sorted_foldTbl _ _ _ h

theorem ent_audits_foldl_sorted (srcs : List Source) (r : Result) (h : Sorted r.audits) (k : Nat) :
    ent k (srcs.foldl addSource r).audits =
      ent k r.audits ++
        srcs.flatMap (fun s => ((ent k s.audits).filter (·.importable)).map (tag s.url)) := by
  induction srcs generalizing r with
  | nil => simp
  | cons s srcs ih =>
    rw [List.foldl_cons, ih, addSource_audits, ent_foldTbl_sorted _ _ _ _ h, flatMap_filter_map,
      List.flatMap_cons, List.append_assoc]
    rw [addSource_audits]
    exact sorted_foldTbl _ _ _ h

/-! ## Criteria -/

/-- local copy of `allDefs` -/
def defsOf (srcs : List Source) : List (Nat × Crit) :=
  srcs.flatMap (fun s => s.criteria.map (fun c => (s.url, c)))

/-- local copy of `sameDef` -/
def same (a b : Crit) : Bool := a.desc == b.desc && a.descUrl == b.descUrl && a.implies == b.implies

def tagC (d : Nat × Crit) : Crit := { d.2 with from_ := d.2.from_ ++ [d.1] }

def run (ds : List (Nat × Crit)) (acc : List Crit × Nat) : List Crit × Nat :=
  ds.foldl (fun acc d => addCrit d.1 d.2 acc) acc

theorem crit_foldl (srcs : List Source) (r : Result) :
    ((srcs.foldl addSource r).criteria, (srcs.foldl addSource r).errors) =
      run (defsOf srcs) (r.criteria, r.errors) := by
  induction srcs generalizing r with
  | nil => rfl
  | cons s srcs ih =>
    rw [List.foldl_cons, ih, addSource_crit]
    unfold run defsOf
    rw [List.flatMap_cons, List.foldl_append, List.foldl_map]

theorem same_refl (a : Crit) : same a a = true := by simp [same]
theorem same_tagC (d : Nat × Crit) (b : Crit) : same (tagC d) b = same d.2 b := rfl
theorem tagC_name (d : Nat × Crit) : (tagC d).name = d.2.name := rfl
theorem same_trans' (a b c : Crit) (h1 : same a b = true) (h2 : same a c = true) :
    same b c = true := by
  simp only [same, Bool.and_eq_true, beq_iff_eq] at *
  grind

theorem same_iff_err (old c : Crit) :
    ((if old.desc != c.desc || old.descUrl != c.descUrl then 1 else 0)
      + (if old.implies != c.implies then 1 else 0) = 0) ↔ same old c = true := by
  simp only [same, Bool.and_eq_true, beq_iff_eq]
  by_cases h1 : old.desc = c.desc <;> by_cases h2 : old.descUrl = c.descUrl <;>
    by_cases h3 : old.implies = c.implies <;> simp [h1, h2, h3]

theorem name_inj (l : List Crit) (h : (l.map (·.name)).Nodup) (a b : Crit) (ha : a ∈ l) (hb : b ∈ l)
    (hn : a.name = b.name) : a = b := by
  induction l with
  | nil => cases ha
  | cons x l ih =>
    rw [List.map_cons, List.nodup_cons] at h
    rcases List.mem_cons.1 ha with rfl | ha' <;> rcases List.mem_cons.1 hb with rfl | hb'
    · rfl
    · exact absurd (List.mem_map.2 ⟨b, hb', hn.symm⟩ : a.name ∈ l.map (·.name)) h.1
    · exact absurd (List.mem_map.2 ⟨a, ha', hn⟩ : b.name ∈ l.map (·.name)) h.1
    · exact ih h.2 ha' hb'

/-- invariant of the criteria fold; `pre` is the list of definitions processed so far -/
structure Inv (pre : List (Nat × Crit)) (acc : List Crit × Nat) : Prop where
  nodup : (acc.1.map (·.name)).Nodup
  prov : ∀ c ∈ acc.1, ∃ d ∈ pre, c = tagC d
  pres : ∀ d ∈ pre, ∃ c ∈ acc.1, c.name = d.2.name
  err : acc.2 = 0 ↔ ∀ d ∈ pre, ∀ c ∈ acc.1, c.name = d.2.name → same c d.2 = true

theorem inv_nil : Inv [] ([], 0) := by
  constructor <;> simp

theorem inv_step (pre : List (Nat × Crit)) (acc : List Crit × Nat) (d : Nat × Crit)
    (h : Inv pre acc) : Inv (pre ++ [d]) (addCrit d.1 d.2 acc) := by
  obtain ⟨l, n⟩ := acc
  obtain ⟨hnd, hprov, hpres, herr⟩ := h
  simp only at hnd hprov hpres herr
  unfold addCrit
  simp only
  split
  · rename_i hnone
    rw [List.find?_eq_none] at hnone
    have hno : ∀ c ∈ l, c.name ≠ d.2.name := by
      intro c hc hn; exact hnone c hc (by simp [hn])
    constructor
    · simp only [List.map_append, List.map_cons, List.map_nil]
      rw [List.nodup_append]
      refine ⟨hnd, by simp, ?_⟩
      intro a ha b hb
      rcases List.mem_map.1 ha with ⟨c, hc, rfl⟩
      simp only [List.mem_singleton] at hb
      subst hb
      exact hno c hc
    · intro c hc
      simp only [List.mem_append, List.mem_singleton] at hc
      rcases hc with hc | rfl
      · rcases hprov c hc with ⟨d', hd', rfl⟩
        exact ⟨d', by simp [hd'], rfl⟩
      · exact ⟨d, by simp, rfl⟩
    · intro d' hd'
      simp only [List.mem_append, List.mem_singleton] at hd'
      rcases hd' with hd' | rfl
      · rcases hpres d' hd' with ⟨c, hc, hn⟩
        exact ⟨c, by simp [hc], hn⟩
      · exact ⟨tagC d', by simp [tagC], rfl⟩
    · simp only
      rw [herr]
      constructor
      · intro hall d' hd' c hc hn
        simp only [List.mem_append, List.mem_singleton] at hd' hc
        rcases hd' with hd' | rfl
        · rcases hc with hc | rfl
          · exact hall d' hd' c hc hn
          · rcases hpres d' hd' with ⟨c', hc', hn'⟩
            exact absurd (hn'.trans hn.symm) (hno c' hc')
        · rcases hc with hc | rfl
          · exact absurd hn (hno c hc)
          · exact same_refl _
      · intro hall d' hd' c hc hn
        exact hall d' (by simp [hd']) c (by simp [hc]) hn
  · rename_i old hsome
    have hmem : old ∈ l := List.mem_of_find?_eq_some hsome
    have hname : old.name = d.2.name := by
      have := List.find?_some hsome
      simpa using this
    refine ⟨hnd, ?_, ?_, ?_⟩
    · intro c hc
      rcases hprov c hc with ⟨d', hd', rfl⟩
      exact ⟨d', by simp [hd'], rfl⟩
    · intro d' hd'
      simp only [List.mem_append, List.mem_singleton] at hd'
      rcases hd' with hd' | rfl
      · exact hpres d' hd'
      · exact ⟨old, hmem, hname⟩
    · simp only
      rw [Nat.add_assoc, Nat.add_eq_zero_iff, same_iff_err, herr]
      constructor
      · rintro ⟨hall, hs⟩ d' hd' c hc hn
        simp only [List.mem_append, List.mem_singleton] at hd'
        rcases hd' with hd' | rfl
        · exact hall d' hd' c hc hn
        · have : c = old := name_inj l hnd c old hc hmem (hn.trans hname.symm)
          rw [this]; exact hs
      · intro hall
        exact ⟨fun d' hd' c hc hn => hall d' (by simp [hd']) c hc hn,
          hall d (by simp) old hmem hname⟩

theorem inv_run (ds pre : List (Nat × Crit)) (acc : List Crit × Nat) (h : Inv pre acc) :
    Inv (pre ++ ds) (run ds acc) := by
  unfold run
  induction ds generalizing pre acc with
  | nil => simpa using h
  | cons d ds ih =>
    have := ih (pre ++ [d]) _ (inv_step pre acc d h)
    simpa using this

theorem inv_aggregate (srcs : List Source) :
    Inv (defsOf srcs) ((srcs.foldl addSource ⟨[], [], [], [], 0⟩).criteria,
      (srcs.foldl addSource ⟨[], [], [], [], 0⟩).errors) := by
  rw [crit_foldl]
  have := inv_run (defsOf srcs) [] _ inv_nil
  simpa using this

/-- errors ≠ 0 iff two definitions of the same name differ -/
theorem err_iff (pre : List (Nat × Crit)) (acc : List Crit × Nat) (h : Inv pre acc) :
    acc.2 ≠ 0 ↔ ∃ d₁ ∈ pre, ∃ d₂ ∈ pre, d₁.2.name = d₂.2.name ∧ same d₁.2 d₂.2 = false := by
  constructor
  · intro hne
    have : ¬ ∀ d ∈ pre, ∀ c ∈ acc.1, c.name = d.2.name → same c d.2 = true :=
      fun hall => hne (h.err.2 hall)
    simp only [Classical.not_forall] at this
    obtain ⟨d₂, hd₂, c, hc, hn, hs⟩ := this
    obtain ⟨d₁, hd₁, rfl⟩ := h.prov c hc
    refine ⟨d₁, hd₁, d₂, hd₂, hn, ?_⟩
    rw [same_tagC] at hs
    simpa using hs
  · rintro ⟨d₁, hd₁, d₂, hd₂, hn, hs⟩ h0
    have hall := h.err.1 h0
    obtain ⟨c, hc, hcn⟩ := h.pres d₁ hd₁
    have h1 := hall d₁ hd₁ c hc hcn
    have h2 := hall d₂ hd₂ c hc (hcn.trans hn)
    rw [same_trans' c d₁.2 d₂.2 h1 h2] at hs
    cases hs

end Vet.Agg
