/- The shape of `getStoreUpdates`: keep predicates per table, and the store after `applyLocked`. -/
import Vet.Lemmas.PreserveList
import Vet.Lemmas.PreserveReq
namespace Vet

section keep
variable (s : Store) (modeOf : Nat → UpdateMode) (lookup : Nat → Option (Option Required))

/-- packages not in the graph require nothing -/
def reqOfLookup (n : Nat) : Option Required := (lookup n).getD (some [])

def keepLocal (n i : Nat) (a : Audit) : Bool :=
  match lookup n with
  | some (some r) => if (modeOf n).pruneNonImportable then a.importable || isViolation a || r.has (.localAudit i) else true
  | _ => true

def keepAudit (ii n i : Nat) (a : Audit) : Bool :=
  if !(shouldPruneImports s (reqOfLookup lookup n) (modeOf n) n) && !a.fresh then true
  else if isViolation a then (lookup n).isSome
  else match reqOfLookup lookup n with
    | some r => r.has (.audit ii i)
    | none => !a.fresh

def keepWild (ii n i : Nat) (a : Wildcard) : Bool :=
  if !(shouldPruneImports s (reqOfLookup lookup n) (modeOf n) n) && !a.fresh then true
  else match reqOfLookup lookup n with
    | some r => r.has (.wildcard ii i)
    | none => !a.fresh

def keepPub (n i : Nat) (a : Publisher) : Bool :=
  if !(shouldPruneImports s (reqOfLookup lookup n) (modeOf n) n) && !a.fresh then true
  else match reqOfLookup lookup n with
    | some r => r.has (.publisher i)
    | none => !a.fresh

def keepUnpub (n i : Nat) (a : Unpub) : Bool :=
  if !(modeOf n).pruneExemptions && !a.fresh then true
  else match reqOfLookup lookup n with
    | some r => r.has (.unpublished i)
    | none => !a.fresh

/-- the kept-index part of the updates, with the exemption table `ex` given -/
def updatesOf (ex : List (Nat × List Exemption)) : Updates :=
  { audits := s.locals.audits.map (fun x => (x.1, keepIdx x.2 (keepLocal modeOf lookup x.1))),
    imports := s.imports.zipIdx.map (fun y =>
      (y.1.audits.map (fun x => (x.1, keepIdx x.2 (keepAudit s modeOf lookup y.2 x.1))),
       y.1.wildcards.map (fun x => (x.1, keepIdx x.2 (keepWild s modeOf lookup y.2 x.1))))),
    publishers := s.publishers.map (fun x => (x.1, keepIdx x.2 (keepPub s modeOf lookup x.1))),
    unpublished := s.unpublished.map (fun x => (x.1, keepIdx x.2 (keepUnpub modeOf lookup x.1))),
    exemptions := ex }

end keep

/-- fresh exemptions added to the narrowed exemption table -/
def withFresh (m : Mapper) (required : List (Nat × Option Required)) (ex0 : List (Nat × List Exemption)) :
    List (Nat × List Exemption) :=
  required.foldl (fun t x =>
    match x.2 with
    | some r => addFresh t x.1 (freshExemptions m r)
    | none => t) ex0

theorem getStoreUpdates_shape {w : World} {modeOf : Nat → UpdateMode} {u : Updates}
    (h : getStoreUpdates w modeOf = .ok u) :
    ∃ dg m reqs required ex0,
      DepGraph.new w.md w.store.policy = .ok dg ∧ Mapper.new w.table = .ok m ∧
      resolveRequirements dg w.store.policy m = .ok reqs ∧
      allRequired dg m reqs w.store modeOf (dg.nodes.map (·.name)) [] = .ok required ∧
      exemptionTable m modeOf (reqOfLookup (fun n => assoc? n required)) w.store.exemptions = .ok ex0 ∧
      u = updatesOf w.store modeOf (fun n => assoc? n required) (withFresh m required ex0) := by
  unfold getStoreUpdates at h
  split at h
  · cases h
  · rename_i dg hdg
    split at h
    · cases h
    · rename_i m hm
      split at h
      · cases h
      · rename_i reqs hreqs
        split at h
        · cases h
        · rename_i required hrequired
          simp only at h
          split at h
          · cases h
          · rename_i ex0 hex0
            simp only [Except.ok.injEq] at h
            refine ⟨dg, m, reqs, required, ex0, hdg, hm, hreqs, hrequired, hex0, ?_⟩
            rw [← h]
            unfold updatesOf
            congr 1
            apply List.map_congr_left
            rintro ⟨n, l⟩ _
            have hk : keepLocal modeOf (fun n => assoc? n required) n = fun i a =>
                match assoc? n required with
                | some (some r) =>
                  if (modeOf n).pruneNonImportable then a.importable || isViolation a || r.has (.localAudit i) else true
                | _ => true := rfl
            rw [hk]
            simp only
            rcases hl : assoc? n required with _ | _ | r
            · rfl
            · rfl
            · simp only
              split <;> rfl



/-! ### membership in the per-crate record lists -/

theorem mem_allAudits_some {s : Store} {name ii j : Nat} {a : Audit} :
    (some ii, j, a) ∈ allAudits s name ↔
      ∃ f, (f, ii) ∈ s.imports.zipIdx ∧ (a, j) ∈ (getL name f.audits).zipIdx := by
  unfold allAudits
  simp only [List.mem_append, List.mem_flatMap, List.mem_map, Prod.mk.injEq, Prod.exists,
    Option.some.injEq, reduceCtorEq, false_and, and_false, exists_false, or_false]
  constructor
  · rintro ⟨f, i, hf, a', j', ha, rfl, rfl, rfl⟩
    exact ⟨f, hf, ha⟩
  · rintro ⟨f, hf, ha⟩
    exact ⟨f, ii, hf, a, j, ha, rfl, rfl, rfl⟩

theorem mem_allAudits_none {s : Store} {name j : Nat} {a : Audit} :
    (none, j, a) ∈ allAudits s name ↔ (a, j) ∈ (getL name s.locals.audits).zipIdx := by
  unfold allAudits
  simp only [List.mem_append, List.mem_flatMap, List.mem_map, Prod.mk.injEq, Prod.exists,
    reduceCtorEq, false_and, and_false, exists_false, false_or, true_and]
  constructor
  · rintro ⟨a', j', ha, rfl, rfl⟩
    exact ha
  · intro ha
    exact ⟨a, j, ha, rfl, rfl⟩

theorem mem_allWildcards_some {s : Store} {name ii j : Nat} {a : Wildcard} :
    (some ii, j, a) ∈ allWildcards s name ↔
      ∃ f, (f, ii) ∈ s.imports.zipIdx ∧ (a, j) ∈ (getL name f.wildcards).zipIdx := by
  unfold allWildcards
  simp only [List.mem_append, List.mem_flatMap, List.mem_map, Prod.mk.injEq, Prod.exists,
    Option.some.injEq, reduceCtorEq, false_and, and_false, exists_false, or_false]
  constructor
  · rintro ⟨f, i, hf, a', j', ha, rfl, rfl, rfl⟩
    exact ⟨f, hf, ha⟩
  · rintro ⟨f, hf, ha⟩
    exact ⟨f, ii, hf, a, j, ha, rfl, rfl, rfl⟩

theorem mem_allWildcards_none {s : Store} {name j : Nat} {a : Wildcard} :
    (none, j, a) ∈ allWildcards s name ↔ (a, j) ∈ (getL name s.locals.wildcards).zipIdx := by
  unfold allWildcards
  simp only [List.mem_append, List.mem_flatMap, List.mem_map, Prod.mk.injEq, Prod.exists,
    reduceCtorEq, false_and, and_false, exists_false, false_or, true_and]
  constructor
  · rintro ⟨a', j', ha, rfl, rfl⟩
    exact ha
  · intro ha
    exact ⟨a, j, ha, rfl, rfl⟩

/-! ### the store after the update, table by table -/

section applied
variable (s : Store) (modeOf : Nat → UpdateMode) (lookup : Nat → Option (Option Required))
  (ex : List (Nat × List Exemption))

/-- the import file `ii` after the update -/
def newImport (f : AFile) (ii : Nat) : AFile :=
  { audits := applyTable f.audits
      (f.audits.map (fun x => (x.1, keepIdx x.2 (keepAudit s modeOf lookup ii x.1))))
      (fun a => { a with fresh := false }),
    wildcards := applyTable f.wildcards
      (f.wildcards.map (fun x => (x.1, keepIdx x.2 (keepWild s modeOf lookup ii x.1))))
      (fun a => { a with fresh := false }) }

theorem mem_new_imports {f' : AFile} {ii : Nat} :
    (f', ii) ∈ (applyLocked s (updatesOf s modeOf lookup ex)).imports.zipIdx ↔
      ∃ f, (f, ii) ∈ s.imports.zipIdx ∧ f' = newImport s modeOf lookup f ii := by
  unfold applyLocked
  simp only
  rw [mem_zipIdx_map_zipIdx]
  constructor
  · rintro ⟨f, hf, rfl⟩
    refine ⟨f, hf, ?_⟩
    simp only [updatesOf]
    rw [getD_map_zipIdx _ hf]
    rfl
  · rintro ⟨f, hf, rfl⟩
    refine ⟨f, hf, ?_⟩
    simp only [updatesOf]
    rw [getD_map_zipIdx _ hf]
    rfl

theorem new_local_audits (name : Nat) {y : Audit} :
    y ∈ getL name (applyLocked s (updatesOf s modeOf lookup ex)).locals.audits ↔
      ∃ x i, (x, i) ∈ (getL name s.locals.audits).zipIdx ∧ keepLocal modeOf lookup name i x = true ∧ y = x := by
  unfold applyLocked updatesOf
  simp only
  rw [mem_getL_applyTable]
  rfl

theorem new_import_audits (name : Nat) (f : AFile) (ii : Nat) {y : Audit} :
    y ∈ getL name (newImport s modeOf lookup f ii).audits ↔
      ∃ x i, (x, i) ∈ (getL name f.audits).zipIdx ∧ keepAudit s modeOf lookup ii name i x = true ∧
        y = { x with fresh := false } := by
  unfold newImport
  simp only
  rw [mem_getL_applyTable]

theorem new_import_wildcards (name : Nat) (f : AFile) (ii : Nat) {y : Wildcard} :
    y ∈ getL name (newImport s modeOf lookup f ii).wildcards ↔
      ∃ x i, (x, i) ∈ (getL name f.wildcards).zipIdx ∧ keepWild s modeOf lookup ii name i x = true ∧
        y = { x with fresh := false } := by
  unfold newImport
  simp only
  rw [mem_getL_applyTable]

theorem new_publishers (name : Nat) {y : Publisher} :
    y ∈ getL name (applyLocked s (updatesOf s modeOf lookup ex)).publishers ↔
      ∃ x i, (x, i) ∈ (getL name s.publishers).zipIdx ∧ keepPub s modeOf lookup name i x = true ∧
        y = { x with fresh := false } := by
  unfold applyLocked updatesOf
  simp only
  rw [mem_getL_applyTable]

theorem new_unpublished (name : Nat) {y : Unpub} :
    y ∈ getL name (applyLocked s (updatesOf s modeOf lookup ex)).unpublished ↔
      ∃ x i, (x, i) ∈ (getL name s.unpublished).zipIdx ∧ keepUnpub modeOf lookup name i x = true ∧
        y = { x with fresh := false } := by
  unfold applyLocked updatesOf
  simp only
  rw [mem_getL_applyTable]

end applied


/-! ### old and new record lists of one crate -/

section relate
variable (s : Store) (modeOf : Nat → UpdateMode) (lookup : Nat → Option (Option Required))
  (ex : List (Nat × List Exemption)) (name : Nat)

theorem new_audits_sub {imp : Option Nat} {j : Nat} {a' : Audit}
    (h : (imp, j, a') ∈ allAudits (applyLocked s (updatesOf s modeOf lookup ex)) name) :
    ∃ j' a, (imp, j', a) ∈ allAudits s name ∧ a'.kind = a.kind ∧ a'.criteria = a.criteria ∧
      a'.importable = a.importable := by
  cases imp with
  | none =>
    rw [mem_allAudits_none] at h
    obtain ⟨x, i, hx, _, rfl⟩ := (new_local_audits s modeOf lookup ex name).1 (mem_of_zipIdx h)
    exact ⟨i, a', mem_allAudits_none.2 hx, rfl, rfl, rfl⟩
  | some ii =>
    rw [mem_allAudits_some] at h
    obtain ⟨f', hf', ha'⟩ := h
    obtain ⟨f, hf, rfl⟩ := (mem_new_imports s modeOf lookup ex).1 hf'
    obtain ⟨x, i, hx, _, rfl⟩ := (new_import_audits s modeOf lookup name f ii).1 (mem_of_zipIdx ha')
    exact ⟨i, x, mem_allAudits_some.2 ⟨f, hf, hx⟩, rfl, rfl, rfl⟩

theorem new_audits_kept_local {j : Nat} {a : Audit} (h : (none, j, a) ∈ allAudits s name)
    (hk : keepLocal modeOf lookup name j a = true) :
    ∃ j', (none, j', a) ∈ allAudits (applyLocked s (updatesOf s modeOf lookup ex)) name := by
  rw [mem_allAudits_none] at h
  obtain ⟨j', hj'⟩ := exists_zipIdx_of_mem
    ((new_local_audits s modeOf lookup ex name).2 ⟨a, j, h, hk, rfl⟩)
  exact ⟨j', mem_allAudits_none.2 hj'⟩

theorem new_audits_kept_import {ii j : Nat} {a : Audit} (h : (some ii, j, a) ∈ allAudits s name)
    (hk : keepAudit s modeOf lookup ii name j a = true) :
    ∃ j', (some ii, j', { a with fresh := false }) ∈
      allAudits (applyLocked s (updatesOf s modeOf lookup ex)) name := by
  rw [mem_allAudits_some] at h
  obtain ⟨f, hf, ha⟩ := h
  obtain ⟨j', hj'⟩ := exists_zipIdx_of_mem
    ((new_import_audits s modeOf lookup name f ii).2 ⟨a, j, ha, hk, rfl⟩)
  exact ⟨j', mem_allAudits_some.2 ⟨_, (mem_new_imports s modeOf lookup ex).2 ⟨f, hf, rfl⟩, hj'⟩⟩

theorem new_wildcards_sub {imp : Option Nat} {j : Nat} {a' : Wildcard}
    (h : (imp, j, a') ∈ allWildcards (applyLocked s (updatesOf s modeOf lookup ex)) name) :
    ∃ j' a, (imp, j', a) ∈ allWildcards s name ∧ a'.user = a.user ∧ a'.start = a.start ∧
      a'.stop = a.stop ∧ a'.criteria = a.criteria := by
  cases imp with
  | none =>
    rw [mem_allWildcards_none] at h
    exact ⟨j, a', mem_allWildcards_none.2 h, rfl, rfl, rfl, rfl⟩
  | some ii =>
    rw [mem_allWildcards_some] at h
    obtain ⟨f', hf', ha'⟩ := h
    obtain ⟨f, hf, rfl⟩ := (mem_new_imports s modeOf lookup ex).1 hf'
    obtain ⟨x, i, hx, _, rfl⟩ := (new_import_wildcards s modeOf lookup name f ii).1 (mem_of_zipIdx ha')
    exact ⟨i, x, mem_allWildcards_some.2 ⟨f, hf, hx⟩, rfl, rfl, rfl, rfl⟩

theorem new_wildcards_kept_local {j : Nat} {a : Wildcard} (h : (none, j, a) ∈ allWildcards s name) :
    (none, j, a) ∈ allWildcards (applyLocked s (updatesOf s modeOf lookup ex)) name := by
  rw [mem_allWildcards_none] at h ⊢
  exact h

theorem new_wildcards_kept_import {ii j : Nat} {a : Wildcard} (h : (some ii, j, a) ∈ allWildcards s name)
    (hk : keepWild s modeOf lookup ii name j a = true) :
    ∃ j', (some ii, j', { a with fresh := false }) ∈
      allWildcards (applyLocked s (updatesOf s modeOf lookup ex)) name := by
  rw [mem_allWildcards_some] at h
  obtain ⟨f, hf, ha⟩ := h
  obtain ⟨j', hj'⟩ := exists_zipIdx_of_mem
    ((new_import_wildcards s modeOf lookup name f ii).2 ⟨a, j, ha, hk, rfl⟩)
  exact ⟨j', mem_allWildcards_some.2 ⟨_, (mem_new_imports s modeOf lookup ex).2 ⟨f, hf, rfl⟩, hj'⟩⟩

theorem new_publishers_kept {j : Nat} {a : Publisher} (h : (a, j) ∈ (getL name s.publishers).zipIdx)
    (hk : keepPub s modeOf lookup name j a = true) :
    ∃ j', (({ a with fresh := false } : Publisher), j') ∈
      (getL name (applyLocked s (updatesOf s modeOf lookup ex)).publishers).zipIdx :=
  exists_zipIdx_of_mem ((new_publishers s modeOf lookup ex name).2 ⟨a, j, h, hk, rfl⟩)

theorem new_unpublished_kept {j : Nat} {a : Unpub} (h : (a, j) ∈ (getL name s.unpublished).zipIdx)
    (hk : keepUnpub modeOf lookup name j a = true) :
    ∃ j', (({ a with fresh := false } : Unpub), j') ∈
      (getL name (applyLocked s (updatesOf s modeOf lookup ex)).unpublished).zipIdx :=
  exists_zipIdx_of_mem ((new_unpublished s modeOf lookup ex name).2 ⟨a, j, h, hk, rfl⟩)

end relate

end Vet
