/- Criteria facts for "updates preserve success": minimal lists generate, certifying edges are
closed under implication. -/
import Vet.Props.C05
import Vet.Spec.Cert
namespace Vet

theorem pres_containsSet_iff {s o : CSet} :
    CSet.containsSet s o = true ↔ ∀ j, o.testBit j = true → s.testBit j = true := by
  unfold CSet.containsSet
  rw [beq_iff_eq]
  constructor
  · intro h j hj
    rw [← h, Nat.testBit_and, Bool.and_eq_true] at hj
    exact hj.1
  · intro h
    apply Nat.eq_of_testBit_eq
    intro j
    rw [Nat.testBit_and]
    cases hj : o.testBit j with
    | false => simp
    | true => simp [h j hj]

/-- bits of a denoted set are defined criteria -/
theorem fromList_bit_lt {t : Table} {m : Mapper} (h : Mapper.new t = .ok m) {l : List Nat} {s : CSet}
    (hs : m.fromList l = .ok s) {j : Nat} (hj : s.testBit j = true) : j < m.n := by
  obtain ⟨_, _, hwf, hn, _⟩ := new_ok h
  obtain ⟨i, hi, hij⟩ := (C05_fromList_spec t m h l s hs j).1 hj
  exact hn ▸ Implies.lt hwf hij (hn ▸ fromList_ok_lt m l s hs i hi)

/-- the minimal list of any set denotes a set containing the members below `m.n`, and nothing
that is not implied by a member -/
theorem fromList_minimal {t : Table} {m : Mapper} (h : Mapper.new t = .ok m) (u : CSet) :
    ∃ s, m.fromList (m.minimal u) = .ok s ∧
      (∀ j, j < m.n → u.testBit j = true → s.testBit j = true) ∧
      (∀ j, s.testBit j = true → ∃ i, i < m.n ∧ u.testBit i = true ∧ t.Implies i j) := by
  obtain ⟨s, hs⟩ := fromList_ok_of m (m.minimal u) (fun i hi => ((mem_minimal ..).1 hi).1.1)
  refine ⟨s, hs, ?_, ?_⟩
  · intro j hj hu
    obtain ⟨b, hb, hbj⟩ := exists_minimal h u _ j (Nat.le_refl _) hj hu
    exact (C05_fromList_spec t m h _ s hs j).2 ⟨b, hb, hbj⟩
  · intro j hj
    obtain ⟨i, hi, hij⟩ := (C05_fromList_spec t m h _ s hs j).1 hj
    obtain ⟨⟨hin, hui⟩, _⟩ := (mem_minimal ..).1 hi
    exact ⟨i, hin, hui, hij⟩

/-- a required criterion is implied by a minimal required criterion -/
theorem minimal_implies {t : Table} {m : Mapper} (h : Mapper.new t = .ok m) (req : CSet) {c : Nat}
    (hc : c < m.n) (hr : req.testBit c = true) : ∃ c' ∈ m.minimal req, t.Implies c' c :=
  exists_minimal h req _ c (Nat.le_refl _) hc hr

/-- a certifying record for `c'` certifies everything `c'` implies -/
theorem CertEdge.implies {t : Table} {s : Store} {m : Mapper} {name c' c : Nat} {a b : Option Nat}
    {o : Origin} (h : Mapper.new t = .ok m) (he : CertEdge s m name c' a o b) (hi : t.Implies c' c)
    (hc : c < m.n) : CertEdge s m name c a o b := by
  cases he with
  | full hm hk hcs hb => exact .full hm hk hcs (C05_fromList_closed t m h _ _ hcs _ _ hb hi)
  | delta hm hk hcs hb => exact .delta hm hk hcs (C05_fromList_closed t m h _ _ hcs _ _ hb hi)
  | wildcard hw hp hg hcs hb => exact .wildcard hw hp hg hcs (C05_fromList_closed t m h _ _ hcs _ _ hb hi)
  | trusted ht hp hg hcs hb => exact .trusted ht hp hg hcs (C05_fromList_closed t m h _ _ hcs _ _ hb hi)
  | unpublished hm _ => exact .unpublished hm hc
  | exemption hm hcs hb => exact .exemption hm hcs (C05_fromList_closed t m h _ _ hcs _ _ hb hi)

theorem CertPath.implies {t : Table} {s : Store} {m : Mapper} {name c' c : Nat} {a b : Option Nat}
    {p : List Origin} (h : Mapper.new t = .ok m) (hp : CertPath s m name c' a p b) (hi : t.Implies c' c)
    (hc : c < m.n) : CertPath s m name c a p b := by
  induction hp with
  | nil a => exact .nil a
  | cons he _ ih => exact .cons (he.implies h hi hc) ih

end Vet
