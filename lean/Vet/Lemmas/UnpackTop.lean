/- `unpackPackage` / `fetchIsOk` / `fetch` on a link-free cache. -/
import Vet.Lemmas.UnpackSpec
namespace Vet.Unpack

theorem lookup_mem {fs : FS} {q : Path} {n : Node} (h : lookup fs q = some n) : (q, n) ∈ fs := by
  induction fs with
  | nil => cases h
  | cons x xs ih =>
    obtain ⟨p, m⟩ := x
    rw [lookup_cons] at h
    split at h
    · rename_i hpq
      injection h with h
      subst hpq; subst h
      simp
    · exact List.mem_cons_of_mem _ (ih h)

/-- the tree right after the crate directory has been removed and recreated -/
def fs0 (fs : FS) (srcDir : Path) (pfx : Nat) : FS :=
  set (removeTree fs (srcDir ++ [pfx])) (srcDir ++ [pfx]) .dir

theorem unpackPackage_eq (fs : FS) (srcDir : Path) (pfx : Nat) (ar : List Entry) (ca : Option Nat) :
    unpackPackage fs srcDir pfx ar ca =
      if ((unpackEntries (fs0 fs srcDir pfx) srcDir pfx ar (ca.getD ar.length)).2 && ca.isNone) = true
      then writeThrough (unpackEntries (fs0 fs srcDir pfx) srcDir pfx ar (ca.getD ar.length)).1 8
        (markerPath srcDir pfx) 1
      else (unpackEntries (fs0 fs srcDir pfx) srcDir pfx ar (ca.getD ar.length)).1 := rfl

theorem lookup_fs0 (fs : FS) (srcDir : Path) (pfx : Nat) (q : Path) :
    lookup (fs0 fs srcDir pfx) q =
      if q = srcDir ++ [pfx] then some .dir else if srcDir ++ [pfx] <+: q then none else lookup fs q := by
  simp only [fs0, lookup_set, lookup_removeTree]

theorem fs0_outside (fs : FS) (srcDir : Path) (pfx : Nat) (q : Path) (hq : ¬ srcDir ++ [pfx] <+: q) :
    lookup (fs0 fs srcDir pfx) q = lookup fs q := by
  rw [lookup_fs0]
  have : q ≠ srcDir ++ [pfx] := by
    intro h; subst h; exact hq (List.prefix_refl _)
  simp [this, hq]

theorem not_dir_prefix_of_prefix {srcDir : Path} {pfx : Nat} {q : Path} (h : q <+: srcDir) :
    ¬ srcDir ++ [pfx] <+: q := by
  intro h2
  have := h.length_le
  have := h2.length_le
  simp at this
  omega

theorem fs0_NL (fs : FS) (srcDir : Path) (pfx : Nat)
    (hfs : ∀ p n, (p, n) ∈ fs → srcDir.isPrefixOf p = true → ∀ t, n ≠ .symlink t)
    (hg : Good fs srcDir) : NL (fs0 fs srcDir pfx) srcDir := by
  intro q hq hc
  rcases hc with hc | hc
  · rw [fs0_outside _ _ _ _ (not_dir_prefix_of_prefix hc)]
    exact (hg q hq hc).2
  · rw [lookup_fs0]
    split
    · exact notSym_dir
    · split
      · exact notSym_none
      · intro t ht
        exact hfs q _ (lookup_mem ht) (List.isPrefixOf_iff_prefix.mpr hc) t rfl

theorem writeThrough_notSym (s : FS) (fuel : Nat) (p : Path) (c : Nat) (h : NotSym (lookup s p))
    (hd : lookup s p ≠ some .dir) :
    writeThrough s (fuel + 1) p c = set s p (.file c) := by
  simp only [writeThrough]
  split
  · rename_i t ht; exact absurd ht (h t)
  · rename_i hdir; exact absurd hdir hd
  · rfl

/-- EISDIR: opening a directory for writing fails and nothing is written -/
theorem writeThrough_dir (s : FS) (fuel : Nat) (p : Path) (c : Nat) (hd : lookup s p = some .dir) :
    writeThrough s (fuel + 1) p c = s := by
  simp only [writeThrough, hd]

theorem dir_prefix_marker (srcDir : Path) (pfx : Nat) :
    srcDir ++ [pfx] <+: markerPath srcDir pfx := dir_prefix srcDir pfx [0]

theorem src_prefix_marker (srcDir : Path) (pfx : Nat) :
    srcDir <+: markerPath srcDir pfx := List.prefix_append _ _

theorem markerPath_ne_nil (srcDir : Path) (pfx : Nat) : markerPath srcDir pfx ≠ [] := by
  simp [markerPath]

section main
variable (fs : FS) (srcDir : Path) (pfx : Nat) (ar : List Entry)
  (hk : ∀ e ∈ ar, ∀ t, e.kind ≠ .symlink t)
  (hfs : ∀ p n, (p, n) ∈ fs → srcDir.isPrefixOf p = true → ∀ t, n ≠ .symlink t)
  (hcanon : canon fs 64 [] srcDir = some srcDir)
include hk hfs hcanon

theorem loop_rel (k : Nat) :
    StepRel srcDir pfx ar (fs0 fs srcDir pfx) (unpackEntries (fs0 fs srcDir pfx) srcDir pfx ar k).1 ∧
    NL (unpackEntries (fs0 fs srcDir pfx) srcDir pfx ar k).1 srcDir := by
  have h0 := fs0_NL fs srcDir pfx hfs (good_of_canon fs srcDir hcanon).1
  have h1 := unpackEntries_spec (fs0 fs srcDir pfx) srcDir pfx ar k h0 hk
  exact ⟨h1, h1.NL h0⟩

theorem loop_outside (k : Nat) (q : Path) (hq : ¬ srcDir ++ [pfx] <+: q) :
    lookup (unpackEntries (fs0 fs srcDir pfx) srcDir pfx ar k).1 q = lookup fs q := by
  rw [(loop_rel fs srcDir pfx ar hk hfs hcanon k).1.outside q hq, fs0_outside _ _ _ _ hq]

/-- no processed entry writes a file at the completion marker (the archive's own marker entry is
skipped): the marker path is absent or, at most, a directory -/
theorem loop_marker (k : Nat) :
    lookup (unpackEntries (fs0 fs srcDir pfx) srcDir pfx ar k).1 (markerPath srcDir pfx) = none ∨
    lookup (unpackEntries (fs0 fs srcDir pfx) srcDir pfx ar k).1 (markerPath srcDir pfx) = some .dir := by
  rcases (loop_rel fs srcDir pfx ar hk hfs hcanon k).1 (markerPath srcDir pfx) with
    e | ⟨_, ⟨e, _⟩ | ⟨e, _, heq, hne, _⟩⟩
  · left
    rw [e, lookup_fs0]
    have h1 : markerPath srcDir pfx ≠ srcDir ++ [pfx] := by
      intro h
      have := congrArg List.length h
      simp [markerPath] at this
    rw [if_neg h1, if_pos (dir_prefix_marker _ _)]
  · right; exact e
  · exfalso
    have := List.append_cancel_left heq
    exact hne this.symm

/-- the marker is written unless a directory sits at the marker path -/
theorem loop_write_marker (k : Nat)
    (hnd : lookup (unpackEntries (fs0 fs srcDir pfx) srcDir pfx ar k).1 (markerPath srcDir pfx) ≠ some .dir) :
    writeThrough (unpackEntries (fs0 fs srcDir pfx) srcDir pfx ar k).1 8 (markerPath srcDir pfx) 1 =
    set (unpackEntries (fs0 fs srcDir pfx) srcDir pfx ar k).1 (markerPath srcDir pfx) (.file 1) :=
  writeThrough_notSym _ 7 _ _
    ((loop_rel fs srcDir pfx ar hk hfs hcanon k).2 _ (markerPath_ne_nil _ _)
      (Or.inr (src_prefix_marker _ _))) hnd

omit hk hfs hcanon in
/-- ... and with a directory there (an entry below `<prefix>/.cargo-ok` made `create_dir_all`
create it) the open fails and the tree stays as it is -/
theorem loop_write_marker_dir (k : Nat)
    (hd : lookup (unpackEntries (fs0 fs srcDir pfx) srcDir pfx ar k).1 (markerPath srcDir pfx) = some .dir) :
    writeThrough (unpackEntries (fs0 fs srcDir pfx) srcDir pfx ar k).1 8 (markerPath srcDir pfx) 1 =
    (unpackEntries (fs0 fs srcDir pfx) srcDir pfx ar k).1 :=
  writeThrough_dir _ 7 _ _ hd

theorem unpackPackage_outside (ca : Option Nat) (q : Path) (hq : ¬ srcDir ++ [pfx] <+: q) :
    lookup (unpackPackage fs srcDir pfx ar ca) q = lookup fs q := by
  rw [unpackPackage_eq]
  split
  · rcases loop_marker fs srcDir pfx ar hk hfs hcanon (ca.getD ar.length) with hm | hm
    · rw [loop_write_marker fs srcDir pfx ar hk hfs hcanon _ (by rw [hm]; simp), lookup_set]
      have : q ≠ markerPath srcDir pfx := by
        intro h; subst h; exact hq (dir_prefix_marker _ _)
      rw [if_neg this]
      exact loop_outside fs srcDir pfx ar hk hfs hcanon _ q hq
    · rw [loop_write_marker_dir fs srcDir pfx ar _ hm]
      exact loop_outside fs srcDir pfx ar hk hfs hcanon _ q hq
  · exact loop_outside fs srcDir pfx ar hk hfs hcanon _ q hq

theorem fetchIsOk_crashed (k : Nat) :
    fetchIsOk (unpackPackage fs srcDir pfx ar (some k)) srcDir pfx = false := by
  have hup : unpackPackage fs srcDir pfx ar (some k) =
      (unpackEntries (fs0 fs srcDir pfx) srcDir pfx ar k).1 := by
    rw [unpackPackage_eq]; simp
  rw [hup]
  unfold fetchIsOk
  split
  · rename_i r hr
    have := canon_of_NL (loop_rel fs srcDir pfx ar hk hfs hcanon k).2 [pfx, 0] r hr
    subst this
    rcases loop_marker fs srcDir pfx ar hk hfs hcanon k with h | h
    · simp only [markerPath] at h; rw [h]; rfl
    · simp only [markerPath] at h; rw [h]; rfl
  · rfl

theorem fetchIsOk_complete (hlen : srcDir.length + 2 < 64)
    (hall : (unpackEntries (fs0 fs srcDir pfx) srcDir pfx ar ar.length).2 = true)
    (hnd : lookup (unpackEntries (fs0 fs srcDir pfx) srcDir pfx ar ar.length).1 (markerPath srcDir pfx) ≠ some .dir) :
    fetchIsOk (unpackPackage fs srcDir pfx ar none) srcDir pfx = true := by
  have hup : unpackPackage fs srcDir pfx ar none =
      set (unpackEntries (fs0 fs srcDir pfx) srcDir pfx ar ar.length).1 (markerPath srcDir pfx) (.file 1) := by
    rw [unpackPackage_eq]
    simp only [Option.getD_none, hall, Option.isNone_none, Bool.and_self, if_true]
    exact loop_write_marker fs srcDir pfx ar hk hfs hcanon _ hnd
  rw [hup]
  have hrel := loop_rel fs srcDir pfx ar hk hfs hcanon ar.length
  have hgood := (good_of_canon fs srcDir hcanon).1
  have hc : canon (set (unpackEntries (fs0 fs srcDir pfx) srcDir pfx ar ar.length).1
      (markerPath srcDir pfx) (.file 1)) 64 [] (markerPath srcDir pfx) = some (markerPath srcDir pfx) := by
    have := canon_present (set (unpackEntries (fs0 fs srcDir pfx) srcDir pfx ar ar.length).1
      (markerPath srcDir pfx) (.file 1)) 64 [] (markerPath srcDir pfx)
      (by simp [markerPath]; omega) (by
        intro pre hpre hpr
        simp only [List.nil_append, lookup_set]
        by_cases hm : pre = markerPath srcDir pfx
        · rw [if_pos hm]; exact ⟨by simp, notSym_file 1⟩
        · rw [if_neg hm]
          have hpr' : pre <+: (srcDir ++ [pfx]) ++ [0] := by simpa [markerPath] using hpr
          rcases List.prefix_concat_iff.mp hpr' with h | h
          · exact absurd (by simpa [markerPath] using h) hm
          · rcases List.prefix_concat_iff.mp h with h | h
            · subst h
              refine ⟨hrel.1.present _ ?_, hrel.2 _ hpre (Or.inr (List.prefix_append _ _))⟩
              rw [lookup_fs0]; simp
            · rw [loop_outside fs srcDir pfx ar hk hfs hcanon _ pre (not_dir_prefix_of_prefix h)]
              exact hgood pre hpre h)
    simpa using this
  unfold fetchIsOk
  rw [hc]
  simp [lookup_set]

/-- the hypothesis `hnd` of `fetchIsOk_complete` is necessary: with a directory at the marker path
the marker is not written and the complete unpack is not considered fetched -/
theorem fetchIsOk_complete_dir
    (hall : (unpackEntries (fs0 fs srcDir pfx) srcDir pfx ar ar.length).2 = true)
    (hd : lookup (unpackEntries (fs0 fs srcDir pfx) srcDir pfx ar ar.length).1 (markerPath srcDir pfx) = some .dir) :
    fetchIsOk (unpackPackage fs srcDir pfx ar none) srcDir pfx = false := by
  have hup : unpackPackage fs srcDir pfx ar none =
      (unpackEntries (fs0 fs srcDir pfx) srcDir pfx ar ar.length).1 := by
    rw [unpackPackage_eq]
    simp only [Option.getD_none, hall, Option.isNone_none, Bool.and_self, if_true]
    exact loop_write_marker_dir fs srcDir pfx ar _ hd
  rw [hup]
  unfold fetchIsOk
  split
  · rename_i r hr
    have := canon_of_NL (loop_rel fs srcDir pfx ar hk hfs hcanon ar.length).2 [pfx, 0] r hr
    subst this
    simp only [markerPath] at hd; rw [hd]; rfl
  · rfl

theorem fs0_crashed_equiv (k : Nat) :
    Equiv (fs0 (unpackPackage fs srcDir pfx ar (some k)) srcDir pfx) (fs0 fs srcDir pfx) := by
  intro q
  rw [lookup_fs0, lookup_fs0]
  split
  · rfl
  · split
    · rfl
    · rename_i _ hq
      exact unpackPackage_outside fs srcDir pfx ar hk hfs hcanon _ q hq

end main

theorem unpackPackage_congr0 {a b : FS} (srcDir : Path) (pfx : Nat) (ar : List Entry) (ca : Option Nat)
    (h : Equiv (fs0 a srcDir pfx) (fs0 b srcDir pfx)) :
    Equiv (unpackPackage a srcDir pfx ar ca) (unpackPackage b srcDir pfx ar ca) := by
  have hc := unpackEntries_congr h srcDir pfx ar (ca.getD ar.length)
  rw [unpackPackage_eq, unpackPackage_eq, hc.2]
  split
  · exact writeThrough_congr hc.1 _ _ _
  · exact hc.1

end Vet.Unpack
