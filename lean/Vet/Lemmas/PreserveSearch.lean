/- Search facts for "updates preserve success": walks do not depend on the (non-regenerating)
search mode, forward walks mirror backward walks, and `search` never panics. -/
import Vet.Lemmas.ResolveBridge
namespace Vet

theorem usable_nonregen {mode : Mode} (hm : mode ≠ .regenerateExemptions) (c : Nat) (e : Edge) :
    usable mode c e = e.crit.testBit c := by
  cases mode <;> simp_all [usable]

/-- the steps of two non-regenerating modes coincide up to the caveat level -/
theorem Step.mode_change {adj : Option Nat → List Edge} {mode mode' : Mode} {c : Nat}
    (hm : mode ≠ .regenerateExemptions) (hm' : mode' ≠ .regenerateExemptions)
    {a b : Option Nat} {o : Origin} {k : Nat} (st : Step adj mode c a o k b) :
    ∃ k', Step adj mode' c a o k' b := by
  cases st with
  | edge he hu =>
    rw [usable_nonregen hm] at hu
    exact ⟨_, Step.edge he (by rw [usable_nonregen hm']; exact hu)⟩
  | fresh h => exact absurd h hm

theorem Walk.mode_change {adj : Option Nat → List Edge} {mode mode' : Mode} {c : Nat}
    (hm : mode ≠ .regenerateExemptions) (hm' : mode' ≠ .regenerateExemptions)
    {a b : Option Nat} {p : List Origin} {l : Nat} (w : Walk adj mode c a p l b) :
    ∃ l', Walk adj mode' c a p l' b := by
  induction w with
  | nil => exact ⟨0, Walk.nil _⟩
  | snoc _ st ih =>
    obtain ⟨l', w'⟩ := ih
    obtain ⟨k', st'⟩ := st.mode_change hm hm'
    exact ⟨_, Walk.snoc w' st'⟩

theorem Walk.cons {adj : Option Nat → List Edge} {mode : Mode} {c : Nat} {a b d : Option Nat}
    {o : Origin} {k : Nat} (st : Step adj mode c a o k b) {p : List Origin} {l : Nat}
    (w : Walk adj mode c b p l d) : ∃ l', Walk adj mode c a (o :: p) l' d := by
  induction w with
  | nil => exact ⟨_, Walk.snoc (Walk.nil a) st⟩
  | snoc _ st' ih =>
    obtain ⟨l', w'⟩ := ih
    exact ⟨_, Walk.snoc w' st'⟩

/-- a forward step is a backward step in the other direction -/
theorem Step.mirror {g : Graph} {mode : Mode} {c : Nat} (hm : mode ≠ .regenerateExemptions)
    {a b : Option Nat} {o : Origin} {k : Nat} (st : Step g.forward mode c a o k b) :
    ∃ k', Step g.backward mode c b o k' a := by
  cases st with
  | @edge _ e he hu =>
    obtain ⟨dst, crit, origin, fresh⟩ := e
    have hb : (⟨a, crit, origin, fresh⟩ : Edge) ∈ g.backward dst := (build_mirror g a dst crit origin fresh).1 he
    rw [usable_nonregen hm] at hu
    exact ⟨_, Step.edge (e := ⟨a, crit, origin, fresh⟩) hb (by rw [usable_nonregen hm]; exact hu)⟩
  | fresh h => exact absurd h hm

theorem Walk.mirror {g : Graph} {mode : Mode} {c : Nat} (hm : mode ≠ .regenerateExemptions)
    {a b : Option Nat} {p : List Origin} {l : Nat} (w : Walk g.forward mode c a p l b) :
    ∃ p' l', Walk g.backward mode c b p' l' a := by
  induction w with
  | nil => exact ⟨[], 0, Walk.nil _⟩
  | snoc _ st ih =>
    obtain ⟨p', l', w'⟩ := ih
    obtain ⟨k', st'⟩ := st.mirror hm
    obtain ⟨l'', w''⟩ := Walk.cons st' w'
    exact ⟨_, _, w''⟩

/-! ### reading `search` in any non-regenerating mode -/

theorem search_ok_walk_mode {g : Graph} {c v : Nat} {mode : Mode} {path : List Origin}
    (h : search g c v mode = .ok path) : ∃ l, Walk g.backward mode c (some v) path l none := by
  unfold search at h
  split at h
  · rename_i p hp
    cases h
    exact search_sound g.backward c (some v) none mode (searchFuel g) path
      (by simpa only [searchForPath, initQueue, if_true] using hp)
  · cases h
  · split at h
    · cases h
    · split at h <;> cases h

/-- with a walk to the root, the search succeeds -/
theorem search_ok_of_walk {g : Graph} {c v : Nat} {mode : Mode} {p : List Origin} {l : Nat}
    (w : Walk g.backward mode c (some v) p l none) : ∃ path, search g c v mode = .ok path := by
  unfold search
  split
  · rename_i path _
    exact ⟨path, rfl⟩
  · rename_i hout
    exact absurd hout (search_fuel_enough g true c (some v) none mode)
  · rename_i vis hnf
    exfalso
    have hc := search_complete g.backward c (some v) none mode (searchFuel g) vis
      (by simpa only [searchForPath, initQueue, if_true] using hnf)
    exact hc.2 ((hc.1 none).2 ⟨_, _, w⟩)

/-- outside regenerate mode `search` never panics -/
theorem search_no_panic (g : Graph) (c v : Nat) {mode : Mode} (hm : mode ≠ .regenerateExemptions)
    (e : Panic) : search g c v mode ≠ .panic e := by
  unfold search
  split
  · intro h; cases h
  · rename_i hout
    exact absurd hout (search_fuel_enough g true c (some v) none mode)
  · rename_i vis hnf
    rw [if_neg hm]
    split
    · intro h; cases h
    · rename_i p hp
      exfalso
      have hc := search_complete g.backward c (some v) none mode (searchFuel g) vis
        (by simpa only [searchForPath, initQueue, if_true] using hnf)
      obtain ⟨l, w⟩ := search_sound g.forward c none (some v) mode (searchFuel g) p
        (by simpa only [searchForPath, initQueue, Bool.false_eq_true, if_false] using hp)
      obtain ⟨p', l', w'⟩ := w.mirror hm
      exact hc.2 ((hc.1 none).2 ⟨_, _, w'⟩)
    · rename_i hout
      exact absurd hout (search_fuel_enough g false c none (some v) mode)

theorem firstPanic_searchAll (m : Mapper) (g : Graph) (ver : Nat) :
    firstPanic ((List.range m.n).map (fun c => search g c ver .preferExemptions)) = none := by
  generalize List.range m.n = l
  induction l with
  | nil => rfl
  | cons c cs ih =>
    simp only [List.map_cons]
    cases h : search g c ver .preferExemptions with
    | ok p => simpa [firstPanic] using ih
    | fail a b => simpa [firstPanic] using ih
    | panic e => exact absurd h (search_no_panic g c ver (by decide) e)

/-- the chosen path of a non-regenerating search, read backwards, is a chain of certifying records -/
theorem search_ok_certPath_mode {s : Store} {m : Mapper} {name : Nat} {g : Graph}
    (hb : build s m name = .ok (.graph g)) {c v : Nat} {mode : Mode} (hm : mode ≠ .regenerateExemptions)
    {path : List Origin} (h : search g c v mode = .ok path) :
    CertPath s m name c none path.reverse (some v) := by
  obtain ⟨l, w⟩ := search_ok_walk_mode h
  obtain ⟨l', w'⟩ := w.mode_change hm (mode' := .preferExemptions) (by decide)
  exact walk_certPath hb w'

/-- with a certifying chain, the search succeeds in every non-regenerating mode -/
theorem search_ok_of_chain {s : Store} {m : Mapper} {name : Nat} {g : Graph}
    (hb : build s m name = .ok (.graph g)) {c v : Nat} {mode : Mode} (hm : mode ≠ .regenerateExemptions)
    (hch : CertChain s m name c v) : ∃ path, search g c v mode = .ok path := by
  obtain ⟨p, cp⟩ := hch
  obtain ⟨l, w⟩ := certPath_walk hb cp
  obtain ⟨l', w'⟩ := w.mode_change (mode' := mode) (by decide) hm
  exact search_ok_of_walk w'

end Vet
