/- Helper lemmas for C05: `directImplies`, `impliedAll`, `Mapper.new` against the spec. -/
import Vet.Lemmas.Closure
import Vet.Lemmas.FromList
namespace Vet

/-! ## `directImplies` -/

/-- bitmask of a list of indices -/
def bitsOf (l : List Nat) : CSet := l.foldl (fun s i => s ||| (1 <<< i)) 0

theorem foldl_bits_testBit (l : List Nat) (s0 j : Nat) :
    (l.foldl (fun s i => s ||| (1 <<< i)) s0).testBit j = true ↔ s0.testBit j = true ∨ j ∈ l := by
  induction l generalizing s0 with
  | nil => simp
  | cons a rest ih =>
    simp only [List.foldl_cons, ih, testBit_set, List.mem_cons]
    constructor
    · rintro ((h | h) | h)
      · exact Or.inl h
      · exact Or.inr (Or.inl h.symm)
      · exact Or.inr (Or.inr h)
    · rintro (h | h | h)
      · exact Or.inl (Or.inl h)
      · exact Or.inl (Or.inr h.symm)
      · exact Or.inr h

theorem bitsOf_testBit (l : List Nat) (j : Nat) : (bitsOf l).testBit j = true ↔ j ∈ l := by
  simp [bitsOf, foldl_bits_testBit]

theorem go_ok {n : Nat} {cs : List CustomCrit} {res : List CSet}
    (h : directImplies.go n cs = .ok res) :
    res = cs.map (fun c => bitsOf c.implies) ∧ ∀ c ∈ cs, ∀ i ∈ c.implies, i < n := by
  induction cs generalizing res with
  | nil =>
    simp only [directImplies.go] at h
    cases h
    simp
  | cons c cs ih =>
    simp only [directImplies.go] at h
    split at h
    · cases h
    · next hany =>
      split at h
      · cases h
      · next rest hrest =>
        cases h
        obtain ⟨h1, h2⟩ := ih hrest
        refine ⟨by simp [h1, bitsOf], ?_⟩
        intro c' hc' i hi
        rcases List.mem_cons.1 hc' with rfl | hc'
        · simp only [List.any_eq_true, decide_eq_true_eq, not_exists, not_and] at hany
          have := hany i hi
          omega
        · exact h2 c' hc' i hi

theorem go_of {n : Nat} {cs : List CustomCrit} (h : ∀ c ∈ cs, ∀ i ∈ c.implies, i < n) :
    directImplies.go n cs = .ok (cs.map (fun c => bitsOf c.implies)) := by
  induction cs with
  | nil => simp [directImplies.go]
  | cons c cs ih =>
    simp only [directImplies.go]
    have hany : ¬ (c.implies.any (fun i => decide (n ≤ i)) = true) := by
      simp only [List.any_eq_true, decide_eq_true_eq, not_exists, not_and]
      intro i hi
      have := h c (List.mem_cons_self ..) i hi
      omega
    rw [if_neg hany, ih (fun c' hc' => h c' (List.mem_cons_of_mem _ hc'))]
    simp [bitsOf]

/-- the list of direct-implication masks of a table -/
def directOf (t : Table) : List CSet := 0 :: (1 <<< 0) :: t.map (fun c => bitsOf c.implies)

theorem directImplies_ok {t : Table} {direct : List CSet} (h : directImplies t = .ok direct) :
    direct = directOf t ∧ ∀ c ∈ t, ∀ i ∈ c.implies, i < t.n := by
  simp only [directImplies] at h
  split at h
  · cases h
  · next cs hcs =>
    cases h
    obtain ⟨h1, h2⟩ := go_ok hcs
    exact ⟨by simp [directOf, h1], h2⟩

theorem directImplies_of {t : Table} (h : ∀ c ∈ t, ∀ i ∈ c.implies, i < t.n) :
    directImplies t = .ok (directOf t) := by
  simp only [directImplies, go_of h, directOf]

theorem directOf_spec (t : Table) (i j : Nat) :
    ((directOf t).getD i 0).testBit j = true ↔ t.direct i j := by
  unfold Table.direct directOf
  match i with
  | 0 => simp
  | 1 =>
    show (1 <<< 0).testBit j = true ↔ _
    rw [testBit_single]
    constructor
    · intro h; exact Or.inl ⟨rfl, h.symm⟩
    · rintro (⟨_, h⟩ | ⟨h, _⟩)
      · exact h.symm
      · omega
  | i + 2 =>
    show ((t.map (fun c => bitsOf c.implies)).getD i 0).testBit j = true ↔ _
    simp only [List.getD_eq_getElem?_getD, List.getElem?_map]
    cases hti : t[i]? with
    | none => simp [hti]
    | some c => simp [hti, bitsOf_testBit]

/-! ## Well-formed tables: `D`/`Reach`/`Plus` against `Table.direct`/`Table.Implies` -/

def Table.WF (t : Table) : Prop := ∀ c ∈ t, ∀ i ∈ c.implies, i < t.n

theorem direct_lt {t : Table} (hwf : t.WF) {i j : Nat} (h : t.direct i j) : j < t.n := by
  rcases h with ⟨_, rfl⟩ | ⟨_, c, hc, hj⟩
  · unfold Table.n; omega
  · exact hwf c (List.mem_of_getElem? hc) j hj

theorem D_iff {t : Table} (hwf : t.WF) (i j : Nat) : D t.n (directOf t) i j ↔ t.direct i j := by
  unfold D
  rw [directOf_spec]
  exact ⟨fun h => h.2, fun h => ⟨direct_lt hwf h, h⟩⟩

theorem Reach_iff {t : Table} (hwf : t.WF) (i j : Nat) :
    Reach t.n (directOf t) i j ↔ t.Implies i j := by
  constructor
  · intro h
    induction h with
    | refl _ => exact .refl _
    | step hd _ ih => exact .step ((D_iff hwf _ _).1 hd) ih
  · intro h
    induction h with
    | refl _ => exact .refl _
    | step hd _ ih => exact .step ((D_iff hwf _ _).2 hd) ih

theorem Plus_iff {t : Table} (hwf : t.WF) (i j : Nat) :
    Plus t.n (directOf t) i j ↔ ∃ k, t.direct i k ∧ t.Implies k j := by
  unfold Plus
  constructor
  · rintro ⟨k, h1, h2⟩; exact ⟨k, (D_iff hwf _ _).1 h1, (Reach_iff hwf _ _).1 h2⟩
  · rintro ⟨k, h1, h2⟩; exact ⟨k, (D_iff hwf _ _).2 h1, (Reach_iff hwf _ _).2 h2⟩

theorem Implies.trans {t : Table} {i j k : Nat} (h₁ : t.Implies i j) (h₂ : t.Implies j k) :
    t.Implies i k := by
  induction h₁ with
  | refl _ => exact h₂
  | step hd _ ih => exact .step hd (ih h₂)

theorem Implies.lt {t : Table} (hwf : t.WF) {i j : Nat} (h : t.Implies i j) (hi : i < t.n) :
    j < t.n := by
  induction h with
  | refl _ => exact hi
  | step hd _ ih => exact ih (direct_lt hwf hd)

theorem Implies.cases_head {t : Table} {i j : Nat} (h : t.Implies i j) :
    i = j ∨ ∃ k, t.direct i k ∧ t.Implies k j := by
  cases h with
  | refl _ => exact Or.inl rfl
  | step hd hr => exact Or.inr ⟨_, hd, hr⟩

/-! ## `impliedAll` -/

theorem impliedAll_ok {n : Nat} {direct : List CSet} :
    ∀ (l : List Nat) (res : List CSet), impliedAll n direct l = .ok res →
      res.length = l.length ∧ ∀ k (hk : k < l.length), ∃ imp,
        recurseImplies n direct (n + 1) 0 l[k] = .ok imp ∧ imp.testBit l[k] = false ∧
        res.getD k 0 = imp ||| (1 <<< l[k]) := by
  intro l
  induction l with
  | nil =>
    intro res h
    simp only [impliedAll] at h
    cases h
    simp
  | cons idx rest ih =>
    intro res h
    simp only [impliedAll] at h
    split at h
    · cases h
    · next imp himp =>
      split at h
      · cases h
      · next hb =>
        split at h
        · cases h
        · next more hmore =>
          cases h
          obtain ⟨h1, h2⟩ := ih more hmore
          refine ⟨by simp [h1], ?_⟩
          intro k hk
          match k with
          | 0 => exact ⟨imp, himp, by simpa using hb, by simp⟩
          | k + 1 =>
            obtain ⟨imp', h3, h4, h5⟩ := h2 k (by simpa using hk)
            exact ⟨imp', by simpa using h3, by simpa using h4, by simpa using h5⟩

theorem impliedAll_of {n : Nat} {direct : List CSet} :
    ∀ (l : List Nat), (∀ idx ∈ l, ¬ Plus n direct idx idx) →
      ∃ res, impliedAll n direct l = .ok res := by
  intro l
  induction l with
  | nil => intro _; exact ⟨[], by simp [impliedAll]⟩
  | cons idx rest ih =>
    intro h
    obtain ⟨imp, himp⟩ := rec_ok (n := n) (direct := direct) (n + 1) 0 idx
      (by have := meas_le n 0; omega)
    obtain ⟨more, hmore⟩ := ih (fun x hx => h x (List.mem_cons_of_mem _ hx))
    have hb : ¬ (imp.testBit idx = true) := by
      intro hb
      exact h idx (List.mem_cons_self ..) ((rec_zero_spec himp idx).1 hb)
    exact ⟨(imp ||| (1 <<< idx)) :: more, by simp only [impliedAll, himp, if_neg hb, hmore]⟩

/-! ## `Mapper.new` -/

theorem new_ok {t : Table} {m : Mapper} (h : Mapper.new t = .ok m) :
    (∀ c ∈ t, c.clash = 0) ∧ t.n ≤ 64 ∧ t.WF ∧ m.n = t.n ∧
      impliedAll t.n (directOf t) (List.range t.n) = .ok m.implied := by
  simp only [Mapper.new] at h
  split at h
  · cases h
  · next hclash =>
    split at h
    · cases h
    · next hn =>
      split at h
      · cases h
      · next direct hdirect =>
        split at h
        · cases h
        · next imp himp =>
          cases h
          obtain ⟨rfl, hwf⟩ := directImplies_ok hdirect
          refine ⟨?_, by omega, hwf, rfl, himp⟩
          intro c hc
          simp only [List.any_eq_true, not_exists, not_and] at hclash
          have := hclash c hc
          simpa using this

theorem new_of {t : Table} (h1 : ∀ c ∈ t, c.clash = 0) (h2 : t.n ≤ 64) (hwf : t.WF)
    (hac : ∀ i, i < t.n → ¬ Plus t.n (directOf t) i i) : ∃ m, Mapper.new t = .ok m := by
  obtain ⟨res, hres⟩ := impliedAll_of (n := t.n) (direct := directOf t) (List.range t.n)
    (fun idx hidx => hac idx (List.mem_range.1 hidx))
  have hclash : ¬ (t.any (fun c => c.clash != 0) = true) := by
    simp only [List.any_eq_true, not_exists, not_and]
    intro c hc
    simp [h1 c hc]
  have hn : ¬ (64 < t.n) := by omega
  exact ⟨{ n := t.n, implied := res },
    by simp only [Mapper.new, if_neg hclash, if_neg hn, directImplies_of hwf, hres]⟩

/-- what `Mapper.new` stores for index `i` -/
theorem new_implied {t : Table} {m : Mapper} (h : Mapper.new t = .ok m) {i : Nat} (hi : i < t.n) :
    ¬ Plus t.n (directOf t) i i ∧
      ∀ j, (m.implied.getD i 0).testBit j = true ↔ (Plus t.n (directOf t) i j ∨ i = j) := by
  obtain ⟨_, _, _, _, himp⟩ := new_ok h
  obtain ⟨_, hk⟩ := impliedAll_ok _ _ himp
  obtain ⟨imp, h3, h4, h5⟩ := hk i (by simpa using hi)
  simp only [List.getElem_range] at h3 h4 h5
  refine ⟨?_, ?_⟩
  · intro hp
    rw [(rec_zero_spec h3 i).2 hp] at h4
    cases h4
  · intro j
    rw [h5, testBit_set, rec_zero_spec h3 j]

theorem new_acyclic {t : Table} {m : Mapper} (h : Mapper.new t = .ok m) {i k : Nat} (hi : i < t.n)
    (hd : t.direct i k) : ¬ t.Implies k i := by
  intro hr
  obtain ⟨_, _, hwf, _, _⟩ := new_ok h
  exact (new_implied h hi).1 ((Plus_iff hwf i i).2 ⟨k, hd, hr⟩)

theorem new_closure {t : Table} {m : Mapper} (h : Mapper.new t = .ok m) {i : Nat} (hi : i < t.n)
    (j : Nat) : (m.implied.getD i 0).testBit j = true ↔ t.Implies i j := by
  obtain ⟨_, _, hwf, _, _⟩ := new_ok h
  rw [(new_implied h hi).2 j, Plus_iff hwf]
  constructor
  · rintro (⟨k, hd, hr⟩ | rfl)
    · exact .step hd hr
    · exact .refl _
  · intro hr
    rcases Implies.cases_head hr with rfl | h'
    · exact Or.inr rfl
    · exact Or.inl h'

/-- antisymmetry of implication in an accepted table -/
theorem new_antisymm {t : Table} {m : Mapper} (h : Mapper.new t = .ok m) {a b : Nat} (ha : a < t.n)
    (hab : t.Implies a b) (hba : t.Implies b a) : a = b := by
  rcases Implies.cases_head hab with rfl | ⟨k, hd, hr⟩
  · rfl
  · exact absurd (Implies.trans hr hba) (new_acyclic h ha hd)

/-! ## `Mapper.minimal` -/

theorem mem_minimal (m : Mapper) (s : CSet) (a : Nat) :
    a ∈ m.minimal s ↔ (a < m.n ∧ s.testBit a = true) ∧
      ∀ o, o < m.n → s.testBit o = true → a = o ∨ (m.implied.getD o 0).testBit a = false := by
  simp only [Mapper.minimal, List.mem_filter, mem_indices, List.all_eq_true, Bool.or_eq_true,
    beq_iff_eq, Bool.not_eq_true', and_imp]

/-- a member of `s` is minimal, or is strictly implied by a member with a larger closure -/
theorem minimal_or_above {t : Table} {m : Mapper} (h : Mapper.new t = .ok m) (s : CSet) {a : Nat}
    (ha : a < m.n) (hsa : s.testBit a = true) :
    a ∈ m.minimal s ∨ ∃ o, o < m.n ∧ s.testBit o = true ∧ t.Implies o a ∧
      meas m.n (m.implied.getD o 0) < meas m.n (m.implied.getD a 0) := by
  obtain ⟨_, _, hwf, hn, _⟩ := new_ok h
  by_cases hmin : a ∈ m.minimal s
  · exact Or.inl hmin
  · right
    rw [mem_minimal] at hmin
    simp only [ha, hsa, and_self, true_and] at hmin
    have ⟨o, ho, hso, hne, hoa⟩ : ∃ o, o < m.n ∧ s.testBit o = true ∧ a ≠ o ∧
        (m.implied.getD o 0).testBit a = true := by
      apply Classical.byContradiction
      intro hcon
      apply hmin
      intro o ho hso
      by_cases hao : a = o
      · exact Or.inl hao
      · right
        cases hb : (m.implied.getD o 0).testBit a with
        | false => rfl
        | true => exact absurd ⟨o, ho, hso, hao, hb⟩ hcon
    have hoa' : t.Implies o a := (new_closure h (hn ▸ ho) a).1 hoa
    refine ⟨o, ho, hso, hoa', ?_⟩
    apply meas_lt (a := o) _ ho
    · cases hb : (m.implied.getD a 0).testBit o with
      | false => rfl
      | true =>
        have := (new_closure h (hn ▸ ha) o).1 hb
        exact absurd (new_antisymm h (hn ▸ ha) this hoa') hne
    · exact (new_closure h (hn ▸ ho) o).2 (.refl _)
    · intro j hj
      exact (new_closure h (hn ▸ ho) j).2
        (Implies.trans hoa' ((new_closure h (hn ▸ ha) j).1 hj))

/-- every member of `s` is implied by a minimal member of `s` -/
theorem exists_minimal {t : Table} {m : Mapper} (h : Mapper.new t = .ok m) (s : CSet) :
    ∀ (k a : Nat), meas m.n (m.implied.getD a 0) ≤ k → a < m.n → s.testBit a = true →
      ∃ b ∈ m.minimal s, t.Implies b a := by
  intro k
  induction k with
  | zero =>
    intro a hk ha hsa
    rcases minimal_or_above h s ha hsa with hmin | ⟨o, _, _, _, hlt⟩
    · exact ⟨a, hmin, .refl _⟩
    · omega
  | succ k ih =>
    intro a hk ha hsa
    rcases minimal_or_above h s ha hsa with hmin | ⟨o, ho, hso, hoa, hlt⟩
    · exact ⟨a, hmin, .refl _⟩
    · obtain ⟨b, hb, hbo⟩ := ih o (by omega) ho hso
      exact ⟨b, hb, Implies.trans hbo hoa⟩

theorem fromList_ok_of (m : Mapper) (l : List Nat) (h : ∀ i ∈ l, i < m.n) :
    ∃ s, m.fromList l = .ok s := by
  induction l with
  | nil => exact ⟨0, rfl⟩
  | cons a rest ih =>
    obtain ⟨s, hs⟩ := ih (fun i hi => h i (List.mem_cons_of_mem _ hi))
    have ha : ¬ (m.n ≤ a) := by have := h a (List.mem_cons_self ..); omega
    exact ⟨m.implied.getD a 0 ||| s, by simp only [Mapper.fromList, if_neg ha, hs]⟩

theorem eq_of_testBit_iff {a b : Nat} (h : ∀ j, a.testBit j = true ↔ b.testBit j = true) : a = b := by
  apply Nat.eq_of_testBit_eq
  intro j
  have := h j
  cases h1 : a.testBit j <;> cases h2 : b.testBit j <;> simp_all

end Vet
