/- The keep predicates of the second check-mode run, record by record: a record is kept by the
second run iff the first run kept it. -/
import Vet.Lemmas.TwiceExempt
namespace Vet

/-- what the second run knows about one crate name -/
structure Name2 (s₂ : Store) (M : Nat → UpdateMode) (lk₁ lk₂ : Nat → Option (Option Required)) (n : Nat) :
    Prop where
  prune : shouldPruneImports s₂ (reqOfLookup lk₂ n) (M n) n = false
  stale : ∀ r₂, reqOfLookup lk₂ n = some r₂ → ∀ e, r₂.has e = true → entryFresh s₂ n e = false
  isSome : (lk₂ n).isSome = (lk₁ n).isSome

section rows
variable {s s₂ : Store} {M : Nat → UpdateMode} {lk₁ lk₂ : Nat → Option (Option Required)} {n : Nat}

theorem keepAudit_twice (N : Name2 s₂ M lk₁ lk₂ n) {ii i : Nat} {a : Audit}
    (hent : entryFresh s₂ n (.audit ii i) = !(keepAudit s M lk₁ ii n i a)) :
    keepAudit s₂ M lk₂ ii n i (sfA a (!keepAudit s M lk₁ ii n i a)) = keepAudit s M lk₁ ii n i a := by
  cases hk : keepAudit s M lk₁ ii n i a with
  | true =>
    unfold keepAudit
    rw [N.prune]
    rfl
  | false =>
    rw [hk] at hent
    have hv : isViolation (sfA a (!false)) = isViolation a := rfl
    have hf : (sfA a (!false)).fresh = true := rfl
    unfold keepAudit
    rw [N.prune, hv, hf]
    simp only [Bool.not_false, Bool.not_true, Bool.and_false, Bool.false_eq_true, if_false]
    cases hviol : isViolation a with
    | true =>
      simp only [if_true]
      rw [N.isSome]
      unfold keepAudit at hk
      rw [hviol] at hk
      simp only [if_true] at hk
      split at hk
      · cases hk
      · exact hk
    | false =>
      simp only [Bool.false_eq_true, if_false]
      cases hr : reqOfLookup lk₂ n with
      | none => rfl
      | some r₂ =>
        simp only
        cases hh : r₂.has (.audit ii i) with
        | false => rfl
        | true =>
          rw [N.stale r₂ hr _ hh] at hent
          cases hent

theorem keepWild_twice (N : Name2 s₂ M lk₁ lk₂ n) {ii i : Nat} {a : Wildcard}
    (hent : entryFresh s₂ n (.wildcard ii i) = !(keepWild s M lk₁ ii n i a)) :
    keepWild s₂ M lk₂ ii n i (sfW a (!keepWild s M lk₁ ii n i a)) = keepWild s M lk₁ ii n i a := by
  cases hk : keepWild s M lk₁ ii n i a with
  | true =>
    unfold keepWild
    rw [N.prune]
    rfl
  | false =>
    rw [hk] at hent
    have hf : (sfW a (!false)).fresh = true := rfl
    unfold keepWild
    rw [N.prune, hf]
    simp only [Bool.not_false, Bool.not_true, Bool.and_false, Bool.false_eq_true, if_false]
    cases hr : reqOfLookup lk₂ n with
    | none => rfl
    | some r₂ =>
      simp only
      cases hh : r₂.has (.wildcard ii i) with
      | false => rfl
      | true =>
        rw [N.stale r₂ hr _ hh] at hent
        cases hent

theorem keepPub_twice (N : Name2 s₂ M lk₁ lk₂ n) {i : Nat} {a : Publisher}
    (hent : entryFresh s₂ n (.publisher i) = !(keepPub s M lk₁ n i a)) :
    keepPub s₂ M lk₂ n i (sfP a (!keepPub s M lk₁ n i a)) = keepPub s M lk₁ n i a := by
  cases hk : keepPub s M lk₁ n i a with
  | true =>
    unfold keepPub
    rw [N.prune]
    rfl
  | false =>
    rw [hk] at hent
    have hf : (sfP a (!false)).fresh = true := rfl
    unfold keepPub
    rw [N.prune, hf]
    simp only [Bool.not_false, Bool.not_true, Bool.and_false, Bool.false_eq_true, if_false]
    cases hr : reqOfLookup lk₂ n with
    | none => rfl
    | some r₂ =>
      simp only
      cases hh : r₂.has (.publisher i) with
      | false => rfl
      | true =>
        rw [N.stale r₂ hr _ hh] at hent
        cases hent

theorem keepUnpub_twice (N : Name2 s₂ M lk₁ lk₂ n) (hpe : (M n).pruneExemptions = false) {i : Nat} {a : Unpub}
    (hent : entryFresh s₂ n (.unpublished i) = !(keepUnpub M lk₁ n i a)) :
    keepUnpub M lk₂ n i (sfU a (!keepUnpub M lk₁ n i a)) = keepUnpub M lk₁ n i a := by
  cases hk : keepUnpub M lk₁ n i a with
  | true =>
    unfold keepUnpub
    rw [hpe]
    rfl
  | false =>
    rw [hk] at hent
    have hf : (sfU a (!false)).fresh = true := rfl
    unfold keepUnpub
    rw [hpe, hf]
    simp only [Bool.not_false, Bool.not_true, Bool.and_false, Bool.false_eq_true, if_false]
    cases hr : reqOfLookup lk₂ n with
    | none => rfl
    | some r₂ =>
      simp only
      cases hh : r₂.has (.unpublished i) with
      | false => rfl
      | true =>
        rw [N.stale r₂ hr _ hh] at hent
        cases hent

theorem keepLocal_noprune (lk : Nat → Option (Option Required)) (hp : (M n).pruneNonImportable = false)
    (i : Nat) (a : Audit) : keepLocal M lk n i a = true := by
  unfold keepLocal
  rcases lk n with _ | _ | r
  · rfl
  · rfl
  · simp only [hp, Bool.false_eq_true, if_false]

end rows

/-- a refreshed table, filtered by the second run's predicate, gives the first run's kept indices -/
theorem keepTable_twice {α : Type} (t : List (Nat × List α)) (sf : α → Bool → α)
    (K₁ K₂ : Nat → Nat → α → Bool)
    (h : ∀ x ∈ t, ∀ i a, x.2[i]? = some a → K₂ x.1 i (sf a (!K₁ x.1 i a)) = K₁ x.1 i a) :
    (t.map (fun x => (x.1, refreshRow sf (K₁ x.1) x.2))).map (fun x => (x.1, keepIdx x.2 (K₂ x.1))) =
      t.map (fun x => (x.1, keepIdx x.2 (K₁ x.1))) := by
  rw [List.map_map]
  apply List.map_congr_left
  intro x hx
  simp only [Function.comp]
  rw [keepIdx_refreshRow]
  congr 1
  exact keepIdx_congr (h x hx)

end Vet
