/- From the first run's chosen paths to walks of low caveat level in the relocked store's graph. -/
import Vet.Lemmas.TwiceEdge
namespace Vet

/-- the local (audits.toml) records of a crate carry no freshness flag -/
def LocalStale (s : Store) (name : Nat) : Prop :=
  (∀ j a, (none, j, a) ∈ allAudits s name → a.fresh = false) ∧
  (∀ j w, (none, j, w) ∈ allWildcards s name → w.fresh = false)

theorem level_local_audit (x : Option Nat) (cs : CSet) (idx : Nat) (a : Audit) (h : a.fresh = false) :
    edgeCaveat .preferExemptions ⟨x, cs, auditOrigin none idx a, freshness a.fresh false⟩ ≤ 3 := by
  rw [h]
  cases hi : a.importable <;> simp [edgeCaveat, auditOrigin, freshness, hi]

section transfer
variable {tb : Table} {m : Mapper} (hm : Mapper.new tb = .ok m)
  {s : Store} {M : Nat → UpdateMode} {lk : Nat → Option (Option Required)}
  {ex : List (Nat × List Exemption)} {name : Nat} {r₁ : Required}
  (hreq : reqOfLookup lk name = some r₁)
  (hex : ExOK m s M lk ex name) (hsound : AllExSound m s lk name)
  {g₁ g₂ : Graph} (hb₁ : build s m name = .ok (.graph g₁))
  (hb₂ : build (relocked s M lk ex) m name = .ok (.graph g₂))

include hm hreq hex hsound hb₁ hb₂ in
/-- an edge of the old graph all of whose entries are required is an edge of the relocked graph,
and there it has caveat level at most 3 -/
theorem edge_transfer {t : Triple} (ht : t ∈ g₁.edges) {c : Nat} (hc : t.crit.testBit c = true)
    (hent : ∀ e ∈ originEntries t.origin, ∃ su, r₁.get? e = some su ∧ su.testBit c = true) :
    ∃ t' ∈ g₂.edges, t'.src = t.src ∧ t'.dst = t.dst ∧ t'.crit.testBit c = true ∧
      (LocalStale s name →
        edgeCaveat .preferExemptions ⟨t'.src, t'.crit, t'.origin, t'.fresh⟩ ≤ 3) := by
  have hhas : ∀ e ∈ originEntries t.origin, r₁.has e = true := fun e he' => by
    obtain ⟨su, hsu, _⟩ := hent e he'
    exact pres_has_of_get? hsu
  rcases (mem_build_edges hb₁ t).1 ht with
    ⟨imp, idx, a, cs, hmem, hcs, hr⟩ | ⟨p, pi, hp, hr⟩ | ⟨u, i, hu, rfl⟩ | ⟨x, i, cs, hx, hcs, rfl⟩
  · -- audits
    have hviol : isViolation a = false := by
      rcases hr with ⟨v, hk, _⟩ | ⟨f, to, hk, _⟩
      · exact isViolation_full hk
      · exact isViolation_delta hk
    have ho : t.origin = auditOrigin imp idx a := by
      rcases hr with ⟨v, _, rfl⟩ | ⟨f, to, _, rfl⟩ <;> rfl
    have hcr : t.crit = cs := by
      rcases hr with ⟨v, _, rfl⟩ | ⟨f, to, _, rfl⟩ <;> rfl
    rw [hcr] at hc
    cases imp with
    | none =>
      refine ⟨t, (mem_build_edges hb₂ t).2 (Or.inl ⟨none, idx, a, cs,
        (relocked_audits_none s M lk ex).2 hmem, hcs, hr⟩), rfl, rfl, hcr ▸ hc, ?_⟩
      intro hls
      have hf := hls.1 idx a hmem
      rcases hr with ⟨v, _, rfl⟩ | ⟨f, to, _, rfl⟩ <;> exact level_local_audit _ _ _ _ hf
    | some ii =>
      have hkeep : keepAudit s M lk ii name idx a = true :=
        keepAudit_of_has hreq hviol (hhas (.audit ii idx) (by rw [ho]; simp [auditOrigin, originEntries]))
      have hmem' : (some ii, idx, sfA a false) ∈ allAudits (relocked s M lk ex) name :=
        (relocked_audits_some s M lk ex).2 ⟨a, hmem, by rw [hkeep]; rfl⟩
      rcases hr with ⟨v, hk, rfl⟩ | ⟨f, to, hk, rfl⟩
      · refine ⟨⟨none, some v, cs, auditOrigin (some ii) idx (sfA a false), freshness (sfA a false).fresh false⟩,
          (mem_build_edges hb₂ _).2 (Or.inl ⟨some ii, idx, sfA a false, cs, hmem', hcs, Or.inl ⟨v, hk, rfl⟩⟩),
          rfl, rfl, hc, ?_⟩
        intro _
        simp [edgeCaveat, auditOrigin, freshness, sfA]
      · refine ⟨⟨some f, some to, cs, auditOrigin (some ii) idx (sfA a false), freshness (sfA a false).fresh false⟩,
          (mem_build_edges hb₂ _).2 (Or.inl ⟨some ii, idx, sfA a false, cs, hmem', hcs, Or.inr ⟨f, to, hk, rfl⟩⟩),
          rfl, rfl, hc, ?_⟩
        intro _
        simp [edgeCaveat, auditOrigin, freshness, sfA]
  · -- publishers
    have hpe : ReqEntry.publisher pi ∈ originEntries t.origin := by
      rcases hr with ⟨imp, idx, w, cs, _, _, _, rfl⟩ | ⟨e', cs, _, _, _, rfl⟩
      · cases imp <;> simp [originEntries]
      · simp [originEntries]
    have hpk : keepPub s M lk name pi p = true := keepPub_of_has hreq (hhas _ hpe)
    have hp' : (sfP p false, pi) ∈ (getL name (relocked s M lk ex).publishers).zipIdx :=
      (relocked_publishers s M lk ex).2 ⟨p, hp, by rw [hpk]; rfl⟩
    rcases hr with ⟨imp, idx, w, cs, hw, hga, hcs, rfl⟩ | ⟨e', cs, he', hga, hcs, rfl⟩
    · cases imp with
      | none =>
        refine ⟨⟨none, some (sfP p false).version, cs, .wildcard none idx pi, freshness w.fresh (sfP p false).fresh⟩,
          (mem_build_edges hb₂ _).2 (Or.inr (Or.inl ⟨sfP p false, pi, hp', Or.inl ⟨none, idx, w, cs,
            (relocked_wildcards_none s M lk ex).2 hw, hga, hcs, rfl⟩⟩)), rfl, rfl, hc, ?_⟩
        intro hls
        have hf := hls.2 idx w hw
        simp [edgeCaveat, freshness, sfP, hf]
      | some ii =>
        have hkeep : keepWild s M lk ii name idx w = true :=
          keepWild_of_has hreq (hhas (.wildcard ii idx) (by simp [originEntries]))
        have hw' : (some ii, idx, sfW w false) ∈ allWildcards (relocked s M lk ex) name :=
          (relocked_wildcards_some s M lk ex).2 ⟨w, hw, by rw [hkeep]; rfl⟩
        refine ⟨⟨none, some (sfP p false).version, cs, .wildcard (some ii) idx pi,
            freshness (sfW w false).fresh (sfP p false).fresh⟩,
          (mem_build_edges hb₂ _).2 (Or.inr (Or.inl ⟨sfP p false, pi, hp', Or.inl ⟨some ii, idx, sfW w false, cs,
            hw', hga, hcs, rfl⟩⟩)), rfl, rfl, hc, ?_⟩
        intro _
        simp [edgeCaveat, freshness, sfP, sfW]
    · refine ⟨⟨none, some (sfP p false).version, cs, .trusted pi, freshness (sfP p false).fresh false⟩,
        (mem_build_edges hb₂ _).2 (Or.inr (Or.inl ⟨sfP p false, pi, hp', Or.inr ⟨e', cs, he', hga, hcs, rfl⟩⟩)),
        rfl, rfl, hc, ?_⟩
      intro _
      simp [edgeCaveat, freshness, sfP]
  · -- unpublished
    have hkeep : keepUnpub M lk name i u = true :=
      keepUnpub_of_has hreq (hhas (.unpublished i) (by simp [originEntries]))
    have hu' : (sfU u false, i) ∈ (getL name (relocked s M lk ex).unpublished).zipIdx :=
      (relocked_unpublished s M lk ex).2 ⟨u, hu, by rw [hkeep]; rfl⟩
    refine ⟨⟨some (sfU u false).auditedAs, some (sfU u false).version, m.all, .unpublished i,
        freshness (sfU u false).fresh false⟩,
      (mem_build_edges hb₂ _).2 (Or.inr (Or.inr (Or.inl ⟨sfU u false, i, hu', rfl⟩))), rfl, rfl, hc, ?_⟩
    intro _
    simp [edgeCaveat, freshness, sfU]
  · -- exemptions
    obtain ⟨su, hsu, hsubit⟩ := hent (.exemption i) (by simp [originEntries])
    obtain ⟨l', hl', hall⟩ := (updateExemptions_members hex).2 (x, i) hx
    obtain ⟨l'', hl'', _, hkeep⟩ := updateExemption_spec hm
      (prune := (M name).pruneExemptions) (req := reqOfLookup lk name) hcs (hsound x i cs hx hcs)
    rw [hl'] at hl''
    cases hl''
    obtain ⟨x', hx', hver, cs', hcs', hbit'⟩ := hkeep r₁ su c hreq hsu hsubit
    have hx'mem : x' ∈ getL name (relocked s M lk ex).exemptions := hall x' hx'
    obtain ⟨j, hj⟩ := exists_zipIdx_of_mem hx'mem
    refine ⟨⟨none, some x'.version, cs', .exemption j, 0⟩,
      (mem_build_edges hb₂ _).2 (Or.inr (Or.inr (Or.inr ⟨x', j, cs', hj, hcs', rfl⟩))), rfl, ?_, hbit', ?_⟩
    · simp only [hver]
    · intro _
      simp [edgeCaveat]

include hm hreq hex hsound hb₁ hb₂ in
/-- a walk of the old graph over required records gives a walk of the relocked graph, of level at
most 3 when the local records are not flagged fresh -/
theorem walk_transfer {c : Nat} {a b : Option Nat} {p : List Origin} {l : Nat}
    (w : Walk g₁.backward .preferExemptions c a p l b)
    (hent : ∀ o ∈ p, ∀ e ∈ originEntries o, ∃ su, r₁.get? e = some su ∧ su.testBit c = true) :
    ∃ p' l', Walk g₂.backward .preferExemptions c a p' l' b ∧ (LocalStale s name → l' ≤ 3) := by
  induction w with
  | nil => exact ⟨[], 0, Walk.nil _, fun _ => by omega⟩
  | snoc _ st ih =>
    obtain ⟨p', l', w', hl'⟩ := ih (fun o ho => hent o (List.mem_append.2 (Or.inl ho)))
    cases st with
    | @edge _ e he hu =>
      obtain ⟨t, ht, hdst, rfl⟩ := mem_backward he
      rw [usable_prefer] at hu
      obtain ⟨t', ht', hsrc', hdst', hc', hlev⟩ := edge_transfer hm hreq hex hsound hb₁ hb₂ ht hu
        (hent t.origin (List.mem_append.2 (Or.inr (List.mem_singleton.2 rfl))))
      have st' : Step g₂.backward .preferExemptions c t'.dst t'.origin
          (edgeCaveat .preferExemptions ⟨t'.src, t'.crit, t'.origin, t'.fresh⟩) t'.src :=
        Step.edge (e := ⟨t'.src, t'.crit, t'.origin, t'.fresh⟩) (backward_of_mem ht')
          (by rw [usable_prefer]; exact hc')
      rw [hdst', hdst, hsrc'] at st'
      refine ⟨_, _, Walk.snoc w' st', ?_⟩
      intro hls
      have h1 := hl' hls
      have h2 := hlev hls
      rw [hsrc'] at h2
      omega
    | fresh h => cases h

end transfer

end Vet
