/- The exemption part of `get_store_updates`: `updateExemption`, `updateExemptions`,
`exemptionTable`, `freshExemptions`/`addFresh`, and `allRequired`. -/
import Vet.Lemmas.UpdateReq
import Vet.Lemmas.UpdateInv
namespace Vet

/-! ### bit facts -/

theorem containsSet_of_sub {o u : CSet} (h : ∀ c, u.testBit c = true → o.testBit c = true) :
    CSet.containsSet o u = true := by
  simp only [CSet.containsSet, beq_iff_eq]
  apply Nat.eq_of_testBit_eq
  intro j
  rw [Nat.testBit_and]
  cases hu : u.testBit j with
  | false => simp
  | true => simp [h j hu]

theorem or_eq_of_sub {o u : CSet} (h : ∀ c, u.testBit c = true → o.testBit c = true) :
    u ||| o = o := by
  apply Nat.eq_of_testBit_eq
  intro j
  rw [Nat.testBit_or]
  cases hu : u.testBit j with
  | false => simp
  | true => simp [h j hu]

/-! ### one exemption -/

/-- the `useful` set of `updateExemption` -/
def usefulOf (prune : Bool) (req : Option Required) (idx : Nat) (original : CSet) : CSet :=
  let useful0 := match req with
    | some r => (r.get? (.exemption idx)).getD 0
    | none => original
  if prune then useful0 else useful0 ||| original

def exBody (m : Mapper) (x : Exemption) (original useful : CSet) : Except Panic (List Exemption) :=
  if useful = 0 then .ok []
  else if !x.suggest && !(CSet.containsSet original useful) then
    .ok [⟨x.version, m.minimal (CSet.clear m.n useful original), true⟩, ⟨x.version, m.minimal original, x.suggest⟩]
  else .ok [⟨x.version, m.minimal useful, x.suggest⟩]

theorem updateExemption_ok {m : Mapper} {prune : Bool} {req : Option Required} {idx : Nat}
    {x : Exemption} {a : List Exemption} (h : updateExemption m prune req idx x = .ok a) :
    ∃ original, m.fromList x.criteria = .ok original ∧
      exBody m x original (usefulOf prune req idx original) = .ok a := by
  unfold updateExemption at h
  split at h
  · cases h
  · rename_i original ho
    exact ⟨original, ho, h⟩

/-- the required bits of exemption `idx` lie inside `original` -/
def ReqSub (req : Option Required) (idx : Nat) (original : CSet) : Prop :=
  ∀ r, req = some r → ∀ bits, r.get? (.exemption idx) = some bits →
    ∀ c, bits.testBit c = true → original.testBit c = true

theorem usefulOf_sub {prune : Bool} {req : Option Required} {idx : Nat} {original : CSet}
    (h : ReqSub req idx original) :
    ∀ c, (usefulOf prune req idx original).testBit c = true → original.testBit c = true := by
  have h0 : ∀ c, (match req with
      | some r => (r.get? (.exemption idx)).getD 0
      | none => original).testBit c = true → original.testBit c = true := by
    intro c hc
    cases req with
    | none => exact hc
    | some r =>
      simp only at hc
      cases hg : r.get? (.exemption idx) with
      | none => rw [hg] at hc; simp at hc
      | some bits => rw [hg] at hc; exact h r rfl bits hg c hc
  intro c hc
  unfold usefulOf at hc
  cases prune with
  | true => exact h0 c (by simpa using hc)
  | false =>
    simp only [Bool.false_eq_true, if_false, Nat.testBit_or, Bool.or_eq_true] at hc
    rcases hc with hc | hc
    · exact h0 c hc
    · exact hc

theorem usefulOf_noprune {req : Option Required} {idx : Nat} {original : CSet}
    (h : ReqSub req idx original) : usefulOf false req idx original = original := by
  have := usefulOf_sub (prune := true) h
  unfold usefulOf at this ⊢
  simp only [if_true] at this
  simp only [Bool.false_eq_true, if_false]
  exact or_eq_of_sub this

theorem exBody_sub {t : Table} {m : Mapper} (hm : Mapper.new t = .ok m) {x : Exemption}
    {original useful : CSet} (ho : m.fromList x.criteria = .ok original)
    (hsub : ∀ c, useful.testBit c = true → original.testBit c = true)
    {a : List Exemption} (h : exBody m x original useful = .ok a) :
    ∀ x' ∈ a, x'.version = x.version ∧ x'.suggest = x.suggest ∧
      ∃ s', m.fromList x'.criteria = .ok s' ∧ ∀ c, s'.testBit c = true → original.testBit c = true := by
  unfold exBody at h
  rw [containsSet_of_sub hsub] at h
  simp only [Bool.not_true, Bool.and_false, Bool.false_eq_true, if_false] at h
  split at h
  · cases h
    intro x' hx'
    cases hx'
  · cases h
    intro x' hx'
    rw [List.mem_singleton] at hx'
    subst hx'
    refine ⟨rfl, rfl, ?_⟩
    obtain ⟨s', hs'⟩ := fromList_ok_of m (m.minimal useful)
      (fun i hi => ((mem_minimal ..).1 hi).1.1)
    refine ⟨s', hs', fun c hc => ?_⟩
    obtain ⟨i, hi, hic⟩ := (C05_fromList_spec t m hm _ s' hs' c).1 hc
    exact C05_fromList_closed t m hm _ original ho i c (hsub i ((mem_minimal ..).1 hi).1.2) hic

theorem exBody_keep {t : Table} {m : Mapper} (hm : Mapper.new t = .ok m) {x : Exemption}
    {original : CSet} (ho : m.fromList x.criteria = .ok original) (hne : original ≠ 0)
    {a : List Exemption} (h : exBody m x original original = .ok a) :
    ∃ x' ∈ a, x'.version = x.version ∧ x'.suggest = x.suggest ∧
      m.fromList x'.criteria = .ok original := by
  unfold exBody at h
  rw [containsSet_of_sub (fun _ hc => hc), if_neg hne] at h
  simp only [Bool.not_true, Bool.and_false, Bool.false_eq_true, if_false] at h
  cases h
  exact ⟨_, List.mem_singleton.2 rfl, rfl, rfl, C05_minimal_denotes t m hm _ original ho⟩

/-! ### the list of exemptions of one crate -/

theorem updateExemptions_mem {m : Mapper} {prune : Bool} {req : Option Required}
    (L : List (Exemption × Nat)) {b : List Exemption} (h : updateExemptions m prune req L = .ok b) :
    (∀ x i, (x, i) ∈ L → ∃ a, updateExemption m prune req i x = .ok a ∧ ∀ x' ∈ a, x' ∈ b) ∧
    (∀ x' ∈ b, ∃ x i a, (x, i) ∈ L ∧ updateExemption m prune req i x = .ok a ∧ x' ∈ a) := by
  induction L generalizing b with
  | nil =>
    simp only [updateExemptions] at h
    cases h
    exact ⟨fun _ _ hm => (nomatch hm), fun _ hm => (nomatch hm)⟩
  | cons p rest ih =>
    obtain ⟨x0, i0⟩ := p
    simp only [updateExemptions] at h
    split at h
    · cases h
    · rename_i a ha
      split at h
      · cases h
      · rename_i b' hb'
        cases h
        obtain ⟨ih1, ih2⟩ := ih hb'
        constructor
        · intro x i hmem
          rcases List.mem_cons.1 hmem with hh | hh
          · cases hh
            exact ⟨a, ha, fun x' hx' => List.mem_append_left _ hx'⟩
          · obtain ⟨a', ha', hsub⟩ := ih1 x i hh
            exact ⟨a', ha', fun x' hx' => List.mem_append_right _ (hsub x' hx')⟩
        · intro x' hx'
          rcases List.mem_append.1 hx' with hh | hh
          · exact ⟨x0, i0, a, List.mem_cons_self, ha, hh⟩
          · obtain ⟨x, i, a', hmem, ha', hxa⟩ := ih2 x' hh
            exact ⟨x, i, a', List.mem_cons_of_mem _ hmem, ha', hxa⟩

/-! ### the table -/

theorem assoc?_cons_ne {β : Type} {k k' : Nat} {v : β} {l : List (Nat × β)} (h : k' ≠ k) :
    assoc? k ((k', v) :: l) = assoc? k l := by
  simp only [assoc?, if_neg h]

theorem exemptionTable_mem {m : Mapper} {modeOf : Nat → UpdateMode} {reqOf : Nat → Option Required}
    (old : List (Nat × List Exemption)) {t : List (Nat × List Exemption)}
    (h : exemptionTable m modeOf reqOf old = .ok t) :
    ∀ n xs', (n, xs') ∈ t → ∃ xs, (n, xs) ∈ old ∧
      updateExemptions m (modeOf n).pruneExemptions (reqOf n) xs.zipIdx = .ok xs' := by
  induction old generalizing t with
  | nil =>
    simp only [exemptionTable] at h
    cases h
    intro n xs' hmem
    cases hmem
  | cons p rest ih =>
    obtain ⟨n0, xs0⟩ := p
    simp only [exemptionTable] at h
    split at h
    · cases h
    · rename_i l hl
      split at h
      · cases h
      · rename_i t' ht'
        cases h
        intro n xs' hmem
        have hrest : (n, xs') ∈ t' → ∃ xs, (n, xs) ∈ (n0, xs0) :: rest ∧
            updateExemptions m (modeOf n).pruneExemptions (reqOf n) xs.zipIdx = .ok xs' := by
          intro hh
          obtain ⟨xs, hxs, hu⟩ := ih ht' n xs' hh
          exact ⟨xs, List.mem_cons_of_mem _ hxs, hu⟩
        split at hmem
        · exact hrest hmem
        · rcases List.mem_cons.1 hmem with hh | hh
          · cases hh
            exact ⟨xs0, List.mem_cons_self, hl⟩
          · exact hrest hh

theorem exemptionTable_getL {m : Mapper} {modeOf : Nat → UpdateMode} {reqOf : Nat → Option Required}
    (old : List (Nat × List Exemption)) {t : List (Nat × List Exemption)}
    (h : exemptionTable m modeOf reqOf old = .ok t) (n : Nat) :
    ∃ l, updateExemptions m (modeOf n).pruneExemptions (reqOf n) (getL n old).zipIdx = .ok l ∧
      (l ≠ [] → getL n t = l) := by
  induction old generalizing t with
  | nil =>
    simp only [exemptionTable] at h
    cases h
    exact ⟨[], rfl, fun hne => absurd rfl hne⟩
  | cons p rest ih =>
    obtain ⟨n0, xs0⟩ := p
    simp only [exemptionTable] at h
    split at h
    · cases h
    · rename_i l hl
      split at h
      · cases h
      · rename_i t' ht'
        cases h
        by_cases hn : n0 = n
        · subst hn
          refine ⟨l, by simpa only [getL, assoc?, if_true, Option.getD_some] using hl, fun hne => ?_⟩
          have : l.isEmpty = false := by
            cases l with
            | nil => exact absurd rfl hne
            | cons _ _ => rfl
          simp only [this, Bool.false_eq_true, if_false, getL, assoc?, if_true, Option.getD_some]
        · obtain ⟨l', hl', hget⟩ := ih ht'
          refine ⟨l', by simpa only [getL, assoc?_cons_ne hn] using hl', fun hne => ?_⟩
          rw [← hget hne]
          split
          · rfl
          · simp only [getL, assoc?_cons_ne hn]

/-! ### fresh exemptions -/

/-- no `FreshExemption` key -/
def NoFresh (r : Required) : Prop := ∀ e b, (e, b) ∈ r → ∀ v, e ≠ .freshExemption v

theorem freshExemptions_nil {m : Mapper} {r : Required} (h : NoFresh r) : freshExemptions m r = [] := by
  unfold freshExemptions
  rw [List.filterMap_eq_nil_iff]
  rintro ⟨e, b⟩ hmem
  cases e with
  | freshExemption v => exact absurd rfl (h _ _ hmem v)
  | _ => rfl

theorem addFresh_nil (t : List (Nat × List Exemption)) (n : Nat) : addFresh t n [] = t := by
  unfold addFresh
  simp only [List.isEmpty_nil, if_true]

theorem freshFold_id {m : Mapper} (required : List (Nat × Option Required))
    (ex0 : List (Nat × List Exemption))
    (h : ∀ n r, (n, some r) ∈ required → NoFresh r) : freshFold m required ex0 = ex0 := by
  unfold freshFold
  induction required generalizing ex0 with
  | nil => rfl
  | cons p rest ih =>
    obtain ⟨n, r⟩ := p
    simp only [List.foldl_cons]
    have hrest := fun e => ih e (fun n' r' hmem => h n' r' (List.mem_cons_of_mem _ hmem))
    cases r with
    | none => exact hrest ex0
    | some r =>
      simp only
      rw [freshExemptions_nil (h n r List.mem_cons_self), addFresh_nil]
      exact hrest ex0

/-! ### `allRequired` -/

theorem allRequired_mem {dg : DepGraph} {m : Mapper} {reqs : List CSet} {s : Store}
    {modeOf : Nat → UpdateMode} (ns : List Nat) {acc required : List (Nat × Option Required)}
    (hacc : ∀ n r, (n, r) ∈ acc → requiredEntries dg m reqs s n (modeOf n).search = .ok r)
    (h : allRequired dg m reqs s modeOf ns acc = .ok required) :
    ∀ n r, (n, r) ∈ required → requiredEntries dg m reqs s n (modeOf n).search = .ok r := by
  induction ns generalizing acc with
  | nil =>
    simp only [allRequired] at h
    cases h
    exact hacc
  | cons n0 rest ih =>
    simp only [allRequired] at h
    split at h
    · exact ih hacc h
    · split at h
      · cases h
      · rename_i r0 hr0
        apply ih _ h
        intro n r hmem
        rcases List.mem_append.1 hmem with hh | hh
        · exact hacc n r hh
        · rw [List.mem_singleton] at hh
          cases hh
          exact hr0

/-! ### soundness of the required map w.r.t. the exemptions of the crate -/

theorem requiredEntries_noFresh {dg : DepGraph} {m : Mapper} {reqs : List CSet} {s : Store} {n : Nat}
    {mode : Mode} (hmode : mode ≠ .regenerateExemptions) {r : Required}
    (h : requiredEntries dg m reqs s n mode = .ok (some r)) : NoFresh r := by
  rcases requiredEntries_inv h with rfl | ⟨g, hb, hinv⟩
  · intro e b hmem
    cases hmem
  · intro e b hmem v he
    subst he
    obtain ⟨⟨c, hc⟩, hall⟩ := hinv _ b hmem
    obtain ⟨o, a, d, ho, hce⟩ := Prov.certEdge hb hmode (hall c hc)
    cases originEntries_fresh ho
    exact certEdge_no_fresh hce

theorem requiredEntries_exemption {dg : DepGraph} {m : Mapper} {reqs : List CSet} {s : Store} {n : Nat}
    {mode : Mode} (hmode : mode ≠ .regenerateExemptions) {r : Required}
    (h : requiredEntries dg m reqs s n mode = .ok (some r)) {idx : Nat} {bits : CSet}
    (hg : r.get? (.exemption idx) = some bits) {c : Nat} (hc : bits.testBit c = true) :
    ∃ x cs, (x, idx) ∈ (getL n s.exemptions).zipIdx ∧ m.fromList x.criteria = .ok cs ∧
      cs.testBit c = true := by
  rcases requiredEntries_inv h with rfl | ⟨g, hb, hinv⟩
  · cases hg
  · obtain ⟨_, hall⟩ := hinv _ bits (get?_mem hg)
    obtain ⟨o, a, d, ho, hce⟩ := Prov.certEdge hb hmode (hall c hc)
    cases originEntries_exemption ho
    exact certEdge_exemption hce

theorem reqOfL_cases {dg : DepGraph} {m : Mapper} {reqs : List CSet} {s : Store}
    {modeOf : Nat → UpdateMode} {ns : List Nat} {required : List (Nat × Option Required)}
    (h : allRequired dg m reqs s modeOf ns [] = .ok required) (n : Nat) (r : Required)
    (hr : reqOfL required n = some r) :
    r = [] ∨ requiredEntries dg m reqs s n (modeOf n).search = .ok (some r) := by
  unfold reqOfL at hr
  cases ha : assoc? n required with
  | none =>
    rw [ha] at hr
    simp only [Option.getD_none, Option.some.injEq] at hr
    exact Or.inl hr.symm
  | some v =>
    rw [ha] at hr
    simp only [Option.getD_some] at hr
    subst hr
    exact Or.inr (allRequired_mem ns (by intro _ _ hm; cases hm) h n _ (assoc?_mem ha))

/-- the bits required of exemption `idx` of crate `n` lie inside that exemption's criteria -/
theorem reqSub_of_allRequired {dg : DepGraph} {m : Mapper} {reqs : List CSet} {s : Store}
    {modeOf : Nat → UpdateMode} {ns : List Nat} {required : List (Nat × Option Required)}
    (h : allRequired dg m reqs s modeOf ns [] = .ok required) (n : Nat)
    (hmode : (modeOf n).search ≠ .regenerateExemptions) {x : Exemption} {idx : Nat}
    (hx : (x, idx) ∈ (getL n s.exemptions).zipIdx) {original : CSet}
    (ho : m.fromList x.criteria = .ok original) : ReqSub (reqOfL required n) idx original := by
  intro r hr bits hg c hc
  rcases reqOfL_cases h n r hr with rfl | hre
  · cases hg
  · obtain ⟨x2, cs, hx2, hcs, hbit⟩ := requiredEntries_exemption hmode hre hg hc
    have e1 := List.mem_zipIdx_iff_getElem?.1 hx
    have e2 := List.mem_zipIdx_iff_getElem?.1 hx2
    simp only at e1 e2
    rw [e1] at e2
    cases e2
    rw [ho] at hcs
    cases hcs
    exact hbit

end Vet
